#!/bin/sh
# Build the harness binaries offline against /repo (hooks on) and syntax-check the TLA+ tree.
# A single broken binary / module must not take the other checks down: problems are reported as warnings
# here and surface as TOOL-ERROR (exit 2) of the one check that needs the broken piece.
cd "$(dirname "$0")"
export CARGO_NET_OFFLINE=true
cd harness/vh
cargo build --release --offline --lib || exit 1
if ! cargo build --release --offline --bins; then
  echo "WARNING: building all harness binaries together failed; building them one by one"
  for f in src/bin/*.rs; do
    b=$(basename "$f" .rs)
    cargo build --release --offline --bin "$b" || echo "WARNING: harness binary $b does not build"
  done
fi
cd ../..
(cd harness/vh-http && cargo build --release --offline) || echo "WARNING: vh-http (C35) does not build"
python3 tools/sany_all.py || echo "WARNING: some TLA+ modules do not parse (see above)"
exit 0
