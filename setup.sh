#!/bin/sh
# Build the harness binaries offline against /repo (hooks on) and syntax-check the TLA+ tree.
set -e
cd "$(dirname "$0")"
export CARGO_NET_OFFLINE=true
(cd harness/vh && cargo build --release --offline --bins)
python3 tools/sany_all.py
