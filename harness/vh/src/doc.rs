//! Abstract document (JSON tree, see DESIGN.md appendix A) -> GraphQL text.  The printer is part of the
//! trusted base; it records the position (line 1, column in scalar values) of every field it emits by
//! writing "line"/"col" into the field node, so expected error locations do not depend on the parser.
use serde_json::{Value as J, json};

pub fn value(v: &J, out: &mut String) {
    match v["k"].as_str().unwrap_or("null") {
        "null" => out.push_str("null"),
        "bool" => out.push_str(if v["v"].as_bool().unwrap_or(false) { "true" } else { "false" }),
        "int" | "float" => out.push_str(v["v"].as_str().unwrap_or("0")),
        "enum" => out.push_str(v["v"].as_str().unwrap_or("X")),
        "var" => { out.push('$'); out.push_str(v["name"].as_str().unwrap_or("v")); }
        "str" => {
            out.push('"');
            for c in v["v"].as_str().unwrap_or("").chars() {
                match c {
                    '"' => out.push_str("\\\""), '\\' => out.push_str("\\\\"), '\n' => out.push_str("\\n"), '\r' => out.push_str("\\r"), '\t' => out.push_str("\\t"),
                    c if (c as u32) < 0x20 => out.push_str(&format!("\\u{:04x}", c as u32)),
                    c => out.push(c),
                }
            }
            out.push('"');
        }
        "list" => {
            out.push('[');
            for (i, x) in v["items"].as_array().map(|a| a.as_slice()).unwrap_or(&[]).iter().enumerate() { if i > 0 { out.push_str(", "); } value(x, out); }
            out.push(']');
        }
        "obj" => {
            out.push('{');
            for (i, e) in v["entries"].as_array().map(|a| a.as_slice()).unwrap_or(&[]).iter().enumerate() {
                if i > 0 { out.push_str(", "); }
                out.push_str(e["key"].as_str().unwrap_or("k")); out.push_str(": "); value(&e["val"], out);
            }
            out.push('}');
        }
        other => panic!("harness: unknown value kind {other}"),
    }
}

fn dirs(d: &J, out: &mut String) {
    for x in d.as_array().map(|a| a.as_slice()).unwrap_or(&[]) {
        out.push_str(" @"); out.push_str(x["name"].as_str().unwrap_or("skip"));
        if !x["val"].is_null() { out.push_str("(if: "); value(&x["val"], out); out.push(')'); }
        if let Some(args) = x["args"].as_array() {
            if !args.is_empty() { out.push('('); for (i, a) in args.iter().enumerate() { if i > 0 { out.push_str(", "); } out.push_str(a["name"].as_str().unwrap()); out.push_str(": "); value(&a["val"], out); } out.push(')'); }
        }
    }
}

pub fn ty(t: &J, out: &mut String) {
    match t["k"].as_str().unwrap_or("named") {
        "named" => out.push_str(t["n"].as_str().unwrap_or("Int")),
        "list" => { out.push('['); ty(&t["of"], out); out.push(']'); }
        "nn" => { ty(&t["of"], out); out.push('!'); }
        other => panic!("harness: unknown type kind {other}"),
    }
}

fn sels(s: &mut J, out: &mut String) {
    out.push('{');
    if let Some(items) = s.as_array_mut() {
        for item in items.iter_mut() {
            out.push(' ');
            match item["k"].as_str().unwrap_or("field").to_string().as_str() {
                "field" => {
                    let col = out.chars().count() + 1;
                    item["line"] = json!(1);
                    item["col"] = json!(col);
                    let alias = item["alias"].as_str().unwrap_or("").to_string();
                    if !alias.is_empty() { out.push_str(&alias); out.push_str(": "); }
                    out.push_str(item["name"].as_str().unwrap_or("x"));
                    if let Some(args) = item["args"].as_array() {
                        if !args.is_empty() {
                            out.push('(');
                            for (i, a) in args.iter().enumerate() { if i > 0 { out.push_str(", "); } out.push_str(a["name"].as_str().unwrap()); out.push_str(": "); value(&a["val"], out); }
                            out.push(')');
                        }
                    }
                    dirs(&item["dirs"].clone(), out);
                    if item["sels"].as_array().map(|a| !a.is_empty()).unwrap_or(false) { out.push(' '); sels(&mut item["sels"], out); }
                }
                "inline" => {
                    out.push_str("...");
                    let on = item["on"].as_str().unwrap_or("").to_string();
                    if !on.is_empty() { out.push_str(" on "); out.push_str(&on); }
                    dirs(&item["dirs"].clone(), out);
                    out.push(' ');
                    sels(&mut item["sels"], out);
                }
                "spread" => { out.push_str("..."); out.push_str(item["name"].as_str().unwrap_or("F")); dirs(&item["dirs"].clone(), out); }
                other => panic!("harness: unknown selection kind {other}"),
            }
        }
    }
    out.push_str(" }");
}

/// Prints the document; annotates field nodes with line/col.  Returns the text.
pub fn print(doc: &mut J) -> String {
    let mut out = String::new();
    if let Some(ops) = doc["ops"].as_array_mut() {
        for op in ops.iter_mut() {
            if !out.is_empty() { out.push(' '); }
            let name = op["name"].as_str().unwrap_or("").to_string();
            let t = op["ty"].as_str().unwrap_or("query").to_string();
            let vars = op["vars"].as_array().cloned().unwrap_or_default();
            if !(name.is_empty() && t == "query" && vars.is_empty() && op["dirs"].as_array().map(|d| d.is_empty()).unwrap_or(true)) {
                out.push_str(&t);
                if !name.is_empty() { out.push(' '); out.push_str(&name); }
                if !vars.is_empty() {
                    out.push('(');
                    for (i, v) in vars.iter().enumerate() {
                        if i > 0 { out.push_str(", "); }
                        out.push('$'); out.push_str(v["name"].as_str().unwrap()); out.push_str(": ");
                        ty(&v["ty"], &mut out);
                        if v["hasDefault"].as_bool().unwrap_or(false) { out.push_str(" = "); value(&v["default"], &mut out); }
                    }
                    out.push(')');
                }
                dirs(&op["dirs"].clone(), &mut out);
                out.push(' ');
            }
            sels(&mut op["sels"], &mut out);
        }
    }
    if let Some(frags) = doc["frags"].as_array_mut() {
        for f in frags.iter_mut() {
            out.push_str(" fragment "); out.push_str(f["name"].as_str().unwrap()); out.push_str(" on "); out.push_str(f["on"].as_str().unwrap());
            dirs(&f["dirs"].clone(), &mut out);
            out.push(' ');
            sels(&mut f["sels"], &mut out);
        }
    }
    out
}
