//! Deterministic single-threaded execution: poll the top-level future by hand, open gates on command.
use crate::world::Req;
use serde_json::{Value as J, json};
use std::future::Future;
use std::pin::Pin;
use std::sync::Arc;
use std::task::{Context, Poll};

/// Poll `fut` to completion.  Whenever it is Pending, open the next gate of `schedule`; when the
/// schedule is exhausted open the lowest-numbered gate somebody waits for.  Every gate opening is
/// logged as an `open` event so that traces show the schedule actually applied.
pub fn run_gated<T>(mut fut: Pin<Box<dyn Future<Output = T> + '_>>, req: &Arc<Req>, schedule: &[u64]) -> Result<T, String> {
    let waker = futures_task::noop_waker();
    let mut cx = Context::from_waker(&waker);
    let mut next = 0usize;
    let mut spins = 0usize;
    loop {
        if let Poll::Ready(v) = fut.as_mut().poll(&mut cx) { return Ok(v); }
        spins += 1;
        if spins > 100_000 { return Err("hang: no progress after 100000 polls".into()); }
        if next < schedule.len() {
            let g = schedule[next];
            next += 1;
            let waited = req.open(g);
            req.event(json!({"ev": "open", "gate": g, "waited": waited}));
            continue;
        }
        // schedule exhausted: open whatever is still being waited for
        let pending: Option<u64> = { req.openers.lock().unwrap().keys().min().copied() };
        match pending {
            Some(g) => { req.open(g); req.event(json!({"ev": "open", "gate": g, "waited": true, "extra": true})); }
            None => return Err("deadlock: future pending but no gate is being waited for".into()),
        }
    }
}

/// Run a closure, turning a panic into data.
pub fn catch<T>(f: impl FnOnce() -> T) -> Result<T, String> {
    let prev = std::panic::take_hook();
    std::panic::set_hook(Box::new(|_| {}));
    let r = std::panic::catch_unwind(std::panic::AssertUnwindSafe(f));
    std::panic::set_hook(prev);
    r.map_err(|e| {
        if let Some(s) = e.downcast_ref::<&str>() { s.to_string() } else if let Some(s) = e.downcast_ref::<String>() { s.clone() } else { "panic".into() }
    })
}

pub fn vars_from_json(v: &J) -> async_graphql::Variables { async_graphql::Variables::from_json(v.clone()) }
