//! Response -> ordered abstract JSON (TLA+ records are unordered, so objects become entry lists).
use async_graphql::{PathSegment, Response, ServerError, Value};
use serde_json::{Value as J, json};

pub fn fmt_f64(x: f64) -> String {
    if x.is_nan() { "nan".into() } else if x.is_infinite() { if x > 0.0 { "inf".into() } else { "ninf".into() } } else { format!("{:?}", x) }
}

pub fn ordered(v: &Value) -> J {
    match v {
        Value::Null => json!({"k": "null"}),
        Value::Number(n) => {
            if let Some(i) = n.as_i64() { json!({"k": "int", "v": i.to_string()}) }
            else if let Some(u) = n.as_u64() { json!({"k": "int", "v": u.to_string()}) }
            else { json!({"k": "float", "v": fmt_f64(n.as_f64().unwrap_or(f64::NAN))}) }
        }
        Value::String(s) => json!({"k": "str", "v": s}),
        Value::Boolean(b) => json!({"k": "bool", "v": b}),
        Value::Binary(_) => json!({"k": "binary"}),
        Value::Enum(e) => json!({"k": "enum", "v": e.as_str()}),
        Value::List(l) => json!({"k": "list", "items": l.iter().map(ordered).collect::<Vec<_>>()}),
        Value::Object(o) => json!({"k": "obj", "entries": o.iter().map(|(k, v)| json!({"key": k.as_str(), "val": ordered(v)})).collect::<Vec<_>>()}),
    }
}

pub fn error(e: &ServerError) -> J {
    json!({
        "path": e.path.iter().map(|s| match s { PathSegment::Field(f) => json!(f), PathSegment::Index(i) => json!(format!("#{i}")) }).collect::<Vec<_>>(),
        "locs": e.locations.iter().map(|p| json!([p.line, p.column])).collect::<Vec<_>>(),
        "message": e.message,
    })
}

pub fn response(r: &Response) -> J {
    json!({
        "data": ordered(&r.data),
        "errors": r.errors.iter().map(error).collect::<Vec<_>>(),
        "cache": {"public": r.cache_control.public, "maxAge": r.cache_control.max_age},
        "extensions": r.extensions.iter().map(|(k, v)| json!({"key": k, "val": ordered(v)})).collect::<Vec<_>>(),
    })
}
