//! Start-up cross-check: the JSON mirror of the static family (schemas/exec.json) must describe exactly the
//! compiled schema (via introspection), so that the TLA+ constant and the Rust schema cannot silently diverge.
use serde_json::{Value as J, json};

const Q: &str = "{ __schema { queryType { name } mutationType { name } types { kind name fields { name type { ...R } } interfaces { name } possibleTypes { name } enumValues { name } } } } fragment R on __Type { kind name ofType { kind name ofType { kind name ofType { kind name ofType { kind name } } } } }";

fn tyref(t: &J) -> J {
    match t["kind"].as_str().unwrap_or("") {
        "NON_NULL" => json!({"k": "nn", "of": tyref(&t["ofType"])}),
        "LIST" => json!({"k": "list", "of": tyref(&t["ofType"])}),
        _ => json!({"k": "named", "n": t["name"].as_str().unwrap_or("?")}),
    }
}
fn names(a: &J) -> Vec<String> { let mut v: Vec<String> = a.as_array().map(|x| x.iter().map(|e| e["name"].as_str().unwrap_or("?").to_string()).collect()).unwrap_or_default(); v.sort(); v }

/// Returns a list of differences (empty = mirror is faithful).
pub fn check(schema: &crate::fam::ExecSchema, mirror: &J) -> Vec<String> {
    let resp = futures_executor::block_on(schema.execute(Q));
    let data = resp.data.into_json().unwrap_or(J::Null);
    let mut diffs = Vec::new();
    let s = &data["__schema"];
    if s["queryType"]["name"] != mirror["query"] { diffs.push("query root differs".into()); }
    if s["mutationType"]["name"].as_str().unwrap_or("") != mirror["mutation"].as_str().unwrap_or("") { diffs.push("mutation root differs".into()); }
    let mut seen = std::collections::BTreeSet::new();
    for t in s["types"].as_array().cloned().unwrap_or_default() {
        let n = t["name"].as_str().unwrap_or("").to_string();
        if n.starts_with("__") || ["Int", "Float", "String", "Boolean", "ID"].contains(&n.as_str()) { continue; }
        // input types only occur as argument types, which the mirror (output side of the type system) does not list
        if t["kind"] == "INPUT_OBJECT" { continue; }
        seen.insert(n.clone());
        let m = &mirror["types"][&n];
        if m.is_null() { diffs.push(format!("type {n} missing in mirror")); continue; }
        if m["kind"] != t["kind"] { diffs.push(format!("kind of {n}")); }
        let mut mf: Vec<String> = m["fields"].as_object().map(|o| o.keys().cloned().collect()).unwrap_or_default(); mf.sort();
        if mf != names(&t["fields"]) { diffs.push(format!("fields of {n}: mirror {:?} vs schema {:?}", mf, names(&t["fields"]))); }
        for f in t["fields"].as_array().cloned().unwrap_or_default() {
            let fname = f["name"].as_str().unwrap_or("");
            if !m["fields"][fname].is_null() && m["fields"][fname]["ty"] != tyref(&f["type"]) { diffs.push(format!("type of {n}.{fname}")); }
        }
        let mut mi: Vec<String> = m["implements"].as_array().map(|a| a.iter().map(|x| x.as_str().unwrap_or("").to_string()).collect()).unwrap_or_default(); mi.sort();
        if t["kind"] == "OBJECT" && mi != names(&t["interfaces"]) { diffs.push(format!("implements of {n}")); }
        let mut mm: Vec<String> = m["members"].as_array().map(|a| a.iter().map(|x| x.as_str().unwrap_or("").to_string()).collect()).unwrap_or_default(); mm.sort();
        if t["kind"] == "UNION" && mm != names(&t["possibleTypes"]) { diffs.push(format!("members of {n}")); }
        let mut mv: Vec<String> = m["values"].as_array().map(|a| a.iter().map(|x| x.as_str().unwrap_or("").to_string()).collect()).unwrap_or_default(); mv.sort();
        if t["kind"] == "ENUM" && mv != names(&t["enumValues"]) { diffs.push(format!("values of {n}")); }
    }
    for n in mirror["types"].as_object().map(|o| o.keys().cloned().collect::<Vec<_>>()).unwrap_or_default() {
        if !seen.contains(&n) { diffs.push(format!("type {n} of the mirror is not in the schema")); }
    }
    diffs
}
