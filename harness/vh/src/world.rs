//! Per-request data for the data-driven resolvers: the world (object id -> field -> outcome), an
//! event log with monotone sequence numbers, and gates (oneshot receivers) that resolvers await.
use futures_util::future::{FutureExt, Shared};
use serde_json::{Value as J, json};
use std::collections::HashMap;
use std::sync::{Arc, Mutex};

pub type Gate = Shared<futures_channel::oneshot::Receiver<()>>;

pub struct Req {
    pub world: J,
    pub log: Mutex<Vec<J>>,
    pub gates: Mutex<HashMap<u64, Gate>>,
    pub openers: Mutex<HashMap<u64, futures_channel::oneshot::Sender<()>>>,
    pub counter: Mutex<HashMap<String, u64>>,
}

impl Req {
    pub fn new(world: J) -> Arc<Req> {
        Arc::new(Req { world, log: Mutex::new(Vec::new()), gates: Mutex::new(HashMap::new()), openers: Mutex::new(HashMap::new()), counter: Mutex::new(HashMap::new()) })
    }
    /// outcome of resolving `field` on object `id`
    pub fn lookup(&self, id: &str, field: &str) -> J {
        self.world.get(id).and_then(|o| o.get("vals")).and_then(|v| v.get(field)).cloned().unwrap_or(json!({"k": "null"}))
    }
    pub fn type_of(&self, id: &str) -> String {
        self.world.get(id).and_then(|o| o.get("type")).and_then(|t| t.as_str()).unwrap_or("").to_string()
    }
    pub fn event(&self, mut e: J) {
        let mut log = self.log.lock().unwrap();
        e["seq"] = json!(log.len() + 1);
        log.push(e);
    }
    pub fn gate(&self, g: u64) -> Gate {
        let mut gates = self.gates.lock().unwrap();
        if let Some(x) = gates.get(&g) { return x.clone(); }
        let (tx, rx) = futures_channel::oneshot::channel();
        self.openers.lock().unwrap().insert(g, tx);
        let s = rx.shared();
        gates.insert(g, s.clone());
        s
    }
    /// open gate g (idempotent); returns false if nobody has asked for it yet (it is then pre-opened)
    pub fn open(&self, g: u64) -> bool {
        let existed = self.gates.lock().unwrap().contains_key(&g);
        if !existed { let _ = self.gate(g); }
        if let Some(tx) = self.openers.lock().unwrap().remove(&g) { let _ = tx.send(()); }
        existed
    }
    pub fn bump(&self, key: &str) -> u64 {
        let mut c = self.counter.lock().unwrap();
        let v = c.entry(key.to_string()).or_insert(0);
        *v += 1;
        *v
    }
    pub fn take_log(&self) -> Vec<J> { self.log.lock().unwrap().clone() }
}
