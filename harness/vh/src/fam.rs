//! The static (derive-built) schema family "exec" with data-driven resolvers.  Its mirror for TLC is
//! /verif/schemas/exec.json; `vh::mirror` compares the two through introspection at start-up.
//!
//! Every resolver: log `start`, look up World[(self.id, field)], await the gate if the outcome names
//! one, log `finish`, convert the outcome to the Rust return type.
use crate::world::Req;
use async_graphql::*;
use serde_json::{Value as J, json};
use std::sync::Arc;

#[derive(Enum, Copy, Clone, Eq, PartialEq)]
pub enum Color { Red, Green }

#[derive(Clone)]
pub struct A(pub String);
#[derive(Clone)]
pub struct B(pub String);

#[derive(Interface, Clone)]
#[graphql(field(name = "id", ty = "ID"), field(name = "label", ty = "Option<Result<String>>"), field(name = "peer", ty = "Option<Result<Node>>"))]
pub enum Node { Entity(Entity) }

/// interface inheritance: Entity implements Node, A and B implement both
#[derive(Interface, Clone)]
#[graphql(field(name = "id", ty = "ID"), field(name = "label", ty = "Option<Result<String>>"), field(name = "peer", ty = "Option<Result<Node>>"))]
pub enum Entity { A(A), B(B) }

#[derive(Union, Clone)]
pub enum U { A(A), B(B) }

/// input object argument of `A.arg` (C22: views report input-object literals with their variables resolved)
#[derive(InputObject)]
pub struct Span { pub min: Option<i32>, pub max: Option<i32> }

/// derive(SimpleObject) with a flattened part: its fields have generated resolvers (no events, no gates, cannot fail)
#[derive(SimpleObject, Clone)]
pub struct More { slabel: Option<String>, sb: Option<bool> }
#[derive(SimpleObject, Clone)]
#[graphql(name = "S")]
pub struct Simple { sid: ID, sn: Option<i32>, snn: i32, sf: Option<f64>, se: Option<Color>, sints: Vec<i32>, #[graphql(flatten)] more: More }
impl Simple {
    pub fn load(ctx: &Context<'_>, id: &str) -> Result<Simple> {
        let req = ctx.data_unchecked::<Arc<Req>>().clone();
        let g = |f: &str| req.lookup(id, f);
        fn o<T: FromW>(w: J) -> Result<Option<T>> { opt::<T>(&w).transpose() }
        Ok(Simple { sid: ID(id.to_string()), sn: o(g("sn"))?, snn: i32::from_w(&g("snn"))?, sf: o(g("sf"))?, se: o(g("se"))?,
            sints: list_nn::<i32>(&g("sints"))?.into_iter().collect::<Result<Vec<_>>>()?,
            more: More { slabel: o(g("slabel"))?, sb: o(g("sb"))? } })
    }
}
fn simple_of(ctx: &Context<'_>, w: &J) -> Option<Result<Simple>> {
    if is_null(w) { None } else if is_err(w) { Some(Err("boom".into())) } else { Some(Simple::load(ctx, w["id"].as_str().unwrap_or(""))) }
}

fn path_of(ctx: &Context<'_>) -> J {
    // QueryPathNode is Serialize: names as strings, indices as numbers
    match ctx.path_node {
        Some(node) => match serde_json::to_value(node) {
            Ok(J::Array(a)) => J::Array(a.into_iter().map(|x| if x.is_number() { json!(format!("#{x}")) } else { x }).collect()),
            _ => json!([]),
        },
        None => json!([]),
    }
}

pub const ALL_FIELD_NAMES: &[&str] = &["id", "label", "peer", "n", "nn", "f", "fnn", "e", "self", "selfNN", "kids", "kidsNN", "opt", "u", "fail", "guarded", "arg", "b", "a", "ann", "node", "nodes", "us", "bump", "bumpA", "entity", "ints", "grid", "colors", "simple", "sid", "sn", "snn", "sf", "se", "sints", "slabel", "sb", "sy", "syo"];

/// a resolved argument value as the views report it (input objects: entries sorted by key)
fn view_value(v: &Value) -> J {
    match v {
        Value::Number(x) => json!({"k": "int", "v": x.to_string()}),
        Value::Null => json!({"k": "null"}),
        Value::Object(m) => {
            let mut es: Vec<(String, J)> = m.iter().map(|(k, v)| (k.to_string(), view_value(v))).collect();
            es.sort_by(|a, b| a.0.cmp(&b.0));
            json!({"k": "obj", "entries": es.into_iter().map(|(k, v)| json!({"key": k, "val": v})).collect::<Vec<_>>()})
        }
        other => json!({"k": "other", "v": other.to_string()}),
    }
}

pub fn views(ctx: &Context<'_>) -> J {
    // selection-field view: names (with aliases) of the direct sub-fields, fragments followed
    let sel: Vec<J> = ctx.field().selection_set().map(|f| {
        // the arguments the view reports for the sub-field (resolved: variables substituted, omitted ones absent)
        let args: Vec<J> = match f.arguments() {
            Ok(a) => a.iter().map(|(n, v)| json!({"name": n.as_str(), "val": view_value(v)})).collect(),
            Err(_) => vec![json!({"name": "<error>", "val": {"k": "null"}})],
        };
        json!({"name": f.name(), "alias": f.alias().unwrap_or(""), "args": args})
    }).collect();
    // look-ahead view: which of the family's field names the look-ahead reports directly below this field
    let la: Vec<J> = ALL_FIELD_NAMES.iter().filter(|n| ctx.look_ahead().field(n).exists()).map(|n| json!(n)).collect();
    json!({"sel": sel, "la": la})
}

/// The common resolver body.
pub async fn resolve(ctx: &Context<'_>, id: &str, field: &str) -> J {
    let req = ctx.data_unchecked::<Arc<Req>>().clone();
    let w = req.lookup(id, field);
    let call = req.bump(&format!("{id}.{field}"));
    req.event(json!({"ev": "start", "obj": id, "field": field, "path": path_of(ctx), "call": call, "view": views(ctx)}));
    if let Some(g) = w.get("gate").and_then(|g| g.as_u64()) {
        if g != 0 { let _ = req.gate(g).await; }
    }
    let items = w.get("items").and_then(|i| i.as_array()).map(|a| a.len() as i64).unwrap_or(-1);
    req.event(json!({"ev": "finish", "obj": id, "field": field, "path": path_of(ctx), "call": call, "items": items}));
    w
}

/// The body of a resolver written as a plain `fn` (the object macro's non-async code path): same events, no gate.
pub fn resolve_sync(ctx: &Context<'_>, id: &str, field: &str) -> J {
    let req = ctx.data_unchecked::<Arc<Req>>().clone();
    let w = req.lookup(id, field);
    let call = req.bump(&format!("{id}.{field}"));
    req.event(json!({"ev": "start", "obj": id, "field": field, "path": path_of(ctx), "call": call, "view": views(ctx)}));
    req.event(json!({"ev": "finish", "obj": id, "field": field, "path": path_of(ctx), "call": call, "items": -1}));
    w
}

fn is_err(w: &J) -> bool { w["k"] == "err" }
fn is_null(w: &J) -> bool { w["k"] == "null" }

pub trait FromW: Sized { fn from_w(w: &J) -> Result<Self>; }
impl FromW for i32 { fn from_w(w: &J) -> Result<Self> { if is_err(w) { return Err("boom".into()); } w["v"].as_str().and_then(|s| s.parse().ok()).ok_or_else(|| Error::new("harness: bad int")) } }
impl FromW for f64 {
    fn from_w(w: &J) -> Result<Self> {
        if is_err(w) { return Err("boom".into()); }
        match w["v"].as_str() { Some("nan") => Ok(f64::NAN), Some("inf") => Ok(f64::INFINITY), Some("ninf") => Ok(f64::NEG_INFINITY), Some(s) => s.parse().map_err(|_| Error::new("harness: bad float")), None => Err(Error::new("harness: bad float")) }
    }
}
impl FromW for String { fn from_w(w: &J) -> Result<Self> { if is_err(w) { return Err("boom".into()); } w["v"].as_str().map(|s| s.to_string()).ok_or_else(|| Error::new("harness: bad str")) } }
impl FromW for bool { fn from_w(w: &J) -> Result<Self> { if is_err(w) { return Err("boom".into()); } w["v"].as_bool().ok_or_else(|| Error::new("harness: bad bool")) } }
impl FromW for Color { fn from_w(w: &J) -> Result<Self> { if is_err(w) { return Err("boom".into()); } match w["v"].as_str() { Some("RED") => Ok(Color::Red), Some("GREEN") => Ok(Color::Green), _ => Err(Error::new("harness: bad enum")) } } }
impl FromW for A { fn from_w(w: &J) -> Result<Self> { if is_err(w) { return Err("boom".into()); } w["id"].as_str().map(|s| A(s.to_string())).ok_or_else(|| Error::new("harness: bad ref")) } }
impl FromW for B { fn from_w(w: &J) -> Result<Self> { if is_err(w) { return Err("boom".into()); } w["id"].as_str().map(|s| B(s.to_string())).ok_or_else(|| Error::new("harness: bad ref")) } }
impl<T: FromW> FromW for Vec<Option<Result<T>>> { fn from_w(w: &J) -> Result<Self> { list_opt(w) } }
fn ref_type(w: &J) -> &str { w["ty"].as_str().unwrap_or("") }
impl FromW for Node { fn from_w(w: &J) -> Result<Self> { if is_err(w) { return Err("boom".into()); } match ref_type(w) { "A" => Ok(Node::Entity(Entity::A(A::from_w(w)?))), "B" => Ok(Node::Entity(Entity::B(B::from_w(w)?))), _ => Err(Error::new("harness: bad node ref")) } } }
impl FromW for Entity { fn from_w(w: &J) -> Result<Self> { if is_err(w) { return Err("boom".into()); } match ref_type(w) { "A" => Ok(Entity::A(A::from_w(w)?)), "B" => Ok(Entity::B(B::from_w(w)?)), _ => Err(Error::new("harness: bad entity ref")) } } }
impl FromW for U { fn from_w(w: &J) -> Result<Self> { if is_err(w) { return Err("boom".into()); } match ref_type(w) { "A" => Ok(U::A(A::from_w(w)?)), "B" => Ok(U::B(B::from_w(w)?)), _ => Err(Error::new("harness: bad union ref")) } } }

/// nullable position: null -> None, err -> Some(Err), value -> Some(Ok)
pub fn opt<T: FromW>(w: &J) -> Option<Result<T>> { if is_null(w) { None } else { Some(T::from_w(w)) } }
/// non-null position
pub fn req<T: FromW>(w: &J) -> Result<T> { T::from_w(w) }
/// list of non-null items: [T!]
pub fn list_nn<T: FromW>(w: &J) -> Result<Vec<Result<T>>> {
    if is_err(w) { return Err("boom".into()); }
    Ok(w["items"].as_array().map(|a| a.iter().map(T::from_w).collect()).unwrap_or_default())
}
/// list of nullable items: [T]
pub fn list_opt<T: FromW>(w: &J) -> Result<Vec<Option<Result<T>>>> {
    if is_err(w) { return Err("boom".into()); }
    Ok(w["items"].as_array().map(|a| a.iter().map(opt::<T>).collect()).unwrap_or_default())
}
pub fn opt_list_nn<T: FromW>(w: &J) -> Option<Result<Vec<Result<T>>>> { if is_null(w) { None } else { Some(list_nn(w)) } }
pub fn opt_list_opt<T: FromW>(w: &J) -> Option<Result<Vec<Option<Result<T>>>>> { if is_null(w) { None } else { Some(list_opt(w)) } }

pub struct NoGuard;
impl Guard for NoGuard {
    async fn check(&self, ctx: &Context<'_>) -> Result<()> {
        // the guard of `guarded` rejects when the world says so for the *parent path's* object: the
        // parent id is not available here, so the world carries one request-wide switch.
        let req = ctx.data_unchecked::<Arc<Req>>();
        if req.world.get("_guardRejects").and_then(|b| b.as_bool()).unwrap_or(false) { Err("forbidden".into()) } else { Ok(()) }
    }
}

#[Object]
impl A {
    async fn id(&self, ctx: &Context<'_>) -> ID { let _ = resolve(ctx, &self.0, "id").await; ID(self.0.clone()) }
    async fn label(&self, ctx: &Context<'_>) -> Option<Result<String>> { opt(&resolve(ctx, &self.0, "label").await) }
    async fn peer(&self, ctx: &Context<'_>) -> Option<Result<Node>> { opt(&resolve(ctx, &self.0, "peer").await) }
    async fn n(&self, ctx: &Context<'_>) -> Option<Result<i32>> { opt(&resolve(ctx, &self.0, "n").await) }
    /// a field with arguments (C22: views must report the resolved arguments of sub-fields)
    async fn arg(&self, ctx: &Context<'_>, x: Option<i32>, y: Option<i32>, o: Option<Span>) -> Option<Result<i32>> { let _ = (x, y, o.map(|s| (s.min, s.max))); opt(&resolve(ctx, &self.0, "arg").await) }
    async fn nn(&self, ctx: &Context<'_>) -> Result<i32> { req(&resolve(ctx, &self.0, "nn").await) }
    async fn f(&self, ctx: &Context<'_>) -> Option<Result<f64>> { opt(&resolve(ctx, &self.0, "f").await) }
    async fn fnn(&self, ctx: &Context<'_>) -> Result<f64> { req(&resolve(ctx, &self.0, "fnn").await) }
    async fn e(&self, ctx: &Context<'_>) -> Option<Result<Color>> { opt(&resolve(ctx, &self.0, "e").await) }
    #[graphql(name = "self")]
    async fn self_(&self, ctx: &Context<'_>) -> Option<Result<A>> { opt(&resolve(ctx, &self.0, "self").await) }
    #[graphql(name = "selfNN")]
    async fn self_nn(&self, ctx: &Context<'_>) -> Result<A> { req(&resolve(ctx, &self.0, "selfNN").await) }
    async fn kids(&self, ctx: &Context<'_>) -> Option<Result<Vec<Result<Node>>>> { opt_list_nn(&resolve(ctx, &self.0, "kids").await) }
    #[graphql(name = "kidsNN")]
    async fn kids_nn(&self, ctx: &Context<'_>) -> Result<Vec<Result<Node>>> { list_nn(&resolve(ctx, &self.0, "kidsNN").await) }
    async fn opt(&self, ctx: &Context<'_>) -> Option<Result<Vec<Option<Result<A>>>>> { opt_list_opt(&resolve(ctx, &self.0, "opt").await) }
    async fn u(&self, ctx: &Context<'_>) -> Option<Result<U>> { opt(&resolve(ctx, &self.0, "u").await) }
    async fn simple(&self, ctx: &Context<'_>) -> Option<Result<Simple>> { simple_of(ctx, &resolve(ctx, &self.0, "simple").await) }
    /// plain (non-async) resolvers: Int! and Int
    fn sy(&self, ctx: &Context<'_>) -> Result<i32> { req(&resolve_sync(ctx, &self.0, "sy")) }
    fn syo(&self, ctx: &Context<'_>) -> Option<Result<i32>> { opt(&resolve_sync(ctx, &self.0, "syo")) }
    /// leaf list [Int!] and nested list [[Int]!]
    async fn ints(&self, ctx: &Context<'_>) -> Option<Result<Vec<Result<i32>>>> { opt_list_nn(&resolve(ctx, &self.0, "ints").await) }
    async fn grid(&self, ctx: &Context<'_>) -> Option<Result<Vec<Result<Vec<Option<Result<i32>>>>>>> { opt_list_nn(&resolve(ctx, &self.0, "grid").await) }
    async fn colors(&self, ctx: &Context<'_>) -> Result<Vec<Option<Result<Color>>>> { list_opt(&resolve(ctx, &self.0, "colors").await) }
    /// nullable field written as Result<Option<T>> (error raised before Option can capture it)
    async fn fail(&self, ctx: &Context<'_>) -> Result<Option<i32>> {
        let w = resolve(ctx, &self.0, "fail").await;
        if is_null(&w) { Ok(None) } else { i32::from_w(&w).map(Some) }
    }
    #[graphql(guard = "NoGuard")]
    async fn guarded(&self, ctx: &Context<'_>) -> Option<Result<i32>> { opt(&resolve(ctx, &self.0, "guarded").await) }
}

#[Object]
impl B {
    async fn id(&self, ctx: &Context<'_>) -> ID { let _ = resolve(ctx, &self.0, "id").await; ID(self.0.clone()) }
    async fn label(&self, ctx: &Context<'_>) -> Option<Result<String>> { opt(&resolve(ctx, &self.0, "label").await) }
    async fn peer(&self, ctx: &Context<'_>) -> Option<Result<Node>> { opt(&resolve(ctx, &self.0, "peer").await) }
    async fn b(&self, ctx: &Context<'_>) -> Option<Result<bool>> { opt(&resolve(ctx, &self.0, "b").await) }
    async fn a(&self, ctx: &Context<'_>) -> Option<Result<A>> { opt(&resolve(ctx, &self.0, "a").await) }
}

pub struct Query;
#[Object]
impl Query {
    async fn node(&self, ctx: &Context<'_>) -> Option<Result<Node>> { opt(&resolve(ctx, "root", "node").await) }
    async fn nodes(&self, ctx: &Context<'_>) -> Result<Vec<Result<Node>>> { list_nn(&resolve(ctx, "root", "nodes").await) }
    async fn simple(&self, ctx: &Context<'_>) -> Option<Result<Simple>> { simple_of(ctx, &resolve(ctx, "root", "simple").await) }
    async fn entity(&self, ctx: &Context<'_>) -> Option<Result<Entity>> { opt(&resolve(ctx, "root", "entity").await) }
    async fn a(&self, ctx: &Context<'_>) -> Option<Result<A>> { opt(&resolve(ctx, "root", "a").await) }
    async fn ann(&self, ctx: &Context<'_>) -> Result<A> { req(&resolve(ctx, "root", "ann").await) }
    async fn u(&self, ctx: &Context<'_>) -> Option<Result<U>> { opt(&resolve(ctx, "root", "u").await) }
    async fn us(&self, ctx: &Context<'_>) -> Option<Result<Vec<Option<Result<U>>>>> { opt_list_opt(&resolve(ctx, "root", "us").await) }
    async fn n(&self, ctx: &Context<'_>) -> Option<Result<i32>> { opt(&resolve(ctx, "root", "n").await) }
    async fn nn(&self, ctx: &Context<'_>) -> Result<i32> { req(&resolve(ctx, "root", "nn").await) }
}

pub struct Mutation;
#[Object]
impl Mutation {
    async fn bump(&self, ctx: &Context<'_>) -> Result<i32> { req(&resolve(ctx, "mroot", "bump").await) }
    #[graphql(name = "bumpA")]
    async fn bump_a(&self, ctx: &Context<'_>) -> Option<Result<A>> { opt(&resolve(ctx, "mroot", "bumpA").await) }
    async fn n(&self, ctx: &Context<'_>) -> Option<Result<i32>> { opt(&resolve(ctx, "mroot", "n").await) }
}

pub type ExecSchema = Schema<Query, Mutation, EmptySubscription>;
pub fn schema() -> ExecSchema { Schema::build(Query, Mutation, EmptySubscription).finish() }
pub fn builder() -> SchemaBuilder<Query, Mutation, EmptySubscription> { Schema::build(Query, Mutation, EmptySubscription) }
