//! Builds an `async_graphql::dynamic` schema from the JSON type-system format of DESIGN.md
//! appendix A (used by c33 and c17 via `#[path]`; not part of the vh library).
//!
//! ts     {"types": {Name: {kind, fields: {f: {ty, args: {a: {ty, default}}}}, implements, members,
//!          values, inputFields: {x: {ty, default}}, oneOf}}, "query", "mutation", "subscription"}
//! TY     {"k":"named","n"} | {"k":"list","of"} | {"k":"nn","of"}
//! default {"k":"none"} | V        V as in appendix A (int / str with code points / bool / enum / list / obj / null)
//! C17 additions (all optional): "description": [code points] on types, fields, arguments, input
//! fields and enum values; "deprecated": {"reason": [code points] | absent} on fields, arguments, input
//! fields and enum values; enum values as strings or {"name", "description", "deprecated"};
//! "specifiedBy": [code points] on scalars; "keys": ["id", ..] on objects and interfaces (federation entity
//! keys); "federation": {"entities": [names]} on the type system = SchemaBuilder::enable_federation + an
//! entity resolver.
#![allow(dead_code)]
use async_graphql::dynamic::*;
use async_graphql::{Name, Value};
use indexmap::IndexMap;
use serde_json::Value as J;
use std::collections::HashMap;
use std::sync::Arc;

pub const BUILTIN: [&str; 5] = ["Int", "Float", "String", "Boolean", "ID"];

pub fn cp_string(j: &J) -> Option<String> {
    match j {
        J::Array(a) => Some(a.iter().filter_map(|c| c.as_u64().and_then(|c| char::from_u32(c as u32))).collect()),
        J::String(s) => Some(s.clone()),
        _ => None,
    }
}

pub fn tyref(j: &J) -> TypeRef {
    match j["k"].as_str() {
        Some("named") => TypeRef::named(j["n"].as_str().unwrap_or("")),
        Some("list") => TypeRef::List(Box::new(tyref(&j["of"]))),
        Some("nn") => TypeRef::NonNull(Box::new(tyref(&j["of"]))),
        _ => vh::io::tool_error(&format!("bad type reference {j}")),
    }
}

pub fn ty_base(j: &J) -> &str {
    match j["k"].as_str() {
        Some("named") => j["n"].as_str().unwrap_or(""),
        _ => ty_base(&j["of"]),
    }
}

pub fn ty_text(j: &J) -> String {
    tyref(j).to_string()
}

/// Appendix-A value -> async_graphql value (None for {"k":"none"}).
pub fn value_of(j: &J) -> Option<Value> {
    Some(match j["k"].as_str() {
        Some("none") | None => return None,
        Some("null") => Value::Null,
        Some("int") => match &j["v"] {
            J::String(s) => Value::Number(s.parse::<i64>().unwrap_or(0).into()),
            v => Value::Number(v.as_i64().unwrap_or(0).into()),
        },
        Some("bool") => Value::Boolean(j["v"].as_bool().unwrap_or(false)),
        Some("str") => Value::String(cp_string(&j["cp"]).unwrap_or_default()),
        Some("enum") => Value::Enum(Name::new(j["v"].as_str().unwrap_or("V"))),
        Some("list") => Value::List(j["items"].as_array().map(|a| a.iter().filter_map(value_of).collect()).unwrap_or_default()),
        Some("obj") => {
            let mut m = IndexMap::new();
            for e in j["entries"].as_array().cloned().unwrap_or_default() {
                if let Some(v) = value_of(&e[1]) {
                    m.insert(Name::new(e[0].as_str().unwrap_or("k")), v);
                }
            }
            Value::Object(m)
        }
        Some(k) => vh::io::tool_error(&format!("bad value kind {k}")),
    })
}

/// What resolvers need to know to fabricate a value of a type.
pub struct Info {
    pub kinds: HashMap<String, String>,
    pub first_enum_value: HashMap<String, String>,
    pub concrete: HashMap<String, String>, // abstract type -> one object type that may stand for it
}

fn obj<'a>(j: &'a J, key: &str) -> Vec<(&'a String, &'a J)> {
    j.get(key).and_then(|f| f.as_object()).map(|m| m.iter().collect()).unwrap_or_default()
}
fn names(j: &J, key: &str) -> Vec<String> {
    j.get(key)
        .and_then(|f| f.as_array())
        .map(|a| {
            a.iter()
                .map(|x| match x {
                    J::String(s) => s.clone(),
                    o => o["name"].as_str().unwrap_or("").to_string(),
                })
                .collect()
        })
        .unwrap_or_default()
}

pub fn info_of(ts: &J) -> Info {
    let mut kinds = HashMap::new();
    let mut first_enum_value = HashMap::new();
    let mut concrete = HashMap::new();
    for b in BUILTIN {
        kinds.insert(b.to_string(), "SCALAR".to_string());
    }
    for (n, t) in obj(ts, "types") {
        kinds.insert(n.clone(), t["kind"].as_str().unwrap_or("").to_string());
        if let Some(v) = names(t, "values").first() {
            first_enum_value.insert(n.clone(), v.clone());
        }
    }
    for (n, t) in obj(ts, "types") {
        match t["kind"].as_str() {
            Some("UNION") => {
                if let Some(m) = names(t, "members").into_iter().find(|m| kinds.get(m).map(|k| k == "OBJECT").unwrap_or(false)) {
                    concrete.insert(n.clone(), m);
                }
            }
            Some("OBJECT") => {
                for i in names(t, "implements") {
                    concrete.entry(i).or_insert_with(|| n.clone());
                }
            }
            _ => {}
        }
    }
    Info { kinds, first_enum_value, concrete }
}

/// A value of (about) the right shape for an output type; None = null.
pub fn fabricate(ty: &J, info: &Info) -> Option<FieldValue<'static>> {
    match ty["k"].as_str() {
        Some("nn") => fabricate(&ty["of"], info),
        Some("list") => Some(FieldValue::list(fabricate(&ty["of"], info).into_iter().collect::<Vec<_>>())),
        _ => {
            let n = ty["n"].as_str().unwrap_or("");
            match info.kinds.get(n).map(|s| s.as_str()) {
                Some("SCALAR") => Some(FieldValue::value(match n {
                    "Float" => Value::from(1.5),
                    "String" => Value::from("s"),
                    "Boolean" => Value::from(true),
                    "ID" => Value::from("1"),
                    _ => Value::from(1),
                })),
                Some("ENUM") => info.first_enum_value.get(n).map(|v| FieldValue::value(Value::Enum(Name::new(v)))),
                Some("OBJECT") => Some(FieldValue::owned_any(0u8)),
                Some("INTERFACE") | Some("UNION") => info.concrete.get(n).map(|c| FieldValue::owned_any(0u8).with_type(c.clone())),
                _ => None,
            }
        }
    }
}

fn input_value(name: &str, j: &J) -> InputValue {
    let mut iv = InputValue::new(name, tyref(&j["ty"]));
    if let Some(v) = j.get("default").and_then(value_of) {
        iv = iv.default_value(v);
    }
    if let Some(d) = j.get("description").and_then(cp_string) {
        iv = iv.description(d);
    }
    if let Some(dep) = j.get("deprecated").filter(|d| d.is_object()) {
        let reason = dep.get("reason").and_then(cp_string);
        iv = iv.deprecation(reason.as_deref());
    }
    iv
}

/// How the type system maps onto the dynamic API.  The object named as subscription root (and not
/// also as query / mutation root) must be registered as `dynamic::Subscription`.
pub fn is_subscription_object(ts: &J, name: &str, t: &J) -> bool {
    ts["subscription"].as_str() == Some(name)
        && ts["query"].as_str() != Some(name)
        && ts["mutation"].as_str() != Some(name)
        && t["kind"].as_str() == Some("OBJECT")
}

/// Registers every type of `ts` (in the order of the JSON object) and returns the builder.
pub fn builder_of(ts: &J) -> SchemaBuilder {
    let info = Arc::new(info_of(ts));
    let opt = |k: &str| ts[k].as_str().filter(|s| !s.is_empty());
    let mut b = Schema::build(ts["query"].as_str().unwrap_or(""), opt("mutation"), opt("subscription"));
    if ts.get("federation").map(|f| f.is_object()).unwrap_or(false) {
        b = b.enable_federation().entity_resolver(|_| FieldFuture::Value(None));
    }
    for (name, t) in obj(ts, "types") {
        let desc = t.get("description").and_then(cp_string);
        match t["kind"].as_str() {
            Some("OBJECT") if is_subscription_object(ts, name, t) => {
                let mut s = Subscription::new(name.as_str());
                if let Some(d) = desc {
                    s = s.description(d);
                }
                for (fname, f) in obj(t, "fields") {
                    let (ty, info) = (f["ty"].clone(), info.clone());
                    let mut sf = SubscriptionField::new(fname.as_str(), tyref(&f["ty"]), move |_| {
                        let v = fabricate(&ty, &info);
                        SubscriptionFieldFuture::new(async move {
                            Ok(futures_util::stream::iter(v.into_iter().map(Ok::<_, async_graphql::Error>)))
                        })
                    });
                    for (aname, a) in obj(f, "args") {
                        sf = sf.argument(input_value(aname, a));
                    }
                    if let Some(d) = f.get("description").and_then(cp_string) {
                        sf = sf.description(d);
                    }
                    if let Some(dep) = f.get("deprecated").filter(|d| d.is_object()) {
                        sf = sf.deprecation(dep.get("reason").and_then(cp_string).as_deref());
                    }
                    s = s.field(sf);
                }
                b = b.register(s);
            }
            Some("OBJECT") => {
                let mut o = Object::new(name.as_str());
                if let Some(d) = desc {
                    o = o.description(d);
                }
                for (fname, f) in obj(t, "fields") {
                    let (ty, info) = (f["ty"].clone(), info.clone());
                    let mut fld = Field::new(fname.as_str(), tyref(&f["ty"]), move |_| FieldFuture::Value(fabricate(&ty, &info)));
                    for (aname, a) in obj(f, "args") {
                        fld = fld.argument(input_value(aname, a));
                    }
                    if let Some(d) = f.get("description").and_then(cp_string) {
                        fld = fld.description(d);
                    }
                    if let Some(dep) = f.get("deprecated").filter(|d| d.is_object()) {
                        fld = fld.deprecation(dep.get("reason").and_then(cp_string).as_deref());
                    }
                    o = o.field(fld);
                }
                for i in names(t, "implements") {
                    o = o.implement(i);
                }
                for k in names(t, "keys") {
                    o = o.key(k);
                }
                b = b.register(o);
            }
            Some("INTERFACE") => {
                let mut o = Interface::new(name.as_str());
                if let Some(d) = desc {
                    o = o.description(d);
                }
                for (fname, f) in obj(t, "fields") {
                    let mut fld = InterfaceField::new(fname.as_str(), tyref(&f["ty"]));
                    for (aname, a) in obj(f, "args") {
                        fld = fld.argument(input_value(aname, a));
                    }
                    if let Some(d) = f.get("description").and_then(cp_string) {
                        fld = fld.description(d);
                    }
                    if let Some(dep) = f.get("deprecated").filter(|d| d.is_object()) {
                        fld = fld.deprecation(dep.get("reason").and_then(cp_string).as_deref());
                    }
                    o = o.field(fld);
                }
                for i in names(t, "implements") {
                    o = o.implement(i);
                }
                for k in names(t, "keys") {
                    o = o.key(k);
                }
                b = b.register(o);
            }
            Some("UNION") => {
                let mut u = Union::new(name.as_str());
                if let Some(d) = desc {
                    u = u.description(d);
                }
                for m in names(t, "members") {
                    u = u.possible_type(m);
                }
                b = b.register(u);
            }
            Some("ENUM") => {
                let mut e = Enum::new(name.as_str());
                if let Some(d) = desc {
                    e = e.description(d);
                }
                for v in t.get("values").and_then(|v| v.as_array()).cloned().unwrap_or_default() {
                    let mut item = EnumItem::new(match &v {
                        J::String(s) => s.clone(),
                        o => o["name"].as_str().unwrap_or("").to_string(),
                    });
                    if let Some(d) = v.get("description").and_then(cp_string) {
                        item = item.description(d);
                    }
                    if let Some(dep) = v.get("deprecated").filter(|d| d.is_object()) {
                        item = item.deprecation(dep.get("reason").and_then(cp_string).as_deref());
                    }
                    e = e.item(item);
                }
                b = b.register(e);
            }
            Some("INPUT_OBJECT") => {
                let mut o = InputObject::new(name.as_str());
                if let Some(d) = desc {
                    o = o.description(d);
                }
                for (xname, x) in obj(t, "inputFields") {
                    o = o.field(input_value(xname, x));
                }
                if t["oneOf"].as_bool() == Some(true) {
                    o = o.oneof();
                }
                b = b.register(o);
            }
            Some("SCALAR") => {
                let mut s = Scalar::new(name.as_str());
                if let Some(d) = desc {
                    s = s.description(d);
                }
                if let Some(u) = t.get("specifiedBy").and_then(cp_string) {
                    s = s.specified_by_url(u);
                }
                b = b.register(s);
            }
            k => vh::io::tool_error(&format!("type {name}: bad kind {k:?}")),
        }
    }
    b
}

// ---- generated documents: one per field of each root type ------------------------------------------

fn literal(ty: &J, ts: &J, info: &Info, depth: usize) -> String {
    match ty["k"].as_str() {
        Some("nn") => literal(&ty["of"], ts, info, depth),
        Some("list") => format!("[{}]", literal(&ty["of"], ts, info, depth)),
        _ => {
            let n = ty["n"].as_str().unwrap_or("");
            match info.kinds.get(n).map(|s| s.as_str()) {
                Some("SCALAR") => match n {
                    "Float" => "1.5".into(),
                    "String" | "ID" => "\"s\"".into(),
                    "Boolean" => "true".into(),
                    _ => "1".into(),
                },
                Some("ENUM") => info.first_enum_value.get(n).cloned().unwrap_or_else(|| "V".into()),
                Some("INPUT_OBJECT") if depth < 4 => {
                    let t = &ts["types"][n];
                    let fields: Vec<String> = obj(t, "inputFields")
                        .into_iter()
                        .filter(|(_, x)| x["ty"]["k"] == "nn" || depth == 0)
                        .map(|(xn, x)| format!("{xn}: {}", literal(&x["ty"], ts, info, depth + 1)))
                        .collect();
                    format!("{{{}}}", fields.join(", "))
                }
                _ => "null".into(),
            }
        }
    }
}

fn selection(type_name: &str, ts: &J, info: &Info, depth: usize) -> String {
    let kind = info.kinds.get(type_name).map(|s| s.as_str()).unwrap_or("");
    match kind {
        "OBJECT" | "INTERFACE" => {
            let t = &ts["types"][type_name];
            let mut parts = vec!["__typename".to_string()];
            if depth < 3 {
                for (fname, f) in obj(t, "fields") {
                    parts.push(field_text(fname, f, ts, info, depth + 1));
                }
                if kind == "INTERFACE" {
                    if let Some(c) = info.concrete.get(type_name) {
                        parts.push(format!("... on {c} {}", selection(c, ts, info, depth + 1)));
                    }
                }
            }
            format!("{{ {} }}", parts.join(" "))
        }
        "UNION" => {
            let mut parts = vec!["__typename".to_string()];
            if depth < 3 {
                for m in names(&ts["types"][type_name], "members") {
                    if info.kinds.get(&m).map(|k| k == "OBJECT").unwrap_or(false) {
                        parts.push(format!("... on {m} {}", selection(&m, ts, info, depth + 1)));
                    }
                }
            }
            format!("{{ {} }}", parts.join(" "))
        }
        _ => String::new(),
    }
}

fn field_text(fname: &str, f: &J, ts: &J, info: &Info, depth: usize) -> String {
    let args: Vec<String> = obj(f, "args").into_iter().map(|(an, a)| format!("{an}: {}", literal(&a["ty"], ts, info, 0))).collect();
    let args = if args.is_empty() { String::new() } else { format!("({})", args.join(", ")) };
    format!("{fname}{args} {}", selection(ty_base(&f["ty"]), ts, info, depth))
}

/// (operation kind, document) per field of each root operation type.
pub fn documents(ts: &J) -> Vec<(String, String)> {
    let info = info_of(ts);
    let mut out = Vec::new();
    for (root, kw) in [("query", "query"), ("mutation", "mutation"), ("subscription", "subscription")] {
        if let Some(name) = ts[root].as_str().filter(|s| !s.is_empty()) {
            let t = &ts["types"][name];
            for (fname, f) in obj(t, "fields") {
                out.push((kw.to_string(), format!("{kw} {{ {} }}", field_text(fname, f, ts, &info, 0))));
            }
        }
    }
    out
}

pub const INTROSPECTION_QUERY: &str = r#"
query IntrospectionQuery {
  __schema {
    description
    queryType { name } mutationType { name } subscriptionType { name }
    types { ...FullType }
    directives { name description isRepeatable locations args(includeDeprecated: true) { ...InputValue } }
  }
}
fragment FullType on __Type {
  kind name description specifiedByURL isOneOf
  fields(includeDeprecated: true) {
    name description
    args(includeDeprecated: true) { ...InputValue }
    type { ...TypeRef }
    isDeprecated deprecationReason
  }
  inputFields(includeDeprecated: true) { ...InputValue }
  interfaces { ...TypeRef }
  enumValues(includeDeprecated: true) { name description isDeprecated deprecationReason }
  possibleTypes { ...TypeRef }
}
fragment InputValue on __InputValue { name description type { ...TypeRef } defaultValue isDeprecated deprecationReason }
fragment TypeRef on __Type {
  kind name
  ofType { kind name ofType { kind name ofType { kind name ofType { kind name ofType { kind name ofType { kind name ofType { kind name } } } } } } }
}
"#;
