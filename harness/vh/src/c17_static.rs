//! Derive-built schemas for C17 ("programs" of the property's quantifier) with hand-written mirrors in
//! the JSON type-system format (appendix A + C17 additions + "directives").  One small schema per
//! aspect, so that an export that does not parse hides nothing else:
//!   plain     interface chain, union, enum and field deprecations, defaults, descriptions, a custom
//!             directive definition with arguments -- nothing today's printers get wrong
//!   reason    a deprecation reason containing a quotation mark (repaired by /repo 0c87432: must round-trip)
//!   default   a string default containing U+001B (repaired by /repo 773af2b: must round-trip)
//!   ifacedir  an interface that implements an interface and carries a directive
//!   dirarg    a custom directive whose argument has a description
//!   nulls     explicit null defaults: #[graphql(default)] on Option<T> arguments (Object, Subscription), input fields and
//!             a directive-definition argument, beside absent and non-null defaults (introspection reports "null")
//!   entity    federation entities: an #[graphql(entity)] resolver, so the registry holds _Any, _Entity,
//!             _Service and the root fields _service / _entities
use async_graphql::*;
use serde_json::{Value as J, json};

#[TypeDirective(location = "Object", location = "Interface", location = "FieldDefinition")]
fn tagged(label: String, #[graphql(default = 3)] weight: i32) {}

#[TypeDirective(location = "Object")]
fn noted(#[graphql(desc = "what to note")] note: Option<String>) {}

fn cp(s: &str) -> J { json!(s.chars().map(|c| c as u32).collect::<Vec<_>>()) }
fn named(n: &str) -> J { json!({"k": "named", "n": n}) }
fn nn(t: J) -> J { json!({"k": "nn", "of": t}) }
fn none() -> J { json!({"k": "none"}) }
fn ty(kind: &str) -> J {
    json!({"kind": kind, "fields": {}, "implements": [], "members": [], "values": [], "inputFields": {}, "oneOf": false})
}
fn with(mut t: J, key: &str, v: J) -> J { t[key] = v; t }

// ---- plain ------------------------------------------------------------------------------------------
mod plain {
    use super::*;
    pub struct Item;
    /// An item.
    #[Object(directive = tagged::apply("item".to_string(), 1))]
    impl Item {
        /// The id.
        /// Second line with "quotes" and a \ backslash... only in block form
        async fn id(&self) -> i32 { 1 }
        async fn name(&self) -> String { "n".into() }
        #[graphql(deprecation = "use name")]
        async fn old(&self) -> i32 { 0 }
        #[graphql(deprecation)]
        async fn older(&self) -> Option<i32> { None }
    }
    /// A node.
    #[derive(Interface)]
    #[graphql(field(name = "id", ty = "i32", desc = "The id."))]
    pub enum Node { Named(Named), Item(Item) }
    #[derive(Interface)]
    #[graphql(field(name = "id", ty = "i32"), field(name = "name", ty = "String"))]
    pub enum Named { Item(Item) }
    #[derive(Enum, Copy, Clone, Eq, PartialEq)]
    pub enum Color {
        /// Red as a rose
        Red,
        #[graphql(deprecation = "too bright")]
        Green,
        #[graphql(deprecation)]
        Blue,
    }
    #[derive(InputObject)]
    pub struct Filter {
        #[graphql(default = "a\"b\\c")]
        pub text: String,
        #[graphql(default = 5)]
        pub limit: i32,
        pub color: Option<Color>,
    }
    #[derive(Union)]
    pub enum Thing { Item(Item) }
    pub struct Query;
    #[Object]
    impl Query {
        /// Find a node.
        async fn find(&self, #[graphql(desc = "The filter.")] filter: Option<Filter>, #[graphql(default = 10)] first: i32) -> Option<Node> {
            let _ = (filter, first);
            None
        }
        async fn thing(&self) -> Option<Thing> { None }
        async fn color(&self, #[graphql(default_with = "Color::Red")] c: Color) -> Color { c }
    }
    pub fn mirror() -> J {
        let id_desc = "The id.\nSecond line with \"quotes\" and a \\ backslash... only in block form";
        json!({
            "query": "Query", "mutation": "", "subscription": "",
            "directives": {"@tagged": {"repeatable": false, "locations": ["OBJECT", "INTERFACE", "FIELD_DEFINITION"],
                "args": {"label": {"ty": nn(named("String")), "default": none()}, "weight": {"ty": nn(named("Int")), "default": {"k": "int", "v": "3"}}}}},
            "types": {
                "Item": with(with(with(ty("OBJECT"), "description", cp("An item.")), "implements", json!(["Named", "Node"])), "fields", json!({
                    "id": {"ty": nn(named("Int")), "args": {}, "description": cp(id_desc)},
                    "name": {"ty": nn(named("String")), "args": {}},
                    "old": {"ty": nn(named("Int")), "args": {}, "deprecated": {"reason": cp("use name")}},
                    "older": {"ty": named("Int"), "args": {}, "deprecated": {}}})),
                "Node": with(with(ty("INTERFACE"), "description", cp("A node.")), "fields", json!({
                    "id": {"ty": nn(named("Int")), "args": {}, "description": cp("The id.")}})),
                "Named": with(with(ty("INTERFACE"), "implements", json!(["Node"])), "fields", json!({
                    "id": {"ty": nn(named("Int")), "args": {}}, "name": {"ty": nn(named("String")), "args": {}}})),
                "Color": with(ty("ENUM"), "values", json!([
                    {"name": "RED", "description": cp("Red as a rose")}, {"name": "GREEN", "deprecated": {"reason": cp("too bright")}},
                    {"name": "BLUE", "deprecated": {}}])),
                "Filter": with(ty("INPUT_OBJECT"), "inputFields", json!({
                    "text": {"ty": nn(named("String")), "default": {"k": "str", "cp": cp("a\"b\\c")}},
                    "limit": {"ty": nn(named("Int")), "default": {"k": "int", "v": "5"}},
                    "color": {"ty": named("Color"), "default": none()}})),
                "Thing": with(ty("UNION"), "members", json!(["Item"])),
                "Query": with(ty("OBJECT"), "fields", json!({
                    "find": {"ty": named("Node"), "description": cp("Find a node."), "args": {
                        "filter": {"ty": named("Filter"), "default": none(), "description": cp("The filter.")},
                        "first": {"ty": nn(named("Int")), "default": {"k": "int", "v": "10"}}}},
                    "thing": {"ty": named("Thing"), "args": {}},
                    "color": {"ty": nn(named("Color")), "args": {"c": {"ty": nn(named("Color")), "default": {"k": "enum", "v": "RED"}}}}}))
            }
        })
    }
    pub fn sdl(o: SDLExportOptions) -> String { Schema::build(Query, EmptyMutation, EmptySubscription).finish().sdl_with_options(o) }
}

// ---- reason -----------------------------------------------------------------------------------------
mod reason {
    use super::*;
    pub struct Query;
    #[Object]
    impl Query {
        #[graphql(deprecation = "use \"b\"")]
        async fn a(&self) -> i32 { 1 }
        async fn b(&self) -> i32 { 2 }
    }
    pub fn mirror() -> J {
        json!({"query": "Query", "mutation": "", "subscription": "", "types": {"Query": with(ty("OBJECT"), "fields", json!({
            "a": {"ty": nn(named("Int")), "args": {}, "deprecated": {"reason": cp("use \"b\"")}},
            "b": {"ty": nn(named("Int")), "args": {}}}))}})
    }
    pub fn sdl(o: SDLExportOptions) -> String { Schema::build(Query, EmptyMutation, EmptySubscription).finish().sdl_with_options(o) }
}

// ---- default ----------------------------------------------------------------------------------------
mod default {
    use super::*;
    pub struct Query;
    #[Object]
    impl Query {
        async fn a(&self, #[graphql(default = "x\u{1b}y")] s: String) -> String { s }
    }
    pub fn mirror() -> J {
        json!({"query": "Query", "mutation": "", "subscription": "", "types": {"Query": with(ty("OBJECT"), "fields", json!({
            "a": {"ty": nn(named("String")), "args": {"s": {"ty": nn(named("String")), "default": {"k": "str", "cp": cp("x\u{1b}y")}}}}}))}})
    }
    pub fn sdl(o: SDLExportOptions) -> String { Schema::build(Query, EmptyMutation, EmptySubscription).finish().sdl_with_options(o) }
}

// ---- ifacedir ---------------------------------------------------------------------------------------
mod ifacedir {
    use super::*;
    pub struct Item;
    #[Object]
    impl Item {
        async fn id(&self) -> i32 { 1 }
    }
    #[derive(Interface)]
    #[graphql(field(name = "id", ty = "i32"))]
    pub enum Node { Named(Named), Item(Item) }
    #[derive(Interface)]
    #[graphql(field(name = "id", ty = "i32"), directive = tagged::apply("iface".to_string(), 2))]
    pub enum Named { Item(Item) }
    pub struct Query;
    #[Object]
    impl Query {
        async fn node(&self) -> Option<Node> { None }
    }
    pub fn mirror() -> J {
        let f = json!({"id": {"ty": nn(named("Int")), "args": {}}});
        json!({"query": "Query", "mutation": "", "subscription": "",
            "directives": {"@tagged": {"repeatable": false, "locations": ["OBJECT", "INTERFACE", "FIELD_DEFINITION"],
                "args": {"label": {"ty": nn(named("String")), "default": none()}, "weight": {"ty": nn(named("Int")), "default": {"k": "int", "v": "3"}}}}},
            "types": {
                "Item": with(with(ty("OBJECT"), "implements", json!(["Named", "Node"])), "fields", f.clone()),
                "Node": with(ty("INTERFACE"), "fields", f.clone()),
                "Named": with(with(ty("INTERFACE"), "implements", json!(["Node"])), "fields", f.clone()),
                "Query": with(ty("OBJECT"), "fields", json!({"node": {"ty": named("Node"), "args": {}}}))}})
    }
    pub fn sdl(o: SDLExportOptions) -> String { Schema::build(Query, EmptyMutation, EmptySubscription).finish().sdl_with_options(o) }
}

// ---- dirarg -----------------------------------------------------------------------------------------
mod dirarg {
    use super::*;
    pub struct Query;
    #[Object(directive = noted::apply(Some("root".to_string())))]
    impl Query {
        async fn a(&self) -> i32 { 1 }
    }
    pub fn mirror() -> J {
        json!({"query": "Query", "mutation": "", "subscription": "",
            "directives": {"@noted": {"repeatable": false, "locations": ["OBJECT"],
                "args": {"note": {"ty": named("String"), "default": none(), "description": cp("what to note")}}}},
            "types": {"Query": with(ty("OBJECT"), "fields", json!({"a": {"ty": nn(named("Int")), "args": {}}}))}})
    }
    pub fn sdl(o: SDLExportOptions) -> String { Schema::build(Query, EmptyMutation, EmptySubscription).finish().sdl_with_options(o) }
}

// ---- nulls ------------------------------------------------------------------------------------------
#[TypeDirective(location = "FieldDefinition")]
fn hinted(#[graphql(default)] hint: Option<String>, #[graphql(default)] level: i32) {}

mod nulls {
    use super::*;
    #[derive(InputObject)]
    pub struct Filter {
        #[graphql(default)]
        pub tag: Option<String>,
        #[graphql(default)]
        pub ids: Option<Vec<i32>>,
        #[graphql(default)]
        pub limit: i32,
        #[graphql(default = 5)]
        pub size: Option<i32>,
        pub plain: Option<i32>,
        #[graphql(default)]
        pub inner: Option<Box<Filter>>,
    }
    pub struct Query;
    #[Object]
    impl Query {
        #[graphql(directive = hinted::apply(None, 1))]
        async fn find(&self, #[graphql(default)] name: Option<String>, #[graphql(default = 3)] first: Option<i32>, plain: Option<i32>,
                      #[graphql(default)] filter: Option<Filter>, #[graphql(default)] flags: Option<Vec<Option<bool>>>) -> i32 {
            let _ = (name, first, plain, filter, flags);
            0
        }
    }
    pub struct Subscription;
    #[Subscription]
    impl Subscription {
        async fn ticks(&self, #[graphql(default)] every: Option<i32>, #[graphql(default)] n: i32) -> impl futures_util::stream::Stream<Item = i32> {
            let _ = every;
            futures_util::stream::iter(0..n)
        }
    }
    pub fn mirror() -> J {
        let nul = || json!({"k": "null"});
        let list = |t: J| json!({"k": "list", "of": t});
        json!({"query": "Query", "mutation": "", "subscription": "Subscription",
            "directives": {"@hinted": {"repeatable": false, "locations": ["FIELD_DEFINITION"],
                "args": {"hint": {"ty": named("String"), "default": nul()}, "level": {"ty": nn(named("Int")), "default": {"k": "int", "v": "0"}}}}},
            "types": {
                "Filter": with(ty("INPUT_OBJECT"), "inputFields", json!({
                    "tag": {"ty": named("String"), "default": nul()},
                    "ids": {"ty": list(nn(named("Int"))), "default": nul()},
                    "limit": {"ty": nn(named("Int")), "default": {"k": "int", "v": "0"}},
                    "size": {"ty": named("Int"), "default": {"k": "int", "v": "5"}},
                    "plain": {"ty": named("Int"), "default": none()},
                    "inner": {"ty": named("Filter"), "default": nul()}})),
                "Query": with(ty("OBJECT"), "fields", json!({
                    "find": {"ty": nn(named("Int")), "args": {
                        "name": {"ty": named("String"), "default": nul()},
                        "first": {"ty": named("Int"), "default": {"k": "int", "v": "3"}},
                        "plain": {"ty": named("Int"), "default": none()},
                        "filter": {"ty": named("Filter"), "default": nul()},
                        "flags": {"ty": list(named("Boolean")), "default": nul()}}}})),
                "Subscription": with(ty("OBJECT"), "fields", json!({
                    "ticks": {"ty": nn(named("Int")), "args": {
                        "every": {"ty": named("Int"), "default": nul()},
                        "n": {"ty": nn(named("Int")), "default": {"k": "int", "v": "0"}}}}}))}})
    }
    pub fn sdl(o: SDLExportOptions) -> String { Schema::build(Query, EmptyMutation, Subscription).finish().sdl_with_options(o) }
}

// ---- entity -----------------------------------------------------------------------------------------
mod entity {
    use super::*;
    #[derive(SimpleObject)]
    pub struct Product {
        pub id: i32,
        /// Display name.
        pub name: String,
    }
    pub struct Query;
    #[Object]
    impl Query {
        async fn top(&self) -> Option<Product> { None }
        #[graphql(entity)]
        async fn find_product_by_id(&self, id: i32) -> Product { Product { id, name: "p".into() } }
    }
    pub fn mirror() -> J {
        json!({"query": "Query", "mutation": "", "subscription": "", "federation": {"entities": ["Product"]},
            "types": {
                "Product": with(with(ty("OBJECT"), "keys", json!(["id"])), "fields", json!({
                    "id": {"ty": nn(named("Int")), "args": {}},
                    "name": {"ty": nn(named("String")), "args": {}, "description": cp("Display name.")}})),
                "Query": with(ty("OBJECT"), "fields", json!({"top": {"ty": named("Product"), "args": {}}}))}})
    }
    pub fn sdl(o: SDLExportOptions) -> String { Schema::build(Query, EmptyMutation, EmptySubscription).finish().sdl_with_options(o) }
}

pub fn mirror(name: &str) -> J {
    match name {
        "plain" => plain::mirror(), "reason" => reason::mirror(), "default" => default::mirror(),
        "ifacedir" => ifacedir::mirror(), "dirarg" => dirarg::mirror(), "nulls" => nulls::mirror(), "entity" => entity::mirror(),
        _ => vh::io::tool_error(&format!("no static schema {name}")),
    }
}
pub fn sdl(name: &str, opts: SDLExportOptions) -> String {
    match name {
        "plain" => plain::sdl(opts), "reason" => reason::sdl(opts), "default" => default::sdl(opts),
        "ifacedir" => ifacedir::sdl(opts), "dirarg" => dirarg::sdl(opts), "nulls" => nulls::sdl(opts), "entity" => entity::sdl(opts),
        _ => vh::io::tool_error(&format!("no static schema {name}")),
    }
}
