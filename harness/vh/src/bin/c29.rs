//! C29 harness: run TLC-generated / seeded-random histories of cache operations on a real
//! `DataLoader` (NoCache / HashMapCache / LruCache(cap), two key types i32 = "a" and i64 = "b").
//! The loader stamps every value with its call number, so a cached value is distinguishable from a
//! fresh load; every operation's result, the loader calls it caused and panics (caught, data) are
//! logged.  No verdict is computed here: LoaderCacheTrace.tla decides.
//!
//! usage: c29 <cases.ndjson> <out.ndjson>
use async_graphql::dataloader::{CacheFactory, DataLoader, HashMapCache, Loader, LruCache};
use async_graphql::runtime::Timer;
use futures_util::FutureExt;
use futures_util::future::BoxFuture;
use futures_util::task::{FutureObj, Spawn, SpawnError};
use serde_json::{Value as J, json};
use std::collections::{HashMap, HashSet};
use std::future::Future;
use std::hash::Hash;
use std::panic::{AssertUnwindSafe, catch_unwind};
use std::sync::atomic::{AtomicU64, Ordering};
use std::sync::{Arc, Mutex};
use std::task::{Context, Poll};
use std::time::Duration;
use vh::io::*;

/// Spawned tasks are queued and polled by `drive` only.
#[derive(Clone, Default)]
struct ManualSpawner(Arc<Mutex<Vec<FutureObj<'static, ()>>>>);
impl Spawn for ManualSpawner {
    fn spawn_obj(&self, f: FutureObj<'static, ()>) -> Result<(), SpawnError> {
        self.0.lock().unwrap().push(f);
        Ok(())
    }
}
impl ManualSpawner {
    fn run_all(&self, cx: &mut Context<'_>) {
        let tasks = std::mem::take(&mut *self.0.lock().unwrap());
        let mut keep = Vec::new();
        for mut t in tasks {
            if t.poll_unpin(cx).is_pending() {
                keep.push(t);
            }
        }
        let mut q = self.0.lock().unwrap();
        keep.append(&mut q);
        *q = keep;
    }
}

/// The delay elapses at once: C29 is sequential (C28 controls the timer).
struct ImmediateTimer;
impl Timer for ImmediateTimer {
    fn delay(&self, _d: Duration) -> BoxFuture<'static, ()> {
        async {}.boxed()
    }
}

struct L {
    n: AtomicU64,
    log: Mutex<Vec<(u64, Vec<i64>)>>,
    holes: HashSet<i64>,
}
impl L {
    fn answer<K: Copy + Into<i64> + Hash + Eq>(&self, keys: &[K]) -> HashMap<K, u64> {
        let n = self.n.fetch_add(1, Ordering::SeqCst) + 1;
        let mut ks: Vec<i64> = keys.iter().map(|k| (*k).into()).collect();
        ks.sort();
        self.log.lock().unwrap().push((n, ks));
        keys.iter().filter(|k| !self.holes.contains(&(**k).into())).map(|k| (*k, n)).collect()
    }
}
impl Loader<i32> for L {
    type Value = u64;
    type Error = ();
    async fn load(&self, keys: &[i32]) -> Result<HashMap<i32, u64>, ()> {
        Ok(self.answer(keys))
    }
}
impl Loader<i64> for L {
    type Value = u64;
    type Error = ();
    async fn load(&self, keys: &[i64]) -> Result<HashMap<i64, u64>, ()> {
        Ok(self.answer(keys))
    }
}

/// Poll `fut` and the spawned tasks in turn until `fut` completes; None = it never does.
fn drive<F: Future>(fut: F, sp: &ManualSpawner) -> Option<F::Output> {
    let mut fut = std::pin::pin!(fut);
    let waker = futures_task::noop_waker();
    let mut cx = Context::from_waker(&waker);
    for _ in 0..64 {
        if let Poll::Ready(v) = fut.as_mut().poll(&mut cx) {
            return Some(v);
        }
        sp.run_all(&mut cx);
    }
    None
}

enum Out {
    Unit,
    Map(Vec<(i64, u64)>),
    Err,
}

fn op_typed<K, C>(dl: &DataLoader<L, C>, sp: &ManualSpawner, op: &J) -> Option<Out>
where
    K: Send + Sync + Hash + Eq + Clone + Copy + From<i32> + Into<i64> + 'static,
    C: CacheFactory,
    L: Loader<K, Value = u64, Error = ()>,
{
    let ks: Vec<K> = op["ks"].as_array().unwrap().iter().map(|k| K::from(k.as_i64().unwrap() as i32)).collect();
    let vs: Vec<u64> = op["vs"].as_array().unwrap().iter().map(|v| v.as_u64().unwrap()).collect();
    let b = op["b"].as_bool().unwrap();
    let sorted = |m: HashMap<K, u64>| {
        let mut v: Vec<(i64, u64)> = m.into_iter().map(|(k, v)| (k.into(), v)).collect();
        v.sort();
        v
    };
    Some(match op["op"].as_str().unwrap() {
        "load" => match drive(dl.load_many(ks), sp)? {
            Ok(m) => Out::Map(sorted(m)),
            Err(()) => Out::Err,
        },
        "load1" => match drive(dl.load_one(ks[0]), sp)? {
            Ok(v) => Out::Map(v.map(|v| (ks[0].into(), v)).into_iter().collect()),
            Err(()) => Out::Err,
        },
        "feed" => {
            if ks.len() == 1 {
                drive(dl.feed_one(ks[0], vs[0]), sp)?;
            } else {
                drive(dl.feed_many(ks.into_iter().zip(vs)), sp)?;
            }
            Out::Unit
        }
        "clear" => {
            dl.clear::<K>();
            Out::Unit
        }
        "clear1" => {
            dl.clear_one::<K>(&ks[0]);
            Out::Unit
        }
        "enable" => {
            drive(dl.enable_cache::<K>(b), sp)?;
            Out::Unit
        }
        "peek" => Out::Map(sorted(drive(dl.get_cached_values::<K>(), sp)?)),
        other => tool_error(&format!("unknown op {other}")),
    })
}

fn run_case<C: CacheFactory>(dl: DataLoader<L, C>, sp: ManualSpawner, case: &J) -> Vec<J> {
    let mut obs = Vec::new();
    for op in case["ops"].as_array().unwrap() {
        let r = catch_unwind(AssertUnwindSafe(|| {
            if op["op"] == "enableall" {
                dl.enable_all_cache(op["b"].as_bool().unwrap());
                return Some(Out::Unit);
            }
            match op["t"].as_str().unwrap() {
                "a" => op_typed::<i32, C>(&dl, &sp, op),
                "b" => op_typed::<i64, C>(&dl, &sp, op),
                t => tool_error(&format!("unknown key type {t}")),
            }
        }));
        let calls: Vec<J> = std::mem::take(&mut *dl.loader().log.lock().unwrap()).into_iter().map(|(n, ks)| json!({"n": n, "ks": ks})).collect();
        let (panic, hang, err, res) = match r {
            Err(_) => (true, false, false, vec![]),
            Ok(None) => (false, true, false, vec![]),
            Ok(Some(Out::Err)) => (false, false, true, vec![]),
            Ok(Some(Out::Unit)) => (false, false, false, vec![]),
            Ok(Some(Out::Map(m))) => (false, false, false, m),
        };
        let res: Vec<J> = res.into_iter().map(|(k, v)| json!({"k": k, "v": v})).collect();
        obs.push(json!({"panic": panic, "hang": hang, "err": err, "res": res, "calls": calls}));
    }
    obs
}

fn main() {
    let args: Vec<String> = std::env::args().collect();
    if args.len() < 3 {
        tool_error("usage: c29 <cases.ndjson> <out.ndjson>");
    }
    std::panic::set_hook(Box::new(|_| {})); // panics of the code under test are data
    let cases = read_ndjson(&args[1]);
    let mut out = NdWriter::create(&args[2]);
    let mut n = 0;
    for case in cases {
        let holes: HashSet<i64> = case["holes"].as_array().unwrap().iter().map(|k| k.as_i64().unwrap()).collect();
        let loader = L { n: AtomicU64::new(0), log: Mutex::new(Vec::new()), holes };
        let sp = ManualSpawner::default();
        let mbs = case["mbs"].as_u64().unwrap() as usize;
        let obs = match case["kind"].as_str().unwrap() {
            "none" => run_case(DataLoader::new(loader, sp.clone(), ImmediateTimer).max_batch_size(mbs), sp, &case),
            "map" => run_case(DataLoader::with_cache(loader, sp.clone(), ImmediateTimer, HashMapCache::default()).max_batch_size(mbs), sp, &case),
            "lru" => {
                let cap = case["cap"].as_u64().unwrap() as usize;
                run_case(DataLoader::with_cache(loader, sp.clone(), ImmediateTimer, LruCache::new(cap)).max_batch_size(mbs), sp, &case)
            }
            k => tool_error(&format!("unknown cache kind {k}")),
        };
        let mut o = case.clone();
        o["obs"] = J::Array(obs);
        out.write(&o);
        n += 1;
    }
    out.finish();
    println!("{{\"cases\": {n}}}");
}
