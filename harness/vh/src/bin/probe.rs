use async_graphql::*;
#[derive(Interface)]
#[graphql(field(name = "id", ty = "ID"))]
pub enum Entity { Company(Company), Organization(Organization) }
#[derive(Interface)]
#[graphql(field(name = "id", ty = "ID"))]
pub enum Node { Entity(Entity) }
pub struct Company {}
#[Object]
impl Company { pub async fn id(&self) -> ID { "88".into() } pub async fn c(&self) -> i32 { 1 } }
pub struct Organization {}
#[Object]
impl Organization { pub async fn id(&self) -> ID { "99".into() } }
struct Query;
#[Object]
impl Query {
    async fn company(&self) -> Node { Entity::Company(Company {}).into() }
    async fn entity(&self) -> Entity { Entity::Organization(Organization {}) }
}
fn main() {
    let schema = Schema::new(Query, EmptyMutation, EmptySubscription);
    for q in ["{ company { __typename id } }", "{ company { ... on Company { c } } }", "{ company { ... on Entity { id } } }",
              "{ entity { __typename ... on Node { id } } }",
              "{ __type(name: \"Node\") { possibleTypes { kind name } } c: __type(name: \"Company\") { interfaces { name } } }"] {
        let r = futures_executor::block_on(schema.execute(q));
        println!("{q}\n  => {}", serde_json::to_string(&r).unwrap());
    }
    println!("{}", schema.sdl());
}
