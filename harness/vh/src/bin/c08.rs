//! C08 harness: built-in input validators.  Drives and records only; TLC (ValidatorsTrace.tla) judges.
//!
//! usage: c08 family <out.json>                 -- print the annotated family (single source of truth for TLC)
//!        c08 run <cases.ndjson> <out.ndjson>   -- execute cases
//!
//! The family is one derive-built schema: a field per (validator kind x Rust type x bound) whose single
//! argument `v` carries the annotation, and an input object `In` whose optional fields carry a subset of the
//! same annotations.  The `family!` macro expands to the `#[Object]` impl / `#[derive(InputObject)]` struct
//! *and* to a table holding the literal text of each annotation (`stringify!`), so the table that TLC reads
//! cannot diverge from what the derive macros compiled.
//!
//! A case is `{field, site: "arg"|"obj", route: "lit"|"var", mode: "strict"|"fast", v}`; the value is sent as a
//! literal or as a variable through `Schema::execute` of a schema built with the given validation mode; the
//! resolver logs its invocation.  Observation: resolver calls, response errors (with paths), panic.
use async_graphql::{EmptyMutation, EmptySubscription, ID, InputObject, Name, Number, Object, Request, Schema, ValidationMode, Value, Variables};
use indexmap::IndexMap;
use serde_json::{Value as J, json};
use std::panic::{AssertUnwindSafe, catch_unwind};
use vh::io::*;

thread_local! { static CALLS: std::cell::RefCell<Vec<&'static str>> = std::cell::RefCell::new(Vec::new()); }
fn hit(name: &'static str) -> bool { CALLS.with(|c| c.borrow_mut().push(name)); true }

struct Query;

macro_rules! family {
    (args { $( $name:ident : $t:ty => ( $($v:tt)* ) ; )* }
     fields { $( $fname:ident : $ft:ty => ( $($fv:tt)* ) ; )* }
     dargs { $( $dname:ident : $dt:ty = ( $($dd:tt)* ) => ( $($dv:tt)* ) ; )* }
     dfields { $( $dfname:ident : $dft:ty = ( $($dfd:tt)* ) => ( $($dfv:tt)* ) ; )* }) => {
        #[Object(rename_fields = "snake_case", rename_args = "snake_case")]
        impl Query {
            $( async fn $name(&self, #[graphql(validator($($v)*))] v: $t) -> bool { let _ = v; hit(stringify!($name)) } )*
            $( async fn $dname(&self, #[graphql($($dd)*, validator($($dv)*))] v: $dt) -> bool { let _ = v; hit(stringify!($dname)) } )*
            async fn obj(&self, input: In) -> bool { let _ = input; hit("obj") }
        }
        #[derive(InputObject)]
        #[graphql(rename_fields = "snake_case")]
        struct In {
            $( #[graphql(validator($($fv)*))] $fname: Option<$ft>, )*
            $( #[graphql($($dfd)*, validator($($dfv)*))] $dfname: $dft, )*
        }
        // (name, Rust type, validators, default attribute, wrapped in Option by the macro)
        const ARGS: &[(&str, &str, &str, &str, bool)] = &[
            $( (stringify!($name), stringify!($t), stringify!($($v)*), "", false), )*
            $( (stringify!($dname), stringify!($dt), stringify!($($dv)*), stringify!($($dd)*), false), )* ];
        const FIELDS: &[(&str, &str, &str, &str, bool)] = &[
            $( (stringify!($fname), stringify!($ft), stringify!($($fv)*), "", true), )*
            $( (stringify!($dfname), stringify!($dft), stringify!($($dfv)*), stringify!($($dfd)*), false), )* ];
    };
}

family! {
    args {
        // integer types, integer bounds
        max_i8: i8 => (maximum = 100);          min_i8: i8 => (minimum = 10);          mul_i8: i8 => (multiple_of = 3);
        max_i16: i16 => (maximum = 100);        min_i16: i16 => (minimum = 10);        mul_i16: i16 => (multiple_of = 3);
        max_i32: i32 => (maximum = 100);        min_i32: i32 => (minimum = 10);        mul_i32: i32 => (multiple_of = 3);
        max_i64: i64 => (maximum = 100);        min_i64: i64 => (minimum = 10);        mul_i64: i64 => (multiple_of = 3);
        max_isize: isize => (maximum = 100);    min_isize: isize => (minimum = 10);    mul_isize: isize => (multiple_of = 3);
        max_u8: u8 => (maximum = 100);          min_u8: u8 => (minimum = 10);          mul_u8: u8 => (multiple_of = 3);
        max_u16: u16 => (maximum = 100);        min_u16: u16 => (minimum = 10);        mul_u16: u16 => (multiple_of = 3);
        max_u32: u32 => (maximum = 100);        min_u32: u32 => (minimum = 10);        mul_u32: u32 => (multiple_of = 3);
        max_u64: u64 => (maximum = 100);        min_u64: u64 => (minimum = 10);        mul_u64: u64 => (multiple_of = 3);
        max_usize: usize => (maximum = 100);    min_usize: usize => (minimum = 10);    mul_usize: usize => (multiple_of = 3);
        // bounds at the extremes, long division
        max_i64_big: i64 => (maximum = 9223372036854775806);
        min_i64_big: i64 => (minimum = 9223372036854775806);
        max_u64_big: u64 => (maximum = 9223372036854775806);
        min_u64_big: u64 => (minimum = 9223372036854775806);
        max_u64_top: u64 => (maximum = 9223372036854775807);
        mul_i64_p32: i64 => (multiple_of = 4294967296);
        mul_u64_p32: u64 => (multiple_of = 4294967296);
        mul_i64_3e9: i64 => (multiple_of = 3000000000);
        mul_u64_3e9: u64 => (multiple_of = 3000000000);
        mul_u32_7: u32 => (multiple_of = 7);
        // several predicates on one argument
        range_i32: i32 => (minimum = 10, maximum = 100);
        range_mul_u8: u8 => (minimum = 10, maximum = 100, multiple_of = 5);
        // integer types, float bounds
        maxf_i32: i32 => (maximum = 10.5);      minf_i32: i32 => (minimum = 10.5);     mulf_i32: i32 => (multiple_of = 2.5);
        maxf_i64: i64 => (maximum = 9007199254740992.0);
        minf_u64: u64 => (minimum = 9007199254740996.0);
        // negative bounds
        min_i32_neg: i32 => (minimum = -5);     max_i8_neg: i8 => (maximum = -100);    min_f64_neg: f64 => (minimum = -10);
        mul_i32_neg: i32 => (multiple_of = -4); minf_f32_neg: f32 => (minimum = -10.5);
        // float types, integer bounds
        max_f32: f32 => (maximum = 10);         min_f32: f32 => (minimum = 10);        mul_f32: f32 => (multiple_of = 3);
        max_f64: f64 => (maximum = 10);         min_f64: f64 => (minimum = 10);        mul_f64: f64 => (multiple_of = 3);
        // float types, float bounds
        maxf_f32: f32 => (maximum = 10.5);      minf_f32: f32 => (minimum = 10.5);     mulf_f32: f32 => (multiple_of = 2.5);
        maxf_f64: f64 => (maximum = 10.5);      minf_f64: f64 => (minimum = 10.5);     mulf_f64: f64 => (multiple_of = 2.5);
        // strings
        maxlen: String => (max_length = 4);     minlen: String => (min_length = 3);
        cmaxlen: String => (chars_max_length = 4);  cminlen: String => (chars_min_length = 3);
        len_both: String => (min_length = 2, max_length = 4);
        clen_len: String => (chars_min_length = 2, max_length = 6);
        maxlen_id: ID => (max_length = 4);
        re_a: String => (regex = "^a+$");       re_d: String => (regex = "^[0-9]{2}$");  re_b: String => (regex = "b");
        re_d_len: String => (regex = "b", chars_max_length = 3);
        // lists and optional values
        maxitems: Vec<i32> => (max_items = 2);  minitems: Vec<i32> => (min_items = 2);
        items_both: Vec<String> => (min_items = 1, max_items = 2);
        list_max: Vec<i32> => (list, maximum = 3);
        list_mul_u64: Vec<u64> => (list, multiple_of = 3);
        list_maxlen_items: Vec<String> => (list, max_length = 3, max_items = 2);
        list_re: Vec<String> => (list, regex = "^[0-9]{2}$");
        optlist_max: Option<Vec<i32>> => (list, maximum = 3);
        opt_max: Option<i32> => (maximum = 10);
        opt_minlen: Option<String> => (min_length = 3);
    }
    fields {
        f_max_i32: i32 => (maximum = 100);
        f_min_u64_big: u64 => (minimum = 9223372036854775806);
        f_mul_u64: u64 => (multiple_of = 3);
        f_max_f64: f64 => (maximum = 10);
        f_maxlen: String => (max_length = 4);
        f_cminlen: String => (chars_min_length = 3);
        f_re_d: String => (regex = "^[0-9]{2}$");
        f_list_max: Vec<i32> => (list, maximum = 3);
        f_maxitems: Vec<i32> => (max_items = 2);
    }
    // arguments with a default: every default form x numeric / string-length / list validators
    dargs {
        ad_max_i32: i32 = (default = 10) => (maximum = 100);
        ad_min_i32: i32 = (default) => (minimum = -5);
        ad_mul_u64: u64 = (default = 3) => (multiple_of = 3);
        ad_maxlen: String = (default_with = "\"ab\".to_string()") => (max_length = 4);
        ad_cminlen: String = (default = "abc") => (chars_min_length = 3);
        ad_list_max: Vec<i32> = (default_with = "vec![1, 2]") => (list, maximum = 3);
        ad_minitems: Vec<i32> = (default_with = "vec![1, 2]") => (min_items = 2);
        ad_maxitems: Vec<i32> = (default) => (max_items = 2);
        ad_opt_max: Option<i32> = (default) => (maximum = 10);
        ad_bad_dflt: i32 = (default = 500) => (maximum = 100);
    }
    // input-object fields with a default (a separate branch of the InputObject derive)
    dfields {
        fd_max_i32: i32 = (default = 10) => (maximum = 100);
        fd_min_i32: i32 = (default) => (minimum = -5);
        fd_mul_u8: u8 = (default = 6) => (multiple_of = 3);
        fd_max_f64: f64 = (default = 1.5) => (maximum = 10);
        fd_maxlen: String = (default = "ab") => (max_length = 4);
        fd_minlen: String = (default_with = "\"abcd\".to_string()") => (min_length = 3);
        fd_cmaxlen: String = (default) => (chars_max_length = 2);
        fd_re_d: String = (default = "12") => (regex = "^[0-9]{2}$");
        fd_list_max: Vec<i32> = (default_with = "vec![1, 2]") => (list, maximum = 3);
        fd_maxitems: Vec<i32> = (default) => (max_items = 2);
        fd_list_maxlen: Vec<String> = (default) => (list, max_length = 3, max_items = 2);
        fd_opt_max: Option<i32> = (default) => (maximum = 10);
    }
}

type S = Schema<Query, EmptyMutation, EmptySubscription>;

// ---------------------------------------------------------------------------------------------
// the family as data
fn digits(s: &str) -> Vec<u32> { s.chars().map(|c| c.to_digit(10).unwrap_or_else(|| tool_error(&format!("bad digit in {s}")))).collect() }

/// A decimal literal -> {lit, neg, d, scale} (value = d * 10^-scale).
fn num_of(text: &str) -> J {
    let t: String = text.chars().filter(|c| !c.is_whitespace()).collect();
    let (neg, t) = match t.strip_prefix('-') { Some(r) => (true, r.to_string()), None => (false, t) };
    let (lit, int, frac) = match t.split_once('.') { Some((a, b)) => ("float", a.to_string(), b.to_string()), None => ("int", t.clone(), String::new()) };
    let frac = frac.trim_end_matches('0').to_string();
    let all = format!("{int}{frac}");
    let all = all.trim_start_matches('0');
    let all = if all.is_empty() { "0" } else { all };
    json!({"lit": lit, "neg": neg, "d": digits(all), "scale": frac.len()})
}

fn type_desc(t: &str) -> (String, &'static str) {
    let t: String = t.chars().filter(|c| !c.is_whitespace()).collect();
    if let Some(r) = t.strip_prefix("Option<Vec<") { (r.trim_end_matches('>').to_string(), "optlist") }
    else if let Some(r) = t.strip_prefix("Vec<") { (r.trim_end_matches('>').to_string(), "list") }
    else if let Some(r) = t.strip_prefix("Option<") { (r.trim_end_matches('>').to_string(), "opt") }
    else { (t, "plain") }
}

fn gql_type(base: &str, cont: &str) -> String {
    let b = match base {
        "f32" | "f64" => "Float", "String" => "String", "ID" => "ID",
        _ => "Int",
    };
    match cont { "plain" => format!("{b}!"), "opt" => b.to_string(), "list" => format!("[{b}!]!"), _ => format!("[{b}!]") }
}

fn none_value() -> J { json!({"k": "none", "lit": "", "neg": false, "d": [], "scale": 0, "cp": [], "items": []}) }

fn annotation(name: &str, ty: &str, vals: &str, dflt_attr: &str, wrapped: bool, site: &str) -> J {
    let (base, cont) = type_desc(ty);
    let cont = if wrapped { match cont { "plain" => "opt", "list" => "optlist", c => c } } else { cont };
    let mut list = false;
    let mut out = Vec::new();
    for part in vals.split(',') {
        let part = part.trim();
        if part == "list" { list = true; continue; }
        let (k, v) = part.split_once('=').unwrap_or_else(|| tool_error(&format!("cannot read annotation {part}")));
        let (k, v) = (k.trim(), v.trim());
        let zero = json!({"lit": "int", "neg": false, "d": [0], "scale": 0});
        let (b, n, re) = match k {
            "maximum" | "minimum" | "multiple_of" => (num_of(v), 0u64, String::new()),
            "regex" => (zero, 0, v.trim_matches('"').to_string()),
            _ => (zero, v.parse::<u64>().unwrap_or_else(|_| tool_error(&format!("cannot read bound {v}"))), String::new()),
        };
        out.push(json!({"kind": k, "b": b, "n": n, "re": re}));
    }
    json!({"name": name, "site": site, "T": base, "cont": cont, "list": list, "vals": out, "dflt_attr": dflt_attr, "dflt": none_value()})
}

/// A schema default (`defaultValue` of introspection: numbers, plain strings, lists of them, null) as an abstract value.
fn parse_default(text: &str, top: bool) -> J {
    let t = text.trim();
    let mut v = none_value();
    let o = v.as_object_mut().unwrap();
    if !top { o.remove("items"); }
    if t == "null" {
        o.insert("k".into(), json!("null"));
    } else if let Some(inner) = t.strip_prefix('[').and_then(|r| r.strip_suffix(']')) {
        if !top { tool_error("nested list default"); }
        let items: Vec<J> = if inner.trim().is_empty() { vec![] } else { inner.split(',').map(|x| parse_default(x, false)).collect() };
        o.insert("k".into(), json!("list"));
        o.insert("items".into(), json!(items));
    } else if let Some(inner) = t.strip_prefix('"').and_then(|r| r.strip_suffix('"')) {
        if inner.contains('\\') || inner.contains(',') { tool_error("default string with an escape or a comma"); }
        o.insert("k".into(), json!("str"));
        o.insert("cp".into(), json!(inner.chars().map(|c| c as u32).collect::<Vec<_>>()));
    } else {
        let n = num_of(t);
        o.insert("k".into(), json!("num"));
        for k in ["lit", "neg", "d", "scale"] { o.insert(k.into(), n[k].clone()); }
    }
    v
}

/// The annotated positions; defaults are read back from the compiled schema by introspection.
fn family() -> Vec<J> {
    let mut f: Vec<J> = ARGS.iter().map(|(n, t, v, d, w)| annotation(n, t, v, d, *w, "arg")).collect();
    f.extend(FIELDS.iter().map(|(n, t, v, d, w)| annotation(n, t, v, d, *w, "obj")));
    let schema: S = Schema::build(Query, EmptyMutation, EmptySubscription).finish();
    let q = "{ i: __type(name: \"In\") { inputFields { name defaultValue } } q: __type(name: \"Query\") { fields { name args { name defaultValue } } } }";
    let r = futures_executor::block_on(schema.execute(q));
    if !r.errors.is_empty() { tool_error(&format!("introspection failed: {:?}", r.errors)); }
    let data = serde_json::to_value(&r.data).unwrap();
    let mut defaults: std::collections::HashMap<(String, String), String> = std::collections::HashMap::new();
    for x in data["i"]["inputFields"].as_array().unwrap() {
        if let Some(d) = x["defaultValue"].as_str() { defaults.insert(("obj".into(), x["name"].as_str().unwrap().into()), d.into()); }
    }
    for fld in data["q"]["fields"].as_array().unwrap() {
        for a in fld["args"].as_array().unwrap() {
            if a["name"] == "v" { if let Some(d) = a["defaultValue"].as_str() { defaults.insert(("arg".into(), fld["name"].as_str().unwrap().into()), d.into()); } }
        }
    }
    for a in f.iter_mut() {
        let key = (a["site"].as_str().unwrap().to_string(), a["name"].as_str().unwrap().to_string());
        let declared = !a["dflt_attr"].as_str().unwrap().is_empty();
        match (declared, defaults.get(&key)) {
            (true, Some(d)) => { a["dflt"] = parse_default(d, true); }
            (false, None) => {}
            (d, s) => tool_error(&format!("{}: default declared = {d}, schema default = {s:?}", key.1)),
        }
    }
    f
}

// ---------------------------------------------------------------------------------------------
// abstract values: {k: "num"|"str"|"list"|"null", lit, neg, d, scale, cp, items}
fn num_text(v: &J) -> String {
    let d: String = v["d"].as_array().unwrap().iter().map(|x| char::from_digit(x.as_u64().unwrap() as u32, 10).unwrap()).collect();
    let scale = v["scale"].as_u64().unwrap() as usize;
    let mut s = String::new();
    if v["neg"].as_bool().unwrap() { s.push('-'); }
    if v["lit"] == "int" {
        if scale != 0 { tool_error("integer literal with a scale"); }
        s.push_str(&d);
    } else {
        let d = if d.len() <= scale { format!("{}{}", "0".repeat(scale + 1 - d.len()), d) } else { d };
        let (a, b) = d.split_at(d.len() - scale);
        s.push_str(a);
        s.push('.');
        s.push_str(if b.is_empty() { "0" } else { b });
    }
    s
}
fn cps(v: &J) -> String {
    v["cp"].as_array().unwrap().iter().map(|c| char::from_u32(c.as_u64().unwrap() as u32).unwrap_or_else(|| tool_error("cp is not a scalar value"))).collect()
}
fn literal(v: &J) -> String {
    match v["k"].as_str().unwrap() {
        "null" => "null".into(),
        "num" => num_text(v),
        "str" => {
            let mut s = String::from("\"");
            for c in cps(v).chars() {
                match c {
                    '"' => s.push_str("\\\""),
                    '\\' => s.push_str("\\\\"),
                    c if (c as u32) < 0x20 || c as u32 == 0x7f => s.push_str(&format!("\\u{:04x}", c as u32)),
                    c if (c as u32) < 0x80 || (c as u32) > 0xffff => s.push(c),
                    c => s.push_str(&format!("\\u{:04x}", c as u32)),
                }
            }
            s.push('"');
            s
        }
        "list" => format!("[{}]", v["items"].as_array().unwrap().iter().map(literal).collect::<Vec<_>>().join(", ")),
        k => tool_error(&format!("unknown value kind {k}")),
    }
}
fn to_gql(v: &J) -> Value {
    match v["k"].as_str().unwrap() {
        "null" => Value::Null,
        "num" => Value::Number(num_text(v).parse::<Number>().unwrap_or_else(|e| tool_error(&format!("number: {e}")))),
        "str" => Value::String(cps(v)),
        "list" => Value::List(v["items"].as_array().unwrap().iter().map(to_gql).collect()),
        k => tool_error(&format!("unknown value kind {k}")),
    }
}

fn run_case(strict: &S, fast: &S, fam: &std::collections::HashMap<String, J>, id: usize, c: &J) -> J {
    let field = c["field"].as_str().unwrap();
    let ann = fam.get(field).unwrap_or_else(|| tool_error(&format!("no field {field} in the family")));
    let site = ann["site"].as_str().unwrap();
    let v = &c["v"];
    let schema = match c["mode"].as_str().unwrap() { "strict" => strict, "fast" => fast, m => tool_error(&format!("unknown mode {m}")) };
    let ty = gql_type(ann["T"].as_str().unwrap(), ann["cont"].as_str().unwrap());
    let omitted = v["k"] == "omitted";
    let request = match (site, c["route"].as_str().unwrap()) {
        ("arg", "lit") if omitted => Request::new(format!("{{ {field} }}")),
        ("obj", "lit") if omitted => Request::new("{ obj(input: {}) }".to_string()),
        ("arg", "var") if omitted => tool_error("an omitted variable for an argument is not a C08 case"),
        ("arg", "lit") => Request::new(format!("{{ {field}(v: {}) }}", literal(v))),
        ("obj", "lit") => Request::new(format!("{{ obj(input: {{ {field}: {} }}) }}", literal(v))),
        ("arg", "var") => {
            let mut m = IndexMap::new();
            m.insert(Name::new("v"), to_gql(v));
            Request::new(format!("query($v: {ty}) {{ {field}(v: $v) }}")).variables(Variables::from_value(Value::Object(m)))
        }
        ("obj", "var") => {
            let mut o = IndexMap::new();
            if !omitted { o.insert(Name::new(field), to_gql(v)); }
            let mut m = IndexMap::new();
            m.insert(Name::new("v"), Value::Object(o));
            Request::new("query($v: In!) { obj(input: $v) }".to_string()).variables(Variables::from_value(Value::Object(m)))
        }
        (s, r) => tool_error(&format!("unknown site/route {s}/{r}")),
    };
    let note = if c["route"] == "lit" { request.query.clone() } else if omitted { format!("{} v={{}}", request.query) } else { format!("{} v={}", request.query, to_gql(v)) };
    let expect = if site == "arg" { field } else { "obj" };
    CALLS.with(|l| l.borrow_mut().clear());
    let (mut panic, mut calls, mut errs, mut on_field) = (false, 0usize, 0usize, true);
    let mut paths: Vec<J> = Vec::new();
    match catch_unwind(AssertUnwindSafe(|| futures_executor::block_on(schema.execute(request)))) {
        Ok(resp) => {
            errs = resp.errors.len();
            for e in &resp.errors {
                let p: Vec<String> = e.path.iter().map(|s| match s { async_graphql::PathSegment::Field(f) => f.clone(), async_graphql::PathSegment::Index(i) => i.to_string() }).collect();
                // "an error for that field": the error's path, when it has one, names the field
                if !p.is_empty() && p[0] != expect { on_field = false; }
                paths.push(json!(p));
            }
            CALLS.with(|l| {
                let l = l.borrow();
                calls = l.len();
                if l.iter().any(|n| *n != expect) { tool_error("another resolver ran"); }
            });
        }
        Err(_) => panic = true,
    }
    json!({"id": id, "field": field, "site": site, "route": c["route"], "mode": c["mode"], "v": v, "ann": ann,
           "panic": panic, "calls": calls, "errs": errs, "on_field": on_field, "paths": paths, "note": note})
}

fn main() {
    let args: Vec<String> = std::env::args().collect();
    std::panic::set_hook(Box::new(|_| {}));
    let fam = family();
    match args.get(1).map(|s| s.as_str()) {
        Some("family") if args.len() == 3 => {
            std::fs::write(&args[2], serde_json::to_string(&fam).unwrap()).unwrap_or_else(|e| tool_error(&format!("write: {e}")));
        }
        Some("run") if args.len() == 4 => {
            let strict: S = Schema::build(Query, EmptyMutation, EmptySubscription).finish();
            let fast: S = Schema::build(Query, EmptyMutation, EmptySubscription).validation_mode(ValidationMode::Fast).finish();
            let by_name: std::collections::HashMap<String, J> = fam.iter().map(|a| (a["name"].as_str().unwrap().to_string(), a.clone())).collect();
            let cases = read_ndjson(&args[2]);
            let mut out = NdWriter::create(&args[3]);
            for (i, c) in cases.iter().enumerate() { out.write(&run_case(&strict, &fast, &by_name, i + 1, c)); }
            out.finish();
            println!("{{\"cases\": {}}}", cases.len());
        }
        _ => tool_error("usage: c08 family <out.json> | c08 run <cases.ndjson> <out.ndjson>"),
    }
}
