//! Shared execution runner for the reference-semantics checks (C01 C02 C03 C04 C05 C22 C30).
//! Reads cases (DESIGN appendix A), prints each abstract document to text, executes it on the static
//! family (`flavour: "static"`) or on a dynamic schema built from the case's type system
//! (`flavour: "dynamic"`), with the case's world, variables and gate schedule, and writes the case back
//! with the observation: ordered data, errors (path, locations), cache policy, resolver event log.
//!
//! usage: cexec <cases.ndjson> <out.ndjson> [schema.json for dynamic flavour]
use async_graphql::{Request, Response};
use async_graphql::futures_util::StreamExt;
use serde_json::{Value as J, json};
use vh::io::*;
use vh::{doc, dynfam, exec, fam, resp, world::Req};

fn vars_json(vars: &J) -> J {
    let mut m = serde_json::Map::new();
    for v in vars.as_array().map(|a| a.as_slice()).unwrap_or(&[]) {
        m.insert(v["name"].as_str().unwrap().to_string(), plain(&v["val"]));
    }
    J::Object(m)
}
/// abstract value -> plain JSON (for variables)
fn plain(v: &J) -> J {
    match v["k"].as_str().unwrap_or("null") {
        "null" => J::Null,
        "bool" => v["v"].clone(),
        "int" => v["v"].as_str().and_then(|s| s.parse::<i64>().ok()).map(|i| json!(i)).unwrap_or(J::Null),
        "float" => v["v"].as_str().and_then(|s| s.parse::<f64>().ok()).map(|f| json!(f)).unwrap_or(J::Null),
        "str" | "enum" => v["v"].clone(),
        "list" => J::Array(v["items"].as_array().unwrap().iter().map(plain).collect()),
        "obj" => J::Object(v["entries"].as_array().unwrap().iter().map(|e| (e["key"].as_str().unwrap().to_string(), plain(&e["val"]))).collect()),
        _ => J::Null,
    }
}

/// A pass-through extension: registering it switches the executors to their extension-aware code paths
/// (resolver_utils/container.rs, list.rs, dynamic/resolve.rs), which must behave like the fast paths.
struct Noop;
impl async_graphql::extensions::ExtensionFactory for Noop {
    fn create(&self) -> std::sync::Arc<dyn async_graphql::extensions::Extension> { std::sync::Arc::new(NoopExt) }
}
struct NoopExt;
impl async_graphql::extensions::Extension for NoopExt {}

fn main() {
    let args: Vec<String> = std::env::args().collect();
    if args.len() < 3 { tool_error("usage: cexec <cases.ndjson> <out.ndjson> [schema.json]"); }
    let cases = read_ndjson(&args[1]);
    let mut out = NdWriter::create(&args[2]);
    let static_schema = fam::schema();
    let static_schema_ext = fam::builder().extension(Noop).finish();
    let dyn_default: Option<J> = args.get(3).map(|p| serde_json::from_str(&std::fs::read_to_string(p).unwrap()).unwrap());
    if let Some(m) = &dyn_default {
        let diffs = vh::mirror::check(&static_schema, m);
        if !diffs.is_empty() { tool_error(&format!("schema mirror {} does not match the compiled static family: {:?}", args[3], diffs)); }
    }
    let mut n = 0usize;
    for mut case in cases {
        let mut d = case["doc"].clone();
        let text = doc::print(&mut d);
        case["doc"] = d;
        case["text"] = json!(text);
        let req_data = Req::new(case["world"].clone());
        let schedule: Vec<u64> = case["schedule"].as_array().map(|a| a.iter().filter_map(|x| x.as_u64()).collect()).unwrap_or_default();
        let op_name = case["doc"]["ops"][case["opIndex"].as_u64().unwrap_or(1) as usize - 1]["name"].as_str().unwrap_or("").to_string();
        let mut request = Request::new(text.clone()).variables(exec::vars_from_json(&vars_json(&case["vars"]))).data(req_data.clone());
        if !op_name.is_empty() { request = request.operation_name(op_name); }
        let flavour = case["flavour"].as_str().unwrap_or("static").to_string();
        let result: Result<Result<Response, String>, String> = exec::catch(|| {
            let with_ext = case["ext"].as_bool().unwrap_or(false);
            let stream = case["stream"].as_bool().unwrap_or(false);
            if flavour == "static" {
                let schema = if with_ext { &static_schema_ext } else { &static_schema };
                if stream {
                    // the entry point the WebSocket / multipart transports use: first item of execute_stream
                    exec::run_gated(Box::pin(async move { let mut s = Box::pin(schema.execute_stream(request)); s.next().await.expect("execute_stream ended without a response") }), &req_data, &schedule)
                } else {
                    exec::run_gated(Box::pin(schema.execute(request)), &req_data, &schedule)
                }
            } else {
                let ts = if case["ts"].is_object() { case["ts"].clone() } else { dyn_default.clone().unwrap_or(J::Null) };
                let built = if with_ext { dynfam::builder(&ts).and_then(|b| b.extension(Noop).finish().map_err(|e| e.to_string())) } else { dynfam::build(&ts) };
                match built {
                    Ok(schema) if stream => exec::run_gated(Box::pin(async { let mut s = Box::pin(schema.execute_stream(request)); s.next().await.expect("execute_stream ended without a response") }), &req_data, &schedule),
                    Ok(schema) => exec::run_gated(Box::pin(schema.execute(request)), &req_data, &schedule),
                    Err(e) => Err(format!("dynamic schema build failed: {e}")),
                }
            }
        });
        let obs = match result {
            Ok(Ok(r)) => { let mut o = resp::response(&r); o["log"] = json!(req_data.take_log()); o["problem"] = json!(""); o }
            Ok(Err(e)) => json!({"data": {"k": "null"}, "errors": [], "log": req_data.take_log(), "problem": e, "cache": {"public": true, "maxAge": 0}, "extensions": []}),
            Err(p) => json!({"data": {"k": "null"}, "errors": [], "log": req_data.take_log(), "problem": format!("panic: {p}"), "cache": {"public": true, "maxAge": 0}, "extensions": []}),
        };
        case["obs"] = obs;
        out.write(&case);
        n += 1;
    }
    out.finish();
    println!("{{\"cases\": {n}}}");
}
