//! C14 harness: render TLC-generated "ignored token" prefixes into documents, parse / execute them
//! with the real library and log every reported position together with the index (in Unicode
//! scalar values) of the token the position refers to.  TLC (PositionTrace.tla) computes the
//! expected line/column with the Position automaton.
//!
//! usage: c14 <prefixes.ndjson> <out.ndjson> <max-insertion-points>
use async_graphql::parser::types::*;
use async_graphql::parser::{Pos, parse_query};
use async_graphql::*;
use serde_json::{Value as J, json};
use std::collections::HashMap;
use vh::io::*;

struct T;
#[Object]
impl T {
    async fn leaf(&self) -> i32 { 1 }
    async fn other(&self) -> i32 { 2 }
    async fn fleaf(&self) -> i32 { 3 }
    async fn boom(&self) -> Result<i32> { Err("boom".into()) }
}
struct Query;
#[Object]
impl Query {
    async fn obj(&self, x: Option<i32>, s: Option<String>) -> T { let _ = (x, s); T }
    async fn a(&self) -> i32 { 1 }
    async fn fail(&self) -> Result<Option<i32>> { Err("fail".into()) }
}

fn class_char(c: &str) -> char {
    match c {
        "CR" => '\r', "LF" => '\n', "TAB" => '\t', "SP" => ' ', "COMMA" => ',', "BOM" => '\u{feff}',
        "HASH" => '#', "A1" => 'x', "U2" => '\u{e9}', "U3" => '\u{20ac}', "U4" => '\u{1F600}', "QUOTE" => '"',
        _ => tool_error(&format!("unknown class {c}")),
    }
}
fn char_class(c: char) -> &'static str {
    match c {
        '\r' => "CR", '\n' => "LF", '\t' => "TAB", ' ' => "SP", ',' => "COMMA", '\u{feff}' => "BOM", '#' => "HASH",
        '"' => "QUOTE", c if (c as u32) < 0x80 => "A1", c if (c as u32) < 0x800 => "U2", c if (c as u32) < 0x10000 => "U3",
        _ => "U4",
    }
}

/// A rendered document: text + 1-based scalar-value index of each labelled token.
struct Doc { text: String, at: HashMap<String, usize> }

/// tokens: (label, text).  The prefix is inserted before token `ins` (mode "ign": as ignored tokens,
/// mode "blk": inside a block-string argument value that precedes token `ins`).
fn render(tokens: &[(&str, &str)], ins: usize, prefix: &str) -> Doc {
    let mut text = String::new();
    let mut at = HashMap::new();
    let mut n = 0usize; // scalar values so far
    for (i, (label, tok)) in tokens.iter().enumerate() {
        if i == ins {
            text.push_str(prefix);
            n += prefix.chars().count();
        }
        if !label.is_empty() {
            at.insert(label.to_string(), n + 1);
        }
        text.push_str(tok);
        n += tok.chars().count();
        text.push(' ');
        n += 1;
    }
    Doc { text, at }
}

fn obs(out: &mut Vec<J>, d: &Doc, label: &str, what: &str, p: Pos) {
    match d.at.get(label) {
        Some(k) => out.push(json!({"k": k, "line": p.line, "col": p.column, "what": what, "label": label})),
        None => tool_error(&format!("harness: no token labelled {label} ({what})")),
    }
}

fn walk_dirs(out: &mut Vec<J>, d: &Doc, dirs: &[Positioned<Directive>]) {
    for dir in dirs {
        let n = dir.node.name.node.as_str();
        obs(out, d, &format!("@{n}"), "directive", dir.pos);
        for (an, av) in &dir.node.arguments {
            obs(out, d, &format!("arg:{n}.{}", an.node), "directive-arg-name", an.pos);
            obs(out, d, &format!("val:{n}.{}", an.node), "directive-arg-value", av.pos);
        }
    }
}

fn walk_set(out: &mut Vec<J>, d: &Doc, set: &Positioned<SelectionSet>, brace: &mut usize) {
    if set.node.items.is_empty() { return; }
    *brace += 1;
    obs(out, d, &format!("{{{}", *brace), "selection-set", set.pos);
    for sel in &set.node.items {
        match &sel.node {
            Selection::Field(f) => {
                let name = f.node.name.node.as_str();
                let first = match &f.node.alias { Some(a) => format!("alias:{}", a.node), None => format!("field:{name}") };
                obs(out, d, &first, "selection(field)", sel.pos);
                obs(out, d, &first, "field", f.pos);
                if let Some(a) = &f.node.alias { obs(out, d, &format!("alias:{}", a.node), "alias", a.pos); }
                obs(out, d, &format!("field:{name}"), "field-name", f.node.name.pos);
                for (an, av) in &f.node.arguments {
                    obs(out, d, &format!("arg:{name}.{}", an.node), "arg-name", an.pos);
                    obs(out, d, &format!("val:{name}.{}", an.node), "arg-value", av.pos);
                }
                walk_dirs(out, d, &f.node.directives);
                walk_set(out, d, &f.node.selection_set, brace);
            }
            Selection::FragmentSpread(s) => {
                let n = s.node.fragment_name.node.as_str();
                obs(out, d, &format!("...{n}"), "selection(spread)", sel.pos);
                obs(out, d, &format!("...{n}"), "spread", s.pos);
                obs(out, d, &format!("fragname:{n}"), "spread-name", s.node.fragment_name.pos);
                walk_dirs(out, d, &s.node.directives);
            }
            Selection::InlineFragment(i) => {
                let t = i.node.type_condition.as_ref().map(|t| t.node.on.node.to_string()).unwrap_or_default();
                obs(out, d, &format!("...on:{t}"), "selection(inline)", sel.pos);
                obs(out, d, &format!("...on:{t}"), "inline", i.pos);
                if let Some(tc) = &i.node.type_condition {
                    obs(out, d, &format!("on:{t}"), "type-condition", tc.pos);
                    obs(out, d, &format!("tc:{t}"), "type-condition-name", tc.node.on.pos);
                }
                walk_dirs(out, d, &i.node.directives);
                walk_set(out, d, &i.node.selection_set, brace);
            }
        }
    }
}

const AST_TOKENS: &[(&str, &str)] = &[
    ("kw:query", "query"), ("", "Q"), ("", "("), ("$v", "$v"), ("", ":"), ("type:v", "Int"), ("", "="), ("default:v", "1"), ("", ")"),
    ("@dq", "@dq"), ("{1", "{"),
    ("alias:al", "al"), ("", ":"), ("field:obj", "obj"), ("", "("), ("arg:obj.x", "x"), ("", ":"), ("val:obj.x", "$v"),
    ("arg:obj.s", "s"), ("", ":"), ("val:obj.s", "\"str\""), ("", ")"),
    ("@skip", "@skip"), ("", "("), ("arg:skip.if", "if"), ("", ":"), ("val:skip.if", "false"), ("", ")"),
    ("{2", "{"), ("field:leaf", "leaf"), ("...F", "..."), ("fragname:F", "F"),
    ("...on:T", "..."), ("on:T", "on"), ("tc:T", "T"), ("@include", "@include"), ("", "("), ("arg:include.if", "if"), ("", ":"),
    ("val:include.if", "true"), ("", ")"), ("{3", "{"), ("field:other", "other"), ("", "}"), ("", "}"), ("field:a", "a"), ("", "}"),
    ("kw:fragment", "fragment"), ("", "F"), ("on:fragT", "on"), ("tc:fragT", "T"), ("@df", "@df"), ("{4", "{"), ("field:fleaf", "fleaf"), ("", "}"),
];

fn text_classes(text: &str) -> Vec<&'static str> { text.chars().map(char_class).collect() }

fn ast_case(id: usize, ins: usize, prefix: &str, mode: &str) -> J {
    let d = render(AST_TOKENS, ins, prefix);
    let mut o = Vec::new();
    let mut panic = json!("");
    match parse_query(&d.text) {
        Ok(doc) => {
            for (_n, op) in doc.operations.iter() {
                obs(&mut o, &d, "kw:query", "operation", op.pos);
                for v in &op.node.variable_definitions {
                    obs(&mut o, &d, "$v", "variable-definition", v.pos);
                    obs(&mut o, &d, "type:v", "variable-type", v.node.var_type.pos);
                    if let Some(dv) = &v.node.default_value { obs(&mut o, &d, "default:v", "variable-default", dv.pos); }
                }
                walk_dirs(&mut o, &d, &op.node.directives);
                let mut brace = 0;
                walk_set(&mut o, &d, &op.node.selection_set, &mut brace);
                for (_name, f) in &doc.fragments {
                    obs(&mut o, &d, "kw:fragment", "fragment-definition", f.pos);
                    obs(&mut o, &d, "on:fragT", "fragment-type-condition", f.node.type_condition.pos);
                    obs(&mut o, &d, "tc:fragT", "fragment-type-condition-name", f.node.type_condition.node.on.pos);
                    walk_dirs(&mut o, &d, &f.node.directives);
                    brace = 3;
                    walk_set(&mut o, &d, &f.node.selection_set, &mut brace);
                }
            }
        }
        Err(e) => panic = json!(format!("unexpected parse error: {e}")),
    }
    json!({"id": id, "kind": "ast", "site": "calc", "mode": mode, "ins": ins, "text": text_classes(&d.text), "src": d.text, "obs": o, "problem": panic})
}

fn run_schema(schema: &Schema<Query, EmptyMutation, EmptySubscription>, q: &str) -> Response {
    futures_executor::block_on(schema.execute(q))
}

fn main() {
    let args: Vec<String> = std::env::args().collect();
    if args.len() < 4 { tool_error("usage: c14 <prefixes.ndjson> <out.ndjson> <stride>"); }
    let prefixes = read_ndjson(&args[1]);
    let mut out = NdWriter::create(&args[2]);
    let stride: usize = args[3].parse().unwrap_or(7);
    let schema = Schema::build(Query, EmptyMutation, EmptySubscription).finish();
    let mut id = 0usize;
    for (pi, p) in prefixes.iter().enumerate() {
        let classes: Vec<String> = p.as_array().unwrap().iter().map(|c| c.as_str().unwrap().to_string()).collect();
        let prefix: String = classes.iter().map(|c| class_char(c)).collect();
        // (1) AST positions: prefix before a rotating subset of the template's tokens.
        let mut ins = pi % stride;
        while ins < AST_TOKENS.len() {
            // `on <comment> T` is mis-parsed by the crate (type_condition is an atomic rule): that is a
            // C13 matter (known finding there); C14 cannot attribute positions in a different tree.
            if AST_TOKENS[ins].0.starts_with("tc:") && classes.iter().any(|c| c == "HASH") { ins += stride; continue; }
            id += 1;
            out.write(&ast_case(id, ins, &prefix, "ign"));
            ins += stride;
        }
        // (2) prefix inside a block string argument (no QUOTE / comment-only restriction does not apply in strings)
        if !classes.iter().any(|c| c == "QUOTE") {
            let blk = format!("\"\"\"{prefix}\"\"\"");
            let toks: Vec<(&str, &str)> = vec![("{1", "{"), ("field:obj", "obj"), ("", "("), ("arg:obj.s", "s"), ("", ":"), ("val:obj.s", &blk), ("", ")"),
                ("{2", "{"), ("field:leaf", "leaf"), ("", "}"), ("field:a", "a"), ("", "}")];
            let d = render(&toks, usize::MAX, "");
            let mut o = Vec::new();
            let mut problem = json!("");
            match parse_query(&d.text) {
                Ok(doc) => for (_n, op) in doc.operations.iter() { let mut b = 0; walk_set(&mut o, &d, &op.node.selection_set, &mut b); },
                Err(e) => problem = json!(format!("unexpected parse error: {e}")),
            }
            id += 1;
            out.write(&json!({"id": id, "kind": "ast", "site": "calc", "mode": "blk", "text": text_classes(&d.text), "src": d.text, "obs": o, "problem": problem}));
        }
        // (3) syntax error: an illegal token after the prefix
        {
            let toks = [("{1", "{"), ("field:a", "a"), ("bad", "!"), ("", "}")];
            let d = render(&toks, 2, &prefix);
            let mut o = Vec::new();
            let mut problem = json!("");
            match parse_query(&d.text) {
                Err(async_graphql::parser::Error::Syntax { start, .. }) => obs(&mut o, &d, "bad", "syntax-error", start),
                other => problem = json!(format!("expected syntax error, got {:?}", other.map(|_| ()))),
            }
            id += 1;
            out.write(&json!({"id": id, "kind": "syntax", "site": "pest", "text": text_classes(&d.text), "src": d.text, "obs": o, "problem": problem}));
        }
        // (4) validation error (unknown field) and (5) execution errors (failing resolvers, top-level and nested)
        for (kind, toks, label) in [
            ("validation", vec![("{1", "{"), ("field:a", "a"), ("field:nosuch", "nosuch"), ("", "}")], "field:nosuch"),
            ("exec", vec![("{1", "{"), ("field:a", "a"), ("field:fail", "fail"), ("", "}")], "field:fail"),
            ("exec", vec![("{1", "{"), ("field:obj", "obj"), ("{2", "{"), ("field:leaf", "leaf"), ("field:boom", "boom"), ("", "}"), ("", "}")], "field:boom"),
        ] {
            let ins = toks.iter().position(|t| t.0 == label).unwrap();
            for at in [1usize, ins] {
                let d = render(&toks, at, &prefix);
                let resp = run_schema(&schema, &d.text);
                let mut o = Vec::new();
                let mut problem = json!("");
                if resp.errors.len() == 1 && resp.errors[0].locations.len() == 1 {
                    obs(&mut o, &d, label, &format!("{kind}-error"), resp.errors[0].locations[0]);
                } else {
                    problem = json!(format!("expected one error with one location, got {:?}", resp.errors));
                }
                id += 1;
                out.write(&json!({"id": id, "kind": kind, "site": "calc", "text": text_classes(&d.text), "src": d.text, "obs": o, "problem": problem}));
            }
        }
    }
    out.finish();
    println!("{{\"cases\": {id}}}");
}
