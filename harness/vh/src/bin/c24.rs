//! C24 harness: render TLC-generated multipart upload cases to real multipart/form-data bytes, decode them
//! with async_graphql::http::receive_batch_body / receive_body under the case's MultipartOptions, and record
//! the decoded variables (with a file node wherever an upload was bound), the number of uploads per request,
//! or the error class.  The harness only renders and records; TLC judges.
//!
//! usage: c24 <cases.ndjson> <out.ndjson> <seed>
#[path = "http_common/mod.rs"]
mod http_common;
use async_graphql::http::{MultipartOptions, receive_batch_body, receive_body};
use async_graphql::{BatchRequest, ParseRequestError, Request};
use http_common::*;
use serde_json::{Value as J, json};
use std::io::{Read, Seek, SeekFrom};
use std::panic::{AssertUnwindSafe, catch_unwind};
use vh::io::*;

const PLACEHOLDER: &str = "#__graphql_file__:";

fn file_content(name: &str, size: usize, seed: u64) -> Vec<u8> {
    let k = name.bytes().fold(seed as usize, |a, b| a.wrapping_mul(31).wrapping_add(b as usize));
    (0..size).map(|i| ((i.wrapping_mul(131).wrapping_add(k).wrapping_add(i / 7)) % 251) as u8).collect()
}

struct Rendered { bytes: Vec<u8>, ops_len: usize, map_len: usize }

fn render_case(c: &J, style: u32, ws: &str, seed: u64) -> Rendered {
    // operations: {"query": ..., "variables": <tree>} or a list of them
    let reqs: Vec<J> = c["ops"]["reqs"].as_array().unwrap().iter().map(|v| {
        node("obj", "", 0, vec![json!({"key": "query", "val": node("str", "UPDOC", 0, vec![])}), json!({"key": "variables", "val": v})])
    }).collect();
    let ops = if c["ops"]["kind"] == "single" { reqs[0].clone() } else { node("list", "", 0, reqs) };
    let ops_text = json_text(&ops, style, ws);
    let map_text = if c["map"]["kind"] == "broken" { "{\"0\": [\"variables.a\"".to_string() } else {
        let mut m = serde_json::Map::new();
        for e in c["map"]["entries"].as_array().unwrap() {
            let paths: Vec<J> = e["paths"].as_array().unwrap().iter().map(|p| {
                J::String(p.as_array().unwrap().iter().map(|s| s.as_str().unwrap()).collect::<Vec<_>>().join("."))
            }).collect();
            m.insert(e["name"].as_str().unwrap().to_string(), J::Array(paths));
        }
        serde_json::to_string(&J::Object(m)).unwrap()
    };
    let mut parts = Vec::new();
    for (i, p) in c["body"].as_array().unwrap().iter().enumerate() {
        match p["t"].as_str().unwrap() {
            "ops" => parts.push(MpPart { name: "operations".into(), filename: None, content_type: if style & 2 == 2 { Some("application/json".into()) } else { None }, data: ops_text.clone().into_bytes() }),
            "map" => parts.push(MpPart { name: "map".into(), filename: None, content_type: None, data: map_text.clone().into_bytes() }),
            "file" => {
                let name = p["name"].as_str().unwrap();
                parts.push(MpPart { name: name.into(), filename: Some(format!("file-{name}.bin")),
                    content_type: if (i as u32 + style) % 2 == 0 { Some("application/octet-stream".into()) } else { None },
                    data: file_content(name, p["size"].as_u64().unwrap() as usize, seed) });
            }
            other => tool_error(&format!("unknown part type {other}")),
        }
    }
    Rendered { bytes: render_multipart(&parts), ops_len: ops_text.len(), map_len: map_text.len() }
}

/// variables of a decoded request as an abstract tree, with {"k":"file","a":<field name>,"n":<size>} at bound uploads
fn bound_tree(n: &J, req: &Request, seed: u64) -> J {
    match n["k"].as_str().unwrap() {
        "str" => {
            let a = n["a"].as_str().unwrap();
            if let Some(idx) = a.strip_prefix(PLACEHOLDER) {
                match idx.parse::<usize>().ok().and_then(|i| req.uploads.get(i)) {
                    Some(up) => {
                        let name = up.filename.strip_prefix("file-").and_then(|s| s.strip_suffix(".bin")).unwrap_or("?").to_string();
                        let mut data = Vec::new();
                        let ok = up.content.try_clone().and_then(|mut f| { f.seek(SeekFrom::Start(0))?; f.read_to_end(&mut data) }).is_ok();
                        let good = ok && data == file_content(&name, data.len(), seed);
                        node("file", &if good { name } else { format!("{name}!corrupt") }, data.len() as i64, vec![])
                    }
                    None => node("other", a, 0, vec![]),
                }
            } else { n.clone() }
        }
        "list" => node("list", "", 0, n["c"].as_array().unwrap().iter().map(|x| bound_tree(x, req, seed)).collect()),
        "obj" => node("obj", "", 0, n["c"].as_array().unwrap().iter().map(|m| json!({"key": m["key"], "val": bound_tree(&m["val"], req, seed)})).collect()),
        _ => n.clone(),
    }
}
fn req_abs(r: &Request, seed: u64) -> J {
    let vars = node("obj", "", 0, r.variables.iter().map(|(k, v)| json!({"key": text_atom(k.as_str()), "val": value_to_node(v)})).collect());
    json!({"vars": bound_tree(&vars, r, seed), "nup": r.uploads.len()})
}
fn err_class(e: &ParseRequestError) -> &'static str {
    match e {
        ParseRequestError::Io(_) => "Io", ParseRequestError::InvalidRequest(_) => "InvalidRequest",
        ParseRequestError::InvalidFilesMap(_) => "InvalidFilesMap", ParseRequestError::InvalidMultipart(_) => "InvalidMultipart",
        ParseRequestError::MissingOperatorsPart => "MissingOperatorsPart", ParseRequestError::MissingMapPart => "MissingMapPart",
        ParseRequestError::NotUpload => "NotUpload", ParseRequestError::MissingFiles => "MissingFiles",
        ParseRequestError::PayloadTooLarge => "PayloadTooLarge", ParseRequestError::UnsupportedBatch => "UnsupportedBatch", _ => "Other",
    }
}
fn outcome(r: Result<BatchRequest, ParseRequestError>, seed: u64) -> J {
    match r {
        Ok(BatchRequest::Single(req)) => json!({"k": "ok", "class": "", "shape": "single", "reqs": [req_abs(&req, seed)]}),
        Ok(BatchRequest::Batch(reqs)) => json!({"k": "ok", "class": "", "shape": "batch", "reqs": reqs.iter().map(|r| req_abs(r, seed)).collect::<Vec<_>>()}),
        Err(e) => json!({"k": "error", "class": err_class(&e), "shape": "", "reqs": []}),
    }
}
fn guarded(f: impl FnOnce() -> J) -> J {
    catch_unwind(AssertUnwindSafe(f)).unwrap_or_else(|_| json!({"k": "panic", "class": "panic", "shape": "", "reqs": []}))
}

fn run(id: usize, c: &J, seed: u64) -> J {
    let style = ((id as u64 + seed) % 4) as u32;
    let chunk = [1usize, 13, 97, 1024, 8192][((id as u64 / 4 + seed) % 5) as usize];
    // JSON text is whitespace-insensitive: the operations text gets leading / interior / trailing whitespace by rotation
    let ws = ["none", "mix", "lf", "sp", "cr", "tab"][((id as u64 / 2 + seed) % 6) as usize];
    let r = render_case(c, style, ws, seed);
    let mut opts = MultipartOptions::default();
    let (ms, mf) = (c["opts"]["maxSize"].as_u64().unwrap() as usize, c["opts"]["maxFiles"].as_u64().unwrap() as usize);
    if ms > 0 { opts = opts.max_file_size(ms); }
    if mf > 0 { opts = opts.max_num_files(mf); }
    let ct = multipart_content_type();
    let mut obs = vec![json!({"api": "receive_batch_body", "out": guarded(|| outcome(
        futures_executor::block_on(receive_batch_body(Some(ct.clone()), ChunkedReader::new(r.bytes.clone(), chunk), opts)), seed))})];
    if c["ops"]["kind"] == "single" {
        let out = guarded(|| outcome(futures_executor::block_on(receive_body(Some(ct.clone()), ChunkedReader::new(r.bytes.clone(), chunk), opts)).map(BatchRequest::Single), seed));
        if out == obs[0]["out"] { obs[0]["api"] = json!("receive_batch_body | receive_body"); } else { obs.push(json!({"api": "receive_body", "out": out})); }
    }
    json!({"id": id, "case": c, "obs": obs, "stream_len": r.bytes.len(), "ops_len": r.ops_len, "map_len": r.map_len, "chunk": chunk, "ws": ws, "text": preview(&r.bytes)})
}

fn main() {
    let args: Vec<String> = std::env::args().collect();
    if args.len() < 4 { tool_error("usage: c24 <cases.ndjson> <out.ndjson> <seed>"); }
    check_atoms();
    std::panic::set_hook(Box::new(|_| {}));
    let cases = read_ndjson(&args[1]);
    let mut out = NdWriter::create(&args[2]);
    let seed: u64 = args[3].parse().unwrap_or(1);
    for (i, c) in cases.iter().enumerate() { out.write(&run(i + 1, c, seed)); }
    out.finish();
    println!("{{\"cases\": {}}}", cases.len());
}
