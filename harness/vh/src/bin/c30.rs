//! C30 harness: execute each case twice -- without extensions and with K recording pass-through extensions --
//! on the static family or the dynamic twin.  The recording extension only delegates to `next` and logs
//! hook-enter / hook-exit events (extension index, hook, response path for resolve, ok flag) into the same
//! sequence-numbered log as the harness resolvers.
//!
//! usage: c30 <cases.ndjson> <out.ndjson> <schema.json>
use async_graphql::extensions::*;
use async_graphql::parser::types::ExecutableDocument;
use async_graphql::*;
use serde_json::{Value as J, json};
use std::sync::{Arc, Mutex};
use vh::io::*;
use vh::{doc, dynfam, exec, fam, resp, world::Req};

type Slot = Arc<Mutex<Option<Arc<Req>>>>;
struct RecFactory { i: usize, slot: Slot }
impl ExtensionFactory for RecFactory {
    fn create(&self) -> Arc<dyn Extension> { Arc::new(Rec { i: self.i, slot: self.slot.clone() }) }
}
struct Rec { i: usize, slot: Slot }
impl Rec {
    fn log(&self, ev: &str, hook: &str, path: J, ok: bool) { self.log_field(ev, hook, path, ok, "") }
    /// resolve hooks also record the name of the field they wrap (ResolveInfo::name; the path only has response keys)
    fn log_field(&self, ev: &str, hook: &str, path: J, ok: bool, field: &str) {
        if let Some(req) = self.slot.lock().unwrap().as_ref() {
            req.event(json!({"ev": ev, "hook": hook, "ext": self.i, "path": path, "ok": ok, "field": field, "items": -1, "call": 0}));
        }
    }
}
fn path_json(info: &ResolveInfo<'_>) -> J {
    match serde_json::to_value(info.path_node) {
        Ok(J::Array(a)) => J::Array(a.into_iter().map(|x| if x.is_number() { json!(format!("#{x}")) } else { x }).collect()),
        _ => json!([]),
    }
}
#[async_trait::async_trait]
impl Extension for Rec {
    async fn request(&self, ctx: &ExtensionContext<'_>, next: NextRequest<'_>) -> Response {
        self.log("hook-enter", "request", json!([]), true);
        let r = next.run(ctx).await;
        self.log("hook-exit", "request", json!([]), true);
        r
    }
    async fn prepare_request(&self, ctx: &ExtensionContext<'_>, request: Request, next: NextPrepareRequest<'_>) -> ServerResult<Request> {
        self.log("hook-enter", "prepare_request", json!([]), true);
        let r = next.run(ctx, request).await;
        self.log("hook-exit", "prepare_request", json!([]), r.is_ok());
        r
    }
    async fn parse_query(&self, ctx: &ExtensionContext<'_>, query: &str, variables: &Variables, next: NextParseQuery<'_>) -> ServerResult<ExecutableDocument> {
        self.log("hook-enter", "parse_query", json!([]), true);
        let r = next.run(ctx, query, variables).await;
        self.log("hook-exit", "parse_query", json!([]), r.is_ok());
        r
    }
    async fn validation(&self, ctx: &ExtensionContext<'_>, next: NextValidation<'_>) -> Result<ValidationResult, Vec<ServerError>> {
        self.log("hook-enter", "validation", json!([]), true);
        let r = next.run(ctx).await;
        self.log("hook-exit", "validation", json!([]), r.is_ok());
        r
    }
    async fn execute(&self, ctx: &ExtensionContext<'_>, operation_name: Option<&str>, next: NextExecute<'_>) -> Response {
        self.log("hook-enter", "execute", json!([]), true);
        let r = next.run(ctx, operation_name).await;
        self.log("hook-exit", "execute", json!([]), true);
        r
    }
    async fn resolve(&self, ctx: &ExtensionContext<'_>, info: ResolveInfo<'_>, next: NextResolve<'_>) -> ServerResult<Option<Value>> {
        let p = path_json(&info);
        let name = info.name.to_string();
        self.log_field("hook-enter", "resolve", p.clone(), true, &name);
        let r = next.run(ctx, info).await;
        self.log_field("hook-exit", "resolve", p, r.is_ok(), &name);
        r
    }
}

fn vars_json(vars: &J) -> J {
    let mut m = serde_json::Map::new();
    for v in vars.as_array().map(|a| a.as_slice()).unwrap_or(&[]) {
        let val = match v["val"]["k"].as_str().unwrap_or("null") { "bool" => v["val"]["v"].clone(), _ => J::Null };
        m.insert(v["name"].as_str().unwrap().to_string(), val);
    }
    J::Object(m)
}

fn run_one(case: &J, text: &str, k: usize, ts: &J) -> J {
    let req_data = Req::new(case["world"].clone());
    let slot: Slot = Arc::new(Mutex::new(Some(req_data.clone())));
    let op_name = case["doc"]["ops"][0]["name"].as_str().unwrap_or("").to_string();
    let mut request = Request::new(text.to_string()).variables(exec::vars_from_json(&vars_json(&case["vars"]))).data(req_data.clone());
    if !op_name.is_empty() { request = request.operation_name(op_name); }
    // two-step use of the API: the caller parses first (Request::parsed_query) and then executes; the parse hook
    // must still run exactly once
    if case["preparsed"].as_bool().unwrap_or(false) { let _ = request.parsed_query(); }
    let flavour = case["flavour"].as_str().unwrap_or("static");
    let result: Result<Result<Response, String>, String> = exec::catch(|| {
        if flavour == "static" {
            let mut b = fam::builder();
            for i in 1..=k { b = b.extension(RecFactory { i, slot: slot.clone() }); }
            let schema = b.finish();
            exec::run_gated(Box::pin(schema.execute(request)), &req_data, &[])
        } else {
            let mut b = match dynfam::builder(ts) { Ok(b) => b, Err(e) => return Err(e) };
            for i in 1..=k { b = b.extension(RecFactory { i, slot: slot.clone() }); }
            match b.finish() { Ok(schema) => exec::run_gated(Box::pin(schema.execute(request)), &req_data, &[]), Err(e) => Err(e.to_string()) }
        }
    });
    // uniform event records for TLC
    let log: Vec<J> = req_data.take_log().into_iter().map(|mut e| {
        let o = e.as_object_mut().unwrap();
        o.remove("view");
        o.entry("hook").or_insert(json!(""));
        o.entry("ext").or_insert(json!(0));
        o.entry("ok").or_insert(json!(true));
        o.entry("path").or_insert(json!([]));
        o.entry("items").or_insert(json!(-1));
        e
    }).collect();
    match result {
        Ok(Ok(r)) => { let mut o = resp::response(&r); o["log"] = json!(log); o["problem"] = json!(""); o }
        Ok(Err(e)) => json!({"data": {"k": "null"}, "errors": [], "log": log, "problem": e, "cache": {"public": true, "maxAge": 0}, "extensions": []}),
        Err(p) => json!({"data": {"k": "null"}, "errors": [], "log": log, "problem": format!("panic: {p}"), "cache": {"public": true, "maxAge": 0}, "extensions": []}),
    }
}

fn main() {
    let args: Vec<String> = std::env::args().collect();
    if args.len() < 4 { tool_error("usage: c30 <cases.ndjson> <out.ndjson> <schema.json>"); }
    let cases = read_ndjson(&args[1]);
    let mut out = NdWriter::create(&args[2]);
    let ts: J = serde_json::from_str(&std::fs::read_to_string(&args[3]).unwrap()).unwrap();
    let mut n = 0usize;
    for mut case in cases {
        let text = if case["rawText"].is_string() { case["rawText"].as_str().unwrap().to_string() } else {
            let mut d = case["doc"].clone();
            let t = doc::print(&mut d);
            case["doc"] = d;
            t
        };
        case["text"] = json!(text);
        let k = case["exts"].as_u64().unwrap_or(1) as usize;
        let obs0 = run_one(&case, &text, 0, &ts);
        let obs = run_one(&case, &text, k, &ts);
        case["reached_execute"] = json!(obs0["data"]["k"] == "obj" || !obs0["log"].as_array().unwrap().is_empty());
        case["obs0"] = obs0;
        case["obs"] = obs;
        case.as_object_mut().unwrap().remove("world");
        out.write(&case);
        n += 1;
    }
    out.finish();
    println!("{{\"cases\": {n}}}");
}
