//! C09 -- strict validation rejects exactly the documents the GraphQL specification calls invalid.
//!
//! Reads cases {id, flavour: "static"|"dynamic", doc (abstract tree), opName, vars: [{name,val}], ts?},
//! prints the document with the harness's own printer, executes it with `ValidationMode::Strict` on
//!   * the derive-built schema below (mirror of /verif/schemas/valid.json), or
//!   * a dynamic schema built from the JSON type system (the case's `ts` or valid.json),
//! with a recording extension that reports whether the `parse_query` / `validation` hooks returned Err
//! (with the errors' locations) and whether `execute` was reached, and resolvers that count their calls.
//! At start-up both schemas are introspected and compared with valid.json (tool error on mismatch).
//!
//! usage: c09 <cases.ndjson> <out.ndjson> <valid.json>
use async_graphql::dynamic as dy;
use async_graphql::extensions::{Extension, ExtensionContext, ExtensionFactory, NextExecute, NextParseQuery, NextValidation};
use async_graphql::parser::types::ExecutableDocument;
use async_graphql::*;
use futures_util::stream::{Stream, StreamExt};
use serde_json::{Value as J, json};
use std::sync::atomic::{AtomicUsize, Ordering};
use std::sync::{Arc, Mutex};
use vh::io::*;

// ------------------------------------------------------------------------------------------------
// per-request observation
#[derive(Default)]
struct ReqObs {
    runs: AtomicUsize,
    parse_err: Mutex<Option<J>>,
    validation_err: Mutex<Option<J>>,
    executed: AtomicUsize,
}
fn ran(ctx: &Context<'_>) { ctx.data_unchecked::<Arc<ReqObs>>().runs.fetch_add(1, Ordering::SeqCst); }
fn err_json(e: &ServerError) -> J {
    json!({"locs": e.locations.iter().map(|p| json!([p.line, p.column])).collect::<Vec<_>>(), "message": e.message})
}

struct Rec;
impl ExtensionFactory for Rec { fn create(&self) -> Arc<dyn Extension> { Arc::new(RecExt) } }
struct RecExt;
#[async_trait::async_trait]
impl Extension for RecExt {
    async fn parse_query(&self, ctx: &ExtensionContext<'_>, query: &str, variables: &Variables, next: NextParseQuery<'_>) -> ServerResult<ExecutableDocument> {
        let r = next.run(ctx, query, variables).await;
        if let Err(e) = &r { if let Ok(o) = ctx.data::<Arc<ReqObs>>() { *o.parse_err.lock().unwrap() = Some(json!([err_json(e)])); } }
        r
    }
    async fn validation(&self, ctx: &ExtensionContext<'_>, next: NextValidation<'_>) -> Result<ValidationResult, Vec<ServerError>> {
        let r = next.run(ctx).await;
        if let Err(es) = &r { if let Ok(o) = ctx.data::<Arc<ReqObs>>() { *o.validation_err.lock().unwrap() = Some(J::Array(es.iter().map(err_json).collect())); } }
        r
    }
    async fn execute(&self, ctx: &ExtensionContext<'_>, operation_name: Option<&str>, next: NextExecute<'_>) -> Response {
        if let Ok(o) = ctx.data::<Arc<ReqObs>>() { o.executed.fetch_add(1, Ordering::SeqCst); }
        next.run(ctx, operation_name).await
    }
}

// ------------------------------------------------------------------------------------------------
// static (derive-built) schema; mirror: /verif/schemas/valid.json
#[derive(Enum, Copy, Clone, Eq, PartialEq)]
enum Color { Red, Green }

#[derive(InputObject)]
#[graphql(name = "In")]
struct In {
    a: Option<i32>,
    b: String,
    c: Option<Color>,
    l: Option<Vec<i32>>,
    #[graphql(default = 1)]
    d: i32,
    n: Option<Box<In>>,
}

#[derive(Clone)] struct A;
#[derive(Clone)] struct B;
#[derive(Clone)] struct C;

#[derive(Interface, Clone)]
#[graphql(field(name = "id", ty = "ID"), field(name = "name", ty = "Option<String>"))]
enum Node { A(A), B(B) }

#[derive(Union, Clone)]
enum U { A(A), B(B) }

#[Object]
impl A {
    async fn id(&self, ctx: &Context<'_>) -> ID { ran(ctx); ID("a1".into()) }
    async fn name(&self, ctx: &Context<'_>) -> Option<String> { ran(ctx); Some("a".into()) }
    async fn val(&self, ctx: &Context<'_>) -> Option<i32> { ran(ctx); Some(1) }
    async fn w(&self, ctx: &Context<'_>) -> i32 { ran(ctx); 1 }
    async fn peer(&self, ctx: &Context<'_>) -> Option<Node> { ran(ctx); Some(Node::B(B)) }
    #[graphql(name = "self")]
    async fn self_(&self, ctx: &Context<'_>) -> Option<A> { ran(ctx); Some(A) }
    async fn items(&self, ctx: &Context<'_>) -> Option<Vec<Option<i32>>> { ran(ctx); Some(vec![Some(1)]) }
    async fn echo(&self, ctx: &Context<'_>, x: Option<i32>) -> Option<i32> { ran(ctx); x }
    async fn pair(&self, ctx: &Context<'_>, x: Option<i32>, y: Option<String>) -> Option<i32> { ran(ctx); let _ = y; x }
}
#[Object]
impl B {
    async fn id(&self, ctx: &Context<'_>) -> ID { ran(ctx); ID("b1".into()) }
    async fn name(&self, ctx: &Context<'_>) -> Option<String> { ran(ctx); Some("b".into()) }
    async fn val(&self, ctx: &Context<'_>) -> Option<String> { ran(ctx); Some("v".into()) }
    async fn w(&self, ctx: &Context<'_>) -> Option<i32> { ran(ctx); Some(1) }
    async fn items(&self, ctx: &Context<'_>) -> Option<i32> { ran(ctx); Some(1) }
    async fn echo(&self, ctx: &Context<'_>, x: Option<i32>) -> Option<i32> { ran(ctx); x }
    async fn flag(&self, ctx: &Context<'_>) -> Option<bool> { ran(ctx); Some(true) }
}
#[Object]
impl C {
    async fn id(&self, ctx: &Context<'_>) -> ID { ran(ctx); ID("c1".into()) }
    async fn c(&self, ctx: &Context<'_>) -> Option<i32> { ran(ctx); Some(1) }
}

struct Query;
#[Object]
impl Query {
    async fn a(&self, ctx: &Context<'_>) -> Option<A> { ran(ctx); Some(A) }
    async fn b(&self, ctx: &Context<'_>) -> Option<B> { ran(ctx); Some(B) }
    async fn c(&self, ctx: &Context<'_>) -> Option<C> { ran(ctx); Some(C) }
    async fn node(&self, ctx: &Context<'_>) -> Option<Node> { ran(ctx); Some(Node::A(A)) }
    async fn u(&self, ctx: &Context<'_>) -> Option<U> { ran(ctx); Some(U::A(A)) }
    async fn nodes(&self, ctx: &Context<'_>) -> Vec<Node> { ran(ctx); vec![Node::A(A), Node::B(B)] }
    async fn n(&self, ctx: &Context<'_>) -> Option<i32> { ran(ctx); Some(1) }
    async fn fi(&self, ctx: &Context<'_>, x: Option<i32>) -> Option<i32> { ran(ctx); x }
    async fn fr(&self, ctx: &Context<'_>, x: i32) -> Option<i32> { ran(ctx); Some(x) }
    async fn fd(&self, ctx: &Context<'_>, #[graphql(default = 1)] x: i32) -> Option<i32> { ran(ctx); Some(x) }
    async fn fs(&self, ctx: &Context<'_>, s: Option<String>) -> Option<i32> { ran(ctx); s.map(|s| s.len() as i32) }
    async fn fb(&self, ctx: &Context<'_>, b: Option<bool>) -> Option<i32> { ran(ctx); b.map(|b| b as i32) }
    async fn ff(&self, ctx: &Context<'_>, f: Option<f64>) -> Option<i32> { ran(ctx); f.map(|_| 1) }
    async fn fid(&self, ctx: &Context<'_>, id: Option<ID>) -> Option<i32> { ran(ctx); id.map(|_| 1) }
    async fn fe(&self, ctx: &Context<'_>, e: Option<Color>) -> Option<i32> { ran(ctx); e.map(|_| 1) }
    async fn fin(&self, ctx: &Context<'_>, i: Option<In>) -> Option<i32> { ran(ctx); i.map(|i| i.d + i.a.unwrap_or(0) + i.b.len() as i32 + i.c.map(|_| 1).unwrap_or(0) + i.l.map(|l| l.len() as i32).unwrap_or(0) + i.n.map(|_| 1).unwrap_or(0)) }
    async fn fl(&self, ctx: &Context<'_>, l: Option<Vec<i32>>) -> Option<i32> { ran(ctx); l.map(|l| l.len() as i32) }
    async fn fln(&self, ctx: &Context<'_>, l: Vec<Option<i32>>) -> Option<i32> { ran(ctx); Some(l.len() as i32) }
    async fn fli(&self, ctx: &Context<'_>, l: Option<Vec<Option<In>>>) -> Option<i32> { ran(ctx); l.map(|l| l.len() as i32) }
    async fn f2(&self, ctx: &Context<'_>, x: Option<i32>, y: Option<String>) -> Option<i32> { ran(ctx); let _ = y; x }
}
struct Mutation;
#[Object]
impl Mutation {
    async fn bump(&self, ctx: &Context<'_>, #[graphql(default = 1)] by: i32) -> i32 { ran(ctx); by }
    async fn set(&self, ctx: &Context<'_>, i: In) -> Option<i32> { ran(ctx); Some(i.d) }
}
struct Subscription;
#[Subscription]
impl Subscription {
    async fn tick(&self, ctx: &Context<'_>, n: Option<i32>) -> impl Stream<Item = i32> { ran(ctx); futures_util::stream::iter(vec![n.unwrap_or(1)]) }
    async fn tock(&self, ctx: &Context<'_>) -> impl Stream<Item = A> { ran(ctx); futures_util::stream::iter(vec![A]) }
}

struct Tag;
#[async_trait::async_trait]
impl CustomDirective for Tag {
    async fn resolve_field(&self, _ctx: &Context<'_>, resolve: ResolveFut<'_>) -> ServerResult<Option<Value>> { resolve.await }
}
#[Directive(location = "Field", repeatable)]
fn tag(v: i32) -> impl CustomDirective { let _ = v; Tag }

type StaticSchema = Schema<Query, Mutation, Subscription>;
fn static_schema() -> StaticSchema {
    Schema::build(Query, Mutation, Subscription).validation_mode(ValidationMode::Strict).directive(tag).extension(Rec).finish()
}

// ------------------------------------------------------------------------------------------------
// dynamic schema from the JSON type system
fn type_ref(t: &J) -> dy::TypeRef {
    match t["k"].as_str().unwrap_or("named") {
        "named" => dy::TypeRef::Named(t["n"].as_str().unwrap_or("Int").to_string().into()),
        "list" => dy::TypeRef::List(Box::new(type_ref(&t["of"]))),
        _ => dy::TypeRef::NonNull(Box::new(type_ref(&t["of"]))),
    }
}
/// abstract value -> async_graphql Value (argument defaults)
fn gql_value(v: &J) -> Value {
    match v["k"].as_str().unwrap_or("null") {
        "bool" => Value::Boolean(v["v"].as_bool().unwrap_or(false)),
        "int" => v["v"].as_str().and_then(|s| s.parse::<i64>().ok()).map(Value::from).unwrap_or(Value::Null),
        "float" => v["v"].as_str().and_then(|s| s.parse::<f64>().ok()).map(Value::from).unwrap_or(Value::Null),
        "str" => Value::String(v["v"].as_str().unwrap_or("").to_string()),
        "enum" => Value::Enum(Name::new(v["v"].as_str().unwrap_or("X"))),
        "list" => Value::List(v["items"].as_array().map(|a| a.iter().map(gql_value).collect()).unwrap_or_default()),
        "obj" => Value::Object(v["entries"].as_array().map(|a| a.iter().map(|e| (Name::new(e["key"].as_str().unwrap_or("k")), gql_value(&e["val"]))).collect()).unwrap_or_default()),
        _ => Value::Null,
    }
}
fn input_value(a: &J) -> dy::InputValue {
    let mut iv = dy::InputValue::new(a["name"].as_str().unwrap_or("x"), type_ref(&a["ty"]));
    if a["hasDefault"].as_bool().unwrap_or(false) { iv = iv.default_value(gql_value(&a["default"])); }
    iv
}
/// a constant, always successful value of output type `t`
fn const_value(ts: &J, t: &J) -> dy::FieldValue<'static> {
    match t["k"].as_str().unwrap_or("named") {
        "nn" => const_value(ts, &t["of"]),
        "list" => dy::FieldValue::list(vec![const_value(ts, &t["of"])]),
        _ => {
            let n = t["n"].as_str().unwrap_or("Int");
            let def = &ts["types"][n];
            match def["kind"].as_str().unwrap_or("SCALAR") {
                "OBJECT" => dy::FieldValue::owned_any(0u8),
                "INTERFACE" => {
                    let mut impls: Vec<&String> = ts["types"].as_object().unwrap().iter()
                        .filter(|(_, d)| d["kind"] == "OBJECT" && d["implements"].as_array().map(|a| a.iter().any(|x| x == n)).unwrap_or(false)).map(|(k, _)| k).collect();
                    impls.sort();
                    dy::FieldValue::owned_any(0u8).with_type(impls.first().map(|s| s.to_string()).unwrap_or_default())
                }
                "UNION" => dy::FieldValue::owned_any(0u8).with_type(def["members"][0].as_str().unwrap_or("").to_string()),
                "ENUM" => dy::FieldValue::value(Value::Enum(Name::new(def["values"][0].as_str().unwrap_or("X")))),
                _ => dy::FieldValue::value(match n {
                    "Int" => Value::from(1), "Float" => Value::from(1.5), "Boolean" => Value::Boolean(true),
                    "ID" => Value::String("id1".into()), _ => Value::String("s".into()),
                }),
            }
        }
    }
}
fn dyn_ran(ctx: &dy::ResolverContext<'_>) { ctx.data_unchecked::<Arc<ReqObs>>().runs.fetch_add(1, Ordering::SeqCst); }

fn dynamic_schema(ts: &J) -> Result<dy::Schema, String> {
    let q = ts["query"].as_str().unwrap_or("Query").to_string();
    let m = ts["mutation"].as_str().filter(|s| !s.is_empty()).map(|s| s.to_string());
    let s = ts["subscription"].as_str().filter(|s| !s.is_empty()).map(|s| s.to_string());
    let mut b = dy::Schema::build(&q, m.as_deref(), s.as_deref());
    let types = ts["types"].as_object().ok_or("ts.types missing")?;
    let ts_arc = Arc::new(ts.clone());
    for (name, def) in types {
        match def["kind"].as_str().unwrap_or("") {
            "OBJECT" if Some(name) == s.as_ref() => {
                let mut o = dy::Subscription::new(name.as_str());
                for (fname, fdef) in def["fields"].as_object().ok_or("fields missing")? {
                    let (ts2, ty2) = (ts_arc.clone(), fdef["ty"].clone());
                    let mut f = dy::SubscriptionField::new(fname.as_str(), type_ref(&fdef["ty"]), move |ctx| {
                        let (ts2, ty2) = (ts2.clone(), ty2.clone());
                        dy::SubscriptionFieldFuture::new(async move {
                            dyn_ran(&ctx);
                            Ok(futures_util::stream::iter(vec![Ok::<_, Error>(const_value(&ts2, &ty2))]))
                        })
                    });
                    for a in fdef["args"].as_array().map(|a| a.as_slice()).unwrap_or(&[]) { f = f.argument(input_value(a)); }
                    o = o.field(f);
                }
                b = b.register(o);
            }
            "OBJECT" => {
                let mut o = dy::Object::new(name.as_str());
                for i in def["implements"].as_array().map(|a| a.as_slice()).unwrap_or(&[]) { o = o.implement(i.as_str().unwrap()); }
                for (fname, fdef) in def["fields"].as_object().ok_or("fields missing")? {
                    let (ts2, ty2) = (ts_arc.clone(), fdef["ty"].clone());
                    let mut f = dy::Field::new(fname.as_str(), type_ref(&fdef["ty"]), move |ctx| {
                        let (ts2, ty2) = (ts2.clone(), ty2.clone());
                        dy::FieldFuture::new(async move { dyn_ran(&ctx); Ok(Some(const_value(&ts2, &ty2))) })
                    });
                    for a in fdef["args"].as_array().map(|a| a.as_slice()).unwrap_or(&[]) { f = f.argument(input_value(a)); }
                    o = o.field(f);
                }
                b = b.register(o);
            }
            "INTERFACE" => {
                let mut i = dy::Interface::new(name.as_str());
                for x in def["implements"].as_array().map(|a| a.as_slice()).unwrap_or(&[]) { i = i.implement(x.as_str().unwrap()); }
                for (fname, fdef) in def["fields"].as_object().ok_or("fields missing")? {
                    let mut f = dy::InterfaceField::new(fname.as_str(), type_ref(&fdef["ty"]));
                    for a in fdef["args"].as_array().map(|a| a.as_slice()).unwrap_or(&[]) { f = f.argument(input_value(a)); }
                    i = i.field(f);
                }
                b = b.register(i);
            }
            "UNION" => {
                let mut u = dy::Union::new(name.as_str());
                for x in def["members"].as_array().map(|a| a.as_slice()).unwrap_or(&[]) { u = u.possible_type(x.as_str().unwrap()); }
                b = b.register(u);
            }
            "ENUM" => {
                let mut e = dy::Enum::new(name.as_str());
                for x in def["values"].as_array().map(|a| a.as_slice()).unwrap_or(&[]) { e = e.item(x.as_str().unwrap()); }
                b = b.register(e);
            }
            "INPUT_OBJECT" => {
                let mut io = dy::InputObject::new(name.as_str());
                for a in def["inputFields"].as_array().map(|a| a.as_slice()).unwrap_or(&[]) { io = io.field(input_value(a)); }
                b = b.register(io);
            }
            "SCALAR" => { b = b.register(dy::Scalar::new(name.as_str())); }
            other => return Err(format!("unsupported kind {other}")),
        }
    }
    b.validation_mode(ValidationMode::Strict).extension(Rec).finish().map_err(|e| format!("{e}"))
}

// ------------------------------------------------------------------------------------------------
// printer: abstract document -> GraphQL text (trusted)
fn p_value(v: &J, out: &mut String) {
    match v["k"].as_str().unwrap_or("null") {
        "null" => out.push_str("null"),
        "bool" => out.push_str(if v["v"].as_bool().unwrap_or(false) { "true" } else { "false" }),
        "int" | "float" => out.push_str(v["v"].as_str().unwrap_or("0")),
        "enum" => out.push_str(v["v"].as_str().unwrap_or("X")),
        "var" => { out.push('$'); out.push_str(v["name"].as_str().unwrap_or("v")); }
        "str" => {
            out.push('"');
            for c in v["v"].as_str().unwrap_or("").chars() {
                match c { '"' => out.push_str("\\\""), '\\' => out.push_str("\\\\"), '\n' => out.push_str("\\n"), c => out.push(c) }
            }
            out.push('"');
        }
        "list" => {
            out.push('[');
            for (i, x) in v["items"].as_array().map(|a| a.as_slice()).unwrap_or(&[]).iter().enumerate() { if i > 0 { out.push_str(", "); } p_value(x, out); }
            out.push(']');
        }
        "obj" => {
            out.push('{');
            for (i, e) in v["entries"].as_array().map(|a| a.as_slice()).unwrap_or(&[]).iter().enumerate() {
                if i > 0 { out.push_str(", "); }
                out.push_str(e["key"].as_str().unwrap_or("k")); out.push_str(": "); p_value(&e["val"], out);
            }
            out.push('}');
        }
        other => tool_error(&format!("unknown value kind {other}")),
    }
}
fn p_args(args: &J, out: &mut String) {
    let a = args.as_array().map(|a| a.as_slice()).unwrap_or(&[]);
    if a.is_empty() { return; }
    out.push('(');
    for (i, x) in a.iter().enumerate() { if i > 0 { out.push_str(", "); } out.push_str(x["name"].as_str().unwrap_or("x")); out.push_str(": "); p_value(&x["val"], out); }
    out.push(')');
}
fn p_dirs(d: &J, out: &mut String) {
    for x in d.as_array().map(|a| a.as_slice()).unwrap_or(&[]) { out.push_str(" @"); out.push_str(x["name"].as_str().unwrap_or("skip")); p_args(&x["args"], out); }
}
fn p_type(t: &J, out: &mut String) {
    match t["k"].as_str().unwrap_or("named") {
        "named" => out.push_str(t["n"].as_str().unwrap_or("Int")),
        "list" => { out.push('['); p_type(&t["of"], out); out.push(']'); }
        _ => { p_type(&t["of"], out); out.push('!'); }
    }
}
fn p_sels(s: &J, out: &mut String) {
    out.push('{');
    for item in s.as_array().map(|a| a.as_slice()).unwrap_or(&[]) {
        out.push(' ');
        match item["k"].as_str().unwrap_or("field") {
            "field" => {
                let alias = item["alias"].as_str().unwrap_or("");
                if !alias.is_empty() { out.push_str(alias); out.push_str(": "); }
                out.push_str(item["name"].as_str().unwrap_or("x"));
                p_args(&item["args"], out);
                p_dirs(&item["dirs"], out);
                if item["sels"].as_array().map(|a| !a.is_empty()).unwrap_or(false) { out.push(' '); p_sels(&item["sels"], out); }
            }
            "inline" => {
                out.push_str("...");
                let on = item["on"].as_str().unwrap_or("");
                if !on.is_empty() { out.push_str(" on "); out.push_str(on); }
                p_dirs(&item["dirs"], out);
                out.push(' ');
                p_sels(&item["sels"], out);
            }
            _ => { out.push_str("..."); out.push_str(item["name"].as_str().unwrap_or("F")); p_dirs(&item["dirs"], out); }
        }
    }
    out.push_str(" }");
}
fn print_doc(doc: &J) -> String {
    let mut out = String::new();
    for op in doc["ops"].as_array().map(|a| a.as_slice()).unwrap_or(&[]) {
        if !out.is_empty() { out.push('\n'); }
        let name = op["name"].as_str().unwrap_or("");
        let t = op["ty"].as_str().unwrap_or("query");
        let vars = op["vars"].as_array().cloned().unwrap_or_default();
        let no_dirs = op["dirs"].as_array().map(|d| d.is_empty()).unwrap_or(true);
        if !(name.is_empty() && t == "query" && vars.is_empty() && no_dirs) {
            out.push_str(t);
            if !name.is_empty() { out.push(' '); out.push_str(name); }
            if !vars.is_empty() {
                out.push('(');
                for (i, v) in vars.iter().enumerate() {
                    if i > 0 { out.push_str(", "); }
                    out.push('$'); out.push_str(v["name"].as_str().unwrap_or("v")); out.push_str(": ");
                    p_type(&v["ty"], &mut out);
                    if v["hasDefault"].as_bool().unwrap_or(false) { out.push_str(" = "); p_value(&v["default"], &mut out); }
                    p_dirs(&v["dirs"], &mut out);
                }
                out.push(')');
            }
            p_dirs(&op["dirs"], &mut out);
            out.push(' ');
        }
        p_sels(&op["sels"], &mut out);
    }
    for f in doc["frags"].as_array().map(|a| a.as_slice()).unwrap_or(&[]) {
        out.push_str("\nfragment "); out.push_str(f["name"].as_str().unwrap_or("F")); out.push_str(" on "); out.push_str(f["on"].as_str().unwrap_or("X"));
        p_dirs(&f["dirs"], &mut out);
        out.push(' ');
        p_sels(&f["sels"], &mut out);
    }
    out
}

/// abstract value -> plain JSON (request variables)
fn plain(v: &J) -> J {
    match v["k"].as_str().unwrap_or("null") {
        "bool" => v["v"].clone(),
        "int" => v["v"].as_str().and_then(|s| s.parse::<i64>().ok()).map(|i| json!(i)).unwrap_or(J::Null),
        "float" => v["v"].as_str().and_then(|s| s.parse::<f64>().ok()).map(|f| json!(f)).unwrap_or(J::Null),
        "str" | "enum" => v["v"].clone(),
        "list" => J::Array(v["items"].as_array().map(|a| a.iter().map(plain).collect()).unwrap_or_default()),
        "obj" => J::Object(v["entries"].as_array().map(|a| a.iter().map(|e| (e["key"].as_str().unwrap_or("k").to_string(), plain(&e["val"]))).collect()).unwrap_or_default()),
        _ => J::Null,
    }
}

// ------------------------------------------------------------------------------------------------
// mirror check: introspection result -> the JSON type-system format, compared with valid.json
const INTROSPECT: &str = "{ __schema { queryType { name } mutationType { name } subscriptionType { name } \
 types { kind name fields { name type { ...T } args { name type { ...T } defaultValue } } inputFields { name type { ...T } defaultValue } \
 enumValues { name } interfaces { name } possibleTypes { name } } \
 directives { name locations isRepeatable args { name type { ...T } defaultValue } } } } \
 fragment T on __Type { kind name ofType { kind name ofType { kind name ofType { kind name ofType { kind name } } } } }";

fn ty_of(t: &J) -> J {
    match t["kind"].as_str().unwrap_or("") {
        "NON_NULL" => json!({"k": "nn", "of": ty_of(&t["ofType"])}),
        "LIST" => json!({"k": "list", "of": ty_of(&t["ofType"])}),
        _ => json!({"k": "named", "n": t["name"]}),
    }
}
fn args_of(a: &J) -> J {
    J::Array(a.as_array().map(|a| a.as_slice()).unwrap_or(&[]).iter().map(|x| json!({"name": x["name"], "ty": ty_of(&x["type"]), "hasDefault": !x["defaultValue"].is_null()})).collect())
}
fn names(a: &J) -> Vec<String> { let mut v: Vec<String> = a.as_array().map(|a| a.iter().filter_map(|x| x["name"].as_str().map(|s| s.to_string())).collect()).unwrap_or_default(); v.sort(); v }
fn sort_args(a: &J) -> J {
    let mut v: Vec<J> = a.as_array().cloned().unwrap_or_default().iter().map(|x| json!({"name": x["name"], "ty": x["ty"], "hasDefault": x["hasDefault"]})).collect();
    v.sort_by_key(|x| x["name"].as_str().unwrap_or("").to_string());
    J::Array(v)
}
/// normal form used on both sides of the comparison
fn normal_from_introspection(data: &J) -> J {
    let s = &data["__schema"];
    let mut types = serde_json::Map::new();
    let all = s["types"].as_array().cloned().unwrap_or_default();
    for t in &all {
        let name = t["name"].as_str().unwrap_or("");
        if name.starts_with("__") || ["Int", "Float", "String", "Boolean", "ID"].contains(&name) { continue; }
        let kind = t["kind"].as_str().unwrap_or("");
        let mut fields = serde_json::Map::new();
        for f in t["fields"].as_array().map(|a| a.as_slice()).unwrap_or(&[]) {
            fields.insert(f["name"].as_str().unwrap().to_string(), json!({"ty": ty_of(&f["type"]), "args": sort_args(&args_of(&f["args"]))}));
        }
        let members = if kind == "UNION" { names(&t["possibleTypes"]) } else { vec![] };
        // (the interfaces of an INTERFACE type are not compared: introspection of dynamic schemas does not list them)
        let implements = if kind == "OBJECT" { names(&t["interfaces"]) } else { vec![] };
        types.insert(name.to_string(), json!({"kind": kind, "fields": fields, "implements": implements, "members": members,
            "values": names(&t["enumValues"]), "inputFields": sort_args(&args_of(&t["inputFields"]))}));
    }
    let mut dirs = serde_json::Map::new();
    for d in s["directives"].as_array().map(|a| a.as_slice()).unwrap_or(&[]) {
        let mut locs: Vec<String> = d["locations"].as_array().map(|a| a.iter().filter_map(|x| x.as_str().map(|s| s.to_string())).collect()).unwrap_or_default();
        locs.sort();
        dirs.insert(d["name"].as_str().unwrap().to_string(), json!({"locations": locs, "args": sort_args(&args_of(&d["args"])), "repeatable": d["isRepeatable"]}));
    }
    json!({"types": types, "directives": dirs, "query": s["queryType"]["name"], "mutation": s["mutationType"]["name"], "subscription": s["subscriptionType"]["name"]})
}
fn normal_from_ts(ts: &J, is_static: bool) -> J {
    let mut types = serde_json::Map::new();
    for (name, t) in ts["types"].as_object().unwrap() {
        let mut fields = serde_json::Map::new();
        for (fname, f) in t["fields"].as_object().unwrap() { fields.insert(fname.clone(), json!({"ty": f["ty"], "args": sort_args(&f["args"])})); }
        let sorted = |k: &str| { let mut v: Vec<String> = t[k].as_array().unwrap().iter().map(|x| x.as_str().unwrap().to_string()).collect(); v.sort(); v };
        let implements = if t["kind"] == "OBJECT" { sorted("implements") } else { vec![] };
        types.insert(name.clone(), json!({"kind": t["kind"], "fields": fields, "implements": implements, "members": sorted("members"), "values": sorted("values"), "inputFields": sort_args(&t["inputFields"])}));
    }
    let mut dirs = serde_json::Map::new();
    for (name, d) in ts["directives"].as_object().unwrap() {
        if d["staticOnly"].as_bool().unwrap_or(false) && !is_static { continue; }
        let mut locs: Vec<String> = d["locations"].as_array().unwrap().iter().map(|x| x.as_str().unwrap().to_string()).collect();
        locs.sort();
        dirs.insert(name.clone(), json!({"locations": locs, "args": sort_args(&d["args"]), "repeatable": d["repeatable"]}));
    }
    json!({"types": types, "directives": dirs, "query": ts["query"], "mutation": ts["mutation"], "subscription": ts["subscription"]})
}
fn canon(v: &J) -> String {
    fn sortv(v: &J) -> J {
        match v {
            J::Object(m) => { let mut keys: Vec<&String> = m.keys().collect(); keys.sort(); J::Object(keys.into_iter().map(|k| (k.clone(), sortv(&m[k]))).collect()) }
            J::Array(a) => J::Array(a.iter().map(sortv).collect()),
            x => x.clone(),
        }
    }
    serde_json::to_string(&sortv(v)).unwrap()
}
fn mirror_check(ts: &J, got: Response, is_static: bool) {
    if !got.errors.is_empty() { tool_error(&format!("introspection failed: {:?}", got.errors)); }
    let data = got.data.into_json().unwrap();
    let a = normal_from_introspection(&data);
    let b = normal_from_ts(ts, is_static);
    if canon(&a) != canon(&b) {
        for k in ["types", "directives"] {
            let (ao, bo) = (a[k].as_object().unwrap(), b[k].as_object().unwrap());
            for (n, x) in ao { if bo.get(n).map(canon) != Some(canon(x)) { eprintln!("mirror mismatch ({}) {k}.{n}:\n  live   {}\n  mirror {}", if is_static { "static" } else { "dynamic" }, canon(x), bo.get(n).map(canon).unwrap_or_default()); } }
            for n in bo.keys() { if !ao.contains_key(n) { eprintln!("mirror mismatch {k}.{n}: missing in live schema"); } }
        }
        tool_error("schemas/valid.json does not mirror the compiled/dynamic schema");
    }
}

// ------------------------------------------------------------------------------------------------
fn response_json(r: &Response) -> J {
    json!(r.errors.iter().map(|e| json!({"locs": e.locations.iter().map(|p| json!([p.line, p.column])).collect::<Vec<_>>(), "message": e.message,
        "path": e.path.iter().map(|s| match s { PathSegment::Field(f) => json!(f), PathSegment::Index(i) => json!(format!("#{i}")) }).collect::<Vec<_>>()})).collect::<Vec<_>>())
}

fn main() {
    let args: Vec<String> = std::env::args().collect();
    if args.len() < 4 { tool_error("usage: c09 <cases.ndjson> <out.ndjson> <valid.json>"); }
    let ts_default: J = serde_json::from_str(&std::fs::read_to_string(&args[3]).unwrap_or_else(|e| tool_error(&format!("read {}: {e}", args[3])))).unwrap_or_else(|e| tool_error(&format!("bad schema json: {e}")));
    let st = static_schema();
    let dynd = dynamic_schema(&ts_default).unwrap_or_else(|e| tool_error(&format!("dynamic schema build failed: {e}")));
    mirror_check(&ts_default, futures_executor::block_on(st.execute(Request::new(INTROSPECT).data(Arc::new(ReqObs::default())))), true);
    mirror_check(&ts_default, futures_executor::block_on(dynd.execute(Request::new(INTROSPECT).data(Arc::new(ReqObs::default())))), false);
    let cases = read_ndjson(&args[1]);
    let mut out = NdWriter::create(&args[2]);
    let mut n = 0usize;
    let mut custom_cache: std::collections::HashMap<String, Result<dy::Schema, String>> = std::collections::HashMap::new();
    for mut case in cases {
        let text = print_doc(&case["doc"]);
        case["text"] = json!(text);
        let obs = Arc::new(ReqObs::default());
        let mut vars = serde_json::Map::new();
        for v in case["vars"].as_array().map(|a| a.as_slice()).unwrap_or(&[]) { vars.insert(v["name"].as_str().unwrap_or("v").to_string(), plain(&v["val"])); }
        let mut request = Request::new(text.clone()).variables(Variables::from_json(J::Object(vars))).data(obs.clone());
        let op_name = case["opName"].as_str().unwrap_or("").to_string();
        if !op_name.is_empty() { request = request.operation_name(op_name.clone()); }
        let is_sub = case["doc"]["ops"].as_array().map(|ops| {
            let sel = ops.iter().find(|o| o["name"].as_str().unwrap_or("") == op_name).or(ops.first());
            sel.map(|o| o["ty"] == "subscription").unwrap_or(false)
        }).unwrap_or(false);
        let flavour = case["flavour"].as_str().unwrap_or("static").to_string();
        // a case may carry its own type system (dynamic flavour): built once per distinct type system and
        // compared with the live registry through introspection, like the default one
        let custom: Option<Result<dy::Schema, String>> = if flavour == "dynamic" && case["ts"].is_object() {
            let key = case["ts"].to_string();
            if !custom_cache.contains_key(&key) {
                let built = dynamic_schema(&case["ts"]);
                if let Ok(sch) = &built {
                    mirror_check(&case["ts"], futures_executor::block_on(sch.execute(Request::new(INTROSPECT).data(Arc::new(ReqObs::default())))), false);
                }
                custom_cache.insert(key.clone(), built);
            }
            custom_cache.get(&key).cloned()
        } else { None };
        let result: Result<Result<Option<Response>, String>, String> = vh::exec::catch(|| {
            if flavour == "static" {
                Ok(if is_sub { futures_executor::block_on(st.execute_stream(request).next()) } else { Some(futures_executor::block_on(st.execute(request))) })
            } else {
                let schema = match &custom { Some(Ok(s)) => s, Some(Err(e)) => return Err(format!("dynamic schema build failed: {e}")), None => &dynd };
                Ok(if is_sub { futures_executor::block_on(schema.execute_stream(request).next()) } else { Some(futures_executor::block_on(schema.execute(request))) })
            }
        });
        let (resp_errors, panic, problem) = match result {
            Ok(Ok(Some(r))) => (response_json(&r), String::new(), String::new()),
            Ok(Ok(None)) => (json!([]), String::new(), String::new()),
            Ok(Err(e)) => (json!([]), String::new(), e),
            Err(p) => (json!([]), if p.is_empty() { "panic".to_string() } else { p }, String::new()),
        };
        let pe = obs.parse_err.lock().unwrap().clone();
        let ve = obs.validation_err.lock().unwrap().clone();
        case["obs"] = json!({
            "parseErr": pe.is_some(), "validationErr": ve.is_some(),
            "rejErrors": pe.or(ve).unwrap_or(json!([])),
            "executed": obs.executed.load(Ordering::SeqCst) > 0, "resolverRuns": obs.runs.load(Ordering::SeqCst),
            "respErrors": resp_errors, "panic": panic, "problem": problem,
        });
        out.write(&case);
        n += 1;
    }
    out.finish();
    println!("{{\"cases\": {n}}}");
}
