//! C06 harness: what do resolvers receive as argument values?  Drives and records only; TLC
//! (CoercionTrace.tla) judges every observation against Coercion!Expected.
//!
//! usage: c06 <schemas/c06.json> <cases.ndjson> <out.ndjson>
//!        c06 sdl <schemas/c06.json>            -- print both SDLs (debugging)
//!
//! Two schemas with the same type system (schemas/c06.json describes it for TLC and for the dynamic twin):
//!   * static: derive-built (`#[Object]`, `#[derive(InputObject)]`, `#[derive(OneofObject)]`, `#[derive(Enum)]`),
//!     one echo resolver per argument shape.  The resolver logs *exactly what its Rust parameters hold*
//!     (presence-aware: `MaybeUndefined::Undefined/Null/Value`, `Option::None/Some`, defaults applied).
//!   * dynamic: `dynamic::Schema` built from the JSON; every resolver walks `ctx.args` along the declared
//!     argument types with the typed accessors a user would call (`get` presence, `is_null`, `i64`, `string`,
//!     `boolean`, `enum_name`, `list`, `object`) and logs what they yield; an accessor that refuses the value
//!     is logged as `{k:"bad"}` (a value that does not match the declared type reached the resolver; `notes` says which).
//! At start-up the SDL of both schemas is compared (exact text equality, defaults included), so the
//! derive-built family cannot silently diverge from the JSON that TLC reads.
//!
//! case: {id, flavour, field, args:[{name,val}], vdefs:[{name,ty,hasDefault,default}], supplied:[{name,val}]}
//! observation: {calls, args:[{key,val}] (of the first call), nerr, errclass: none|request|field, problem}
use async_graphql::dynamic as d;
use async_graphql::{EmptyMutation, EmptySubscription, Enum, InputObject, MaybeUndefined, Object, OneofObject, Request, Response, Schema, Value};
use serde_json::{Value as J, json};
use std::sync::{Arc, Mutex};
use vh::io::*;
use vh::{doc, exec};

#[derive(Default)]
struct Log(Mutex<Vec<J>>, Mutex<Vec<String>>);
type LogRef = Arc<Log>;

// ---------------------------------------------------------------------------------------------
// static family

#[derive(Enum, Copy, Clone, Eq, PartialEq)]
enum Color { Red, Green }

#[derive(InputObject)]
struct Inner {
    n: i32,
    #[graphql(default = 5)]
    d: i32,
}

#[derive(InputObject)]
struct Obj {
    a: i32,
    #[graphql(default = 7)]
    b: Option<i32>,
    m: MaybeUndefined<String>,
    inner: Option<Inner>,
}

#[derive(OneofObject)]
enum One { I(i32), S(String) }

/// what a Rust value of an input type holds, in the abstract observation vocabulary
trait Seen { fn seen(&self) -> J; }
impl Seen for i32 { fn seen(&self) -> J { json!({"k": "int", "v": self.to_string()}) } }
impl Seen for String { fn seen(&self) -> J { json!({"k": "str", "v": self}) } }
impl Seen for bool { fn seen(&self) -> J { json!({"k": "bool", "v": self}) } }
impl Seen for Color { fn seen(&self) -> J { json!({"k": "enum", "v": match self { Color::Red => "RED", Color::Green => "GREEN" }}) } }
impl<T: Seen> Seen for Option<T> { fn seen(&self) -> J { match self { None => json!({"k": "none"}), Some(x) => x.seen() } } }
impl<T: Seen> Seen for MaybeUndefined<T> {
    fn seen(&self) -> J { match self { MaybeUndefined::Undefined => json!({"k": "undef"}), MaybeUndefined::Null => json!({"k": "null"}), MaybeUndefined::Value(x) => x.seen() } }
}
impl<T: Seen> Seen for Vec<T> { fn seen(&self) -> J { json!({"k": "list", "items": self.iter().map(|x| x.seen()).collect::<Vec<_>>()}) } }
fn ent(k: &str, v: J) -> J { json!({"key": k, "val": v}) }
impl Seen for Inner { fn seen(&self) -> J { json!({"k": "obj", "entries": [ent("n", self.n.seen()), ent("d", self.d.seen())]}) } }
impl Seen for Obj {
    fn seen(&self) -> J { json!({"k": "obj", "entries": [ent("a", self.a.seen()), ent("b", self.b.seen()), ent("m", self.m.seen()), ent("inner", self.inner.seen())]}) }
}
impl Seen for One {
    fn seen(&self) -> J { match self { One::I(x) => json!({"k": "oneof", "key": "i", "val": x.seen()}), One::S(x) => json!({"k": "oneof", "key": "s", "val": x.seen()}) } }
}

fn record(ctx: &async_graphql::Context<'_>, args: Vec<J>) -> bool {
    ctx.data_unchecked::<LogRef>().0.lock().unwrap().push(J::Array(args));
    true
}

struct Query;

macro_rules! echo {
    ($( $name:ident ( $( $(#[$attr:meta])* $arg:ident : $t:ty ),* ) ; )*) => {
        #[Object(rename_fields = "camelCase")]
        impl Query {
            $( async fn $name(&self, ctx: &async_graphql::Context<'_>, $( $(#[$attr])* $arg: $t ),* ) -> bool {
                record(ctx, vec![ $( ent(stringify!($arg), $arg.seen()) ),* ])
            } )*
        }
    };
}

echo! {
    int(x: i32);
    opt_int(x: Option<i32>);
    mu_int(x: MaybeUndefined<i32>);
    d_int(#[graphql(default = 7)] x: i32);
    d_opt_int(#[graphql(default = 7)] x: Option<i32>);
    d_mu_int(#[graphql(default_with = "MaybeUndefined::Value(7)")] x: MaybeUndefined<i32>);
    str(x: String);
    opt_bool(x: Option<bool>);
    color(x: Color);
    d_color(#[graphql(default_with = "Some(Color::Green)")] x: Option<Color>);
    list(x: Vec<i32>);
    opt_list(x: Option<Vec<Option<i32>>>);
    nested(x: Option<Vec<Option<Vec<i32>>>>);
    d_list(#[graphql(default_with = "vec![1, 2]")] x: Vec<i32>);
    colors(x: Option<Vec<Color>>);
    inners(x: Option<Vec<Inner>>);
    obj(x: Obj);
    opt_obj(x: Option<Obj>);
    mu_obj(x: MaybeUndefined<Obj>);
    one(x: One);
    opt_one(x: Option<One>);
    three(a: i32, #[graphql(default = 3)] b: Option<i32>, c: MaybeUndefined<String>);
}

// ---------------------------------------------------------------------------------------------
// dynamic twin

fn type_ref(t: &J) -> d::TypeRef {
    match t["k"].as_str().unwrap_or("named") {
        "named" => d::TypeRef::Named(t["n"].as_str().unwrap().to_string().into()),
        "list" => d::TypeRef::List(Box::new(type_ref(&t["of"]))),
        _ => d::TypeRef::NonNull(Box::new(type_ref(&t["of"]))),
    }
}

/// abstract literal (no variables) -> library value
fn to_value(v: &J) -> Value {
    match v["k"].as_str().unwrap_or("null") {
        "int" => Value::from(v["v"].as_str().unwrap().parse::<i64>().unwrap()),
        "str" => Value::String(v["v"].as_str().unwrap().to_string()),
        "bool" => Value::Boolean(v["v"].as_bool().unwrap()),
        "enum" => Value::Enum(async_graphql::Name::new(v["v"].as_str().unwrap())),
        "list" => Value::List(v["items"].as_array().unwrap().iter().map(to_value).collect()),
        "obj" => Value::Object(v["entries"].as_array().unwrap().iter().map(|e| (async_graphql::Name::new(e["key"].as_str().unwrap()), to_value(&e["val"]))).collect()),
        _ => Value::Null,
    }
}

fn kind_of(v: &Value) -> &'static str {
    match v { Value::Null => "null", Value::Number(n) => if n.is_f64() { "float" } else { "int" }, Value::String(_) => "str", Value::Boolean(_) => "bool",
              Value::Binary(_) => "binary", Value::Enum(_) => "enum", Value::List(_) => "list", Value::Object(_) => "obj" }
}

/// Walk a value along its declared type with the typed accessors.
fn walk(ts: &J, ty: &J, v: Option<d::ValueAccessor<'_>>, notes: &mut Vec<String>) -> J {
    let Some(a) = v else { return json!({"k": "undef"}) };
    if a.is_null() { return json!({"k": "null"}); }
    let mut bad = |a: &d::ValueAccessor<'_>| { notes.push(format!("{} refused for {}", kind_of(a.as_value()), type_ref(ty))); json!({"k": "bad"}) };
    match ty["k"].as_str().unwrap() {
        "nn" => walk(ts, &ty["of"], Some(a), notes),
        "list" => match a.list() {
            Ok(l) => json!({"k": "list", "items": l.iter().map(|x| walk(ts, &ty["of"], Some(x), notes)).collect::<Vec<_>>()}),
            Err(_) => bad(&a),
        },
        _ => {
            let n = ty["n"].as_str().unwrap();
            match n {
                "Int" => a.i64().map(|i| json!({"k": "int", "v": i.to_string()})).unwrap_or_else(|_| bad(&a)),
                "String" => a.string().map(|s| json!({"k": "str", "v": s})).unwrap_or_else(|_| bad(&a)),
                "Boolean" => a.boolean().map(|b| json!({"k": "bool", "v": b})).unwrap_or_else(|_| bad(&a)),
                _ if ts["enums"].get(n).is_some() => match a.enum_name() {
                    Ok(s) if ts["enums"][n].as_array().unwrap().iter().any(|x| x == s) => json!({"k": "enum", "v": s}),
                    _ => bad(&a),
                },
                _ => match a.object() {
                    Ok(o) => {
                        let fields = ts["inputs"][n]["fields"].as_array().unwrap();
                        let mut entries: Vec<J> = fields.iter().map(|f| ent(f["name"].as_str().unwrap(), walk(ts, &f["ty"], o.get(f["name"].as_str().unwrap()), notes))).collect();
                        for k in o.keys() {
                            if !fields.iter().any(|f| f["name"] == k.as_str()) { notes.push(format!("unknown field {}", k)); entries.push(ent(k.as_str(), json!({"k": "bad"}))); }
                        }
                        json!({"k": "obj", "entries": entries})
                    }
                    Err(_) => bad(&a),
                },
            }
        }
    }
}

fn dynamic_schema(ts: &Arc<J>) -> d::Schema {
    let mut b = d::Schema::build("Query", None, None);
    for (name, values) in ts["enums"].as_object().unwrap() {
        let mut e = d::Enum::new(name.as_str());
        for x in values.as_array().unwrap() { e = e.item(x.as_str().unwrap()); }
        b = b.register(e);
    }
    for (name, def) in ts["inputs"].as_object().unwrap() {
        let mut o = d::InputObject::new(name.as_str());
        if def["oneof"].as_bool().unwrap() { o = o.oneof(); }
        for f in def["fields"].as_array().unwrap() {
            let mut iv = d::InputValue::new(f["name"].as_str().unwrap(), type_ref(&f["ty"]));
            if f["hasDefault"].as_bool().unwrap() { iv = iv.default_value(to_value(&f["default"])); }
            o = o.field(iv);
        }
        b = b.register(o);
    }
    let mut q = d::Object::new("Query");
    for f in ts["fields"].as_array().unwrap() {
        let ts2 = ts.clone();
        let fdef = f.clone();
        let mut field = d::Field::new(f["name"].as_str().unwrap(), d::TypeRef::named_nn(d::TypeRef::BOOLEAN), move |ctx| {
            let ts = ts2.clone();
            let fdef = fdef.clone();
            d::FieldFuture::new(async move {
                let mut notes = Vec::new();
                let args: Vec<J> = fdef["args"].as_array().unwrap().iter()
                    .map(|a| ent(a["name"].as_str().unwrap(), walk(&ts, &a["ty"], ctx.args.get(a["name"].as_str().unwrap()), &mut notes))).collect();
                let log = ctx.data_unchecked::<LogRef>();
                log.0.lock().unwrap().push(J::Array(args));
                log.1.lock().unwrap().extend(notes);
                Ok(Some(Value::from(true)))
            })
        });
        for a in f["args"].as_array().unwrap() {
            let mut iv = d::InputValue::new(a["name"].as_str().unwrap(), type_ref(&a["ty"]));
            if a["hasDefault"].as_bool().unwrap() { iv = iv.default_value(to_value(&a["default"])); }
            field = field.argument(iv);
        }
        q = q.field(field);
    }
    b.register(q).finish().unwrap_or_else(|e| tool_error(&format!("dynamic schema: {e}")))
}

// ---------------------------------------------------------------------------------------------

/// abstract JSON value (variables) -> plain JSON
fn plain(v: &J) -> J {
    match v["k"].as_str().unwrap_or("null") {
        "bool" => v["v"].clone(),
        "int" => json!(v["v"].as_str().unwrap().parse::<i64>().unwrap()),
        "str" | "enum" => v["v"].clone(),
        "list" => J::Array(v["items"].as_array().unwrap().iter().map(plain).collect()),
        "obj" => J::Object(v["entries"].as_array().unwrap().iter().map(|e| (e["key"].as_str().unwrap().to_string(), plain(&e["val"]))).collect()),
        _ => J::Null,
    }
}

fn observe(r: Result<Response, String>, log: &LogRef) -> J {
    let calls = std::mem::take(&mut *log.0.lock().unwrap());
    let notes = std::mem::take(&mut *log.1.lock().unwrap());
    match r {
        Ok(resp) => {
            let with_path = resp.errors.iter().any(|e| !e.path.is_empty());
            let class = if resp.errors.is_empty() { "none" } else if with_path { "field" } else { "request" };
            json!({"calls": calls.len(), "args": calls.first().cloned().unwrap_or(json!([])), "nerr": resp.errors.len(), "errclass": class,
                   "msg": resp.errors.first().map(|e| e.message.clone()).unwrap_or_default(), "notes": notes, "problem": ""})
        }
        Err(p) => json!({"calls": calls.len(), "args": calls.first().cloned().unwrap_or(json!([])), "nerr": 0, "errclass": "none", "msg": "", "notes": notes, "problem": format!("panic: {p}")}),
    }
}

fn main() {
    let args: Vec<String> = std::env::args().collect();
    if args.len() < 3 { tool_error("usage: c06 <schema.json> <cases.ndjson> <out.ndjson> | c06 sdl <schema.json>"); }
    let sdl_only = args[1] == "sdl";
    let ts: Arc<J> = Arc::new(serde_json::from_str(&std::fs::read_to_string(if sdl_only { &args[2] } else { &args[1] }).unwrap_or_else(|e| tool_error(&format!("schema: {e}")))).unwrap_or_else(|e| tool_error(&format!("schema json: {e}"))));
    let st = Schema::build(Query, EmptyMutation, EmptySubscription).finish();
    let dy = dynamic_schema(&ts);
    if sdl_only { println!("{}\n-----\n{}", st.sdl(), dy.sdl()); return; }
    if st.sdl() != dy.sdl() { tool_error("static and dynamic family differ (compare with `c06 sdl`)"); }
    if args.len() < 4 { tool_error("usage: c06 <schema.json> <cases.ndjson> <out.ndjson>"); }
    let cases = read_ndjson(&args[2]);
    let mut out = NdWriter::create(&args[3]);
    let mut n = 0usize;
    for mut case in cases {
        let mut dj = json!({"ops": [{"ty": "query", "name": if case["vdefs"].as_array().map(|v| v.is_empty()).unwrap_or(true) { "" } else { "Q" },
            "vars": case["vdefs"].clone(), "dirs": [],
            "sels": [{"k": "field", "name": case["field"].clone(), "alias": "", "args": case["args"].clone(), "dirs": [], "sels": []}]}], "frags": []});
        let text = doc::print(&mut dj);
        let mut vars = serde_json::Map::new();
        for v in case["supplied"].as_array().map(|a| a.as_slice()).unwrap_or(&[]) { vars.insert(v["name"].as_str().unwrap().to_string(), plain(&v["val"])); }
        let vars = J::Object(vars);
        let log: LogRef = Arc::new(Log::default());
        let request = Request::new(text.clone()).variables(exec::vars_from_json(&vars)).data(log.clone());
        let dynamic = case["flavour"] == "dynamic";
        let r = exec::catch(|| if dynamic { futures_executor::block_on(dy.execute(request)) } else { futures_executor::block_on(st.execute(request)) });
        case["text"] = json!(text);
        case["variables"] = json!(vars.to_string());
        case["obs"] = observe(r, &log);
        out.write(&case);
        n += 1;
    }
    out.finish();
    println!("{{\"cases\": {n}}}");
}
