//! C23 harness: render TLC-generated wire forms to bytes, decode them with the real HTTP helpers of
//! async-graphql, and (exec mode) run the decoded batch through execute_batch with gated resolvers in the
//! TLC-chosen order.  The harness only renders, drives and records; TLC judges.
//!
//! usage: c23 decode <cases.ndjson> <out.ndjson> <seed>
//!        c23 exec   <cases.ndjson> <out.ndjson> <seed>
#[path = "http_common/mod.rs"]
mod http_common;
use async_graphql::http::{MultipartOptions, parse_query_string, receive_batch_body, receive_batch_json, receive_body, receive_json};
use async_graphql::{BatchRequest, BatchResponse, Context, Data, EmptyMutation, EmptySubscription, Executor, Object, ParseRequestError, Request, Response, Schema};
use futures_util::stream::BoxStream;
use http_common::*;
use serde_json::{Value as J, json};
use std::collections::HashMap;
use std::future::Future;
use std::panic::{AssertUnwindSafe, catch_unwind};
use std::sync::{Arc, Mutex};
use std::task::Poll;
use vh::io::*;

// ---------- rendering of wire forms ----------
struct Rendered { content_type: Option<String>, bytes: Vec<u8>, query_string: Option<String> }

fn render_wire(w: &J, style: u32) -> Rendered {
    let ws = w["ws"].as_str().unwrap_or_else(|| tool_error("wire form without ws"));
    match w["enc"].as_str().unwrap() {
        "json" | "json-batch" => Rendered { content_type: Some("application/json".into()), bytes: json_text(&w["body"], style, ws).into_bytes(), query_string: None },
        "get" => {
            let pairs: Vec<(String, String)> = w["params"].as_array().unwrap().iter().map(|p| {
                let v = if p["kind"] == "raw" { atom_text(p["a"].as_str().unwrap()) } else { json_text(&p["j"], style, ws) };
                (p["key"].as_str().unwrap().to_string(), v)
            }).collect();
            let qs = serde_urlencoded::to_string(&pairs).unwrap_or_else(|e| tool_error(&format!("urlencode: {e}")));
            Rendered { content_type: None, bytes: qs.clone().into_bytes(), query_string: Some(qs) }
        }
        "multipart" | "multipart-batch" => {
            let parts: Vec<MpPart> = w["parts"].as_array().unwrap().iter().map(|p| MpPart {
                name: p["name"].as_str().unwrap().to_string(), filename: None,
                content_type: if style & 2 == 2 { Some("application/json".into()) } else { None },
                data: json_text(&p["j"], style, ws).into_bytes(),
            }).collect();
            Rendered { content_type: Some(multipart_content_type()), bytes: render_multipart(&parts), query_string: None }
        }
        other => tool_error(&format!("unknown encoding {other}")),
    }
}

// ---------- projection of decoded requests ----------
fn req_to_abs(r: &Request) -> J {
    let vars: Vec<J> = r.variables.iter().map(|(k, v)| json!({"key": text_atom(k.as_str()), "val": value_to_node(v)})).collect();
    let mut ext: Vec<(String, J)> = r.extensions.iter().map(|(k, v)| (text_atom(k), value_to_node(v))).collect();
    ext.sort_by(|a, b| a.0.cmp(&b.0));
    let ext: Vec<J> = ext.into_iter().map(|(k, v)| json!({"key": k, "val": v})).collect();
    json!({
        "query": text_atom(&r.query),
        "op": match &r.operation_name { Some(s) => json!({"some": true, "a": text_atom(s)}), None => json!({"some": false, "a": ""}) },
        "vars": node("obj", "", 0, vars),
        "ext": node("obj", "", 0, ext),
    })
}
fn err_class(e: &ParseRequestError) -> &'static str {
    match e {
        ParseRequestError::Io(_) => "Io", ParseRequestError::InvalidRequest(_) => "InvalidRequest",
        ParseRequestError::InvalidFilesMap(_) => "InvalidFilesMap", ParseRequestError::InvalidMultipart(_) => "InvalidMultipart",
        ParseRequestError::MissingOperatorsPart => "MissingOperatorsPart", ParseRequestError::MissingMapPart => "MissingMapPart",
        ParseRequestError::NotUpload => "NotUpload", ParseRequestError::MissingFiles => "MissingFiles",
        ParseRequestError::PayloadTooLarge => "PayloadTooLarge", ParseRequestError::UnsupportedBatch => "UnsupportedBatch", _ => "Other",
    }
}
fn out_single(r: Result<Request, ParseRequestError>) -> J {
    match r {
        Ok(req) => json!({"k": "ok", "shape": "single", "reqs": [req_to_abs(&req)], "class": ""}),
        Err(e) => json!({"k": "error", "shape": "", "reqs": [], "class": err_class(&e)}),
    }
}
fn out_batch(r: &Result<BatchRequest, ParseRequestError>) -> J {
    match r {
        Ok(BatchRequest::Single(req)) => json!({"k": "ok", "shape": "single", "reqs": [req_to_abs(req)], "class": ""}),
        Ok(BatchRequest::Batch(reqs)) => json!({"k": "ok", "shape": "batch", "reqs": reqs.iter().map(req_to_abs).collect::<Vec<_>>(), "class": ""}),
        Err(e) => json!({"k": "error", "shape": "", "reqs": [], "class": err_class(e)}),
    }
}
fn guarded(f: impl FnOnce() -> J) -> J {
    match catch_unwind(AssertUnwindSafe(f)) {
        Ok(j) => j,
        Err(_) => json!({"k": "panic", "shape": "", "reqs": [], "class": "panic"}),
    }
}
fn block<T>(f: impl Future<Output = T>) -> T { futures_executor::block_on(f) }

fn decode_batch(r: &Rendered, chunk: usize, ct_none: bool) -> Result<BatchRequest, ParseRequestError> {
    match &r.query_string {
        Some(qs) => parse_query_string(qs).map(BatchRequest::Single),
        None => {
            let ct = if ct_none { None } else { r.content_type.clone() };
            block(receive_batch_body(ct, ChunkedReader::new(r.bytes.clone(), chunk), MultipartOptions::default()))
        }
    }
}

fn run_decode(id: usize, case: &J, seed: u64) -> J {
    let w = &case["wire"];
    let enc = w["enc"].as_str().unwrap();
    let style = ((id as u64 + seed) % 4) as u32;
    let chunk = [1usize, 7, 64, 4096][((id as u64 / 4 + seed) % 4) as usize];
    let r = render_wire(w, style);
    let mut obs: Vec<J> = Vec::new();
    let single_ok = matches!(enc, "json" | "multipart");
    match enc {
        "get" => obs.push(json!({"api": "parse_query_string", "out": guarded(|| out_single(parse_query_string(r.query_string.as_ref().unwrap())))})),
        "json" | "json-batch" => {
            obs.push(json!({"api": "receive_batch_json", "out": guarded(|| out_batch(&block(receive_batch_json(ChunkedReader::new(r.bytes.clone(), chunk)))))}));
            obs.push(json!({"api": "receive_batch_body", "out": guarded(|| out_batch(&decode_batch(&r, chunk, false)))}));
            obs.push(json!({"api": "receive_batch_body(no content type)", "out": guarded(|| out_batch(&decode_batch(&r, chunk, true)))}));
            if single_ok {
                obs.push(json!({"api": "receive_json", "out": guarded(|| out_single(block(receive_json(ChunkedReader::new(r.bytes.clone(), chunk)))))}));
                obs.push(json!({"api": "receive_body", "out": guarded(|| out_single(block(receive_body(r.content_type.clone(), ChunkedReader::new(r.bytes.clone(), chunk), MultipartOptions::default()))))}));
            }
        }
        _ => {
            obs.push(json!({"api": "receive_batch_body", "out": guarded(|| out_batch(&decode_batch(&r, chunk, false)))}));
            if single_ok {
                obs.push(json!({"api": "receive_body", "out": guarded(|| out_single(block(receive_body(r.content_type.clone(), ChunkedReader::new(r.bytes.clone(), chunk), MultipartOptions::default()))))}));
            }
        }
    }
    // group identical outcomes: obs = [{api: "a | b | ..", out}]
    let mut grouped: Vec<(Vec<String>, J)> = Vec::new();
    for o in obs {
        let api = o["api"].as_str().unwrap().to_string();
        match grouped.iter_mut().find(|(_, out)| *out == o["out"]) {
            Some((apis, _)) => apis.push(api),
            None => grouped.push((vec![api], o["out"].clone())),
        }
    }
    let obs: Vec<J> = grouped.into_iter().map(|(apis, out)| json!({"api": apis.join(" | "), "out": out})).collect();
    json!({"id": id, "enc": enc, "mal": case["mal"], "wire": w, "obs": obs, "text": preview(&r.bytes), "chunk": chunk})
}

// ---------- gated execution ----------
type Gates = Arc<Mutex<HashMap<i32, futures_channel::oneshot::Receiver<()>>>>;
struct Query;
#[Object]
impl Query {
    /// waits until gate `m` is opened, then returns `m`
    async fn mark(&self, ctx: &Context<'_>, m: i32) -> i32 {
        let rx = ctx.data_unchecked::<Gates>().lock().unwrap().remove(&m);
        if let Some(rx) = rx { let _ = rx.await; }
        m
    }
    async fn echo(&self, s: Option<String>) -> Option<String> { s }
}
type S = Schema<Query, EmptyMutation, EmptySubscription>;
#[derive(Clone)]
struct Wrap(S);
impl Executor for Wrap {
    fn execute(&self, request: Request) -> impl Future<Output = Response> + Send {
        let s = self.0.clone();
        async move { s.execute(request).await }
    }
    fn execute_stream(&self, request: Request, session_data: Option<Arc<Data>>) -> BoxStream<'static, Response> {
        self.0.execute_stream_with_session_data(request, session_data.unwrap_or_default())
    }
}
fn resp_to_abs(r: &Response) -> J { json!({"errors": r.errors.len(), "data": value_to_node(&r.data)}) }

fn run_exec(id: usize, case: &J, seed: u64) -> J {
    let w = &case["wire"];
    let n = case["n"].as_i64().unwrap() as i32;
    let style = ((id as u64 + seed) % 4) as u32;
    let chunk = [1usize, 7, 64, 4096][((id as u64 / 4 + seed) % 4) as usize];
    let r = render_wire(w, style);
    let decoded = decode_batch(&r, chunk, false);
    let decoded_abs = out_batch(&decoded);
    let mut events: Vec<J> = Vec::new();
    if let Ok(batch) = decoded {
        let mut senders: HashMap<i32, futures_channel::oneshot::Sender<()>> = HashMap::new();
        let gates: Gates = Default::default();
        for i in 1..=n { let (tx, rx) = futures_channel::oneshot::channel(); senders.insert(i, tx); gates.lock().unwrap().insert(i, rx); }
        let schema: S = Schema::build(Query, EmptyMutation, EmptySubscription).data(gates.clone()).finish();
        let wrap = Wrap(schema.clone());
        let mut fut: std::pin::Pin<Box<dyn Future<Output = BatchResponse> + Send + '_>> =
            if case["api"] == "executor" { Box::pin(Executor::execute_batch(&wrap, batch)) } else { Box::pin(schema.execute_batch(batch)) };
        let waker = futures_task::noop_waker();
        let mut cx = std::task::Context::from_waker(&waker);
        let mut ready = false;
        let mut poll = |events: &mut Vec<J>, ready: &mut bool| {
            if *ready { return; }
            match catch_unwind(AssertUnwindSafe(|| fut.as_mut().poll(&mut cx))) {
                Ok(Poll::Pending) => events.push(json!({"ev": "poll", "i": 0, "got": "pending", "shape": "", "resps": []})),
                Ok(Poll::Ready(BatchResponse::Single(resp))) => { *ready = true; events.push(json!({"ev": "poll", "i": 0, "got": "ready", "shape": "single", "resps": [resp_to_abs(&resp)]})) }
                Ok(Poll::Ready(BatchResponse::Batch(resps))) => { *ready = true; events.push(json!({"ev": "poll", "i": 0, "got": "ready", "shape": "batch", "resps": resps.iter().map(resp_to_abs).collect::<Vec<_>>()})) }
                Err(_) => { *ready = true; events.push(json!({"ev": "poll", "i": 0, "got": "panic", "shape": "", "resps": []})) }
            }
        };
        for cmd in case["sched"].as_array().unwrap() {
            let c = cmd.as_i64().unwrap() as i32;
            if c == 0 { poll(&mut events, &mut ready); } else if let Some(tx) = senders.remove(&c) {
                let _ = tx.send(());
                events.push(json!({"ev": "open", "i": c, "got": "", "shape": "", "resps": []}));
            }
        }
        // drain: open what is left (in index order), poll to completion (bounded)
        let mut rest: Vec<i32> = senders.keys().copied().collect();
        rest.sort();
        for c in rest { if !ready { let _ = senders.remove(&c).unwrap().send(()); events.push(json!({"ev": "open", "i": c, "got": "", "shape": "", "resps": []})); } }
        let mut guard = 0;
        while !ready && guard < 20 { poll(&mut events, &mut ready); guard += 1; }
    }
    json!({"id": id, "enc": case["enc"], "api": case["api"], "n": n, "sched": case["sched"], "wire": w, "decoded": decoded_abs, "events": events, "text": preview(&r.bytes)})
}

fn main() {
    let args: Vec<String> = std::env::args().collect();
    if args.len() < 5 { tool_error("usage: c23 decode|exec <cases.ndjson> <out.ndjson> <seed>"); }
    check_atoms();
    std::panic::set_hook(Box::new(|_| {}));
    let cases = read_ndjson(&args[2]);
    let mut out = NdWriter::create(&args[3]);
    let seed: u64 = args[4].parse().unwrap_or(1);
    for (i, c) in cases.iter().enumerate() {
        let row = match args[1].as_str() {
            "decode" => run_decode(i + 1, c, seed),
            "exec" => run_exec(i + 1, c, seed),
            _ => tool_error("mode must be decode or exec"),
        };
        out.write(&row);
    }
    out.finish();
    println!("{{\"cases\": {}}}", cases.len());
}
