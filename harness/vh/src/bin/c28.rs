//! C28 harness: replay schedules (TLC-generated or seeded random) through a real `DataLoader`.
//! Everything that can move is moved by hand, one command at a time:
//!   * spawned tasks go to a `ManualSpawner` (task id = spawn order) and are polled on command,
//!   * `Timer::delay` futures are oneshot gates fired on command (one per start_fetch task),
//!   * `Loader::load` logs the batch (batch id = call number, keys as given) and waits on a oneshot gate
//!     that the schedule resolves with Ok (value of every key = the batch id) or Err,
//!   * request futures (`load_many`) are polled by hand and can be dropped (cancellation).
//! Commands: load r ks | run t | fire t | ret b ok | cancel r.  Commands that do not apply are logged as
//! "skip".  After the schedule everything left is run to quiescence (fire, run, ret ok), as ordinary events.
//! No verdict is computed here: DataLoaderTrace.tla decides.
//!
//! usage: c28 <schedules.ndjson> <out.ndjson>
use async_graphql::dataloader::{CacheFactory, DataLoader, HashMapCache, Loader, LruCache};
use async_graphql::runtime::Timer;
use futures_channel::oneshot;
use futures_util::FutureExt;
use futures_util::future::BoxFuture;
use futures_util::task::{FutureObj, Spawn, SpawnError};
use serde_json::{Value as J, json};
use std::collections::{BTreeMap, HashMap, HashSet};
use std::future::Future;
use std::panic::{AssertUnwindSafe, catch_unwind};
use std::pin::Pin;
use std::sync::{Arc, Mutex};
use std::task::{Context, Poll};
use std::time::Duration;
use vh::io::*;

type LoadResult = Result<HashMap<i32, u64>, ()>;

struct Call {
    keys: Vec<i32>,
    owner: Option<usize>,
    gate: Option<oneshot::Sender<LoadResult>>,
}
#[derive(Default)]
struct Shared {
    cur_task: Option<usize>,
    timers: BTreeMap<usize, oneshot::Sender<()>>, // task id -> armed, unfired delay
    armed: Vec<usize>,                            // tasks that armed a delay during the current poll
    calls: Vec<Call>,                             // batch id = index + 1
    new_calls: Vec<usize>,                        // batch ids called during the current poll
    stray_delays: usize,                          // Timer::delay outside a task poll (never expected)
}
type Sh = Arc<Mutex<Shared>>;

#[derive(Clone, Default)]
struct ManualSpawner(Arc<Mutex<Vec<FutureObj<'static, ()>>>>);
impl Spawn for ManualSpawner {
    fn spawn_obj(&self, f: FutureObj<'static, ()>) -> Result<(), SpawnError> {
        self.0.lock().unwrap().push(f);
        Ok(())
    }
}

struct ManualTimer(Sh);
impl Timer for ManualTimer {
    fn delay(&self, _d: Duration) -> BoxFuture<'static, ()> {
        let (tx, rx) = oneshot::channel();
        let mut s = self.0.lock().unwrap();
        match s.cur_task {
            Some(t) => {
                s.timers.insert(t, tx);
                s.armed.push(t);
            }
            None => {
                s.stray_delays += 1;
                std::mem::forget(tx); // never fires
            }
        }
        async move {
            let _ = rx.await;
        }
        .boxed()
    }
}

struct GatedLoader(Sh);
impl Loader<i32> for GatedLoader {
    type Value = u64;
    type Error = ();
    async fn load(&self, keys: &[i32]) -> LoadResult {
        let rx = {
            let (tx, rx) = oneshot::channel();
            let mut s = self.0.lock().unwrap();
            let owner = s.cur_task;
            s.calls.push(Call { keys: keys.to_vec(), owner, gate: Some(tx) });
            let b = s.calls.len();
            s.new_calls.push(b);
            rx
        };
        rx.await.unwrap_or(Err(()))
    }
}

struct Task {
    fut: Option<FutureObj<'static, ()>>,
    polled: bool,
}
type ReqFut = Pin<Box<dyn Future<Output = LoadResult>>>;

struct Run<C: CacheFactory> {
    dl: Arc<DataLoader<GatedLoader, C>>,
    sh: Sh,
    sp: ManualSpawner,
    tasks: Vec<Task>,            // task id = index + 1
    reqs: BTreeMap<u64, ReqFut>, // waiting requests
    issued: HashSet<u64>,
    holes: HashSet<i32>,
    events: Vec<J>,
}

fn kv(m: HashMap<i32, u64>) -> J {
    let mut v: Vec<(i32, u64)> = m.into_iter().collect();
    v.sort();
    J::Array(v.into_iter().map(|(k, v)| json!({"k": k, "v": v})).collect())
}

fn event(ev: &str) -> serde_json::Map<String, J> {
    let mut m = serde_json::Map::new();
    for (k, v) in [("ev", json!(ev)), ("r", json!(0)), ("t", json!(0)), ("b", json!(0)), ("ks", json!([])), ("ok", json!(false)),
        ("fin", json!(false)), ("err", json!(false)), ("res", json!([])), ("snap", json!([])), ("spawn", json!(0)),
        ("dels", json!([])), ("panic", json!(false)), ("waiting", json!([]))] {
        m.insert(k.to_string(), v);
    }
    m
}

impl<C: CacheFactory> Run<C> {
    fn cx_poll<F: Future + Unpin>(f: &mut F) -> Poll<F::Output> {
        let waker = futures_task::noop_waker();
        let mut cx = Context::from_waker(&waker);
        f.poll_unpin(&mut cx)
    }
    fn snapshot(&self) -> J {
        let mut f = Box::pin(self.dl.get_cached_values::<i32>());
        match Self::cx_poll(&mut f) {
            Poll::Ready(m) => kv(m),
            Poll::Pending => tool_error("get_cached_values did not complete at once"),
        }
    }
    /// adopt tasks spawned during the last poll; returns the id of the first new one (0 = none)
    fn adopt(&mut self) -> usize {
        let new: Vec<_> = std::mem::take(&mut *self.sp.0.lock().unwrap());
        let first = if new.is_empty() { 0 } else { self.tasks.len() + 1 };
        for f in new {
            self.tasks.push(Task { fut: Some(f), polled: false });
        }
        first
    }
    /// poll task t once; returns (armed a delay, batch ids called, finished)
    fn poll_task(&mut self, t: usize) -> (bool, Vec<usize>, bool) {
        {
            let mut s = self.sh.lock().unwrap();
            s.cur_task = Some(t);
            s.armed.clear();
            s.new_calls.clear();
        }
        let task = &mut self.tasks[t - 1];
        task.polled = true;
        let fin = match task.fut.as_mut() {
            Some(f) => Self::cx_poll(f).is_ready(),
            None => true,
        };
        if fin {
            task.fut = None;
        }
        let mut s = self.sh.lock().unwrap();
        s.cur_task = None;
        (s.armed.contains(&t), std::mem::take(&mut s.new_calls), fin)
    }
    /// poll every waiting request; completed ones are reported as deliveries
    fn deliveries(&mut self) -> J {
        let mut dels = Vec::new();
        let ids: Vec<u64> = self.reqs.keys().copied().collect();
        for r in ids {
            if let Poll::Ready(out) = Self::cx_poll(self.reqs.get_mut(&r).unwrap()) {
                self.reqs.remove(&r);
                dels.push(match out {
                    Ok(m) => json!({"r": r, "err": false, "res": kv(m)}),
                    Err(()) => json!({"r": r, "err": true, "res": []}),
                });
            }
        }
        J::Array(dels)
    }
    fn batch_fields(&self, e: &mut serde_json::Map<String, J>, called: &[usize]) {
        // more than one loader call in one poll is never expected; the first is reported, the count is kept
        if let Some(b) = called.first() {
            e.insert("b".into(), json!(b));
            e.insert("ks".into(), json!(self.sh.lock().unwrap().calls[*b - 1].keys));
        }
        if called.len() > 1 {
            e.insert("extra_calls".into(), json!(called.len() - 1));
        }
    }
    fn skip(&mut self, cmd: &J) {
        let mut e = event("skip");
        e.insert("cmd".into(), cmd["c"].clone());
        self.events.push(J::Object(e));
    }

    fn step(&mut self, cmd: &J) {
        let c = cmd["c"].as_str().unwrap_or("");
        match c {
            "load" => {
                let r = cmd["r"].as_u64().unwrap();
                if !self.issued.insert(r) {
                    return self.skip(cmd);
                }
                let mut ks: Vec<i32> = cmd["ks"].as_array().unwrap().iter().map(|k| k.as_i64().unwrap() as i32).collect();
                ks.sort();
                let mut e = event("load");
                e.insert("r".into(), json!(r));
                e.insert("ks".into(), json!(ks));
                e.insert("snap".into(), self.snapshot());
                let d = self.dl.clone();
                let mut fut: ReqFut = Box::pin(async move { d.load_many(ks).await });
                match Self::cx_poll(&mut fut) {
                    Poll::Ready(Ok(m)) => {
                        e.insert("fin".into(), json!(true));
                        e.insert("res".into(), kv(m));
                    }
                    Poll::Ready(Err(())) => {
                        e.insert("fin".into(), json!(true));
                        e.insert("err".into(), json!(true));
                    }
                    Poll::Pending => {
                        self.reqs.insert(r, fut);
                    }
                }
                e.insert("spawn".into(), json!(self.adopt()));
                e.insert("dels".into(), self.deliveries());
                self.events.push(J::Object(e));
            }
            "run" | "fire" => {
                let t = cmd["t"].as_u64().unwrap() as usize;
                if t == 0 || t > self.tasks.len() || self.tasks[t - 1].fut.is_none() {
                    return self.skip(cmd);
                }
                if !self.tasks[t - 1].polled {
                    // first poll: an immediate_load task calls the loader, a start_fetch task arms its delay
                    let (armed, called, fin) = self.poll_task(t);
                    let mut e = event(if armed && called.is_empty() { "arm" } else { "run" });
                    e.insert("t".into(), json!(t));
                    e.insert("fin".into(), json!(fin));
                    self.batch_fields(&mut e, &called);
                    self.adopt();
                    e.insert("dels".into(), self.deliveries());
                    let was_arm = e["ev"] == "arm";
                    self.events.push(J::Object(e));
                    if c == "run" || !was_arm {
                        return;
                    }
                } else if c == "run" {
                    return self.skip(cmd);
                }
                let tx = self.sh.lock().unwrap().timers.remove(&t);
                match tx {
                    None => self.skip(cmd),
                    Some(tx) => {
                        let _ = tx.send(());
                        let (_armed, called, fin) = self.poll_task(t);
                        let mut e = event("fire");
                        e.insert("t".into(), json!(t));
                        e.insert("fin".into(), json!(fin));
                        self.batch_fields(&mut e, &called);
                        self.adopt();
                        e.insert("dels".into(), self.deliveries());
                        self.events.push(J::Object(e));
                    }
                }
            }
            "ret" => {
                let b = cmd["b"].as_u64().unwrap() as usize;
                let ok = cmd["ok"].as_bool().unwrap();
                let (gate, owner, keys) = {
                    let mut s = self.sh.lock().unwrap();
                    if b == 0 || b > s.calls.len() || s.calls[b - 1].gate.is_none() {
                        drop(s);
                        return self.skip(cmd);
                    }
                    let c = &mut s.calls[b - 1];
                    (c.gate.take().unwrap(), c.owner, c.keys.clone())
                };
                let val: LoadResult = if ok { Ok(keys.iter().filter(|k| !self.holes.contains(k)).map(|k| (*k, b as u64)).collect()) } else { Err(()) };
                let _ = gate.send(val);
                let mut e = event("ret");
                e.insert("b".into(), json!(b));
                e.insert("ok".into(), json!(ok));
                if let Some(t) = owner {
                    let (_a, called, fin) = self.poll_task(t);
                    e.insert("t".into(), json!(t));
                    e.insert("fin".into(), json!(fin));
                    if !called.is_empty() {
                        e.insert("extra_calls".into(), json!(called.len()));
                    }
                }
                self.adopt();
                e.insert("dels".into(), self.deliveries());
                self.events.push(J::Object(e));
            }
            "cancel" => {
                let r = cmd["r"].as_u64().unwrap();
                if self.reqs.remove(&r).is_none() {
                    return self.skip(cmd);
                }
                let mut e = event("cancel");
                e.insert("r".into(), json!(r));
                e.insert("dels".into(), self.deliveries());
                self.events.push(J::Object(e));
            }
            other => tool_error(&format!("unknown command {other}")),
        }
    }

    /// "given that spawned tasks and timers run": run everything that is left, lowest id first
    fn drain(&mut self) {
        for _ in 0..10_000 {
            if let Some(t) = (1..=self.tasks.len()).find(|t| self.tasks[t - 1].fut.is_some() && !self.tasks[t - 1].polled) {
                self.step(&json!({"c": "run", "t": t}));
                continue;
            }
            let timer = self.sh.lock().unwrap().timers.keys().next().copied();
            if let Some(t) = timer {
                self.step(&json!({"c": "fire", "t": t}));
                continue;
            }
            let open = self.sh.lock().unwrap().calls.iter().position(|c| c.gate.is_some());
            if let Some(i) = open {
                self.step(&json!({"c": "ret", "b": i + 1, "ok": true}));
                continue;
            }
            break;
        }
        let mut e = event("end");
        e.insert("snap".into(), self.snapshot());
        e.insert("waiting".into(), json!(self.reqs.keys().collect::<Vec<_>>()));
        e.insert("fin".into(), json!(self.tasks.iter().all(|t| t.fut.is_none())));
        e.insert("b".into(), json!(self.sh.lock().unwrap().stray_delays));
        self.events.push(J::Object(e));
    }
}

fn run_case<C: CacheFactory>(dl: DataLoader<GatedLoader, C>, sh: Sh, sp: ManualSpawner, case: &J) -> Vec<J> {
    let conf = &case["conf"];
    let dl = dl.max_batch_size(conf["mb"].as_u64().unwrap() as usize);
    let holes: HashSet<i32> = case["holes"].as_array().unwrap().iter().map(|k| k.as_i64().unwrap() as i32).collect();
    let mut run = Run { dl: Arc::new(dl), sh, sp, tasks: Vec::new(), reqs: BTreeMap::new(), issued: HashSet::new(), holes, events: Vec::new() };
    let mut prefed: Vec<i32> = conf["prefed"].as_array().unwrap().iter().map(|k| k.as_i64().unwrap() as i32).collect();
    prefed.sort();
    if !prefed.is_empty() {
        let d = run.dl.clone();
        let mut f = Box::pin(async move { d.feed_many(prefed.into_iter().map(|k| (k, 100 + k as u64))).await });
        if Run::<C>::cx_poll(&mut f).is_pending() {
            tool_error("feed_many did not complete at once");
        }
    }
    if conf["mode"] == "mapoff" {
        run.dl.enable_all_cache(false);
    }
    let r = catch_unwind(AssertUnwindSafe(|| {
        for cmd in case["sched"].as_array().unwrap() {
            run.step(cmd);
        }
        run.drain();
    }));
    if r.is_err() {
        let mut e = event("panic");
        e.insert("panic".into(), json!(true));
        run.events.push(J::Object(e));
    }
    // uniform records for TLC
    for e in run.events.iter_mut() {
        let o = e.as_object_mut().unwrap();
        o.entry("extra_calls").or_insert(json!(0));
        o.entry("cmd").or_insert(json!(""));
    }
    std::mem::take(&mut run.events)
}

fn main() {
    let args: Vec<String> = std::env::args().collect();
    if args.len() < 3 {
        tool_error("usage: c28 <schedules.ndjson> <out.ndjson>");
    }
    std::panic::set_hook(Box::new(|_| {})); // panics of the code under test are data
    let cases = read_ndjson(&args[1]);
    let mut out = NdWriter::create(&args[2]);
    let mut n = 0;
    for case in cases {
        let sh: Sh = Arc::new(Mutex::new(Shared::default()));
        let sp = ManualSpawner::default();
        let (loader, timer) = (GatedLoader(sh.clone()), ManualTimer(sh.clone()));
        let events = match case["conf"]["mode"].as_str().unwrap() {
            "none" => run_case(DataLoader::new(loader, sp.clone(), timer), sh, sp, &case),
            "map" | "mapoff" => run_case(DataLoader::with_cache(loader, sp.clone(), timer, HashMapCache::default()), sh, sp, &case),
            "lru1" => run_case(DataLoader::with_cache(loader, sp.clone(), timer, LruCache::new(1)), sh, sp, &case),
            "lru2" => run_case(DataLoader::with_cache(loader, sp.clone(), timer, LruCache::new(2)), sh, sp, &case),
            "lru3" => run_case(DataLoader::with_cache(loader, sp.clone(), timer, LruCache::new(3)), sh, sp, &case),
            m => tool_error(&format!("unknown cache mode {m}")),
        };
        let mut o = case.clone();
        o["events"] = J::Array(events);
        out.write(&o);
        n += 1;
    }
    out.finish();
    println!("{{\"traces\": {n}}}");
}
