//! C10 harness: depth / complexity / recursion / directive limits.
//!
//! usage: c10 <schemas/limits.json> <cases.ndjson> <out.ndjson>
//!
//! A case is {id, doc (abstract tree), opName, vars:[{name,val}], runs:[{flavour, mode, limits:{depth,complexity,
//! recursive,directives}}]} (a limit of -1 = not configured).  For every run the document is executed on a schema
//! built with exactly those limits -- the derive-built family below (`flavour: "static"`, custom complexity rules
//! declared with `#[graphql(complexity = "...")]`) or its dynamic twin built from the schema JSON (`"dynamic"`,
//! the dynamic API has no custom rules) -- and the run is written back with
//!   obs = {rejected: the response carries errors, ran: number of resolver calls, dataNull, messages, problem}.
//! The harness only drives and records; TLC (spec/gql/LimitsTrace.tla) computes the measures and judges.
//!
//! The family is declared through one macro that expands to the `#[Object] impl` *and* to a table of the rule
//! texts, so the description compared with schemas/limits.json at start-up cannot diverge from the compiled
//! annotations; types, fields, arguments and defaults are compared through introspection (exit 2 on mismatch).
use async_graphql::dynamic as dy;
use async_graphql::*;
use serde_json::{Value as J, json};
use std::collections::HashMap;
use std::sync::{Arc, Mutex};
use vh::io::*;
use vh::{doc, exec};

#[derive(Default)]
pub struct Log(Mutex<Vec<String>>);
fn note(ctx: &Context<'_>, what: &str) {
    if let Some(l) = ctx.data_opt::<Arc<Log>>() { l.0.lock().unwrap().push(what.to_string()); }
}

/// Emits the `#[Object] impl` verbatim (so the derive sees the tokens exactly as written) and, from the same
/// tokens, the table (type, field, rule text) that the start-up mirror check compares with schemas/limits.json.
macro_rules! gql_object {
    ($rules:ident, $tname:literal; $($all:tt)*) => { $($all)* gql_object!(@table $rules, $tname; $($all)*); };
    (@table $rules:ident, $tname:literal; # [Object $(($($oargs:tt)*))?] impl $ty:ident { $( $(#[graphql(complexity = $cx:literal)])? async fn $f:ident ( $($params:tt)* ) -> $ret:ty $body:block )* }) => {
        const $rules: &[(&str, &str, &str)] = &[ $( ($tname, stringify!($f), gql_object!(@cx $($cx)?)) ),* ];
    };
    (@cx) => { "" };
    (@cx $cx:literal) => { $cx };
}

#[derive(Clone)]
pub struct A;
#[derive(Clone)]
pub struct B;
/// an object whose arguments are renamed: `rename_args = "snake_case"` (the GraphQL argument is `page_size`, not
/// the default `pageSize`) and one argument renamed individually (`top_n` -> `topN`); both feed complexity rules
#[derive(Clone)]
pub struct S;
pub struct Query;

#[derive(Interface, Clone)]
#[graphql(field(name = "id", ty = "ID"), field(name = "label", ty = "Option<String>"), field(name = "peer", ty = "Option<Node>"))]
pub enum Node { A(A), B(B) }

#[derive(Union, Clone)]
pub enum U { A(A), B(B) }

gql_object! { A_RULES, "A";
#[Object]
impl A {
    async fn id(&self, ctx: &Context<'_>) -> ID { note(ctx, "A.id"); ID("a".into()) }
    #[graphql(complexity = "5")]
    async fn label(&self, ctx: &Context<'_>) -> Option<String> { note(ctx, "A.label"); Some("la".into()) }
    async fn peer(&self, ctx: &Context<'_>) -> Option<Node> { note(ctx, "A.peer"); Some(Node::B(B)) }
    #[graphql(complexity = "2 * child_complexity")]
    async fn me(&self, ctx: &Context<'_>) -> Option<A> { note(ctx, "A.me"); Some(A) }
    #[graphql(complexity = "first * child_complexity + 1")]
    async fn kids(&self, ctx: &Context<'_>, #[graphql(default = 2)] first: usize) -> Vec<Node> { let _ = first; note(ctx, "A.kids"); vec![Node::A(A), Node::B(B)] }
    async fn n(&self, ctx: &Context<'_>) -> Option<i32> { note(ctx, "A.n"); Some(1) }
}
}

gql_object! { B_RULES, "B";
#[Object]
impl B {
    async fn id(&self, ctx: &Context<'_>) -> ID { note(ctx, "B.id"); ID("b".into()) }
    async fn label(&self, ctx: &Context<'_>) -> Option<String> { note(ctx, "B.label"); Some("lb".into()) }
    async fn peer(&self, ctx: &Context<'_>) -> Option<Node> { note(ctx, "B.peer"); Some(Node::A(A)) }
    async fn a(&self, ctx: &Context<'_>) -> Option<A> { note(ctx, "B.a"); Some(A) }
    #[graphql(complexity = "0")]
    async fn b(&self, ctx: &Context<'_>) -> Option<bool> { note(ctx, "B.b"); Some(true) }
}
}

gql_object! { S_RULES, "S";
#[Object(rename_args = "snake_case")]
impl S {
    async fn id(&self, ctx: &Context<'_>) -> ID { note(ctx, "S.id"); ID("s".into()) }
    #[graphql(complexity = "page_size * child_complexity")]
    async fn pages(&self, ctx: &Context<'_>, #[graphql(default = 2)] page_size: usize) -> Vec<A> { let _ = page_size; note(ctx, "S.pages"); vec![A] }
    #[graphql(complexity = "top_n * child_complexity + 1")]
    async fn top(&self, ctx: &Context<'_>, #[graphql(name = "topN", default = 3)] top_n: usize) -> Vec<A> { let _ = top_n; note(ctx, "S.top"); vec![A] }
}
}

gql_object! { Q_RULES, "Query";
#[Object]
impl Query {
    async fn node(&self, ctx: &Context<'_>) -> Option<Node> { note(ctx, "Query.node"); Some(Node::A(A)) }
    async fn a(&self, ctx: &Context<'_>) -> Option<A> { note(ctx, "Query.a"); Some(A) }
    async fn u(&self, ctx: &Context<'_>) -> Option<U> { note(ctx, "Query.u"); Some(U::B(B)) }
    #[graphql(complexity = "count * child_complexity + 2")]
    async fn items(&self, ctx: &Context<'_>, #[graphql(default = 3)] count: usize) -> Vec<A> { let _ = count; note(ctx, "Query.items"); vec![A] }
    #[graphql(complexity = "3")]
    async fn n(&self, ctx: &Context<'_>) -> Option<i32> { note(ctx, "Query.n"); Some(7) }
    #[graphql(complexity = "2 * child_complexity + 1")]
    async fn heavy(&self, ctx: &Context<'_>) -> Option<A> { note(ctx, "Query.heavy"); Some(A) }
    async fn s(&self, ctx: &Context<'_>) -> Option<S> { note(ctx, "Query.s"); Some(S) }
    // the default rule (camelCase) on a multi-word argument: `perPage`
    #[graphql(complexity = "per_page * child_complexity + 1")]
    async fn paged(&self, ctx: &Context<'_>, #[graphql(default = 2)] per_page: usize) -> Vec<A> { let _ = per_page; note(ctx, "Query.paged"); vec![A] }
}
}

struct Tag;
#[async_trait::async_trait]
impl CustomDirective for Tag {}
/// a repeatable executable directive, so that a field can carry any number of directives in a valid document
#[Directive(location = "Field", repeatable)]
fn tag() -> impl CustomDirective { Tag }

#[derive(Clone, PartialEq, Eq, Hash, Debug)]
struct Config { flavour: String, mode: String, depth: i64, complexity: i64, recursive: i64, directives: i64 }

fn config_of(run: &J) -> Config {
    let l = &run["limits"];
    let g = |k: &str| l[k].as_i64().unwrap_or(-1);
    Config { flavour: run["flavour"].as_str().unwrap_or("static").into(), mode: run["mode"].as_str().unwrap_or("strict").into(),
             depth: g("depth"), complexity: g("complexity"), recursive: g("recursive"), directives: g("directives") }
}

enum Built { Static(Schema<Query, EmptyMutation, EmptySubscription>), Dynamic(dy::Schema) }

fn build_static(c: &Config) -> Built {
    let mut b = Schema::build(Query, EmptyMutation, EmptySubscription).directive(tag);
    if c.depth >= 0 { b = b.limit_depth(c.depth as usize); }
    if c.complexity >= 0 { b = b.limit_complexity(c.complexity as usize); }
    if c.recursive >= 0 { b = b.limit_recursive_depth(c.recursive as usize); }
    if c.directives >= 0 { b = b.limit_directives(c.directives as usize); }
    if c.mode == "fast" { b = b.validation_mode(ValidationMode::Fast); }
    Built::Static(b.finish())
}

fn type_ref(t: &J) -> dy::TypeRef {
    match t["k"].as_str().unwrap_or("named") {
        "named" => dy::TypeRef::Named(t["n"].as_str().unwrap_or("Int").to_string().into()),
        "list" => dy::TypeRef::List(Box::new(type_ref(&t["of"]))),
        _ => dy::TypeRef::NonNull(Box::new(type_ref(&t["of"]))),
    }
}
fn named(t: &J) -> String { let mut t = t; while t["k"] != "named" { t = &t["of"]; } t["n"].as_str().unwrap_or("").to_string() }
fn is_list(t: &J) -> bool { let mut t = t; loop { match t["k"].as_str().unwrap_or("") { "list" => return true, "nn" => t = &t["of"], _ => return false } } }

/// fixed value of a field of the dynamic twin: objects are carried as their type name
fn dyn_value(ts: &J, ty: &J) -> Option<dy::FieldValue<'static>> {
    let n = named(ty);
    let kind = ts["types"][&n]["kind"].as_str().unwrap_or("SCALAR").to_string();
    let one = match kind.as_str() {
        "OBJECT" => dy::FieldValue::owned_any(n.clone()),
        "INTERFACE" | "UNION" => dy::FieldValue::owned_any("A".to_string()).with_type("A"),
        _ => match n.as_str() {
            "ID" | "String" => dy::FieldValue::value(Value::String("x".into())),
            "Boolean" => dy::FieldValue::value(Value::Boolean(true)),
            _ => dy::FieldValue::value(Value::from(1)),
        },
    };
    Some(if is_list(ty) { dy::FieldValue::list(vec![one]) } else { one })
}

fn build_dynamic(ts: &J, c: &Config) -> Built {
    let mut b = dy::Schema::build(ts["query"].as_str().unwrap_or("Query"), None, None);
    for (name, def) in ts["types"].as_object().unwrap() {
        match def["kind"].as_str().unwrap_or("") {
            "OBJECT" => {
                let mut o = dy::Object::new(name.as_str());
                for i in def["implements"].as_array().unwrap() { o = o.implement(i.as_str().unwrap()); }
                for (fname, fdef) in def["fields"].as_object().unwrap() {
                    let what = format!("{name}.{fname}");
                    let ts2 = ts.clone();
                    let fty = fdef["ty"].clone();
                    let mut f = dy::Field::new(fname.as_str(), type_ref(&fdef["ty"]), move |ctx| {
                        let what = what.clone();
                        let v = dyn_value(&ts2, &fty);
                        dy::FieldFuture::new(async move { note(ctx.ctx, &what); Ok(v) })
                    });
                    for a in fdef["args"].as_array().unwrap() {
                        f = f.argument(dy::InputValue::new(a["name"].as_str().unwrap(), dy::TypeRef::named_nn(dy::TypeRef::INT)).default_value(Value::from(a["default"].as_i64().unwrap())));
                    }
                    o = o.field(f);
                }
                b = b.register(o);
            }
            "INTERFACE" => {
                let mut i = dy::Interface::new(name.as_str());
                for (fname, fdef) in def["fields"].as_object().unwrap() { i = i.field(dy::InterfaceField::new(fname.as_str(), type_ref(&fdef["ty"]))); }
                b = b.register(i);
            }
            "UNION" => {
                let mut u = dy::Union::new(name.as_str());
                for x in def["members"].as_array().unwrap() { u = u.possible_type(x.as_str().unwrap()); }
                b = b.register(u);
            }
            other => tool_error(&format!("limits.json: unsupported kind {other}")),
        }
    }
    if c.depth >= 0 { b = b.limit_depth(c.depth as usize); }
    if c.complexity >= 0 { b = b.limit_complexity(c.complexity as usize); }
    if c.recursive >= 0 { b = b.limit_recursive_depth(c.recursive as usize); }
    if c.directives >= 0 { b = b.limit_directives(c.directives as usize); }
    if c.mode == "fast" { b = b.validation_mode(ValidationMode::Fast); }
    Built::Dynamic(b.finish().unwrap_or_else(|e| tool_error(&format!("dynamic twin does not build: {e}"))))
}

// ---- mirror check -----------------------------------------------------------------------------------------
fn ty_text(t: &J) -> String {
    match t["k"].as_str().unwrap_or("named") {
        "named" => t["n"].as_str().unwrap_or("").to_string(),
        "list" => format!("[{}]", ty_text(&t["of"])),
        _ => format!("{}!", ty_text(&t["of"])),
    }
}
fn intro_ty(t: &J) -> String {
    match t["kind"].as_str().unwrap_or("") {
        "NON_NULL" => format!("{}!", intro_ty(&t["ofType"])),
        "LIST" => format!("[{}]", intro_ty(&t["ofType"])),
        _ => t["name"].as_str().unwrap_or("").to_string(),
    }
}
const INTRO: &str = "{ __schema { queryType { name } types { name kind fields { name args { name defaultValue type { ...T } } type { ...T } } interfaces { name } possibleTypes { name } } } } fragment T on __Type { kind name ofType { kind name ofType { kind name ofType { kind name ofType { kind name } } } } }";

/// canonical description {type -> {kind, fields: {f -> "(arg: T = d, ..): T"}, implements, possible}} from introspection JSON
fn describe_intro(data: &J) -> J {
    let mut out = serde_json::Map::new();
    for t in data["__schema"]["types"].as_array().unwrap() {
        let name = t["name"].as_str().unwrap();
        if name.starts_with("__") || !matches!(t["kind"].as_str().unwrap(), "OBJECT" | "INTERFACE" | "UNION") { continue; }
        let mut fields = std::collections::BTreeMap::new();
        for f in t["fields"].as_array().map(|a| a.as_slice()).unwrap_or(&[]) {
            let mut args: Vec<String> = f["args"].as_array().unwrap().iter().map(|a| format!("{}: {} = {}", a["name"].as_str().unwrap(), intro_ty(&a["type"]), a["defaultValue"].as_str().unwrap_or("-"))).collect();
            args.sort();
            fields.insert(f["name"].as_str().unwrap().to_string(), format!("({}): {}", args.join(", "), intro_ty(&f["type"])));
        }
        let names = |k: &str| { let mut v: Vec<String> = t[k].as_array().map(|a| a.iter().map(|x| x["name"].as_str().unwrap().to_string()).collect()).unwrap_or_default(); v.sort(); v };
        let implements = names("interfaces");
        let possible = if t["kind"] == "OBJECT" { vec![] } else { names("possibleTypes") };
        out.insert(name.to_string(), json!({"kind": t["kind"], "fields": fields, "implements": implements, "possible": possible}));
    }
    J::Object(out)
}
fn describe_json(ts: &J) -> J {
    let mut out = serde_json::Map::new();
    let types = ts["types"].as_object().unwrap();
    for (name, def) in types {
        let mut fields = std::collections::BTreeMap::new();
        for (f, fd) in def["fields"].as_object().unwrap() {
            let mut args: Vec<String> = fd["args"].as_array().unwrap().iter().map(|a| format!("{}: Int! = {}", a["name"].as_str().unwrap(), a["default"])).collect();
            args.sort();
            fields.insert(f.clone(), format!("({}): {}", args.join(", "), ty_text(&fd["ty"])));
        }
        let mut implements: Vec<String> = def["implements"].as_array().unwrap().iter().map(|x| x.as_str().unwrap().to_string()).collect();
        implements.sort();
        let mut possible: Vec<String> = match def["kind"].as_str().unwrap() {
            "UNION" => def["members"].as_array().unwrap().iter().map(|x| x.as_str().unwrap().to_string()).collect(),
            "INTERFACE" => types.iter().filter(|(_, d)| d["kind"] == "OBJECT" && d["implements"].as_array().unwrap().iter().any(|i| i == name)).map(|(n, _)| n.clone()).collect(),
            _ => vec![],
        };
        possible.sort();
        out.insert(name.clone(), json!({"kind": def["kind"], "fields": fields, "implements": implements, "possible": possible}));
    }
    J::Object(out)
}

/// rule text of the annotation -> the abstract rule of limits.json
fn parse_rule(text: &str, args: &J) -> J {
    let t = text.trim();
    if t.is_empty() { return json!({"k": "default", "arg": "", "mul": 1, "add": 0, "def": 0}); }
    if let Ok(c) = t.parse::<i64>() { return json!({"k": "const", "arg": "", "mul": 0, "add": c, "def": 0}); }
    // `<x> * child_complexity [+ c]`
    let (prod, add) = match t.split_once('+') { Some((p, a)) => (p.trim(), a.trim().parse::<i64>().unwrap_or_else(|_| tool_error(&format!("rule text {t}")))), None => (t, 0) };
    let (x, cc) = prod.split_once('*').unwrap_or_else(|| tool_error(&format!("rule text {t}")));
    if cc.trim() != "child_complexity" { tool_error(&format!("rule text {t}")); }
    let x = x.trim();
    if let Ok(m) = x.parse::<i64>() { return json!({"k": "lin", "arg": "", "mul": m, "add": add, "def": 0}); }
    // the rule text names the Rust parameter (`ident`); the abstract rule names the GraphQL argument it stands for
    let a = args.as_array().unwrap().iter().find(|a| a["ident"] == x).unwrap_or_else(|| tool_error(&format!("rule {t}: unknown parameter {x}")));
    json!({"k": "lin", "arg": a["name"], "mul": 0, "add": add, "def": a["default"].as_i64().unwrap()})
}

fn mirror_check(ts: &J) {
    let want = describe_json(ts);
    let s = match build_static(&config_of(&json!({"flavour": "static"}))) { Built::Static(s) => s, _ => unreachable!() };
    let r = futures_executor::block_on(s.execute(INTRO));
    if !r.errors.is_empty() { tool_error(&format!("introspection of the static family failed: {:?}", r.errors)); }
    let got = describe_intro(&r.data.into_json().unwrap());
    if got != want { tool_error(&format!("schemas/limits.json does not mirror the static family:\n json: {want}\n live: {got}")); }
    let d = match build_dynamic(ts, &config_of(&json!({"flavour": "dynamic"}))) { Built::Dynamic(s) => s, _ => unreachable!() };
    let r = futures_executor::block_on(d.execute(INTRO));
    if !r.errors.is_empty() { tool_error(&format!("introspection of the dynamic twin failed: {:?}", r.errors)); }
    let got = describe_intro(&r.data.into_json().unwrap());
    if got != want { tool_error(&format!("schemas/limits.json does not mirror the dynamic twin:\n json: {want}\n live: {got}")); }
    // complexity rules: the table generated next to the annotations
    let mut seen = 0;
    for (t, f, text) in A_RULES.iter().chain(B_RULES).chain(S_RULES).chain(Q_RULES) {
        let fd = &ts["types"][*t]["fields"][*f];
        if fd.is_null() { tool_error(&format!("limits.json lacks {t}.{f}")); }
        let rule = parse_rule(text, &fd["args"]);
        if rule != fd["rule"] || fd["ruleText"].as_str().unwrap_or("") != *text { tool_error(&format!("limits.json rule of {t}.{f} is {} but the family declares {text:?}", fd["rule"])); }
        seen += 1;
    }
    let total: usize = ["A", "B", "S", "Query"].iter().map(|t| ts["types"][*t]["fields"].as_object().unwrap().len()).sum();
    if seen != total { tool_error("limits.json and the family differ in the number of object fields"); }
    for (_, fd) in ts["types"]["Node"]["fields"].as_object().unwrap() { if fd["rule"]["k"] != "default" { tool_error("interface fields cannot declare complexity rules"); } }
}

// ---- main loop --------------------------------------------------------------------------------------------
fn plain(v: &J) -> J {
    match v["k"].as_str().unwrap_or("null") {
        "bool" => v["v"].clone(),
        "int" => v["v"].as_str().and_then(|s| s.parse::<i64>().ok()).map(|i| json!(i)).unwrap_or(J::Null),
        "str" | "enum" => v["v"].clone(),
        _ => J::Null,
    }
}
fn vars_json(vars: &J) -> J {
    let mut m = serde_json::Map::new();
    for v in vars.as_array().map(|a| a.as_slice()).unwrap_or(&[]) { m.insert(v["name"].as_str().unwrap().to_string(), plain(&v["val"])); }
    J::Object(m)
}

fn main() {
    let args: Vec<String> = std::env::args().collect();
    if args.len() < 4 { tool_error("usage: c10 <limits.json> <cases.ndjson> <out.ndjson>"); }
    let ts: J = serde_json::from_str(&std::fs::read_to_string(&args[1]).unwrap_or_else(|e| tool_error(&format!("read {}: {e}", args[1])))).unwrap_or_else(|e| tool_error(&format!("bad schema json: {e}")));
    mirror_check(&ts);
    let cases = read_ndjson(&args[2]);
    let mut out = NdWriter::create(&args[3]);
    let mut cache: HashMap<Config, Built> = HashMap::new();
    let (mut nruns, mut nrej) = (0usize, 0usize);
    for mut case in cases {
        let mut d = case["doc"].clone();
        let text = doc::print(&mut d);
        case["text"] = json!(text);
        let vars = vars_json(&case["vars"]);
        let op_name = case["opName"].as_str().unwrap_or("").to_string();
        let mut runs = case["runs"].as_array().cloned().unwrap_or_default();
        for run in runs.iter_mut() {
            let cfg = config_of(run);
            let built = cache.entry(cfg.clone()).or_insert_with(|| if cfg.flavour == "static" { build_static(&cfg) } else { build_dynamic(&ts, &cfg) });
            let log = Arc::new(Log::default());
            let mut request = Request::new(text.clone()).variables(Variables::from_json(vars.clone())).data(log.clone());
            if !op_name.is_empty() { request = request.operation_name(op_name.clone()); }
            let result = exec::catch(|| match built {
                Built::Static(s) => futures_executor::block_on(s.execute(request)),
                Built::Dynamic(s) => futures_executor::block_on(s.execute(request)),
            });
            let ran = log.0.lock().unwrap().len();
            run["obs"] = match result {
                Ok(r) => json!({"rejected": !r.errors.is_empty(), "ran": ran, "dataNull": r.data == Value::Null,
                                "messages": r.errors.iter().map(|e| e.message.clone()).collect::<Vec<_>>(), "problem": ""}),
                Err(p) => json!({"rejected": false, "ran": ran, "dataNull": true, "messages": [], "problem": format!("panic: {p}")}),
            };
            nruns += 1;
            if run["obs"]["rejected"] == true { nrej += 1; }
        }
        case["runs"] = J::Array(runs);
        out.write(&case);
    }
    out.finish();
    println!("{{\"runs\": {nruns}, \"rejected\": {nrej}, \"schemas\": {}}}", cache.len());
}
