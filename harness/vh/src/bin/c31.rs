//! C31 harness: replay request histories against one real `Schema` with the
//! `ApolloPersistedQueries` extension and record, per request, which document ran
//! (marker field), the error class, and every `CacheStorage::get` / `set` call.
//!
//! usage: c31 <histories.ndjson> <out.ndjson>
//!
//! history line : {"storage": "obs"|"lru", "cap": n, "events": [{"ext","q","h","v","pk"}, ...]}
//!   ext = "absent" | "ok" | "malformed" | "evict";  q = text id or "";  h = hash id (text id | "garbage" | "")
//! trace line   : {"id","storage","events":[{"ext","q","h","v","exec","err","sets","gets"[,"pk"]}]}
//!   for ext = "evict": err = "had" | "nothad" (whether the harness's own map held the key)
//!
//! Text ids: t<N> good, i<N> invalid (parses, fails validation), x<N> unparseable, g<N> good (generated).
//! The hash of a text id is the real SHA-256 (sha2 crate, lower-case hex) of its text; the harness maps
//! every hash string and every stored document back to ids, so TLC only sees abstract names.
use async_graphql::extensions::apollo_persisted_queries::{ApolloPersistedQueries, CacheStorage, LruCacheStorage};
use async_graphql::parser::types::{ExecutableDocument, Selection};
use async_graphql::{Context, EmptyMutation, EmptySubscription, Object, Request, Schema, Value};
use serde_json::{Value as J, json};
use sha2::{Digest, Sha256};
use std::collections::HashMap;
use std::sync::{Arc, Mutex};
use vh::io::*;

type MarkLog = Arc<Mutex<Vec<i64>>>;

struct Query;
#[Object]
impl Query {
    async fn mark(&self, ctx: &Context<'_>, id: i32) -> i32 {
        ctx.data_unchecked::<MarkLog>().lock().unwrap().push(id as i64);
        id
    }
}

/// text id -> (marker, text)
fn text_of(id: &str) -> Option<(i64, String)> {
    let n: i64 = id.get(1..)?.parse().ok()?;
    if n < 1 || n > 100_000 {
        return None;
    }
    match id.as_bytes()[0] {
        b't' => {
            let m = n;
            Some((m, match n % 6 {
                1 => format!("{{ mark(id: {m}) }}"),
                2 => format!("  {{mark(id:{m})}}\t"),   // surrounding white space belongs to the text that is hashed
                3 => format!("query {{ mark(id: {m}) }}"),
                4 => format!("query Q{m} {{ mark(id: {m}) }}\n"),
                5 => format!("# c\n{{ mark(id: {m}) }}"),
                _ => format!("{{ ... on Query {{ mark(id: {m}) }} }}"),
            }))
        }
        // every second one carries surrounding white space, which belongs to the text that is hashed
        b'g' => Some((1000 + n, if n % 2 == 0 { format!(" \n{{ mark(id: {}) }}  ", 1000 + n) } else { format!("{{ mark(id: {}) }}", 1000 + n) })),
        b'i' => {
            let m = 500 + n;
            Some((m, if n % 2 == 1 { format!("{{ mark(id: {m}) nosuch }}") } else { format!("{{ mark(id: {m}, bogus: 1) }}") }))
        }
        b'x' => {
            let m = 700 + n;
            Some((m, if n % 2 == 1 { format!("{{ mark(id: {m}) ") } else { format!("mark(id: {m}) }}") }))
        }
        _ => None,
    }
}

fn sha(text: &str) -> String {
    format!("{:x}", Sha256::digest(text.as_bytes()))
}

/// marker of the document (the `id` argument of its first `mark` field), if any
fn marker_of(doc: &ExecutableDocument) -> Option<i64> {
    fn walk(items: &[async_graphql::Positioned<Selection>]) -> Option<i64> {
        for s in items {
            match &s.node {
                Selection::Field(f) => {
                    if f.node.name.node.as_str() == "mark" {
                        for (n, v) in &f.node.arguments {
                            if n.node.as_str() == "id" {
                                if let async_graphql_value::Value::Number(x) = &v.node {
                                    return x.as_i64();
                                }
                            }
                        }
                    }
                    if let Some(m) = walk(&f.node.selection_set.node.items) {
                        return Some(m);
                    }
                }
                Selection::InlineFragment(f) => {
                    if let Some(m) = walk(&f.node.selection_set.node.items) {
                        return Some(m);
                    }
                }
                Selection::FragmentSpread(_) => {}
            }
        }
        None
    }
    for (_, op) in doc.operations.iter() {
        if let Some(m) = walk(&op.node.selection_set.node.items) {
            return Some(m);
        }
    }
    None
}

enum Call {
    Get(String),
    Set(String, Option<i64>),
}

#[derive(Clone)]
enum Inner {
    Obs(Arc<Mutex<HashMap<String, ExecutableDocument>>>),
    Lru(LruCacheStorage),
}

/// Logging wrapper around the storage under test (`LruCacheStorage`) or a plain map the harness can evict from.
#[derive(Clone)]
struct Logged {
    inner: Inner,
    calls: Arc<Mutex<Vec<Call>>>,
}

#[async_trait::async_trait]
impl CacheStorage for Logged {
    async fn get(&self, key: String) -> Option<ExecutableDocument> {
        self.calls.lock().unwrap().push(Call::Get(key.clone()));
        match &self.inner {
            Inner::Obs(m) => m.lock().unwrap().get(&key).cloned(),
            Inner::Lru(l) => l.get(key).await,
        }
    }
    async fn set(&self, key: String, query: ExecutableDocument) {
        self.calls.lock().unwrap().push(Call::Set(key.clone(), marker_of(&query)));
        match &self.inner {
            Inner::Obs(m) => {
                m.lock().unwrap().insert(key, query);
            }
            Inner::Lru(l) => l.set(key, query).await,
        }
    }
}

struct Names {
    hash_to_id: HashMap<String, String>,
    marker_to_id: HashMap<i64, String>,
    id_to_text: HashMap<String, String>,
}
impl Names {
    fn add(&mut self, id: &str) {
        if id.is_empty() || id == "garbage" || self.id_to_text.contains_key(id) {
            return;
        }
        let (m, text) = text_of(id).unwrap_or_else(|| tool_error(&format!("unknown text id {id}")));
        if let Some(old) = self.hash_to_id.insert(sha(&text), id.to_string()) {
            tool_error(&format!("two text ids with one hash: {old} {id}"));
        }
        if let Some(old) = self.marker_to_id.insert(m, id.to_string()) {
            tool_error(&format!("two text ids with one marker: {old} {id}"));
        }
        self.id_to_text.insert(id.to_string(), text);
    }
    fn hash_id(&self, h: &str) -> String {
        self.hash_to_id.get(h).cloned().unwrap_or_else(|| "unknown".into())
    }
    fn doc_id(&self, m: Option<i64>) -> String {
        m.and_then(|m| self.marker_to_id.get(&m).cloned()).unwrap_or_else(|| "unknown".into())
    }
}

const GARBAGE: &[&str] = &[
    "0000000000000000000000000000000000000000000000000000000000000000",
    "def",
    "",
    "854174ebed716fe24fd6659c30290aecd9bc1d17dc4f47939a1848a1b8ed3c6",
    "zz4174ebed716fe24fd6659c30290aecd9bc1d17dc4f47939a1848a1b8ed3c6b",
];

fn payload(ext: &str, pk: &str, v: i64, hash: &str) -> Option<J> {
    match (ext, pk) {
        ("absent", _) => None,
        ("ok", "") => Some(json!({"version": v, "sha256Hash": hash})),
        ("ok", "extra") => Some(json!({"version": v, "sha256Hash": hash, "extra": true})),
        ("malformed", "null") => Some(J::Null),
        ("malformed", "string") => Some(json!(hash)),
        ("malformed", "list") => Some(json!([{"version": 1, "sha256Hash": hash}])),
        ("malformed", "nohash") => Some(json!({"version": 1})),
        ("malformed", "noversion") => Some(json!({"sha256Hash": hash})),
        ("malformed", "strversion") => Some(json!({"version": "1", "sha256Hash": hash})),
        ("malformed", "inthash") => Some(json!({"version": 1, "sha256Hash": 12345})),
        ("malformed", "floatversion") => Some(json!({"version": 1.5, "sha256Hash": hash})),
        ("malformed", "bigversion") => Some(json!({"version": 4294967297u64, "sha256Hash": hash})),
        _ => tool_error(&format!("unknown payload kind {ext}/{pk}")),
    }
}

fn s<'a>(e: &'a J, k: &str) -> &'a str {
    e.get(k).and_then(|x| x.as_str()).unwrap_or_else(|| tool_error(&format!("event without string field {k}: {e}")))
}

fn run(id: usize, h: &J, names: &mut Names) -> J {
    let storage = s(h, "storage").to_string();
    let cap = h.get("cap").and_then(|c| c.as_u64()).unwrap_or(1) as usize;
    let calls: Arc<Mutex<Vec<Call>>> = Default::default();
    let obs_map: Arc<Mutex<HashMap<String, ExecutableDocument>>> = Default::default();
    let inner = match storage.as_str() {
        "obs" => Inner::Obs(obs_map.clone()),
        "lru" => Inner::Lru(LruCacheStorage::new(cap)),
        other => tool_error(&format!("unknown storage {other}")),
    };
    let marks: MarkLog = Default::default();
    let schema = Schema::build(Query, EmptyMutation, EmptySubscription)
        .extension(ApolloPersistedQueries::new(Logged { inner, calls: calls.clone() }))
        .data(marks.clone())
        .finish();
    let events = h.get("events").and_then(|e| e.as_array()).unwrap_or_else(|| tool_error("history without events"));
    let mut out: Vec<J> = Vec::with_capacity(events.len());
    for (k, e) in events.iter().enumerate() {
        let (ext, q, hid, pk) = (s(e, "ext"), s(e, "q"), s(e, "h"), s(e, "pk"));
        let v = e.get("v").and_then(|v| v.as_i64()).unwrap_or(0);
        names.add(q);
        names.add(hid);
        let hash = match hid {
            "" => String::new(),
            "garbage" => GARBAGE[(id + k) % GARBAGE.len()].to_string(),
            t => sha(&names.id_to_text[t]),
        };
        if ext == "evict" {
            let had = obs_map.lock().unwrap().remove(&hash).is_some();
            out.push(json!({"ext": ext, "q": "", "h": hid, "v": 0, "exec": [], "err": if had { "had" } else { "nothad" }, "sets": [], "gets": []}));
            continue;
        }
        let text = if q.is_empty() { String::new() } else { names.id_to_text[q].clone() };
        let mut req = Request::new(text);
        if let Some(p) = payload(ext, pk, v, &hash) {
            req.extensions.insert("persistedQuery".to_string(), Value::from_json(p).unwrap());
        }
        marks.lock().unwrap().clear();
        calls.lock().unwrap().clear();
        let res = std::panic::catch_unwind(std::panic::AssertUnwindSafe(|| futures_executor::block_on(schema.execute(req))));
        let err = match &res {
            Err(_) => "panic",
            Ok(r) if r.errors.iter().any(|e| e.message == "PersistedQueryNotFound") => "notfound",
            Ok(r) if !r.errors.is_empty() => "other",
            Ok(_) => "none",
        };
        let exec: Vec<String> = marks.lock().unwrap().iter().map(|m| names.doc_id(Some(*m))).collect();
        let (mut sets, mut gets) = (Vec::new(), Vec::new());
        for c in calls.lock().unwrap().iter() {
            match c {
                Call::Get(key) => gets.push(json!(if *key == hash { hid.to_string() } else { names.hash_id(key) })),
                Call::Set(key, m) => sets.push(json!({"k": names.hash_id(key), "d": names.doc_id(*m)})),
            }
        }
        let mut ev = json!({"ext": ext, "q": q, "h": hid, "v": v, "exec": exec, "err": err, "sets": sets, "gets": gets});
        if !pk.is_empty() {
            ev["pk"] = json!(pk); // only needed to rebuild the payload; TLC never reads it
        }
        out.push(ev);
    }
    json!({"id": id, "storage": if storage == "obs" { "obs".to_string() } else { format!("lru{cap}") }, "events": out})
}

/// The text table must mean what the ids say: good texts run their marker, invalid ones parse but do not
/// run, unparseable ones do not parse (checked on a schema without the extension).
fn self_test() {
    let marks: MarkLog = Default::default();
    let schema = Schema::build(Query, EmptyMutation, EmptySubscription).data(marks.clone()).finish();
    for n in 1..=12 {
        for p in ["t", "g", "i", "x"] {
            let id = format!("{p}{n}");
            let (m, text) = text_of(&id).unwrap();
            marks.lock().unwrap().clear();
            let parsed = async_graphql::parser::parse_query(&text);
            let r = futures_executor::block_on(schema.execute(text.as_str()));
            let ran = marks.lock().unwrap().clone();
            let ok = match p {
                "t" | "g" => parsed.is_ok() && r.errors.is_empty() && ran == vec![m] && marker_of(parsed.as_ref().unwrap()) == Some(m),
                "i" => parsed.is_ok() && !r.errors.is_empty() && ran.is_empty() && marker_of(parsed.as_ref().unwrap()) == Some(m),
                _ => parsed.is_err() && !r.errors.is_empty() && ran.is_empty(),
            };
            if !ok {
                tool_error(&format!("text table self-test failed for {id}: {text:?}"));
            }
        }
    }
}

fn main() {
    let args: Vec<String> = std::env::args().collect();
    if args.len() < 3 {
        tool_error("usage: c31 <histories.ndjson> <out.ndjson>");
    }
    std::panic::set_hook(Box::new(|_| {}));
    self_test();
    let hs = read_ndjson(&args[1]);
    let mut out = NdWriter::create(&args[2]);
    let mut names = Names { hash_to_id: HashMap::new(), marker_to_id: HashMap::new(), id_to_text: HashMap::new() };
    for (i, h) in hs.iter().enumerate() {
        out.write(&run(i + 1, h, &mut names));
    }
    out.finish();
    println!("{{\"traces\": {}}}", hs.len());
}
