//! C26 harness: drive the real create_multipart_mixed_stream with TLC-generated schedules.
//! Input responses are fed by hand, the heartbeat Timer is fired by hand, the stream is polled by hand
//! (one `poll_next` per "poll" command), and every chunk is classified and logged.  At the end the
//! concatenated bytes are split by an independent multipart reader (multer).
//!
//! usage: c26 <schedules.ndjson> <out.ndjson> <seed>
use async_graphql::http::create_multipart_mixed_stream;
use async_graphql::runtime::Timer;
use async_graphql::{Response, ServerError, Value};
use futures_util::future::BoxFuture;
use futures_util::{FutureExt, Stream};
use rand::{Rng, SeedableRng, rngs::StdRng};
use serde_json::{Value as J, json};
use std::pin::Pin;
use std::sync::{Arc, Mutex};
use std::task::{Context, Poll};
use std::time::Duration;
use vh::io::*;

#[derive(Default)]
struct TimerState { armed: Option<futures_channel::oneshot::Sender<()>>, fired: bool, calls: usize }
#[derive(Clone, Default)]
struct ManualTimer(Arc<Mutex<TimerState>>);
impl Timer for ManualTimer {
    fn delay(&self, _d: Duration) -> BoxFuture<'static, ()> {
        let mut s = self.0.lock().unwrap();
        s.calls += 1;
        if s.calls == 1 && s.fired {
            return async {}.boxed(); // the delay elapsed before the stream was first polled
        }
        s.fired = false; // a new delay is only requested after the previous one was consumed
        let (tx, rx) = futures_channel::oneshot::channel();
        s.armed = Some(tx);
        async move { let _ = rx.await; }.boxed()
    }
}
impl ManualTimer {
    /// Returns false when the current delay has already elapsed and was not consumed yet.
    fn fire(&self) -> bool {
        let mut s = self.0.lock().unwrap();
        if s.fired { return false; }
        s.fired = true;
        if let Some(tx) = s.armed.take() { let _ = tx.send(()); }
        true
    }
}

fn tricky(rng: &mut StdRng) -> String {
    const ATOMS: &[&str] = &["\r\n--graphql", "--graphql--", "\r\n", "\"", "\\", "{}", "\n", "Content-Type: application/json\r\n\r\n", "x", "\u{e9}", "\u{1F600}", "\u{2028}"];
    (0..rng.gen_range(0..4)).map(|_| ATOMS[rng.gen_range(0..ATOMS.len())]).collect()
}

/// index of an errors-only response (data null, one error with message "E<i>")
fn err_index(v: &J) -> Option<u64> {
    if !v["data"].is_null() { return None; }
    v.pointer("/errors/0/message").and_then(|m| m.as_str()).and_then(|m| m.strip_prefix('E')).and_then(|n| n.parse().ok())
}

fn classify(b: &[u8]) -> (String, u64) {
    match b {
        b"--graphql\r\nContent-Type: application/json\r\n\r\n" => ("HDR".into(), 0),
        b"\r\n" => ("CRLF".into(), 0),
        b"{}\r\n" => ("HB".into(), 0),
        b"--graphql--\r\n" => ("EOF".into(), 0),
        _ => match serde_json::from_slice::<J>(b) {
            Ok(v) => match v.pointer("/data/i").and_then(|i| i.as_u64()).or_else(|| err_index(&v)) { Some(i) => ("BODY".into(), i), None => ("OTHER".into(), 0) },
            Err(_) => ("OTHER".into(), 0),
        },
    }
}

fn run(id: usize, sched: &[String], rng: &mut StdRng) -> J {
    let timer = ManualTimer::default();
    let (tx, rx) = futures_channel::mpsc::unbounded::<Response>();
    let mut tx = Some(tx);
    let mut stream = create_multipart_mixed_stream(rx, timer.clone(), Duration::from_secs(30));
    let waker = futures_task::noop_waker();
    let mut cx = Context::from_waker(&waker);
    let mut events: Vec<J> = Vec::new();
    let mut bytes: Vec<u8> = Vec::new();
    let mut fed = 0u64;
    let mut finished = false;
    let mut payloads: Vec<J> = Vec::new();
    let eof_seen = std::cell::Cell::new(false);
    let mut poll = |events: &mut Vec<J>, bytes: &mut Vec<u8>, finished: &mut bool| {
        if *finished { events.push(json!({"ev": "poll", "got": "NONE", "i": 0})); return; }
        match Pin::new(&mut stream).poll_next(&mut cx) {
            Poll::Pending => events.push(json!({"ev": "poll", "got": "PENDING", "i": 0})),
            Poll::Ready(None) => { *finished = true; events.push(json!({"ev": "poll", "got": "NONE", "i": 0})) }
            Poll::Ready(Some(b)) => { let (t, i) = classify(&b); if t == "EOF" { eof_seen.set(true); } bytes.extend_from_slice(&b); events.push(json!({"ev": "poll", "got": t, "i": i})) }
        }
    };
    for cmd in sched {
        match cmd.as_str() {
            "feed" | "feedbig" => {
                fed += 1;
                let mut junk = tricky(rng);
                if cmd == "feedbig" { junk.push_str(&"x".repeat(3000)); }
                let payload = json!({"i": fed, "junk": junk});
                payloads.push(payload.clone());
                let resp = Response::new(Value::from_json(payload).unwrap());
                if let Some(tx) = &tx { let _ = tx.unbounded_send(resp); /* a stream that ended early shows as a missing part */ }
                events.push(json!({"ev": "feed", "i": fed}));
            }
            // an errors-only response (data null) is a response like any other: one part, the stream goes on
            "feederr" => {
                fed += 1;
                payloads.push(json!({"err": format!("E{fed}")}));
                let resp = Response::from_errors(vec![ServerError::new(format!("E{fed}"), None)]);
                if let Some(tx) = &tx { let _ = tx.unbounded_send(resp); /* a stream that ended early shows as a missing part */ }
                events.push(json!({"ev": "feed", "i": fed}));
            }
            "end" => { tx = None; events.push(json!({"ev": "end", "i": 0})); }
            "tick" => { if !finished && !eof_seen.get() && timer.fire() { events.push(json!({"ev": "tick", "i": 0})); } }
            "poll" | "idle" => poll(&mut events, &mut bytes, &mut finished),
            other => tool_error(&format!("unknown command {other}")),
        }
    }
    // drain: end the input and poll to completion (bounded)
    if tx.is_some() { drop(tx.take()); events.push(json!({"ev": "end", "i": 0})); }
    let mut guard = 0;
    while !finished && guard < 200 { poll(&mut events, &mut bytes, &mut finished); guard += 1; }
    // independent reader
    let parts = if finished {
        let body = bytes.clone();
        let s = futures_util::stream::once(async move { Ok::<_, std::io::Error>(bytes::Bytes::from(body)) });
        let mut mp = multer::Multipart::new(s, "graphql");
        let mut parts: Vec<J> = Vec::new();
        let mut ok = true;
        futures_executor::block_on(async {
            loop {
                match mp.next_field().await {
                    Ok(Some(f)) => {
                        let ct_ok = f.content_type().map(|m| m.essence_str() == "application/json").unwrap_or(false);
                        match f.bytes().await {
                            Ok(b) => match serde_json::from_slice::<J>(&b) {
                                Ok(v) if ct_ok => {
                                    if v == json!({}) { parts.push(json!(0)); }
                                    else if let Some(i) = v.pointer("/data/i").and_then(|i| i.as_u64()) {
                                        // content must be the fed payload, verbatim
                                        if payloads.get(i as usize - 1).map(|p| Some(p) == v.get("data")).unwrap_or(false) { parts.push(json!(i)); } else { parts.push(json!(-1)); }
                                    } else if let Some(i) = err_index(&v) {
                                        if payloads.get(i as usize - 1).map(|p| p["err"] == v["errors"][0]["message"]).unwrap_or(false) { parts.push(json!(i)); } else { parts.push(json!(-1)); }
                                    } else { parts.push(json!(-1)); }
                                }
                                _ => { parts.push(json!(-1)); }
                            },
                            Err(_) => { ok = false; break; }
                        }
                    }
                    Ok(None) => break,
                    Err(_) => { ok = false; break; }
                }
            }
        });
        if ok { json!(parts) } else { json!([-2]) }
    } else { json!([-3]) };
    events.push(json!({"ev": "parts", "i": 0, "got": "", "parts": parts}));
    // uniform records for TLC: every event has ev, got, i
    for e in events.iter_mut() { let o = e.as_object_mut().unwrap(); o.entry("got").or_insert(json!("")); o.entry("parts").or_insert(json!([])); }
    json!({"id": id, "sched": sched, "events": events})
}

fn main() {
    let args: Vec<String> = std::env::args().collect();
    if args.len() < 4 { tool_error("usage: c26 <schedules.ndjson> <out.ndjson> <seed>"); }
    let scheds = read_ndjson(&args[1]);
    let mut out = NdWriter::create(&args[2]);
    let mut rng = StdRng::seed_from_u64(args[3].parse().unwrap_or(1));
    let mut n = 0;
    for (i, s) in scheds.iter().enumerate() {
        let sched: Vec<String> = s.as_array().unwrap().iter().map(|x| x.as_str().unwrap().to_string()).collect();
        out.write(&run(i + 1, &sched, &mut rng));
        n += 1;
    }
    out.finish();
    println!("{{\"traces\": {n}}}");
}
