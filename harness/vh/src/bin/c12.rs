//! C12 harness: materialise TLC-generated hostile cases (class x position x size x transport) and
//! seeded byte-level mutations of valid payloads, run each against the real library **in a child
//! process** with a time budget, and record what happened.  A panic, a stack overflow (the child
//! dies on a signal) or a hang (the child is killed) is data: `outcome` is one of
//!   data | errors | reject | close | open | panic | abort | timeout
//! Nothing is judged here; TLC (HostileTrace.tla) decides with the `Expected` table of Hostile.tla.
//!
//! usage: c12 run <cases.ndjson> <out.ndjson> <seed> <n-mutations> <budget-ms>
//!        c12 --child <all-cases.ndjson> <first-index>       (internal: prints "S i" / "O {json}" lines)
//!        c12 --one '<case json>'                             (debugging: run one case in this process)
//!
//! Every case runs on a fresh thread with a 2 MiB stack (the default of std and tokio worker threads).
use async_graphql::extensions::apollo_persisted_queries::{ApolloPersistedQueries, LruCacheStorage};
use async_graphql::http::{MultipartOptions, WebSocket, WebSocketProtocols, WsMessage, parse_query_string, receive_body};
use async_graphql::*;
use futures_util::stream::Stream;
use rand::{Rng, SeedableRng, rngs::StdRng};
use serde_json::{Value as J, json};
use std::io::{BufRead, Write};
use std::pin::Pin;
use std::task::{Context as TaskCx, Poll};
use std::time::{Duration, Instant};
use vh::io::*;

// ---------------------------------------------------------------------------------------------
// The schema: every built-in input type, including Upload, a JSON scalar, a recursive object.
#[derive(Enum, Copy, Clone, Eq, PartialEq)]
enum Color { Red, Green }

#[derive(InputObject)]
struct Inp {
    i: Option<i32>,
    s: Option<String>,
    l: Option<Vec<i32>>,
    n: Option<Box<Inp>>,
    u: Option<Upload>,
}
fn inp_upload(a: &Inp) -> Option<Upload> {
    a.u.or_else(|| a.n.as_ref().and_then(|n| inp_upload(n)))
}

struct T;
#[Object]
impl T {
    async fn t(&self) -> T { T }
    async fn v(&self) -> i32 { 1 }
}

fn file_name(ctx: &Context<'_>, u: Upload) -> Result<String> {
    Ok(u.value(ctx)?.filename)
}

struct Query;
#[Object]
impl Query {
    async fn int(&self, a: Option<i32>) -> i32 { a.unwrap_or(0) }
    async fn long(&self, a: Option<i64>) -> i64 { a.unwrap_or(0) }
    async fn ulong(&self, a: Option<u64>) -> u64 { a.unwrap_or(0) }
    async fn float(&self, a: Option<f64>) -> f64 { let x = a.unwrap_or(0.0); if x.is_finite() { x } else { 0.0 } }
    async fn string(&self, a: Option<String>) -> usize { a.map(|s| s.len()).unwrap_or(0) }
    async fn boolean(&self, a: Option<bool>) -> bool { a.unwrap_or(false) }
    async fn id(&self, a: Option<ID>) -> usize { a.map(|s| s.len()).unwrap_or(0) }
    async fn en(&self, a: Option<Color>) -> Color { a.unwrap_or(Color::Red) }
    async fn list(&self, a: Option<Vec<i32>>) -> usize { a.map(|s| s.len()).unwrap_or(0) }
    async fn nested(&self, a: Option<Vec<Vec<Vec<i32>>>>) -> usize { a.map(|s| s.len()).unwrap_or(0) }
    async fn inp(&self, a: Option<Inp>) -> i32 { a.and_then(|a| a.i).unwrap_or(0) }
    async fn any(&self, a: Option<Json<serde_json::Value>>) -> bool { a.is_some() }
    async fn t(&self) -> T { T }
    async fn upload(&self, ctx: &Context<'_>, file: Upload) -> Result<String> { file_name(ctx, file) }
    async fn uploads(&self, ctx: &Context<'_>, files: Vec<Upload>) -> Result<Vec<String>> {
        files.into_iter().map(|f| file_name(ctx, f)).collect()
    }
    async fn upload_in(&self, ctx: &Context<'_>, a: Inp) -> Result<String> {
        match inp_upload(&a) { Some(u) => file_name(ctx, u), None => Ok(String::new()) }
    }
}
struct Mutation;
#[Object]
impl Mutation {
    async fn upload(&self, ctx: &Context<'_>, file: Upload) -> Result<String> { file_name(ctx, file) }
    async fn uploads(&self, ctx: &Context<'_>, files: Vec<Upload>) -> Result<Vec<String>> {
        files.into_iter().map(|f| file_name(ctx, f)).collect()
    }
    async fn upload_in(&self, ctx: &Context<'_>, a: Inp) -> Result<String> {
        match inp_upload(&a) { Some(u) => file_name(ctx, u), None => Ok(String::new()) }
    }
}
struct Subscription;
#[Subscription]
impl Subscription {
    async fn ticks(&self, n: Option<i32>) -> impl Stream<Item = i32> {
        futures_util::stream::iter(0..n.unwrap_or(2).clamp(0, 3))
    }
}
type S = Schema<Query, Mutation, Subscription>;
/// Server-side configurations: validation mode x request limits ("strict" is the default everywhere).
/// "raised": the application raised limit_recursive_depth, so that the parser's own nesting limit is the only bound left.
const SCHEMA_CFGS: [&str; 5] = ["strict", "fast", "strict_limits", "fast_limits", "raised"];
fn schema_cfg(cfg: &str) -> S {
    let mut b = Schema::build(Query, Mutation, Subscription).extension(ApolloPersistedQueries::new(LruCacheStorage::new(16)));
    if cfg.starts_with("fast") { b = b.validation_mode(ValidationMode::Fast); }
    if cfg.ends_with("_limits") { b = b.limit_directives(8).limit_depth(40).limit_complexity(5000); }
    if cfg == "raised" { b = b.limit_recursive_depth(1_000_000); }
    b.finish()
}
struct Schemas(Vec<S>);
impl Schemas {
    fn new() -> Self { Schemas(SCHEMA_CFGS.iter().map(|c| schema_cfg(c)).collect()) }
    fn of(&self, case: &J) -> &S {
        let cfg = if case["class"] == "small_cycle" { case["sub"].as_str().unwrap_or("strict") }
                  else if case["class"] == "nest_sel" && case["sub"] == "raised" { "raised" } else { "strict" };
        &self.0[SCHEMA_CFGS.iter().position(|c| *c == cfg).unwrap_or_else(|| tool_error("unknown schema configuration"))]
    }
}

// ---------------------------------------------------------------------------------------------
// Materialisation.
/// A logical request; `vars` / `ext` are raw JSON texts so that any spelling can be sent.
#[derive(Clone, Default)]
struct Lr { query: String, op: Option<String>, vars: Option<String>, ext: Option<String>, files: Vec<(String, String, Vec<u8>)>, map: Option<String> }

enum Payload {
    Lr(Lr),                        // encoded for the case's transport below
    Body(Vec<u8>),                 // a raw JSON request body (json / multipart operations / ws payload)
    Get(String),
    Multipart(String, Vec<u8>),    // content-type, body
    Ws(&'static str, Vec<Vec<u8>>),
    NotApplicable,
}

fn rep(s: &str, k: usize) -> String { s.repeat(k) }
fn jstr(s: &str) -> String { serde_json::to_string(s).unwrap() }
const MARK: &str = "#__graphql_file__:";

fn marker_of(class: &str) -> Option<String> {
    Some(format!("{MARK}{}", match class {
        "marker_nan" => "x", "marker_oob" => "7", "marker_huge" => "99999999999999999999999", "marker_neg" => "-1",
        "marker_empty" => "", "marker_plus" => "+1", "marker_space" => " 0", _ => return None,
    }))
}

fn lr(query: impl Into<String>) -> Lr { Lr { query: query.into(), ..Default::default() } }
fn lrv(query: impl Into<String>, vars: impl Into<String>) -> Lr { Lr { query: query.into(), vars: Some(vars.into()), ..Default::default() } }

/// Where a hostile *value* goes: as a variable, inline literal, list element, input-object field.
fn place_upload_value(pos: &str, gql_lit: &str, json_val: &str) -> Option<Lr> {
    Some(match pos {
        "var" => lrv("mutation($f: Upload!) { upload(file: $f) }", format!("{{\"f\":{json_val}}}")),
        "lit" => lr(format!("mutation {{ upload(file: {gql_lit}) }}")),
        "list" => lrv("mutation($f: [Upload!]!) { uploads(files: $f) }", format!("{{\"f\":[{json_val}]}}")),
        "field" => lrv("mutation($a: Inp!) { uploadIn(a: $a) }", format!("{{\"a\":{{\"n\":{{\"u\":{json_val}}}}}}}")),
        "query_lit" => lr(format!("{{ upload(file: {gql_lit}) }}")),
        _ => return None,
    })
}

const TYPES: [(&str, &str, &str); 12] = [
    // name, GraphQL type, field
    ("int", "Int", "int"), ("long", "Int", "long"), ("ulong", "Int", "ulong"), ("float", "Float", "float"), ("string", "String", "string"),
    ("boolean", "Boolean", "boolean"), ("id", "ID", "id"), ("enum", "Color", "en"), ("list", "[Int!]", "list"),
    ("inp", "Inp", "inp"), ("any", "JSON", "any"), ("upload", "Upload", "upload"),
];
fn type_of(name: &str) -> Option<(&'static str, &'static str)> {
    TYPES.iter().find(|t| t.0 == name).map(|t| (t.1, t.2))
}
fn kind_json(kind: &str) -> Option<&'static str> {
    Some(match kind {
        "null" => "null", "bool" => "true", "int" => "7", "float" => "7.5", "string" => "\"RED\"", "array" => "[1]",
        "object" => "{\"i\":1}", "empty_array" => "[]", "empty_object" => "{}", "neg" => "-1", "nested_array" => "[[1]]", _ => return None,
    })
}

fn document_case(class: &str, pos: &str, sub: &str, k: usize) -> Option<Lr> {
    if let Some(m) = marker_of(class) {
        return place_upload_value(pos, &jstr(&m), &jstr(&m));
    }
    Some(match (class, pos) {
        ("nest_list", "lit_any") => lr(format!("{{ any(a: {}1{}) }}", rep("[", k), rep("]", k))),
        ("nest_list", "lit_int") => lr(format!("{{ nested(a: {}1{}) }}", rep("[", k), rep("]", k))),
        ("nest_list", "var_default") => lr(format!("query($v: JSON = {}1{}) {{ any(a: $v) }}", rep("[", k), rep("]", k))),
        ("nest_list", "json_vars") => lrv("query($v: JSON) { any(a: $v) }", format!("{{\"v\":{}1{}}}", rep("[", k), rep("]", k))),
        ("nest_list", "unclosed") => lr(format!("{{ any(a: {}1) }}", rep("[", k))),
        ("nest_obj", "lit_any") => lr(format!("{{ any(a: {}1{}) }}", rep("{a:", k), rep("}", k))),
        ("nest_obj", "lit_inp") => lr(format!("{{ inp(a: {}{{i:1}}{}) }}", rep("{n:", k), rep("}", k))),
        ("nest_obj", "json_vars") => lrv("query($v: Inp) { inp(a: $v) }", format!("{{\"v\":{}{{\"i\":1}}{}}}", rep("{\"n\":", k), rep("}", k))),
        ("nest_obj", "unclosed") => lr(format!("{{ any(a: {}1) }}", rep("{a:", k))),
        ("nest_sel", "field") => lr(format!("{{ {}v{} }}", rep("t { ", k), rep(" }", k))),
        ("nest_sel", "inline") => lr(format!("{{ {}int{} }}", rep("... { ", k), rep(" }", k))),
        ("nest_sel", "fragment_def") => lr(format!("fragment F on Query {{ {}v{} }} {{ ...F }}", rep("t { ", k), rep(" }", k))),
        // selection sets nested through inline fragments (sub = server configuration, see Schemas::of)
        ("nest_sel", "inline_untyped") => lr(format!("{{ {}int{} }}", rep("... { ", k), rep(" }", k))),
        ("nest_sel", "inline_typed") => lr(format!("{{ {}int{} }}", rep("... on Query { ", k), rep(" }", k))),
        ("nest_sel", "inline_directive") => lr(format!("{{ {}int{} }}", rep("... @include(if: true) { ", k), rep(" }", k))),
        ("nest_sel", "inline_mixed") => lr(format!("{{ t {{ {}v{} }} }}", mixed_open(k, 3), rep(" }", k))),
        ("nest_sel", "inline_alt_field") => lr(format!("{{ t {{ {}v{} }} }}", mixed_open(k, 2), rep(" }", k))),
        ("nest_sel", "inline_in_fragment") => lr(format!("fragment F on Query {{ {}int{} }} {{ ...F }}", rep("... { ", k), rep(" }", k))),
        ("nest_sel", "inline_mixed_in_fragment") => lr(format!("fragment F on T {{ {}v{} }} {{ t {{ ...F }} }}", mixed_open(k, 3), rep(" }", k))),
        ("nest_sel", "unclosed") => lr(format!("{{ {}v", rep("t { ", k))),
        ("nest_vartype", "list") => lr(format!("query($v: {}Int{}) {{ int }}", rep("[", k), rep("]", k))),
        ("nest_vartype", "nonnull") => lr(format!("query($v: {}Int{}) {{ int }}", rep("[", k), rep("!]", k))),
        ("frag_chain", "spread") => {
            let mut s = String::from("{ ...F0 }");
            for i in 0..k { s += &format!(" fragment F{i} on Query {{ ...F{} }}", i + 1); }
            s += &format!(" fragment F{k} on Query {{ int }}");
            lr(s)
        }
        ("frag_chain", "unused") => {
            let mut s = String::from("{ int }");
            for i in 0..k { s += &format!(" fragment F{i} on Query {{ ...F{} }}", i + 1); }
            s += &format!(" fragment F{k} on Query {{ int }}");
            lr(s)
        }
        ("frag_cycle", "spread") => {
            let mut s = String::from("{ ...F0 }");
            for i in 0..k { s += &format!(" fragment F{i} on Query {{ ...F{} }}", (i + 1) % k); }
            lr(s)
        }
        ("frag_cycle", "unused") => {
            let mut s = String::from("{ int }");
            for i in 0..k { s += &format!(" fragment F{i} on Query {{ ...F{} }}", (i + 1) % k); }
            lr(s)
        }
        ("big_number", ty) => {
            let lit = sub;
            let (gty, field) = type_of(ty)?;
            let n = match lit {
                "int_digits" => rep("9", k.max(1)), "neg_digits" => format!("-{}", rep("9", k.max(1))),
                "exp" => format!("1e{}", rep("9", k.max(1))), "neg_exp" => format!("1e-{}", rep("9", k.max(1))),
                "frac_digits" => format!("0.{}", rep("3", k.max(1))), "i64_max_plus" => "9223372036854775808".into(),
                "u64_max_plus" => "18446744073709551616".into(), "i32_max_plus" => "2147483648".into(), "minus_zero" => "-0".into(),
                _ => return None,
            };
            if k % 2 == 0 { lr(format!("{{ {field}(a: {n}) }}")) } else { lrv(format!("query($v: {gty}) {{ {field}(a: $v) }}"), format!("{{\"v\":{n}}}")) }
        }
        ("bad_string", p) => {
            let (lit, json): (&str, Option<&str>) = match p {
                "lone_high" => ("\"\\uD800\"", Some("\"\\ud800\"")), "lone_low" => ("\"\\uDC00\"", Some("\"\\udc00\"")),
                "high_then_ascii" => ("\"\\uD800\\u0041\"", Some("\"\\ud800\\u0041\"")), "swapped_pair" => ("\"\\uDC00\\uD800\"", Some("\"\\udc00\\ud800\"")),
                "braced_surrogate" => ("\"\\u{D800}\"", None), "braced_too_big" => ("\"\\u{110000}\"", None), "braced_empty" => ("\"\\u{}\"", None),
                "braced_unclosed" => ("\"\\u{41\"", None),
                "bad_escape" => ("\"\\q\"", Some("\"\\q\"")), "short_u" => ("\"\\u12\"", Some("\"\\u12\"")), "unterminated" => ("\"abc", Some("\"abc")),
                "unterminated_block" => ("\"\"\"abc", None), "raw_newline" => ("\"a\nb\"", Some("\"a\nb\"")), "nul_char" => ("\"a\u{0}b\"", Some("\"a\u{0}b\"")),
                "escape_at_end" => ("\"abc\\", Some("\"abc\\")), "block_escape_end" => ("\"\"\"abc\\\"\"\"", None),
                _ => return None,
            };
            if k == 0 { lr(format!("{{ string(a: {lit}) }}")) }
            else if k == 1 { lr(format!("query($v: String = {lit}) {{ string(a: $v) }}")) }
            else { lrv("query($v: String) { string(a: $v) }", format!("{{\"v\":{}}}", json?)) }
        }
        ("undefined_type", p) => lr(match p {
            "list_default" => "query($v: [Nope] = [1]) { int }", "nonnull_list_default" => "query($v: [Nope!]! = [1]) { int }",
            "named_default" => "query($v: Nope = 1) { int }", "nonnull_named_default" => "query($v: Nope! = 1) { int }",
            "nested_list_default" => "query($v: [[Nope]] = [[1]]) { int }", "list_no_default" => "query($v: [Nope]) { int }",
            "list_default_used" => "query($v: [Nope] = [1]) { list(a: $v) }", "fragment_on" => "{ ... on Nope { int } }",
            "list_null_default" => "query($v: [Nope] = null) { int }",
            _ => return None,
        }),
        ("huge_name", p) => {
            let name = rep("A", k.max(1));
            match p {
                "operation" => Lr { query: format!("query {name} {{ int }}"), op: Some(name), ..Default::default() },
                "operation_mismatch" => Lr { query: "query Q { int }".into(), op: Some(name), ..Default::default() },
                "field" => lr(format!("{{ {name} }}")), "alias" => lr(format!("{{ {name}: int }}")), "argument" => lr(format!("{{ int({name}: 1) }}")),
                "variable" => lrv(format!("query(${name}: Int) {{ int(a: ${name}) }}"), format!("{{\"{name}\":1}}")),
                "directive" => lr(format!("{{ int @{name} }}")), "enum_value" => lr(format!("{{ en(a: {name}) }}")),
                "string_value" => lr(format!("{{ string(a: \"{name}\") }}")), "comment" => lr(format!("#{name}\n{{ int }}")),
                "input_field" => lr(format!("{{ inp(a: {{{name}: 1}}) }}")),
                _ => return None,
            }
        }
        ("flood", p) => match p {
            "aliases" => lr(format!("{{ {} }}", (0..k).map(|i| format!("a{i}: int")).collect::<Vec<_>>().join(" "))),
            "same_field" => lr(format!("{{ {} }}", rep("int ", k))),
            "directives" => lr(format!("{{ int {} }}", rep("@skip(if: false) ", k))),
            "arguments" => lr(format!("{{ int({}) }}", (0..k).map(|i| format!("a{i}: 1")).collect::<Vec<_>>().join(", "))),
            "variables" => lr(format!("query({}) {{ int }}", (0..k).map(|i| format!("$v{i}: Int")).collect::<Vec<_>>().join(", "))),
            "operations" => Lr { query: (0..k).map(|i| format!("query Q{i} {{ int }}")).collect::<Vec<_>>().join(" "), op: Some("Q0".into()), ..Default::default() },
            "list_items" => lr(format!("{{ list(a: [{}]) }}", rep("1 ", k))),
            "commas" => lr(format!("{{ int{} }}", rep(",", k))),
            "json_var_items" => lrv("query($v: [Int!]) { list(a: $v) }", format!("{{\"v\":[{}1]}}", rep("1,", k))),
            _ => return None,
        },
        ("wrong_kind", ty) => {
            let kind = sub;
            let (gty, field) = type_of(ty)?;
            let v = kind_json(kind)?;
            if ty == "upload" { lrv("mutation($v: Upload!) { upload(file: $v) }", format!("{{\"v\":{v}}}")) }
            else { lrv(format!("query($v: {gty}) {{ {field}(a: $v) }}"), format!("{{\"v\":{v}}}")) }
        }
        ("bad_document", p) => lr(match p {
            "empty" => "".to_string(), "whitespace" => " \n\t".into(), "only_comment" => "# nothing".into(), "nul" => "{ int \u{0} }".into(),
            "bom_inside" => "{ \u{feff}int }".into(), "lone_brace" => "{".into(), "close_brace" => "}".into(), "unknown_token" => "{ int ? }".into(),
            "dollar" => "{ int(a: $) }".into(), "at" => "{ int @ }".into(), "ellipsis" => "{ ... }".into(), "colon" => "{ : int }".into(),
            "number_name" => "{ 1int }".into(), "non_ascii_name" => "{ \u{e9}t\u{e9} }".into(), "astral" => "{ \u{1F600} }".into(),
            "schema_def" => "type Query { a: Int }".into(), "two_anonymous" => "{ int } { int }".into(), "unknown_op" => "query A { int }".into(),
            "subscription_multi_root" => "subscription { a: ticks b: ticks }".into(), "empty_selection" => "{ }".into(), "bang" => "{ int! }".into(),
            "variable_in_default" => "query($a: Int = $b, $b: Int = 1) { int(a: $a) }".into(),
            "self_default" => "query($a: Int = $a) { int(a: $a) }".into(),
            "dup_variable" => "query($a: Int, $a: Int) { int(a: $a) }".into(),
            "introspection_deep" => format!("{{ __schema {{ types {{ {}name{} }} }} }}", rep("ofType { ", k.max(1)), rep(" }", k.max(1))),
            "typename_only" => "{ __typename }".into(), "skip_var_missing" => "query($s: Boolean!) { int @skip(if: $s) }".into(),
            "include_wrong_type" => "{ int @include(if: 1) }".into(), "skip_no_arg" => "{ int @skip }".into(),
            _ => return None,
        }),
        ("request_ext", p) => Lr { ext: Some(match p {
            "apq_version_string" => "{\"persistedQuery\":{\"version\":\"x\",\"sha256Hash\":\"ab\"}}", "apq_hash_number" => "{\"persistedQuery\":{\"version\":1,\"sha256Hash\":5}}",
            "apq_not_object" => "{\"persistedQuery\":7}", "apq_null" => "{\"persistedQuery\":null}", "apq_empty" => "{\"persistedQuery\":{}}",
            "apq_wrong_hash" => "{\"persistedQuery\":{\"version\":1,\"sha256Hash\":\"00\"}}", "apq_version_big" => "{\"persistedQuery\":{\"version\":99999999999999999999,\"sha256Hash\":\"00\"}}",
            "apq_version_neg" => "{\"persistedQuery\":{\"version\":-1,\"sha256Hash\":\"00\"}}", "unknown_ext" => "{\"zzz\":[1,2,{\"a\":null}]}",
            _ => return None,
        }.into()), query: if p == "apq_wrong_hash" { "{ int }".into() } else { "{ int }".into() }, ..Default::default() },
        ("request_ext_noquery", p) => Lr { ext: Some(match p {
            "apq_unknown_hash" => "{\"persistedQuery\":{\"version\":1,\"sha256Hash\":\"00\"}}", "apq_version_2" => "{\"persistedQuery\":{\"version\":2,\"sha256Hash\":\"00\"}}",
            _ => return None,
        }.into()), query: String::new(), ..Default::default() },
        ("small_cycle", p) => match p {
            "self" => lr("{ ...F } fragment F on Query { int ...F }"),
            "self_only" => lr("{ ...F } fragment F on Query { ...F }"),
            "mutual" => lr("{ ...F } fragment F on Query { int ...G } fragment G on Query { float ...F }"),
            "triangle" => lr("{ ...F } fragment F on Query { ...G } fragment G on Query { ...H } fragment H on Query { int ...F }"),
            "below_field" => lr("{ t { ...F } } fragment F on T { v t { ...F } }"),
            "below_field_mutual" => lr("{ t { ...F } } fragment F on T { t { ...G } } fragment G on T { v t { ...F } }"),
            "inline" => lr("{ ...F } fragment F on Query { int ... { ...F } }"),
            "typed_inline" => lr("{ ... on Query { ...F } } fragment F on Query { ... on Query { int ...F } }"),
            "self_twice" => lr("{ ...F ...F } fragment F on Query { int ...F ...F }"),
            "tail_cycle" => lr("{ ...E } fragment E on Query { int ...F } fragment F on Query { ...G } fragment G on Query { float ...F }"),
            "second_operation" => Lr { query: "query A { int } query B { ...F } fragment F on Query { int ...F }".into(), op: Some("A".into()), ..Default::default() },
            "mutation_root" => lr("mutation { ...F } fragment F on Mutation { ...F }"),
            "subscription_root" => lr("subscription { ...F } fragment F on Subscription { ticks ...F }"),
            "unused_small" => lr("{ int } fragment F on Query { int ...F }"),
            "with_directive" => lr("{ ...F @include(if: true) } fragment F on Query { int ...F @skip(if: false) }"),
            "with_variable" => lrv("query($b: Boolean!) { ...F } fragment F on Query { int @include(if: $b) ...F }", "{\"b\":true}"),
            _ => return None,
        },
        ("block_string", p) => {
            // sub = "<indent>.<lead>.<content>.<other>": one line starting (after an ASCII indent) with an exotic character,
            // optionally beside an ordinary line with a smaller / bigger indent
            let f: Vec<&str> = sub.split('.').collect();
            if f.len() != 4 { return None; }
            let indent = match f[0] { "0" => "", "1" => " ", "2" => "  ", "4" => "    ", "t" => "\t", "st" => " \t", _ => return None };
            let lead = match f[1] { "nbsp" => "\u{a0}", "emsp" => "\u{2003}", "idsp" => "\u{3000}", "bom" => "\u{feff}", "nel" => "\u{85}", "ls" => "\u{2028}",
                                   "l2" => "\u{e9}", "l3" => "\u{20ac}", "l4" => "\u{1F600}", "a" => "a", "two" => "\u{3000}\u{a0}", _ => return None };
            let content = match f[2] { "e" => "", "x" => "x", "sp" => " ", _ => return None };
            let a = format!("{indent}{lead}{content}");
            let body = match f[3] { "none" => a, "small" => format!("{a}\n b"), "big" => format!("{a}\n      b"), "small_first" => format!(" b\n{a}"),
                                   "tab" => format!("{a}\n\tb"), "blank" => format!("{a}\n\n   \n  b"), _ => return None };
            let lit = format!("\"\"\"\n{body}\n\"\"\"");
            match p {
                "arg" => lr(format!("{{ string(a: {lit}) }}")),
                "arg_first_line" => lr(format!("{{ string(a: \"\"\"{body}\"\"\") }}")),
                "var_default" => lr(format!("query($v: String = {lit}) {{ string(a: $v) }}")),
                "input_field" => lr(format!("{{ inp(a: {{s: {lit}}}) }}")),
                "list_item" => lr(format!("{{ any(a: [{lit}]) }}")),
                _ => return None,
            }
        }
        ("benign", p) => match p {
            "query" => lr("{ int(a: 1) float(a: 1.5) string(a: \"x\") boolean(a: true) id(a: \"1\") en(a: GREEN) list(a: [1]) inp(a: {i: 1}) any(a: {k: [1]}) t { t { v } } }"),
            "variables" => lrv("query($i: Int, $s: String) { int(a: $i) string(a: $s) }", "{\"i\":1,\"s\":\"x\"}"),
            "upload" => Lr { query: "mutation($f: Upload!) { upload(file: $f) }".into(), vars: Some("{\"f\":null}".into()),
                             files: vec![("0".into(), "a.txt".into(), b"hello".to_vec())], map: Some("{\"0\":[\"variables.f\"]}".into()), ..Default::default() },
            "subscription" => lr("subscription { ticks(n: 2) }"),
            _ => return None,
        },
        _ => return None,
    })
}

/// k opening levels below a selection on type T: typed inline fragment, (m = 3: untyped inline fragment,) field, in turn.
fn mixed_open(k: usize, m: usize) -> String {
    let mut s = String::new();
    for i in 0..k {
        s.push_str(match (m, i % m) { (3, 0) => "... on T { ", (3, 1) | (2, 0) => "... { ", _ => "t { " });
    }
    s
}

fn request_body(l: &Lr) -> Vec<u8> {
    let mut s = format!("{{\"query\":{}", jstr(&l.query));
    if let Some(op) = &l.op { s += &format!(",\"operationName\":{}", jstr(op)); }
    if let Some(v) = &l.vars { s += &format!(",\"variables\":{v}"); }
    if let Some(e) = &l.ext { s += &format!(",\"extensions\":{e}"); }
    s += "}";
    s.into_bytes()
}
fn pct(s: &str) -> String { percent_encoding::utf8_percent_encode(s, percent_encoding::NON_ALPHANUMERIC).to_string() }
fn get_string(l: &Lr) -> String {
    let mut s = format!("query={}", pct(&l.query));
    if let Some(op) = &l.op { s += &format!("&operationName={}", pct(op)); }
    if let Some(v) = &l.vars { s += &format!("&variables={}", pct(v)); }
    if let Some(e) = &l.ext { s += &format!("&extensions={}", pct(e)); }
    s
}
const BOUNDARY: &str = "----verifBoundary7MA4YWxkTrZu0gW";
fn mp_ct() -> String { format!("multipart/form-data; boundary={BOUNDARY}") }
/// parts: (name, filename, content-type, data)
fn mp_body(parts: &[(String, Option<String>, Option<String>, Vec<u8>)]) -> Vec<u8> {
    let mut b = Vec::new();
    for (name, filename, ct, data) in parts {
        b.extend_from_slice(format!("--{BOUNDARY}\r\nContent-Disposition: form-data; name=\"{name}\"").as_bytes());
        if let Some(f) = filename { b.extend_from_slice(format!("; filename=\"{f}\"").as_bytes()); }
        b.extend_from_slice(b"\r\n");
        if let Some(ct) = ct { b.extend_from_slice(format!("Content-Type: {ct}\r\n").as_bytes()); }
        b.extend_from_slice(b"\r\n");
        b.extend_from_slice(data);
        b.extend_from_slice(b"\r\n");
    }
    b.extend_from_slice(format!("--{BOUNDARY}--").as_bytes());
    b
}
fn mp_of(l: &Lr) -> Vec<u8> {
    let mut parts = vec![("operations".to_string(), None, None, request_body(l)),
                         ("map".to_string(), None, None, l.map.clone().unwrap_or_else(|| "{}".into()).into_bytes())];
    for (name, filename, data) in &l.files {
        parts.push((name.clone(), Some(filename.clone()), Some("text/plain".into()), data.clone()));
    }
    mp_body(&parts)
}
fn ws_of(proto: &'static str, body: &[u8]) -> Vec<Vec<u8>> {
    let start = if proto == "graphql-ws" { "start" } else { "subscribe" };
    let mut f = format!("{{\"type\":\"{start}\",\"id\":\"1\",\"payload\":").into_bytes();
    f.extend_from_slice(body);
    f.push(b'}');
    vec![b"{\"type\":\"connection_init\"}".to_vec(), f]
}

fn valid_lr(which: usize) -> Lr {
    document_case("benign", ["query", "variables", "upload", "subscription"][which % 4], "", 0).unwrap()
}

fn transport_case(class: &str, pos: &str, sub: &str, k: usize, transport: &str) -> Payload {
    let base = valid_lr(if transport == "multipart" { 2 } else { 1 });
    match (class, transport) {
        ("truncate", "json") => { let b = request_body(&base); Payload::Body(b[..b.len() * k / 20].to_vec()) }
        ("truncate", "get") => { let b = get_string(&base); let mut n = b.len() * k / 20; while !b.is_char_boundary(n) { n -= 1; } Payload::Get(b[..n].to_string()) }
        ("truncate", "multipart") => { let b = mp_of(&base); Payload::Multipart(mp_ct(), b[..b.len() * k / 20].to_vec()) }
        ("truncate", "ws") => { let f = ws_of("graphql-transport-ws", &request_body(&base)); let b = &f[1];
                                Payload::Ws("graphql-transport-ws", vec![f[0].clone(), b[..b.len() * k / 20].to_vec()]) }
        ("bad_bytes", t) => {
            let hostile: Vec<u8> = match pos {
                "invalid_utf8" => vec![0xff, 0xfe], "overlong" => vec![0xc0, 0xaf], "surrogate_utf8" => vec![0xed, 0xa0, 0x80],
                "truncated_utf8" => vec![0xe2, 0x82], "nul" => vec![0], "bom" => vec![0xef, 0xbb, 0xbf], _ => return Payload::NotApplicable,
            };
            // spliced into the query text (k = 0) or put in front of the payload (k = 1)
            let body = request_body(&base);
            let at = if k == 0 { body.windows(3).position(|w| w == b"int").unwrap_or(0) } else { 0 };
            let mut b = body[..at].to_vec(); b.extend_from_slice(&hostile); b.extend_from_slice(&body[at..]);
            match t {
                "json" => Payload::Body(b),
                "multipart" => Payload::Multipart(mp_ct(), mp_body(&[("operations".into(), None, None, b), ("map".into(), None, None, b"{}".to_vec())])),
                "ws" => Payload::Ws("graphql-transport-ws", { let mut f = ws_of("graphql-transport-ws", &b); if k == 1 { f[1] = [&hostile[..], &f[1][..]].concat(); } f }),
                "get" => { let enc: String = hostile.iter().map(|x| format!("%{x:02X}")).collect();
                           Payload::Get(if k == 0 { format!("query=%7B{enc}int%7D") } else { format!("{enc}query=%7Bint%7D") }) }
                _ => Payload::NotApplicable,
            }
        }
        ("get_syntax", "get") => Payload::Get(match pos {
            "bad_percent" => "query=%zz%7Bint%7D".into(), "lone_percent" => "query=%7Bint%7D%".into(), "short_percent" => "query=%7Bint%7D%7".into(),
            "variables_not_json" => "query=%7Bint%7D&variables=%7B".into(), "variables_array" => "query=%7Bint%7D&variables=%5B1%5D".into(),
            "variables_string" => "query=%7Bint%7D&variables=%22x%22".into(), "variables_number" => "query=%7Bint%7D&variables=1".into(),
            "extensions_not_json" => "query=%7Bint%7D&extensions=%7B".into(), "extensions_array" => "query=%7Bint%7D&extensions=%5B%5D".into(),
            "dup_query" => "query=%7Bint%7D&query=%7Bfloat%7D".into(), "no_query" => "variables=%7B%7D".into(), "empty" => "".into(),
            "only_amp" => "&&&&".into(), "no_equals" => "query".into(), "unknown_key" => "query=%7Bint%7D&zzz=1".into(),
            "plus" => "query=%7B+int+%7D".into(), "huge_key" => format!("{}=1&query=%7Bint%7D", rep("k", k.max(1))),
            "many_params" => format!("query=%7Bint%7D{}", rep("&a=1", k.max(1))),
            "variables_deep" => format!("query=%7Bint%7D&variables=%7B%22v%22%3A{}1{}%7D", rep("%5B", k.max(1)), rep("%5D", k.max(1))),
            _ => return Payload::NotApplicable,
        }),
        ("request_shape", t) if t != "get" => {
            let body: String = match pos {
                "query_number" => "{\"query\":5}".into(), "query_null" => "{\"query\":null}".into(), "query_array" => "{\"query\":[\"{ int }\"]}".into(),
                "query_missing" => "{}".into(), "opname_number" => "{\"query\":\"{ int }\",\"operationName\":5}".into(),
                "opname_array" => "{\"query\":\"{ int }\",\"operationName\":[]}".into(), "variables_number" => "{\"query\":\"{ int }\",\"variables\":5}".into(),
                "variables_string" => "{\"query\":\"{ int }\",\"variables\":\"{}\"}".into(), "variables_array" => "{\"query\":\"{ int }\",\"variables\":[1]}".into(),
                "extensions_number" => "{\"query\":\"{ int }\",\"extensions\":5}".into(), "extensions_array" => "{\"query\":\"{ int }\",\"extensions\":[1]}".into(),
                "body_number" => "5".into(), "body_string" => "\"{ int }\"".into(), "body_null" => "null".into(), "body_true" => "true".into(),
                "batch_empty" => "[]".into(), "batch_of_number" => "[1]".into(), "batch_nested" => "[[{\"query\":\"{ int }\"}]]".into(),
                "batch_two" => "[{\"query\":\"{ int }\"},{\"query\":\"{ float }\"}]".into(), "batch_one" => "[{\"query\":\"{ int }\"}]".into(),
                "dup_query_key" => "{\"query\":\"{ int }\",\"query\":\"{ float }\"}".into(), "trailing_garbage" => "{\"query\":\"{ int }\"} x".into(),
                "two_documents" => "{\"query\":\"{ int }\"}{\"query\":\"{ int }\"}".into(), "empty_body" => "".into(), "whitespace_body" => "  \n".into(),
                "unknown_key" => "{\"query\":\"{ int }\",\"zzz\":{\"a\":[1,2]}}".into(), "single_quotes" => "{'query':'{ int }'}".into(),
                "comment" => "{\"query\":\"{ int }\" /* c */}".into(), "nan" => "{\"query\":\"{ int }\",\"variables\":{\"v\":NaN}}".into(),
                "deep_unknown_key" => format!("{{\"query\":\"{{ int }}\",\"zzz\":{}1{}}}", rep("[", k.max(1)), rep("]", k.max(1))),
                "deep_extensions" => format!("{{\"query\":\"{{ int }}\",\"extensions\":{{\"e\":{}1{}}}}}", rep("[", k.max(1)), rep("]", k.max(1))),
                "huge_string_key" => format!("{{\"query\":\"{{ int }}\",\"{}\":1}}", rep("k", k.max(1))),
                _ => return Payload::NotApplicable,
            };
            match t {
                "json" => Payload::Body(body.into_bytes()),
                "multipart" => Payload::Multipart(mp_ct(), mp_body(&[("operations".into(), None, None, body.into_bytes()), ("map".into(), None, None, b"{}".to_vec())])),
                "ws" => Payload::Ws("graphql-transport-ws", ws_of("graphql-transport-ws", body.as_bytes())),
                _ => Payload::NotApplicable,
            }
        }
        ("content_type", "json") => Payload::NotApplicable, // handled in run_case through `pos`
        ("mp_structure", "multipart") => {
            let ops = request_body(&base);
            let op = |b: &[u8]| ("operations".to_string(), None, None, b.to_vec());
            let map = |s: &str| ("map".to_string(), None, None, s.as_bytes().to_vec());
            let file = |n: &str| (n.to_string(), Some("a.txt".to_string()), Some("text/plain".to_string()), b"hello".to_vec());
            let m1 = "{\"0\":[\"variables.f\"]}";
            let (ct, body) = match pos {
                "no_operations" => (mp_ct(), mp_body(&[map(m1), file("0")])),
                "no_map" => (mp_ct(), mp_body(&[op(&ops), file("0")])),
                "map_not_json" => (mp_ct(), mp_body(&[op(&ops), map("{"), file("0")])),
                "map_wrong_shape" => (mp_ct(), mp_body(&[op(&ops), map("{\"0\":\"variables.f\"}"), file("0")])),
                "map_array" => (mp_ct(), mp_body(&[op(&ops), map("[1]"), file("0")])),
                "map_missing_file" => (mp_ct(), mp_body(&[op(&ops), map("{\"0\":[\"variables.f\"],\"1\":[\"variables.f\"]}"), file("0")])),
                "map_unknown_var" => (mp_ct(), mp_body(&[op(&ops), map("{\"0\":[\"variables.nope\"]}"), file("0")])),
                "map_not_variables" => (mp_ct(), mp_body(&[op(&ops), map("{\"0\":[\"query\"]}"), file("0")])),
                "map_empty_path" => (mp_ct(), mp_body(&[op(&ops), map("{\"0\":[\"\"]}"), file("0")])),
                "map_dots" => (mp_ct(), mp_body(&[op(&ops), map("{\"0\":[\"variables....\"]}"), file("0")])),
                "map_deep_path" => (mp_ct(), mp_body(&[op(&ops), map(&format!("{{\"0\":[\"variables.f{}\"]}}", rep(".0", k.max(1)))), file("0")])),
                "map_index_huge" => (mp_ct(), mp_body(&[op(b"{\"query\":\"mutation($f: [Upload!]!) { uploads(files: $f) }\",\"variables\":{\"f\":[null]}}"),
                                                         map("{\"0\":[\"variables.f.99999999999999999999\"]}"), file("0")])),
                "map_index_neg" => (mp_ct(), mp_body(&[op(b"{\"query\":\"mutation($f: [Upload!]!) { uploads(files: $f) }\",\"variables\":{\"f\":[null]}}"),
                                                        map("{\"0\":[\"variables.f.-1\"]}"), file("0")])),
                "map_index_oob" => (mp_ct(), mp_body(&[op(b"{\"query\":\"mutation($f: [Upload!]!) { uploads(files: $f) }\",\"variables\":{\"f\":[null]}}"),
                                                        map("{\"0\":[\"variables.f.5\"]}"), file("0")])),
                "map_many_paths" => (mp_ct(), mp_body(&[op(&ops), map(&format!("{{\"0\":[{}\"variables.f\"]}}", rep("\"variables.f\",", k.max(1)))), file("0")])),
                "file_without_map" => (mp_ct(), mp_body(&[op(&ops), map("{}"), file("0")])),
                "file_before_operations" => (mp_ct(), mp_body(&[file("0"), map(m1), op(&ops)])),
                "dup_operations" => (mp_ct(), mp_body(&[op(&ops), op(b"{\"query\":\"{ int }\"}"), map(m1), file("0")])),
                "dup_file" => (mp_ct(), mp_body(&[op(&ops), map(m1), file("0"), file("0")])),
                "batch_index_oob" => (mp_ct(), mp_body(&[op(format!("[{}]", String::from_utf8_lossy(&ops)).as_bytes()), map("{\"0\":[\"7.variables.f\"]}"), file("0")])),
                "batch_index_bad" => (mp_ct(), mp_body(&[op(format!("[{}]", String::from_utf8_lossy(&ops)).as_bytes()), map("{\"0\":[\"x.variables.f\"]}"), file("0")])),
                "marker_with_file" => (mp_ct(), mp_body(&[op(b"{\"query\":\"mutation($f: Upload!, $g: Upload!) { a: upload(file: $f) b: upload(file: $g) }\",\"variables\":{\"f\":null,\"g\":\"#__graphql_file__:1\"}}"),
                                                           map(m1), file("0")])),
                "marker_alias_file" => (mp_ct(), mp_body(&[op(b"{\"query\":\"mutation($f: Upload!, $g: Upload!) { a: upload(file: $f) b: upload(file: $g) }\",\"variables\":{\"f\":null,\"g\":\"#__graphql_file__:0\"}}"),
                                                            map(m1), file("0")])),
                "no_boundary_param" => ("multipart/form-data".to_string(), mp_of(&base)),
                "wrong_boundary" => ("multipart/form-data; boundary=zzz".to_string(), mp_of(&base)),
                "empty_boundary" => ("multipart/form-data; boundary=".to_string(), mp_of(&base)),
                "huge_boundary" => (format!("multipart/form-data; boundary={}", rep("b", k.max(1))), mp_of(&base)),
                "empty_body" => (mp_ct(), Vec::new()),
                "only_close" => (mp_ct(), format!("--{BOUNDARY}--").into_bytes()),
                "part_bad_content_type" => (mp_ct(), mp_body(&[("operations".into(), None, Some("///".into()), ops.clone()), map(m1), file("0")])),
                "part_multipart_content_type" => (mp_ct(), mp_body(&[("operations".into(), None, Some("multipart/form-data; boundary=x".into()), ops.clone()), map(m1), file("0")])),
                "part_no_name" => (mp_ct(), { let mut b = format!("--{BOUNDARY}\r\nContent-Disposition: form-data\r\n\r\nx\r\n").into_bytes(); b.extend(mp_of(&base)); b }),
                "part_no_disposition" => (mp_ct(), { let mut b = format!("--{BOUNDARY}\r\n\r\nx\r\n").into_bytes(); b.extend(mp_of(&base)); b }),
                "huge_header" => (mp_ct(), { let mut b = format!("--{BOUNDARY}\r\nX-H: {}\r\nContent-Disposition: form-data; name=\"x\"\r\n\r\nx\r\n", rep("h", k.max(1))).into_bytes(); b.extend(mp_of(&base)); b }),
                "many_parts" => (mp_ct(), { let mut p = vec![op(&ops), map(m1), file("0")]; for i in 0..k { p.push((format!("x{i}"), None, None, b"1".to_vec())); } mp_body(&p) }),
                "lf_only" => (mp_ct(), String::from_utf8_lossy(&mp_of(&base)).replace("\r\n", "\n").into_bytes()),
                "preamble" => (mp_ct(), { let mut b = b"garbage before\r\n".to_vec(); b.extend(mp_of(&base)); b }),
                "epilogue" => (mp_ct(), { let mut b = mp_of(&base); b.extend_from_slice(b"\r\ngarbage after"); b }),
                _ => return Payload::NotApplicable,
            };
            Payload::Multipart(ct, body)
        }
        ("ws_frames", "ws") => {
            let (proto, what) = match pos { "old" => ("graphql-ws", sub), "new" => ("graphql-transport-ws", sub), _ => return Payload::NotApplicable };
            let init = b"{\"type\":\"connection_init\"}".to_vec();
            let start = if proto == "graphql-ws" { "start" } else { "subscribe" };
            let good = format!("{{\"type\":\"{start}\",\"id\":\"1\",\"payload\":{{\"query\":\"{{ int }}\"}}}}").into_bytes();
            let f = |s: String| s.into_bytes();
            let frames: Vec<Vec<u8>> = match what {
                "invalid_json" => vec![init, f("{".into())], "not_object" => vec![init, f("[1]".into())], "number" => vec![init, f("5".into())],
                "unknown_type" => vec![init, f("{\"type\":\"zzz\"}".into())], "missing_type" => vec![init, f("{\"id\":\"1\"}".into())],
                "type_number" => vec![init, f("{\"type\":5}".into())], "id_number" => vec![init, f(format!("{{\"type\":\"{start}\",\"id\":5,\"payload\":{{\"query\":\"{{ int }}\"}}}}"))],
                "start_no_payload" => vec![init, f(format!("{{\"type\":\"{start}\",\"id\":\"1\"}}"))],
                "start_no_id" => vec![init, f(format!("{{\"type\":\"{start}\",\"payload\":{{\"query\":\"{{ int }}\"}}}}"))],
                "start_payload_string" => vec![init, f(format!("{{\"type\":\"{start}\",\"id\":\"1\",\"payload\":\"{{ int }}\"}}"))],
                "start_before_init" => vec![good.clone()], "double_init" => vec![init.clone(), init],
                "binary_garbage" => vec![init, vec![0xff, 0x00, 0xfe]], "empty_frame" => vec![init, vec![]], "first_frame_garbage" => vec![vec![0xff]],
                "huge_id" => vec![init, f(format!("{{\"type\":\"{start}\",\"id\":\"{}\",\"payload\":{{\"query\":\"{{ int }}\"}}}}", rep("i", k.max(1))))],
                "deep_init_payload" => vec![f(format!("{{\"type\":\"connection_init\",\"payload\":{}1{}}}", rep("[", k.max(1)), rep("]", k.max(1))))],
                "deep_ping_payload" => vec![init, f(format!("{{\"type\":\"ping\",\"payload\":{}1{}}}", rep("[", k.max(1)), rep("]", k.max(1))))],
                "init_payload_string" => vec![f("{\"type\":\"connection_init\",\"payload\":\"x\"}".into()), good.clone()],
                "stop_unknown" => vec![init, f(format!("{{\"type\":\"{}\",\"id\":\"zz\"}}", if proto == "graphql-ws" { "stop" } else { "complete" }))],
                "dup_id" => vec![init, f(format!("{{\"type\":\"{start}\",\"id\":\"1\",\"payload\":{{\"query\":\"subscription {{ ticks }}\"}}}}")), good.clone()],
                "terminate" => vec![init, f("{\"type\":\"connection_terminate\"}".into()), good.clone()],
                "many_frames" => { let mut v = vec![init]; for i in 0..k { v.push(f(format!("{{\"type\":\"{start}\",\"id\":\"{i}\",\"payload\":{{\"query\":\"{{ int }}\"}}}}"))); } v }
                "pong_unsolicited" => vec![init, f("{\"type\":\"pong\"}".into()), good.clone()],
                "good" => vec![init, good.clone()],
                _ => return Payload::NotApplicable,
            };
            Payload::Ws(proto, frames)
        }
        _ => Payload::NotApplicable,
    }
}

// ---------------------------------------------------------------------------------------------
// Running one case.
fn classify(resp: &Response) -> (&'static str, String) {
    if resp.errors.is_empty() { ("data", String::new()) } else { ("errors", resp.errors[0].message.chars().take(120).collect()) }
}
fn exec(s: &S, req: Request) -> (&'static str, String) {
    classify(&futures_executor::block_on(s.execute(req)))
}

struct Frames(std::collections::VecDeque<Vec<u8>>);
impl Stream for Frames {
    type Item = Vec<u8>;
    fn poll_next(mut self: Pin<&mut Self>, _cx: &mut TaskCx<'_>) -> Poll<Option<Vec<u8>>> {
        match self.0.pop_front() { Some(f) => Poll::Ready(Some(f)), None => Poll::Pending }   // the socket stays open
    }
}

fn run_ws(s: &S, proto: &str, frames: Vec<Vec<u8>>) -> (&'static str, String) {
    let p = if proto == "graphql-ws" { WebSocketProtocols::SubscriptionsTransportWS } else { WebSocketProtocols::GraphQLWS };
    let mut ws = Box::pin(WebSocket::new(s.clone(), Frames(frames.into()), p));
    let waker = futures_task::noop_waker();
    let mut cx = TaskCx::from_waker(&waker);
    let (mut texts, mut errs, mut results, mut detail) = (0usize, 0usize, 0usize, String::new());
    for _ in 0..100_000 {
        match ws.as_mut().poll_next(&mut cx) {
            Poll::Pending => break,
            Poll::Ready(None) => return ("close", "stream ended".into()),
            Poll::Ready(Some(WsMessage::Close(code, why))) => return ("close", format!("{code} {}", why.chars().take(80).collect::<String>())),
            Poll::Ready(Some(WsMessage::Text(t))) => {
                texts += 1;
                if let Ok(v) = serde_json::from_str::<J>(&t) {
                    let ty = v["type"].as_str().unwrap_or("");
                    if ty == "connection_error" { return ("close", "connection_error".into()); }
                    let has_err = ty == "error" || v.pointer("/payload/errors").map(|e| e.as_array().map(|a| !a.is_empty()).unwrap_or(false)).unwrap_or(false);
                    if has_err { errs += 1; if detail.is_empty() { detail = t.chars().take(120).collect(); } }
                    else if ty == "next" || ty == "data" { results += 1; }
                }
            }
        }
    }
    if errs > 0 { ("errors", detail) } else if results > 0 { ("data", format!("{texts} messages")) } else { ("open", format!("{texts} messages")) }
}

fn run_payload(s: &S, transport: &str, pos: &str, p: Payload) -> (&'static str, String) {
    let decode = |ct: Option<String>, body: Vec<u8>| -> (&'static str, String) {
        let opts = MultipartOptions::default().max_file_size(1 << 20).max_num_files(8);
        match futures_executor::block_on(receive_body(ct, &body[..], opts)) {
            Err(e) => ("reject", e.to_string().chars().take(120).collect()),
            Ok(req) => exec(s, req),
        }
    };
    match p {
        Payload::NotApplicable => ("n/a", String::new()),
        Payload::Lr(l) => match transport {
            "execute" => {
                let mut req = Request::new(l.query.clone());
                if let Some(op) = &l.op { req = req.operation_name(op.clone()); }
                if let Some(v) = &l.vars {
                    match serde_json::from_str::<J>(v) { Ok(j) => req = req.variables(Variables::from_json(j)), Err(_) => return ("n/a", "variables are not JSON".into()) }
                }
                if let Some(e) = &l.ext {
                    match serde_json::from_str::<std::collections::HashMap<String, Value>>(e) { Ok(m) => req.extensions = async_graphql_value::Extensions(m), Err(_) => return ("n/a", "extensions".into()) }
                }
                if !l.files.is_empty() { return ("n/a", "files".into()); }
                exec(s, req)
            }
            "json" => decode(Some("application/json".into()), request_body(&l)),
            "get" => match parse_query_string(&get_string(&l)) { Err(e) => ("reject", e.to_string().chars().take(120).collect()), Ok(req) => exec(s, req) },
            "multipart" => decode(Some(mp_ct()), mp_of(&l)),
            "ws" => run_ws(s, "graphql-transport-ws", ws_of("graphql-transport-ws", &request_body(&l))),
            "ws_old" => run_ws(s, "graphql-ws", ws_of("graphql-ws", &request_body(&l))),
            _ => ("n/a", String::new()),
        },
        Payload::Body(b) => decode(if pos.starts_with("ct:") { Some(pos[3..].to_string()) } else { Some("application/json".into()) }, b),
        Payload::Get(q) => match parse_query_string(&q) { Err(e) => ("reject", e.to_string().chars().take(120).collect()), Ok(req) => exec(s, req) },
        Payload::Multipart(ct, b) => decode(Some(ct), b),
        Payload::Ws(proto, frames) => run_ws(s, proto, frames),
    }
}

fn hex(b: &[u8]) -> Vec<u8> {
    let s = std::str::from_utf8(b).unwrap_or("");
    (0..s.len() / 2).map(|i| u8::from_str_radix(&s[2 * i..2 * i + 2], 16).unwrap_or(0)).collect()
}

fn materialise(case: &J) -> (String, String, Payload) {
    let class = case["class"].as_str().unwrap_or("");
    let pos = case["pos"].as_str().unwrap_or("");
    let sub = case["sub"].as_str().unwrap_or("");
    let k = case["k"].as_u64().unwrap_or(0) as usize;
    let transport = case["transport"].as_str().unwrap_or("").to_string();
    let p = if class == "mutation" {
        // byte-level mutation prepared by the parent: the payload itself travels in the case (hex)
        let bytes = hex(case["bytes"].as_str().unwrap_or("").as_bytes());
        match transport.as_str() {
            "execute" => Payload::Lr(lr(String::from_utf8_lossy(&bytes).to_string())),
            "json" => Payload::Body(bytes),
            "get" => Payload::Get(String::from_utf8_lossy(&bytes).to_string()),
            "multipart" => Payload::Multipart(mp_ct(), bytes),
            "ws" => Payload::Ws("graphql-transport-ws", vec![b"{\"type\":\"connection_init\"}".to_vec(), bytes]),
            _ => Payload::NotApplicable,
        }
    } else if class == "content_type" {
        Payload::Body(request_body(&valid_lr(1)))
    } else if let Some(l) = document_case(class, pos, sub, k) {
        Payload::Lr(l)
    } else {
        transport_case(class, pos, sub, k, &transport)
    };
    (transport, if class == "content_type" { format!("ct:{pos}") } else { pos.to_string() }, p)
}

/// Syntactic features of the bytes a case sends (the triggers of the named deviations are stated over them).
fn features(case: &J) -> J {
    let (_t, _p, payload) = materialise(case);
    let mut bytes: Vec<u8> = match payload {
        Payload::Lr(l) => { let mut b = request_body(&l); if let Some(m) = &l.map { b.extend_from_slice(m.as_bytes()); } b }
        Payload::Body(b) => b,
        Payload::Get(q) => percent_encoding::percent_decode_str(&q).collect(),
        Payload::Multipart(_, b) => b,
        Payload::Ws(_, frames) => frames.concat(),
        Payload::NotApplicable => Vec::new(),
    };
    if case["transport"] == "get" && case["class"] == "mutation" { bytes = percent_encoding::percent_decode(&bytes).collect(); }
    let text = String::from_utf8_lossy(&bytes).to_string();
    let (mut depth, mut max_depth) = (0i64, 0i64);
    // val: [ anywhere and { inside parentheses (values, variable definitions); sel: { outside parentheses (selection sets)
    let (mut paren, mut val, mut max_val, mut sel, mut max_sel) = (0i64, 0i64, 0i64, 0i64, 0i64);
    let mut kinds: Vec<bool> = Vec::new();     // open brackets: true = counted as value nesting
    for b in &bytes {
        match b {
            b'(' => paren += 1,
            b')' => paren = (paren - 1).max(0),
            b'[' | b'{' => {
                depth += 1; max_depth = max_depth.max(depth);
                let v = *b == b'[' || paren > 0;
                kinds.push(v);
                if v { val += 1; max_val = max_val.max(val); } else { sel += 1; max_sel = max_sel.max(sel); }
            }
            b']' | b'}' => {
                depth = (depth - 1).max(0);
                match kinds.pop() { Some(true) => val -= 1, Some(false) => sel -= 1, None => {} }
            }
            _ => {}
        }
    }
    // `$name : [ [ X` with X not a type of the schema
    const KNOWN: [&str; 9] = ["Int", "Float", "String", "Boolean", "ID", "Color", "Inp", "JSON", "Upload"];
    let cs: Vec<char> = text.chars().collect();
    let mut undef = false;
    let mut i = 0;
    while i < cs.len() {
        if cs[i] == '$' {
            let mut j = i + 1;
            while j < cs.len() && (cs[j].is_alphanumeric() || cs[j] == '_') { j += 1; }
            while j < cs.len() && cs[j].is_whitespace() { j += 1; }
            if j < cs.len() && cs[j] == ':' {
                j += 1;
                let mut lists = 0;
                while j < cs.len() && (cs[j].is_whitespace() || cs[j] == '[') { if cs[j] == '[' { lists += 1; } j += 1; }
                let st = j;
                while j < cs.len() && (cs[j].is_alphanumeric() || cs[j] == '_') { j += 1; }
                let name: String = cs[st..j].iter().collect();
                if lists > 0 && !name.is_empty() && !KNOWN.contains(&name.as_str()) { undef = true; }
            }
            i = j.max(i + 1);
        } else { i += 1; }
    }
    let lower = text.to_ascii_lowercase();
    json!({"marker": text.contains(MARK), "undef": undef, "depth": max_depth, "val": max_val, "sel": max_sel, "frags": text.matches("fragment ").count(),
           "mpmp": lower.contains("content-type: multipart/") })
}

fn run_case(ss: &Schemas, case: &J) -> J {
    let t0 = Instant::now();
    let (transport, pos, payload) = materialise(case);
    let s2 = ss.of(case).clone();
    let h = std::thread::Builder::new().stack_size(2 << 20).spawn(move || run_payload(&s2, &transport, &pos, payload)).unwrap();
    let (outcome, detail) = match h.join() {
        Ok((o, d)) => (o.to_string(), d),
        Err(e) => ("panic".to_string(), e.downcast_ref::<String>().cloned().or_else(|| e.downcast_ref::<&str>().map(|s| s.to_string())).unwrap_or_default().chars().take(160).collect()),
    };
    json!({"id": case["id"], "outcome": outcome, "detail": detail, "ms": t0.elapsed().as_millis() as u64})
}

// ---------------------------------------------------------------------------------------------
// Byte-level mutations of valid payloads (seeded; prepared by the parent so that every child sees the same bytes).
fn mutate(rng: &mut StdRng, src: &[u8]) -> Vec<u8> {
    const TOKENS: [&[u8]; 24] = [b"#__graphql_file__:", b"#__graphql_file__:x", b"[[[[[[[[", b"{{{{{{{{", b"\\uD800", b"\"", b"\\", b"\0", b"\xff", b"99999999999999999999999",
        b"1e99999", b"-", b"...", b"$", b"@", b"!", b"null", b"[", b"]", b"{", b"}", b"\r\n--", b"%", b"\"\"\""];
    let mut b = src.to_vec();
    for _ in 0..rng.gen_range(1..=3) {
        if b.is_empty() { b.push(rng.r#gen()); continue; }
        let i = rng.gen_range(0..b.len());
        match rng.gen_range(0..8) {
            0 => b[i] ^= 1 << rng.gen_range(0..8),
            1 => { b.remove(i); }
            2 => b.insert(i, rng.r#gen()),
            3 => { let j = rng.gen_range(i..b.len().min(i + 40)); let chunk = b[i..=j].to_vec(); let n = rng.gen_range(1..6); for _ in 0..n { let at = i; b.splice(at..at, chunk.iter().cloned()); } }
            4 => { let t = TOKENS[rng.gen_range(0..TOKENS.len())]; b.splice(i..i, t.iter().cloned()); }
            5 => b.truncate(i),
            6 => { let j = rng.gen_range(0..b.len()); b.swap(i, j); }
            _ => { let t = TOKENS[rng.gen_range(0..TOKENS.len())]; let e = (i + t.len()).min(b.len()); b.splice(i..e, t.iter().cloned()); }
        }
    }
    b
}
fn tohex(b: &[u8]) -> String { b.iter().map(|x| format!("{x:02x}")).collect() }

fn mutation_cases(seed: u64, n: usize, first_id: u64) -> Vec<J> {
    let mut rng = StdRng::seed_from_u64(seed);
    let docs: [&str; 5] = [
        "query Q($i: Int = 1, $s: String = \"a\\u0041\", $l: [Int!] = [1, 2], $o: Inp = {i: 1, n: {s: \"x\"}}) { int(a: $i) string(a: $s) list(a: $l) inp(a: $o) ...F t { t { v } } }  fragment F on Query { float(a: 1.5e3) en(a: RED) @skip(if: false) }",
        "mutation($f: Upload!) { upload(file: $f) }",
        "{ any(a: {k: [1, \"\"\"block\"\"\", {z: null}]}) id(a: \"1\") boolean(a: true) ... on Query { long(a: -5) } }",
        "subscription S { ticks(n: 2) }",
        "{ __schema { types { name fields { name type { name ofType { name } } } } } __type(name: \"Inp\") { inputFields { name } } }",
    ];
    let mut out = Vec::new();
    for i in 0..n {
        let transport = ["execute", "json", "get", "multipart", "ws"][i % 5];
        let di = rng.gen_range(0..docs.len());
        let d = docs[di];
        // only the upload document carries the (forged) marker, so that the marker trigger stays narrow
        let vars = if di == 1 { "{\"f\":\"#__graphql_file__:0\"}" } else { "{\"i\":2,\"s\":\"x\",\"l\":[3],\"o\":{\"i\":4}}" };
        let l = match transport {
            "multipart" => valid_lr(2),
            _ => Lr { query: d.to_string(), op: None, vars: Some(vars.into()),
                      ext: Some("{\"persistedQuery\":{\"version\":1,\"sha256Hash\":\"00\"}}".into()), ..Default::default() },
        };
        let src: Vec<u8> = match transport {
            "execute" => d.as_bytes().to_vec(), "json" => request_body(&l), "get" => get_string(&l).into_bytes(), "multipart" => mp_of(&l),
            _ => ws_of("graphql-transport-ws", &request_body(&l))[1].clone(),
        };
        let m = mutate(&mut rng, &src);
        out.push(json!({"id": first_id + i as u64, "class": "mutation", "pos": "bytes", "sub": "", "k": i, "transport": transport, "bytes": tohex(&m)}));
    }
    out
}

// ---------------------------------------------------------------------------------------------
fn child(path: &str, first: usize) {
    std::panic::set_hook(Box::new(|_| {}));
    let cases = read_ndjson(path);
    let s = Schemas::new();
    let out = std::io::stdout();
    for (i, c) in cases.iter().enumerate().skip(first) {
        { let mut o = out.lock(); writeln!(o, "S {i}").unwrap(); o.flush().unwrap(); }
        let r = run_case(&s, c);
        { let mut o = out.lock(); writeln!(o, "O {}", serde_json::to_string(&r).unwrap()).unwrap(); o.flush().unwrap(); }
    }
}

fn parent(a: &[String]) {
    let seed: u64 = a[4].parse().unwrap_or_else(|_| tool_error("seed"));
    let nmut: usize = a[5].parse().unwrap_or_else(|_| tool_error("n-mutations"));
    let budget = Duration::from_millis(a[6].parse().unwrap_or_else(|_| tool_error("budget-ms")));
    let mut cases = read_ndjson(&a[2]);
    let max_id = cases.iter().map(|c| c["id"].as_u64().unwrap_or(0)).max().unwrap_or(0);
    cases.extend(mutation_cases(seed, nmut, max_id + 1));
    for c in cases.iter_mut() { let f = features(c); c["feat"] = f; }
    let all = format!("{}.all", a[2]);
    { let mut w = NdWriter::create(&all); for c in &cases { w.write(c); } w.finish(); }
    let exe = std::env::current_exe().unwrap();
    let mut w = NdWriter::create(&a[3]);
    let mut next = 0usize;
    let mut spawns = 0usize;
    while next < cases.len() {
        spawns += 1;
        let mut ch = std::process::Command::new(&exe).args(["--child", &all, &next.to_string()])
            .stdout(std::process::Stdio::piped()).stderr(std::process::Stdio::null()).spawn()
            .unwrap_or_else(|e| tool_error(&format!("spawn: {e}")));
        let stdout = ch.stdout.take().unwrap();
        let (tx, rx) = std::sync::mpsc::channel::<String>();
        std::thread::spawn(move || { for l in std::io::BufReader::new(stdout).lines().map_while(|l| l.ok()) { if tx.send(l).is_err() { break; } } });
        let mut current: Option<usize> = None;
        let mut started = Instant::now();
        loop {
            let wait = if current.is_some() { budget.saturating_sub(started.elapsed()) } else { Duration::from_secs(60) };
            match rx.recv_timeout(wait) {
                Ok(l) => {
                    if let Some(i) = l.strip_prefix("S ") { current = i.parse().ok(); started = Instant::now(); }
                    else if let Some(o) = l.strip_prefix("O ") {
                        let mut v: J = serde_json::from_str(o).unwrap_or_else(|_| tool_error("bad child line"));
                        let c = &cases[current.unwrap_or(next)];
                        for key in ["class", "pos", "sub", "k", "transport", "feat"] { v[key] = c[key].clone(); }
                        w.write(&v);
                        next = current.unwrap_or(next) + 1;
                        current = None;
                    }
                }
                Err(std::sync::mpsc::RecvTimeoutError::Timeout) => {
                    let _ = ch.kill();
                    let _ = ch.wait();
                    let i = current.unwrap_or_else(|| tool_error("child produced nothing for 60 s"));
                    let c = &cases[i];
                    w.write(&json!({"id": c["id"], "outcome": "timeout", "detail": format!("no answer within {} ms", budget.as_millis()), "ms": budget.as_millis() as u64,
                                    "class": c["class"], "pos": c["pos"], "sub": c["sub"], "k": c["k"], "transport": c["transport"], "feat": c["feat"]}));
                    next = i + 1;
                    break;
                }
                Err(std::sync::mpsc::RecvTimeoutError::Disconnected) => {
                    let st = ch.wait().unwrap_or_else(|e| tool_error(&format!("wait: {e}")));
                    if let Some(i) = current {
                        use std::os::unix::process::ExitStatusExt;
                        let c = &cases[i];
                        let detail = match st.signal() { Some(6) => "SIGABRT (stack overflow / abort)".to_string(), Some(11) => "SIGSEGV".to_string(),
                                                         Some(s) => format!("signal {s}"), None => format!("exit code {:?}", st.code()) };
                        w.write(&json!({"id": c["id"], "outcome": "abort", "detail": detail, "ms": started.elapsed().as_millis() as u64,
                                        "class": c["class"], "pos": c["pos"], "sub": c["sub"], "k": c["k"], "transport": c["transport"], "feat": c["feat"]}));
                        next = i + 1;
                    } else if next < cases.len() && !st.success() {
                        tool_error(&format!("child died between cases: {st:?}"));
                    }
                    break;
                }
            }
        }
        if spawns > cases.len() + 5 { tool_error("too many child restarts"); }
    }
    w.finish();
}

fn main() {
    let a: Vec<String> = std::env::args().collect();
    match a.get(1).map(|s| s.as_str()) {
        Some("run") if a.len() == 7 => parent(&a),
        Some("--child") if a.len() == 4 => child(&a[2], a[3].parse().unwrap_or(0)),
        Some("--one") if a.len() == 3 => {
            let c: J = serde_json::from_str(&a[2]).unwrap_or_else(|e| tool_error(&format!("case: {e}")));
            println!("{}", run_case(&Schemas::new(), &c));
        }
        _ => tool_error("usage: c12 run <cases.ndjson> <out.ndjson> <seed> <n-mutations> <budget-ms>"),
    }
}
