//! C11 harness: work of the pre-execution checks, measured with the cfg-guarded counters of
//! `async_graphql::verif_hooks` (the only hook of the project, see /verif/checks/C11.hook.diff).
//!
//! usage: c11 <cases.ndjson> <out.ndjson>
//!
//! A case is {id, family, n, doc (abstract tree)}.  Each document is printed and executed on the static family
//! (vh::fam) built with limit_complexity / limit_depth (so that an expensive document is refused after
//! checking instead of being executed), limit_directives (so that check_max_directives runs) and a recursion
//! limit above every generated nesting.  The counters are reset before and read after the request:
//!   counters = [visit_selection, visit_field, recursive_depth, max_directives, find_conflicts]
//! The harness only drives and records; TLC (spec/gql/WorkTrace.tla) computes sizes, bounds and the expected
//! work.  Wall time is recorded, never judged.
use async_graphql::Request;
use serde_json::{Value as J, json};
use vh::io::*;
use vh::{doc, exec, fam, world::Req};

fn main() {
    let args: Vec<String> = std::env::args().collect();
    if args.len() < 3 { tool_error("usage: c11 <cases.ndjson> <out.ndjson>"); }
    let cases = read_ndjson(&args[1]);
    let mut out = NdWriter::create(&args[2]);
    let schema = fam::builder().limit_complexity(200).limit_depth(12).limit_directives(1000).limit_recursive_depth(64).finish();
    let mut n = 0usize;
    for mut case in cases {
        let mut d = case["doc"].clone();
        let text = doc::print(&mut d);
        case["text"] = json!(text);
        case["bytes"] = json!(text.len());
        let req_data = Req::new(json!({}));
        let op_name = case["doc"]["ops"][0]["name"].as_str().unwrap_or("").to_string();
        let mut request = Request::new(text).data(req_data.clone());
        if !op_name.is_empty() { request = request.operation_name(op_name); }
        let _ = async_graphql::verif_hooks::take();
        let t0 = std::time::Instant::now();
        let result = exec::catch(|| futures_executor::block_on(schema.execute(request)));
        let wall = t0.elapsed().as_micros() as u64;
        let counters = async_graphql::verif_hooks::take();
        case["obs"] = match result {
            Ok(r) => json!({"counters": counters, "wallUs": wall, "refused": !r.errors.is_empty() && req_data.take_log().is_empty(),
                            "message": r.errors.first().map(|e| e.message.clone()).unwrap_or_default(), "problem": ""}),
            Err(p) => json!({"counters": counters, "wallUs": wall, "refused": false, "message": "", "problem": format!("panic: {p}")}),
        };
        out.write(&case);
        n += 1;
    }
    out.finish();
    println!("{{\"cases\": {n}}}");
}
