//! C11 harness: work of the pre-execution checks, measured with the cfg-guarded counters of
//! `async_graphql::verif_hooks` (the only hook of the project, see /verif/checks/C11.hook.diff).
//!
//! usage: c11 <cases.ndjson> <out.ndjson>
//!
//! A case is {id, family, n, cfg: {recursive, directives}, doc (abstract tree)}.  Each document is printed and
//! executed on the static family (vh::fam) built with limit_complexity / limit_depth (so that an expensive
//! document is refused after checking instead of being executed) and with the case's limit_recursive_depth
//! (-1: the default 32) and limit_directives (-1: unset) -- above every nesting for the requests that shall
//! pass, below the document's nesting for the requests that shall be refused cheaply.  The counters are reset before and read after the request:
//!   counters = [visit_selection, visit_field, recursive_depth, max_directives, find_conflicts]
//! The harness only drives and records; TLC (spec/gql/WorkTrace.tla) computes sizes, bounds and the expected
//! work.  Wall time is recorded, never judged.
use async_graphql::Request;
use serde_json::{Value as J, json};
use vh::io::*;
use std::collections::HashMap;
use std::sync::{Arc, Mutex};
use vh::{doc, exec, fam, world::Req};

/// A run-away check must end as *data* (a violation), not as a harness time-out: a watchdog thread reads the counters
/// while the request runs; beyond 2^26 units of work it records the request with the counters seen so far
/// (`aborted: true`), flushes the trace and ends the process.  On the unchanged tree no request comes near (work < 2^20).
const WORK_CAP: u64 = 1 << 26;

fn snapshot() -> [u64; 5] {
    use async_graphql::verif_hooks as h;
    use std::sync::atomic::Ordering::Relaxed;
    [h::VISIT_SELECTION.load(Relaxed), h::VISIT_FIELD.load(Relaxed), h::RECURSIVE_DEPTH.load(Relaxed), h::MAX_DIRECTIVES.load(Relaxed), h::FIND_CONFLICTS.load(Relaxed)]
}

fn build(recursive: i64, directives: i64) -> fam::ExecSchema {
    let mut b = fam::builder().limit_complexity(200).limit_depth(12);
    if recursive >= 0 { b = b.limit_recursive_depth(recursive as usize); }
    if directives >= 0 { b = b.limit_directives(directives as usize); }
    b.finish()
}

fn main() {
    let args: Vec<String> = std::env::args().collect();
    if args.len() < 3 { tool_error("usage: c11 <cases.ndjson> <out.ndjson>"); }
    let cases = read_ndjson(&args[1]);
    let out = Arc::new(Mutex::new(Some(NdWriter::create(&args[2]))));
    let current: Arc<Mutex<Option<(J, std::time::Instant)>>> = Arc::new(Mutex::new(None));
    {
        let (out, current) = (out.clone(), current.clone());
        std::thread::spawn(move || loop {
            std::thread::sleep(std::time::Duration::from_millis(20));
            let snap = snapshot();
            if snap.iter().any(|c| *c > WORK_CAP) {
                let mut cur = current.lock().unwrap();
                if let Some((mut case, t0)) = cur.take() {
                    case["obs"] = json!({"counters": snap, "wallUs": t0.elapsed().as_micros() as u64, "refused": false, "aborted": true, "message": "", "problem": ""});
                    let mut w = out.lock().unwrap();
                    if let Some(mut w) = w.take() { w.write(&case); w.finish(); }
                    println!("{{\"aborted\": true}}");
                    std::process::exit(0);
                }
            }
        });
    }
    let mut schemas: HashMap<(i64, i64), fam::ExecSchema> = HashMap::new();
    let mut n = 0usize;
    for mut case in cases {
        let mut d = case["doc"].clone();
        let text = doc::print(&mut d);
        case["text"] = json!(text);
        case["bytes"] = json!(text.len());
        // cfg: recursive = -1 keeps the default recursion limit (32); directives = -1 leaves limit_directives unset
        let key = (case["cfg"]["recursive"].as_i64().unwrap_or(64), case["cfg"]["directives"].as_i64().unwrap_or(1000));
        let schema = schemas.entry(key).or_insert_with(|| build(key.0, key.1));
        let req_data = Req::new(json!({}));
        let op_name = case["doc"]["ops"][0]["name"].as_str().unwrap_or("").to_string();
        let mut request = Request::new(text).data(req_data.clone());
        if !op_name.is_empty() { request = request.operation_name(op_name); }
        let _ = async_graphql::verif_hooks::take();
        let t0 = std::time::Instant::now();
        *current.lock().unwrap() = Some((case.clone(), t0));
        let result = exec::catch(|| futures_executor::block_on(schema.execute(request)));
        let wall = t0.elapsed().as_micros() as u64;
        let held = current.lock().unwrap().take();
        if held.is_none() { loop { std::thread::sleep(std::time::Duration::from_secs(1)); } }   // the watchdog is writing this request
        let counters = async_graphql::verif_hooks::take();
        case["obs"] = match result {
            Ok(r) => json!({"counters": counters, "wallUs": wall, "refused": !r.errors.is_empty() && req_data.take_log().is_empty(), "aborted": false,
                            "message": r.errors.first().map(|e| e.message.clone()).unwrap_or_default(), "problem": ""}),
            Err(p) => json!({"counters": counters, "wallUs": wall, "refused": false, "aborted": false, "message": "", "problem": format!("panic: {p}")}),
        };
        out.lock().unwrap().as_mut().unwrap().write(&case);
        n += 1;
    }
    if let Some(w) = out.lock().unwrap().take() { w.finish(); }
    println!("{{\"cases\": {n}}}");
}
