//! C11 harness: work of the pre-execution checks, measured with the cfg-guarded counters of
//! `async_graphql::verif_hooks` (the only hook of the project, see /verif/checks/C11.hook.diff).
//!
//! usage: c11 <cases.ndjson> <out.ndjson>
//!
//! A case is {id, family, n, cfg: {recursive, directives}, doc (abstract tree)}.  Each document is printed and
//! executed on the static family (vh::fam) built with limit_complexity / limit_depth (so that an expensive
//! document is refused after checking instead of being executed) and with the case's limit_recursive_depth
//! (-1: the default 32) and limit_directives (-1: unset) -- above every nesting for the requests that shall
//! pass, below the document's nesting for the requests that shall be refused cheaply.  The counters are reset before and read after the request:
//!   counters = [visit_selection, visit_field, recursive_depth, max_directives, find_conflicts]
//! The harness only drives and records; TLC (spec/gql/WorkTrace.tla) computes sizes, bounds and the expected
//! work.  Wall time is recorded, never judged.  cpuUs is the CPU time of this thread over the request
//! (CLOCK_THREAD_CPUTIME_ID: time spent waiting for a core on a loaded machine is not in it); a request that took more
//! than 20 ms is run again (at most twice) and the smallest value is recorded -- the counters are those of the first run.
//! It stands for the work no counter sees (the rules' own searches over the spread graph); WorkTrace bounds it with a
//! margin of several orders of magnitude.  A hook with more than five counters is passed through as it is (`take()`).
use async_graphql::Request;
use serde_json::{Value as J, json};
use vh::io::*;
use std::collections::HashMap;
use std::sync::{Arc, Mutex};
use vh::{doc, exec, fam, world::Req};

/// A run-away check must end as *data* (a violation), not as a harness time-out: a watchdog thread reads the counters
/// while the request runs; beyond 2^26 units of work it records the request with the counters seen so far
/// (`aborted: true`), flushes the trace and ends the process.  On the unchanged tree no request comes near (work < 2^20).
const WORK_CAP: u64 = 1 << 26;

fn snapshot() -> [u64; 5] {
    use async_graphql::verif_hooks as h;
    use std::sync::atomic::Ordering::Relaxed;
    [h::VISIT_SELECTION.load(Relaxed), h::VISIT_FIELD.load(Relaxed), h::RECURSIVE_DEPTH.load(Relaxed), h::MAX_DIRECTIVES.load(Relaxed), h::FIND_CONFLICTS.load(Relaxed)]
}

#[repr(C)]
struct Timespec { tv_sec: i64, tv_nsec: i64 }
unsafe extern "C" { fn clock_gettime(clk: i32, ts: *mut Timespec) -> i32; }
/// CPU time consumed by the calling thread, in microseconds (Linux: CLOCK_THREAD_CPUTIME_ID = 3)
fn thread_cpu_us() -> u64 {
    let mut ts = Timespec { tv_sec: 0, tv_nsec: 0 };
    if unsafe { clock_gettime(3, &mut ts) } != 0 { tool_error("clock_gettime(CLOCK_THREAD_CPUTIME_ID) failed"); }
    ts.tv_sec as u64 * 1_000_000 + ts.tv_nsec as u64 / 1000
}
const CPU_AGAIN_US: u64 = 20_000;

fn build(recursive: i64, directives: i64) -> fam::ExecSchema {
    let mut b = fam::builder().limit_complexity(200).limit_depth(12);
    if recursive >= 0 { b = b.limit_recursive_depth(recursive as usize); }
    if directives >= 0 { b = b.limit_directives(directives as usize); }
    b.finish()
}

fn main() {
    let args: Vec<String> = std::env::args().collect();
    if args.len() < 3 { tool_error("usage: c11 <cases.ndjson> <out.ndjson>"); }
    let cases = read_ndjson(&args[1]);
    let out = Arc::new(Mutex::new(Some(NdWriter::create(&args[2]))));
    let current: Arc<Mutex<Option<(J, std::time::Instant)>>> = Arc::new(Mutex::new(None));
    {
        let (out, current) = (out.clone(), current.clone());
        std::thread::spawn(move || loop {
            std::thread::sleep(std::time::Duration::from_millis(20));
            let snap = snapshot();
            if snap.iter().any(|c| *c > WORK_CAP) {
                let mut cur = current.lock().unwrap();
                if let Some((mut case, t0)) = cur.take() {
                    case["obs"] = json!({"counters": snap, "wallUs": t0.elapsed().as_micros() as u64, "cpuUs": 0, "refused": false, "aborted": true, "message": "", "problem": ""});
                    let mut w = out.lock().unwrap();
                    if let Some(mut w) = w.take() { w.write(&case); w.finish(); }
                    println!("{{\"aborted\": true}}");
                    std::process::exit(0);
                }
            }
        });
    }
    let mut schemas: HashMap<(i64, i64), fam::ExecSchema> = HashMap::new();
    let mut n = 0usize;
    for mut case in cases {
        let mut d = case["doc"].clone();
        let text = doc::print(&mut d);
        case["text"] = json!(text);
        case["bytes"] = json!(text.len());
        // cfg: recursive = -1 keeps the default recursion limit (32); directives = -1 leaves limit_directives unset
        let key = (case["cfg"]["recursive"].as_i64().unwrap_or(64), case["cfg"]["directives"].as_i64().unwrap_or(1000));
        let schema = schemas.entry(key).or_insert_with(|| build(key.0, key.1));
        let req_data = Req::new(json!({}));
        let op_name = case["doc"]["ops"][0]["name"].as_str().unwrap_or("").to_string();
        let mut request = Request::new(text).data(req_data.clone());
        if !op_name.is_empty() { request = request.operation_name(op_name.clone()); }
        let again = request.query.clone();
        let _ = async_graphql::verif_hooks::take();
        let t0 = std::time::Instant::now();
        *current.lock().unwrap() = Some((case.clone(), t0));
        let c0 = thread_cpu_us();
        let result = exec::catch(|| futures_executor::block_on(schema.execute(request)));
        let mut cpu = thread_cpu_us() - c0;
        let wall = t0.elapsed().as_micros() as u64;
        let counters = async_graphql::verif_hooks::take().to_vec();
        // a slow request is measured again: the smallest CPU time of up to three runs is recorded
        let mut runs = 1;
        while cpu > CPU_AGAIN_US && runs < 3 {
            let mut rq = Request::new(again.clone()).data(Req::new(json!({})));
            if !op_name.is_empty() { rq = rq.operation_name(op_name.clone()); }
            let c1 = thread_cpu_us();
            let _ = exec::catch(|| futures_executor::block_on(schema.execute(rq)));
            cpu = cpu.min(thread_cpu_us() - c1);
            runs += 1;
        }
        let held = current.lock().unwrap().take();
        if held.is_none() { loop { std::thread::sleep(std::time::Duration::from_secs(1)); } }   // the watchdog is writing this request
        let _ = async_graphql::verif_hooks::take();
        case["obs"] = match result {
            Ok(r) => json!({"counters": counters, "wallUs": wall, "cpuUs": cpu, "refused": !r.errors.is_empty() && req_data.take_log().is_empty(), "aborted": false,
                            "message": r.errors.first().map(|e| e.message.clone()).unwrap_or_default(), "problem": ""}),
            Err(p) => json!({"counters": counters, "wallUs": wall, "cpuUs": cpu, "refused": false, "aborted": false, "message": "", "problem": format!("panic: {p}")}),
        };
        out.lock().unwrap().as_mut().unwrap().write(&case);
        n += 1;
    }
    if let Some(w) = out.lock().unwrap().take() { w.finish(); }
    println!("{{\"cases\": {n}}}");
}
