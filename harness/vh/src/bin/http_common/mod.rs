//! Shared by the c23 and c24 harness binaries: the string-atom table, rendering of abstract JSON trees
//! (as printed by TLC) to JSON text, the hand-written multipart/form-data renderer, a chunked AsyncRead,
//! and the projection of decoded library values back to abstract JSON trees.
//!
//! Abstract JSON tree node: {"k": "str"|"int"|"bool"|"null"|"list"|"obj"|"broken", "a": atom, "n": int, "c": [...]}
//! (members of an object are {"key": atom-or-literal, "val": node}).
#![allow(dead_code)]
use async_graphql::Value as GV;
use serde_json::{Value as J, json};
use std::pin::Pin;
use std::task::{Context, Poll};

/// Atom name -> text.  Names not in the table are literals (they stand for themselves).
pub const ATOMS: &[(&str, &str)] = &[
    ("EMPTY", ""),
    ("PLAIN", "abc"),
    ("QUOTE", "say \"hi\" 'there'"),
    ("BSLASH", "back\\slash\\\" \\u0041 \\n"),
    ("AMP", "a&b&amp;c&"),
    ("EQ", "k=v==&x="),
    ("PCT", "100%25 %zz %2 %"),
    ("PLUS", "1+1 = 2 + "),
    ("UNI", "\u{e9} \u{2713} \u{1F600} \u{2028}\u{feff}"),
    ("NL", "line1\nline2\r\nline3\t."),
    ("CTRL", "\u{0}\u{1}\u{1f}\u{7f}"),
    ("HASH", "#frag;semi?q/[]{}"),
    ("LOOKNULL", "null"),
    ("QDOC", "query Q($m: Int!, $s: String) { mark(m: $m) echo(s: $s) }"),
    ("OPQ", "Q"),
    ("UPDOC", "mutation U { up }"),
];

pub fn check_atoms() {
    for (i, (n, t)) in ATOMS.iter().enumerate() {
        for (m, u) in &ATOMS[i + 1..] {
            if t == u || n == m { vh::io::tool_error("atom table is not injective"); }
        }
        if ATOMS.iter().any(|(m, _)| m == t) { vh::io::tool_error("atom text equals an atom name"); }
    }
}
pub fn atom_text(name: &str) -> String {
    ATOMS.iter().find(|(n, _)| *n == name).map(|(_, t)| t.to_string()).unwrap_or_else(|| name.to_string())
}
pub fn text_atom(text: &str) -> String {
    ATOMS.iter().find(|(_, t)| *t == text).map(|(n, _)| n.to_string()).unwrap_or_else(|| text.to_string())
}

fn json_string(s: &str, escape_non_ascii: bool) -> String {
    let plain = serde_json::to_string(s).unwrap();
    if !escape_non_ascii { return plain; }
    let mut out = String::new();
    for ch in plain.chars() {
        if ch.is_ascii() { out.push(ch); } else {
            let mut buf = [0u16; 2];
            for u in ch.encode_utf16(&mut buf) { out.push_str(&format!("\\u{:04x}", u)); }
        }
    }
    out
}

/// Insignificant JSON whitespace (RFC 8259 section 2) named by the wire form's `ws` field.
pub fn ws_chars(ws: &str) -> &'static str {
    match ws { "none" | "" => "", "sp" => " ", "tab" => "\t", "cr" => "\r", "lf" => "\n", "mix" => "\n \t\r\n", other => vh::io::tool_error(&format!("unknown whitespace kind {other}")) }
}
/// Render an abstract JSON tree to JSON text.  `esc`: escape non-ASCII as \uXXXX (surrogate pairs);
/// `ws`: whitespace put around every structural character.  "broken" nodes render as text that is not JSON.
pub fn render_json(j: &J, esc: bool, ws: &str, out: &mut String) {
    match j["k"].as_str().unwrap_or("?") {
        "str" => out.push_str(&json_string(&atom_text(j["a"].as_str().unwrap()), esc)),
        "int" => out.push_str(&j["n"].as_i64().unwrap().to_string()),
        "bool" => out.push_str(j["a"].as_str().unwrap()),
        "null" => out.push_str("null"),
        "list" => {
            out.push('[');
            for (i, x) in j["c"].as_array().unwrap().iter().enumerate() {
                if i > 0 { out.push_str(ws); out.push(','); }
                out.push_str(ws);
                render_json(x, esc, ws, out);
            }
            out.push_str(ws);
            out.push(']');
        }
        "obj" => {
            out.push('{');
            for (i, m) in j["c"].as_array().unwrap().iter().enumerate() {
                if i > 0 { out.push_str(ws); out.push(','); }
                out.push_str(ws);
                out.push_str(&json_string(&atom_text(m["key"].as_str().unwrap()), esc));
                out.push_str(ws);
                out.push(':');
                out.push_str(ws);
                render_json(&m["val"], esc, ws, out);
            }
            out.push_str(ws);
            out.push('}');
        }
        "broken" => match j["a"].as_str().unwrap_or("") {
            "trunc" => out.push_str("{\"query\":\"{ a }\",\"variables\":{\"x\":"),
            "garbage" => out.push_str("<html>not json</html>"),
            "empty" => {}
            "trailing" => out.push_str("{\"query\":\"{ a }\"} x"),
            other => vh::io::tool_error(&format!("unknown broken kind {other}")),
        },
        other => vh::io::tool_error(&format!("unknown node kind {other}")),
    }
}
/// One JSON text: leading whitespace, the value, trailing whitespace.  style bit 0 = \u escapes.
pub fn json_text(j: &J, style: u32, ws: &str) -> String {
    let w = ws_chars(ws);
    let mut s = String::from(w);
    render_json(j, style & 1 == 1, w, &mut s);
    s.push_str(w);
    s
}

pub fn node(k: &str, a: &str, n: i64, c: Vec<J>) -> J { json!({"k": k, "a": a, "n": n, "c": c}) }

/// Project a decoded GraphQL value to an abstract JSON tree.
pub fn value_to_node(v: &GV) -> J {
    match v {
        GV::Null => node("null", "", 0, vec![]),
        GV::Number(n) => match n.as_i64() {
            Some(i) if i.abs() < (1 << 30) && !n.is_f64() => node("int", "", i, vec![]),
            _ => node("other", &format!("number:{n}"), 0, vec![]),
        },
        GV::String(s) => node("str", &text_atom(s), 0, vec![]),
        GV::Boolean(b) => node("bool", if *b { "true" } else { "false" }, 0, vec![]),
        GV::Binary(_) => node("other", "binary", 0, vec![]),
        GV::Enum(e) => node("other", &format!("enum:{e}"), 0, vec![]),
        GV::List(l) => node("list", "", 0, l.iter().map(value_to_node).collect()),
        GV::Object(o) => node("obj", "", 0, o.iter().map(|(k, v)| json!({"key": text_atom(k.as_str()), "val": value_to_node(v)})).collect()),
    }
}

pub const BOUNDARY: &str = "----verifBoundary7MA4YWxkTrZu0gW";
pub fn multipart_content_type() -> String { format!("multipart/form-data; boundary={BOUNDARY}") }

pub struct MpPart { pub name: String, pub filename: Option<String>, pub content_type: Option<String>, pub data: Vec<u8> }
/// Hand-written multipart/form-data renderer (RFC 7578).
pub fn render_multipart(parts: &[MpPart]) -> Vec<u8> {
    let mut out = Vec::new();
    for p in parts {
        out.extend_from_slice(format!("--{BOUNDARY}\r\n").as_bytes());
        out.extend_from_slice(format!("Content-Disposition: form-data; name=\"{}\"", p.name).as_bytes());
        if let Some(f) = &p.filename { out.extend_from_slice(format!("; filename=\"{f}\"").as_bytes()); }
        out.extend_from_slice(b"\r\n");
        if let Some(ct) = &p.content_type { out.extend_from_slice(format!("Content-Type: {ct}\r\n").as_bytes()); }
        out.extend_from_slice(b"\r\n");
        out.extend_from_slice(&p.data);
        out.extend_from_slice(b"\r\n");
    }
    out.extend_from_slice(format!("--{BOUNDARY}--\r\n").as_bytes());
    out
}

/// AsyncRead over a byte vector that returns at most `chunk` bytes per read.
pub struct ChunkedReader { pub data: Vec<u8>, pub pos: usize, pub chunk: usize }
impl ChunkedReader { pub fn new(data: Vec<u8>, chunk: usize) -> Self { ChunkedReader { data, pos: 0, chunk: chunk.max(1) } } }
impl futures_util::io::AsyncRead for ChunkedReader {
    fn poll_read(mut self: Pin<&mut Self>, _cx: &mut Context<'_>, buf: &mut [u8]) -> Poll<std::io::Result<usize>> {
        let n = self.chunk.min(buf.len()).min(self.data.len() - self.pos);
        let p = self.pos;
        buf[..n].copy_from_slice(&self.data[p..p + n]);
        self.pos += n;
        Poll::Ready(Ok(n))
    }
}

pub fn preview(bytes: &[u8]) -> String {
    let s: String = String::from_utf8_lossy(bytes).chars().take(600).flat_map(|c| c.escape_default()).collect();
    s
}
