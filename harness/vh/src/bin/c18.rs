//! C18 harness: run the standard introspection query (and __type(name:) for every listed name) on
//!  (a) a derive-built schema with visibility predicates driven by request data (3 boolean flags), under every
//!      flag combination given in the case, and
//!  (b) dynamic schemas built from a JSON type system (case.ts),
//! and write the schema description back in abstract form (type references as {k,n/of}); also the names found
//! by re-parsing the SDL export.   usage: c18 <cases.ndjson> <out.ndjson>
use async_graphql::*;
use serde_json::{Value as J, json};
use vh::io::*;
use vh::{dynfam, world::Req};

struct Flags(bool, bool, bool);
fn vis_a(ctx: &Context<'_>) -> bool { ctx.data::<Flags>().map(|f| f.0).unwrap_or(true) }
fn vis_b(ctx: &Context<'_>) -> bool { ctx.data::<Flags>().map(|f| f.1).unwrap_or(true) }
fn vis_c(ctx: &Context<'_>) -> bool { ctx.data::<Flags>().map(|f| f.2).unwrap_or(true) }

#[derive(Enum, Copy, Clone, Eq, PartialEq)]
enum Color { Red, #[graphql(visible = "vis_c")] Green }
#[derive(SimpleObject, Clone)]
#[graphql(visible = "vis_a")]
struct Hid { id: i32, x: i32 }
#[derive(SimpleObject, Clone)]
#[graphql(visible = "vis_a", complex)]
struct Other { id: i32, pal: Option<Pub> }
#[ComplexObject]
impl Other {
    async fn search(&self, filter: Option<Filter>) -> i32 { let _ = filter; 0 }
}
/// only used as the argument type of an interface field
#[derive(InputObject)]
struct Filter { q: Option<String> }
/// an interface whose only implementor can be hidden for a request
#[derive(Interface, Clone)]
#[graphql(field(name = "search", ty = "i32", arg(name = "filter", ty = "Option<Filter>")))]
enum Searchable { Other(Other) }
#[derive(SimpleObject, Clone)]
struct Pub {
    id: i32,
    #[graphql(visible = "vis_b")] secret: i32,
    hid: Option<Hid>,
    e: Color,
    #[graphql(visible = "vis_c")] deep: Option<Deep>,
}
#[derive(SimpleObject, Clone)]
struct Deep { v: i32 }
#[derive(Interface, Clone)]
#[graphql(field(name = "id", ty = "&i32"))]
enum Node { Pub(Pub), Other(Other) }
/// interface inheritance: Node implements Super, and so do the objects behind Node
#[derive(Interface, Clone)]
#[graphql(field(name = "id", ty = "&i32"))]
enum Super { Node(Node) }
#[derive(Interface, Clone)]
#[graphql(visible = "vis_b", field(name = "id", ty = "&i32"))]
enum Tagged { Pub(Pub), Hid(Hid) }
#[derive(Union, Clone)]
enum U { Pub(Pub), Hid(Hid) }
#[derive(InputObject)]
struct InObj { x: i32, #[graphql(visible = "vis_c")] y: Option<i32>, nested: Option<InNested> }
#[derive(InputObject)]
struct InNested { z: Option<Color> }
struct Query;
#[Object]
impl Query {
    async fn node(&self) -> Option<Node> { None }
    async fn tagged(&self) -> Option<Tagged> { None }
    #[graphql(name = "super")]
    async fn super_(&self) -> Option<Super> { None }
    async fn u(&self) -> Option<U> { None }
    async fn pubs(&self) -> Vec<Pub> { vec![] }
    async fn searchable(&self) -> Option<Searchable> { None }
    #[graphql(visible = "vis_b")]
    async fn hidden_field(&self) -> Option<Hid> { None }
    async fn with_arg(&self, a: Option<InObj>, #[graphql(visible = "vis_a")] b: Option<i32>) -> i32 { let _ = (a, b); 0 }
}
struct Mutation;
#[Object]
impl Mutation { async fn set(&self, c: Color) -> Color { c } }

/// the same dump asking for deprecated elements everywhere (args / inputFields also take includeDeprecated);
/// the schemas here deprecate nothing, so both forms must describe the same type system
fn query_for(case: &J) -> String {
    match case["incl"].as_str().unwrap_or("base") {
        "all" => QUERY.replace(" args {", " args(includeDeprecated: true) {").replace("inputFields {", "inputFields(includeDeprecated: true) {"),
        "none" => QUERY.replace("(includeDeprecated: true)", ""),
        _ => QUERY.to_string(),
    }
}
/// second derive-built schema: NO type carries a visibility predicate, only a field and an argument do, so the
/// set of visible types depends on the request although no type-level predicate exists
#[derive(SimpleObject, Clone)]
struct Level { n: i32 }
#[derive(SimpleObject, Clone)]
struct Vault { level: Level, code: i32 }
#[derive(InputObject)]
struct Key { k: i32 }
struct Query2;
#[Object]
impl Query2 {
    async fn open(&self) -> i32 { 0 }
    #[graphql(visible = "vis_a")]
    async fn vault(&self) -> Option<Vault> { None }
    async fn find(&self, #[graphql(visible = "vis_b")] key: Option<Key>) -> i32 { let _ = key; 0 }
}

const QUERY: &str = r#"query I { __schema { queryType { name } mutationType { name } subscriptionType { name }
  types { ...T } } }
fragment T on __Type { kind name
  fields(includeDeprecated: true) { name args { name type { ...R } } type { ...R } }
  inputFields { name type { ...R } } interfaces { name } possibleTypes { name } enumValues(includeDeprecated: true) { name } }
fragment R on __Type { kind name ofType { kind name ofType { kind name ofType { kind name ofType { kind name ofType { kind name } } } } } }"#;

fn tyref(t: &J) -> J {
    match t["kind"].as_str().unwrap_or("") {
        "NON_NULL" => json!({"k": "nn", "of": tyref(&t["ofType"])}),
        "LIST" => json!({"k": "list", "of": tyref(&t["ofType"])}),
        _ => json!({"k": "named", "n": t["name"].as_str().unwrap_or("?")}),
    }
}
fn names(a: &J) -> Vec<J> { a.as_array().map(|x| x.iter().map(|e| json!(e["name"].as_str().unwrap_or("?"))).collect()).unwrap_or_default() }
fn abstract_type(t: &J) -> J {
    json!({
        "name": t["name"].as_str().unwrap_or("?"), "kind": t["kind"].as_str().unwrap_or("?"),
        "fields": t["fields"].as_array().map(|fs| fs.iter().map(|f| json!({"name": f["name"], "ty": tyref(&f["type"]),
            "args": f["args"].as_array().map(|a| a.iter().map(|x| json!({"name": x["name"], "ty": tyref(&x["type"])})).collect::<Vec<_>>()).unwrap_or_default()})).collect::<Vec<_>>()).unwrap_or_default(),
        "inputFields": t["inputFields"].as_array().map(|a| a.iter().map(|x| json!({"name": x["name"], "ty": tyref(&x["type"])})).collect::<Vec<_>>()).unwrap_or_default(),
        "interfaces": names(&t["interfaces"]), "possibleTypes": names(&t["possibleTypes"]), "enumValues": names(&t["enumValues"]),
    })
}
fn dump(data: &J) -> J {
    let s = &data["__schema"];
    let opt = |x: &J| x["name"].as_str().unwrap_or("").to_string();
    json!({"queryType": opt(&s["queryType"]), "mutationType": opt(&s["mutationType"]), "subscriptionType": opt(&s["subscriptionType"]),
           "types": s["types"].as_array().map(|ts| ts.iter().map(abstract_type).collect::<Vec<_>>()).unwrap_or_default()})
}
fn sdl_names(sdl: &str) -> J {
    use async_graphql::parser::types::*;
    match async_graphql::parser::parse_schema(sdl) {
        Ok(doc) => {
            let mut out = Vec::new();
            for d in doc.definitions { if let TypeSystemDefinition::Type(t) = d {
                let fields: Vec<String> = match &t.node.kind {
                    TypeKind::Object(o) => o.fields.iter().map(|f| f.node.name.node.to_string()).collect(),
                    TypeKind::Interface(o) => o.fields.iter().map(|f| f.node.name.node.to_string()).collect(),
                    TypeKind::InputObject(o) => o.fields.iter().map(|f| f.node.name.node.to_string()).collect(),
                    TypeKind::Enum(e) => e.values.iter().map(|v| v.node.value.node.to_string()).collect(),
                    TypeKind::Union(u) => u.members.iter().map(|m| m.node.to_string()).collect(),
                    TypeKind::Scalar => vec![],
                };
                out.push(json!({"name": t.node.name.node.as_str(), "members": fields}));
            } }
            json!({"ok": true, "types": out})
        }
        Err(e) => json!({"ok": false, "types": [], "error": e.to_string()}),
    }
}

fn main() {
    let args: Vec<String> = std::env::args().collect();
    if args.len() < 3 { tool_error("usage: c18 <cases.ndjson> <out.ndjson>"); }
    let cases = read_ndjson(&args[1]);
    let mut out = NdWriter::create(&args[2]);
    let static_schema = Schema::build(Query, Mutation, EmptySubscription).finish();
    let static2_schema = Schema::build(Query2, EmptyMutation, EmptySubscription).finish();
    for mut case in cases {
        let flavour = case["flavour"].as_str().unwrap_or("static").to_string();
        let res: Result<(J, J, J), String> = vh::exec::catch(|| {
            if flavour == "static2" {
                let f = &case["flags"];
                let mk = || Flags(f[0].as_bool().unwrap_or(true), f[1].as_bool().unwrap_or(true), f[2].as_bool().unwrap_or(true));
                let r = futures_executor::block_on(static2_schema.execute(Request::new(query_for(&case)).data(mk())));
                let data = r.data.clone().into_json().unwrap_or(J::Null);
                let mut by_name = Vec::new();
                for t in data["__schema"]["types"].as_array().cloned().unwrap_or_default() {
                    let n = t["name"].as_str().unwrap_or("").to_string();
                    let q = format!("{{ __type(name: \"{n}\") {{ kind name fields(includeDeprecated: true) {{ name }} enumValues(includeDeprecated: true) {{ name }} inputFields {{ name }} possibleTypes {{ name }} }} }}");
                    let r2 = futures_executor::block_on(static2_schema.execute(Request::new(q).data(mk())));
                    let d2 = r2.data.into_json().unwrap_or(J::Null);
                    by_name.push(json!({"name": n, "kind": d2["__type"]["kind"].as_str().unwrap_or(""), "fields": names(&d2["__type"]["fields"]),
                        "enumValues": names(&d2["__type"]["enumValues"]), "inputFields": names(&d2["__type"]["inputFields"]), "possibleTypes": names(&d2["__type"]["possibleTypes"])}));
                }
                (json!({"dump": dump(&data), "errors": r.errors.len()}), json!(by_name), sdl_names(&static2_schema.sdl()))
            } else if flavour == "static" {
                let f = &case["flags"];
                let flags = Flags(f[0].as_bool().unwrap_or(true), f[1].as_bool().unwrap_or(true), f[2].as_bool().unwrap_or(true));
                let r = futures_executor::block_on(static_schema.execute(Request::new(query_for(&case)).data(flags)));
                let data = r.data.clone().into_json().unwrap_or(J::Null);
                let mut by_name = Vec::new();
                for t in data["__schema"]["types"].as_array().cloned().unwrap_or_default() {
                    let n = t["name"].as_str().unwrap_or("").to_string();
                    let f = &case["flags"];
                    let flags = Flags(f[0].as_bool().unwrap_or(true), f[1].as_bool().unwrap_or(true), f[2].as_bool().unwrap_or(true));
                    let q = format!("{{ __type(name: \"{n}\") {{ kind name fields(includeDeprecated: true) {{ name }} enumValues(includeDeprecated: true) {{ name }} inputFields {{ name }} possibleTypes {{ name }} }} }}");
                    let r2 = futures_executor::block_on(static_schema.execute(Request::new(q).data(flags)));
                    let d2 = r2.data.into_json().unwrap_or(J::Null);
                    by_name.push(json!({"name": n, "kind": d2["__type"]["kind"].as_str().unwrap_or(""), "fields": names(&d2["__type"]["fields"]),
                        "enumValues": names(&d2["__type"]["enumValues"]), "inputFields": names(&d2["__type"]["inputFields"]), "possibleTypes": names(&d2["__type"]["possibleTypes"])}));
                }
                (json!({"dump": dump(&data), "errors": r.errors.len()}), json!(by_name), sdl_names(&static_schema.sdl()))
            } else {
                let schema = dynfam::build(&case["dts"]).expect("dynamic schema must build");
                let r = futures_executor::block_on(schema.execute(Request::new(query_for(&case)).data(Req::new(json!({})))));
                let data = r.data.clone().into_json().unwrap_or(J::Null);
                (json!({"dump": dump(&data), "errors": r.errors.len()}), json!([]), sdl_names(&schema.sdl()))
            }
        });
        match res {
            Ok((d, by_name, sdl)) => { case["obs"] = d; case["byName"] = by_name; case["sdl"] = sdl; case["problem"] = json!(""); }
            Err(p) => { case["obs"] = json!({"dump": {"queryType": "", "mutationType": "", "subscriptionType": "", "types": []}, "errors": 0}); case["byName"] = json!([]); case["sdl"] = json!({"ok": false, "types": []}); case["problem"] = json!(format!("panic: {p}")); }
        }
        out.write(&case);
    }
    out.finish();
}
