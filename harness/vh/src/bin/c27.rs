//! C27 harness: one subscription operation with two root fields whose source streams are fed by hand.
//! Commands (from Gen_SubscriptionFanIn.tla or seeded random): ["arrive", field, kind] pushes an event into the
//! field's source; ["open", field, ""] lets the `slow` child of the field's oldest waiting event complete.
//! After every command the response stream is polled to Pending and every response is logged.
//! Also: a query / mutation through execute_stream must yield exactly one response.
//!
//! usage: c27 <schedules.ndjson> <out.ndjson>
use async_graphql::dynamic as dy;
use async_graphql::*;
use futures_util::stream::{BoxStream, Stream, StreamExt};
use serde_json::{Value as J, json};
use std::collections::{HashMap, VecDeque};
use std::pin::Pin;
use std::sync::{Arc, Mutex};
use std::task::{Context as TaskCx, Poll};
use vh::io::*;
use vh::{exec, resp, world::Req};

#[derive(Clone)]
struct Ev { f: String, id: i32, kind: String }
fn is_bad(k: &str) -> bool { k == "bad" || k == "badslow" || k == "badfatal" }
fn is_fatal(k: &str) -> bool { k == "fatal" || k == "badfatal" }
fn is_slow(k: &str) -> bool { k == "slow" || k == "badslow" }
fn gate_of(f: &str, id: i32) -> u64 { (if f == "s1" { 100 } else { 200 }) + id as u64 }

type Sources = Mutex<HashMap<String, futures_channel::mpsc::UnboundedReceiver<Ev>>>;

#[Object]
impl Ev {
    async fn id(&self) -> i32 { self.id }
    async fn bad(&self) -> Option<Result<i32>> { if is_bad(&self.kind) { Some(Err("bad".into())) } else { Some(Ok(1)) } }
    async fn slow(&self, ctx: &Context<'_>) -> i32 {
        if is_slow(&self.kind) { let req = ctx.data_unchecked::<Arc<Req>>().clone(); let _ = req.gate(gate_of(&self.f, self.id)).await; }
        7
    }
    async fn boom(&self) -> Result<i32> { if is_fatal(&self.kind) { Err("boom".into()) } else { Ok(9) } }
}
struct Query;
#[Object]
impl Query { async fn n(&self) -> i32 { 1 } }
struct Mutation;
#[Object]
impl Mutation { async fn bump(&self) -> i32 { 2 } }
struct Sub;
fn take_source(ctx: &Context<'_>, f: &str) -> futures_channel::mpsc::UnboundedReceiver<Ev> {
    ctx.data_unchecked::<Arc<Sources>>().lock().unwrap().remove(f).expect("source taken twice")
}
#[Subscription]
impl Sub {
    async fn s1(&self, ctx: &Context<'_>) -> impl Stream<Item = Ev> { take_source(ctx, "s1") }
    async fn s2(&self, ctx: &Context<'_>) -> impl Stream<Item = Ev> { take_source(ctx, "s2") }
}

fn dynamic_schema() -> dy::Schema {
    let ev = dy::Object::new("Ev")
        .field(dy::Field::new("id", dy::TypeRef::named_nn(dy::TypeRef::INT), |ctx| dy::FieldFuture::new(async move { let e = ctx.parent_value.try_downcast_ref::<Ev>()?; Ok(Some(Value::from(e.id))) })))
        .field(dy::Field::new("bad", dy::TypeRef::named(dy::TypeRef::INT), |ctx| dy::FieldFuture::new(async move {
            let e = ctx.parent_value.try_downcast_ref::<Ev>()?;
            if is_bad(&e.kind) { Err(Error::new("bad")) } else { Ok(Some(Value::from(1))) }
        })))
        .field(dy::Field::new("slow", dy::TypeRef::named_nn(dy::TypeRef::INT), |ctx| dy::FieldFuture::new(async move {
            let e = ctx.parent_value.try_downcast_ref::<Ev>()?.clone();
            if is_slow(&e.kind) { let req = ctx.data_unchecked::<Arc<Req>>().clone(); let _ = req.gate(gate_of(&e.f, e.id)).await; }
            Ok(Some(Value::from(7)))
        })))
        .field(dy::Field::new("boom", dy::TypeRef::named_nn(dy::TypeRef::INT), |ctx| dy::FieldFuture::new(async move {
            let e = ctx.parent_value.try_downcast_ref::<Ev>()?;
            if is_fatal(&e.kind) { Err(Error::new("boom")) } else { Ok(Some(Value::from(9))) }
        })));
    let query = dy::Object::new("Query").field(dy::Field::new("n", dy::TypeRef::named_nn(dy::TypeRef::INT), |_| dy::FieldFuture::new(async { Ok(Some(Value::from(1))) })));
    let mut sub = dy::Subscription::new("Subscription");
    for f in ["s1", "s2"] {
        sub = sub.field(dy::SubscriptionField::new(f, dy::TypeRef::named_nn("Ev"), move |ctx| {
            dy::SubscriptionFieldFuture::new(async move {
                let rx = ctx.data_unchecked::<Arc<Sources>>().lock().unwrap().remove(f).expect("source taken twice");
                Ok(rx.map(|e| Ok(dy::FieldValue::owned_any(e))))
            })
        }));
    }
    dy::Schema::build("Query", None, Some("Subscription")).register(ev).register(query).register(sub).finish().unwrap()
}

fn unalias(o: &mut J) {
    let back = |k: &str| match k { "a1" => Some("s1"), "a2" => Some("s2"), _ => None };
    if let Some(es) = o.pointer_mut("/data/entries").and_then(|x| x.as_array_mut()) {
        for e in es { if let Some(n) = e.get("key").and_then(|k| k.as_str()).and_then(back) { e["key"] = json!(n); } }
    }
    if let Some(errs) = o.pointer_mut("/errors").and_then(|x| x.as_array_mut()) {
        for e in errs { if let Some(first) = e.pointer_mut("/path/0") { if let Some(n) = first.as_str().and_then(back) { *first = json!(n); } } }
    }
}

fn run(id: usize, flavour: &str, doc: &str, sched: &[J]) -> J {
    let req = Req::new(json!({}));
    let (tx1, rx1) = futures_channel::mpsc::unbounded::<Ev>();
    let (tx2, rx2) = futures_channel::mpsc::unbounded::<Ev>();
    let sources: Arc<Sources> = Arc::new(Mutex::new(HashMap::from([("s1".to_string(), rx1), ("s2".to_string(), rx2)])));
    let request = Request::new(doc).data(req.clone()).data(sources.clone());
    let static_schema = Schema::build(Query, Mutation, Sub).finish();
    let dynamic = dynamic_schema();
    let mut stream: BoxStream<'_, Response> = if flavour == "static" { static_schema.execute_stream(request).boxed() } else { dynamic.execute_stream(request).boxed() };
    let waker = futures_task::noop_waker();
    let mut cx = TaskCx::from_waker(&waker);
    let mut events: Vec<J> = Vec::new();
    let mut ended = false;
    let mut counts: HashMap<String, i32> = HashMap::new();
    let mut waiting: HashMap<String, VecDeque<i32>> = HashMap::new();
    let mut problem = String::new();
    let mut poll = |events: &mut Vec<J>, ended: &mut bool| {
        let mut guard = 0;
        while !*ended && guard < 1000 {
            guard += 1;
            match Pin::new(&mut stream).poll_next(&mut cx) {
                Poll::Pending => break,
                Poll::Ready(None) => { *ended = true; events.push(json!({"ev": "end", "f": "", "kind": "", "id": 0, "resp": {"data": {"k": "null"}, "errors": []}})); }
                Poll::Ready(Some(r)) => {
                    let mut o = resp::response(&r);
                    o.as_object_mut().unwrap().remove("cache"); o.as_object_mut().unwrap().remove("extensions");
                    // documents that alias the root fields (a1: s1, a2: s2): response keys are renamed back (a bijection)
                    unalias(&mut o);
                    events.push(json!({"ev": "resp", "f": "", "kind": "", "id": 0, "resp": o}));
                }
            }
        }
    };
    let r = exec::catch(std::panic::AssertUnwindSafe(|| {
        poll(&mut events, &mut ended);
        for cmd in sched {
            let f = cmd[1].as_str().unwrap_or("").to_string();
            match cmd[0].as_str().unwrap_or("") {
                "arrive" => {
                    let kind = cmd[2].as_str().unwrap_or("plain").to_string();
                    let c = counts.entry(f.clone()).or_insert(0); *c += 1;
                    let ev = Ev { f: f.clone(), id: *c, kind: kind.clone() };
                    if is_slow(&kind) { waiting.entry(f.clone()).or_default().push_back(*c); }
                    let _ = if f == "s1" { tx1.unbounded_send(ev) } else { tx2.unbounded_send(ev) };
                    events.push(json!({"ev": "arrive", "f": f, "kind": kind, "id": *c, "resp": {"data": {"k": "null"}, "errors": []}}));
                }
                "open" => {
                    if let Some(idn) = waiting.get_mut(&f).and_then(|q| q.pop_front()) {
                        req.open(gate_of(&f, idn));
                        events.push(json!({"ev": "open", "f": f, "kind": "", "id": idn, "resp": {"data": {"k": "null"}, "errors": []}}));
                    }
                }
                _ => {}
            }
            poll(&mut events, &mut ended);
        }
        // drain: open every remaining gate in arrival order, polling in between
        let fs: Vec<String> = waiting.keys().cloned().collect();
        for f in fs { while let Some(idn) = waiting.get_mut(&f).and_then(|q| q.pop_front()) {
            req.open(gate_of(&f, idn));
            events.push(json!({"ev": "open", "f": f, "kind": "", "id": idn, "resp": {"data": {"k": "null"}, "errors": []}}));
            poll(&mut events, &mut ended);
        } }
    }));
    if let Err(p) = r { problem = format!("panic: {p}"); }
    json!({"id": id, "flavour": flavour, "doc": doc, "sched": sched, "events": events, "problem": problem})
}

/// a streamed query / mutation yields exactly one response
fn run_single(id: usize, flavour: &str, doc: &str) -> J {
    let req = Req::new(json!({}));
    let sources: Arc<Sources> = Arc::new(Mutex::new(HashMap::new()));
    let request = Request::new(doc).data(req.clone()).data(sources);
    let static_schema = Schema::build(Query, Mutation, Sub).finish();
    let dynamic = dynamic_schema();
    let n = futures_executor::block_on(async {
        if flavour == "static" { static_schema.execute_stream(request).collect::<Vec<_>>().await.len() } else { dynamic.execute_stream(request).collect::<Vec<_>>().await.len() }
    });
    json!({"id": id, "flavour": flavour, "doc": doc, "sched": [], "problem": "",
           "events": [{"ev": "single", "f": "", "kind": "", "id": n, "resp": {"data": {"k": "null"}, "errors": []}}]})
}

fn main() {
    let args: Vec<String> = std::env::args().collect();
    if args.len() < 3 { tool_error("usage: c27 <schedules.ndjson> <out.ndjson>"); }
    let rows = read_ndjson(&args[1]);
    let mut out = NdWriter::create(&args[2]);
    let mut n = 0;
    for row in rows {
        n += 1;
        let flavour = row["flavour"].as_str().unwrap_or("static");
        let doc = row["doc"].as_str().unwrap_or("");
        if row["single"].as_bool().unwrap_or(false) { out.write(&run_single(n, flavour, doc)); continue; }
        let sched: Vec<J> = row["sched"].as_array().cloned().unwrap_or_default();
        out.write(&run(n, flavour, doc, &sched));
    }
    out.finish();
    println!("{{\"traces\": {n}}}");
}
