//! C33 harness: builds each TLC-generated (or seeded random) type system through
//! `dynamic::Schema::build(..).register(..).finish()` with trivial resolvers and records ok / err.
//! Every schema that builds is then introspected (standard introspection query), exported
//! (`sdl()`, and with federation + sorted options) and queried with one generated document per
//! root field, all under `catch_unwind` -- a panic is data.  TLC (SchemaCheckTrace.tla) judges
//! `ok <=> TypeSystemValid(ts)`.
//!
//! usage: c33 <cases.ndjson> <out.ndjson>
#[path = "../ts_build.rs"]
mod ts_build;

use async_graphql::SDLExportOptions;
use futures_util::StreamExt;
use serde_json::json;
use std::cell::RefCell;
use std::panic::{AssertUnwindSafe, catch_unwind};
use vh::io::*;

thread_local! { static LAST_PANIC: RefCell<String> = const { RefCell::new(String::new()) }; }

fn guarded<T>(what: &str, f: impl FnOnce() -> T) -> Result<T, String> {
    match catch_unwind(AssertUnwindSafe(f)) {
        Ok(v) => Ok(v),
        Err(_) => Err(format!("{what}: {}", LAST_PANIC.with(|p| p.borrow().clone()))),
    }
}

fn main() {
    let args: Vec<String> = std::env::args().collect();
    if args.len() < 3 {
        tool_error("usage: c33 <cases.ndjson> <out.ndjson>");
    }
    std::panic::set_hook(Box::new(|info| {
        let msg = info.to_string();
        LAST_PANIC.with(|p| *p.borrow_mut() = msg.chars().take(300).collect());
    }));
    let cases = read_ndjson(&args[1]);
    let mut out = NdWriter::create(&args[2]);
    let (mut built, mut exercised_docs) = (0usize, 0usize);
    let mut introspection_checked = false;
    for case in &cases {
        let ts = &case["ts"];
        let mut panics: Vec<String> = Vec::new();
        let mut err = String::new();
        let schema = match guarded("build", || ts_build::builder_of(ts).finish()) {
            Ok(Ok(s)) => Some(s),
            Ok(Err(e)) => {
                err = e.0;
                None
            }
            Err(p) => {
                panics.push(p);
                None
            }
        };
        let ok = schema.is_some();
        let mut post = json!({"introspection_errors": 0, "docs": 0, "doc_errors": 0, "sdl_len": 0});
        if let Some(schema) = &schema {
            built += 1;
            match guarded("introspection", || futures_executor::block_on(schema.execute(ts_build::INTROSPECTION_QUERY))) {
                Ok(resp) => {
                    if !introspection_checked && resp.errors.iter().any(|e| e.message.contains("Unknown field") || e.message.contains("Unknown fragment")) {
                        tool_error(&format!("the harness's introspection query is not valid: {:?}", resp.errors));
                    }
                    introspection_checked = true;
                    post["introspection_errors"] = json!(resp.errors.len());
                }
                Err(p) => panics.push(p),
            }
            match guarded("sdl", || {
                let a = schema.sdl();
                let b = schema.sdl_with_options(SDLExportOptions::new().federation().sorted_fields().sorted_arguments().sorted_enum_items().include_specified_by());
                a.len() + b.len()
            }) {
                Ok(n) => post["sdl_len"] = json!(n),
                Err(p) => panics.push(p),
            }
            let (mut docs, mut doc_errors) = (0, 0);
            for (kind, doc) in ts_build::documents(ts) {
                docs += 1;
                let r = if kind == "subscription" {
                    guarded(&format!("execute_stream {doc}"), || {
                        futures_executor::block_on(schema.execute_stream(doc.as_str()).take(3).collect::<Vec<_>>()).iter().map(|r| r.errors.len()).sum::<usize>()
                    })
                } else {
                    guarded(&format!("execute {doc}"), || futures_executor::block_on(schema.execute(doc.as_str())).errors.len())
                };
                match r {
                    Ok(n) => doc_errors += usize::from(n > 0),
                    Err(p) => panics.push(p),
                }
            }
            exercised_docs += docs;
            post["docs"] = json!(docs);
            post["doc_errors"] = json!(doc_errors);
        }
        out.write(&json!({"id": case["id"], "src": case["src"], "ts": ts, "ok": ok, "err": err,
                          "panic": panics.join(" | "), "post": post}));
    }
    out.finish();
    println!("{}", json!({"cases": cases.len(), "built": built, "docs": exercised_docs}));
}
