//! C20 harness: the cache policy attached to a response vs. the cache hints of the data it contains.
//!
//! usage: c20 <cases.ndjson> <out.ndjson> <schemas/c20.json>
//!
//! Cases (assembled by checks/C20.py from TLC-generated documents / policy tuples):
//!   {kind: "exec", profile: "P1"|"P2"|"P3"|"L", doc: <abstract document>, opIndex, vars, world}
//!        executed on the derive-built schema of the profile (object- and field-level
//!        `cache_control(..)` annotations, see c20_profiles.inc) with data-driven resolvers;
//!        observation: Response.cache_control, ordered data, errors
//!   {kind: "batch", ps: [[public, maxAge]..], grouping: "flat"|"left"|"right"}
//!        BatchResponse::cache_control() over responses carrying the given policies (the real
//!        CacheControl::merge on arbitrary operands); "left"/"right" feed the merge of two back in.
//! At start-up the structure of the JSON mirror is compared with the live registry of every profile (types, fields);
//! hints that the registry holds differently from the annotations are reported on stdout (`hint_notes`), not fatal.
use async_graphql::extensions::{Extension, ExtensionContext, ExtensionFactory, NextParseQuery};
use async_graphql::parser::types::ExecutableDocument;
use async_graphql::registry::{MetaType, Registry};
use async_graphql::*;
use serde_json::{Value as J, json};
use std::sync::{Arc, Mutex};
use vh::io::*;
use vh::world::Req;
use vh::{doc, exec, resp};

fn req_of<'a>(ctx: &'a Context<'_>) -> &'a Arc<Req> { ctx.data_unchecked::<Arc<Req>>() }
fn leaf_int(ctx: &Context<'_>, id: &str, field: &str) -> i32 {
    req_of(ctx).lookup(id, field)["v"].as_str().and_then(|s| s.parse().ok()).unwrap_or(0)
}
fn leaf_str(ctx: &Context<'_>, id: &str, field: &str) -> String {
    req_of(ctx).lookup(id, field)["v"].as_str().unwrap_or("").to_string()
}

/// The A/B/C family with one set of hints.  Parameters in the order of SLOTS in checks/C20_genfam.py:
/// Query, Query.a, .b, .c, .node, .nodes, .u, .us, .n, A, A.tag, A.x, A.peer, A.buddy, B, B.tag, B.z, C, C.tag, C.v,
/// then the MergedObject members: QueryExtra, .m12, .m21, .extra, MP, MP.mp1, MP.mp2, MQ, MQ.mq1, then the generic
/// SimpleObject: QueryExtra.ibox, .sbox, Boxed<T> (object-level), Boxed.val, Boxed.fresh, and the member order of
/// the Query root.  M12 = MergedObject(MP, MQ), M21 = MergedObject(MQ, MP), Query = MergedObject(<root order>);
/// IntBox = Boxed<i32>, StrBox = Boxed<String> (concrete instantiations sharing ONE object-level cache_control).
macro_rules! family {
    ($m:ident; [$($q:tt)*]; [$($qa:tt)*]; [$($qb:tt)*]; [$($qc:tt)*]; [$($qnode:tt)*]; [$($qnodes:tt)*]; [$($qu:tt)*]; [$($qus:tt)*]; [$($qn:tt)*];
     [$($a:tt)*]; [$($atag:tt)*]; [$($ax:tt)*]; [$($apeer:tt)*]; [$($abuddy:tt)*];
     [$($b:tt)*]; [$($btag:tt)*]; [$($bz:tt)*]; [$($c:tt)*]; [$($ctag:tt)*]; [$($cv:tt)*];
     [$($qx:tt)*]; [$($qxm12:tt)*]; [$($qxm21:tt)*]; [$($qxextra:tt)*]; [$($mp:tt)*]; [$($mp1:tt)*]; [$($mp2:tt)*]; [$($mq:tt)*]; [$($mq1:tt)*];
     [$($qxibox:tt)*]; [$($qxsbox:tt)*]; [$($bx:tt)*]; [$($bxval:tt)*]; [$($bxfresh:tt)*];
     [$r1:ident, $r2:ident]) => {
        pub mod $m {
            use super::*;
            #[derive(Clone)] pub struct A(pub String);
            #[derive(Clone)] pub struct B(pub String);
            #[derive(Clone)] pub struct C(pub String);
            #[derive(Interface, Clone)]
            #[graphql(field(name = "id", ty = "ID"), field(name = "tag", ty = "i32"))]
            pub enum Node { A(A), B(B), C(C) }
            #[derive(Union, Clone)]
            pub enum U { A(A), B(B), C(C) }
            fn node_of(w: &J) -> Option<Node> {
                let id = w["id"].as_str()?.to_string();
                match w["ty"].as_str()? { "A" => Some(Node::A(A(id))), "B" => Some(Node::B(B(id))), "C" => Some(Node::C(C(id))), _ => None }
            }
            fn u_of(w: &J) -> Option<U> {
                let id = w["id"].as_str()?.to_string();
                match w["ty"].as_str()? { "A" => Some(U::A(A(id))), "B" => Some(U::B(B(id))), "C" => Some(U::C(C(id))), _ => None }
            }
            fn id_of(w: &J, ty: &str) -> Option<String> { if w["ty"] == ty { w["id"].as_str().map(|s| s.to_string()) } else { None } }
            #[Object($($a)*)]
            impl A {
                async fn id(&self) -> ID { ID(self.0.clone()) }
                #[graphql($($atag)*)] async fn tag(&self, ctx: &Context<'_>) -> i32 { leaf_int(ctx, &self.0, "tag") }
                #[graphql($($ax)*)] async fn x(&self, ctx: &Context<'_>) -> i32 { leaf_int(ctx, &self.0, "x") }
                #[graphql($($apeer)*)] async fn peer(&self, ctx: &Context<'_>) -> Option<Node> { node_of(&req_of(ctx).lookup(&self.0, "peer")) }
                #[graphql($($abuddy)*)] async fn buddy(&self, ctx: &Context<'_>) -> Option<B> { id_of(&req_of(ctx).lookup(&self.0, "buddy"), "B").map(B) }
            }
            #[Object($($b)*)]
            impl B {
                async fn id(&self) -> ID { ID(self.0.clone()) }
                #[graphql($($btag)*)] async fn tag(&self, ctx: &Context<'_>) -> i32 { leaf_int(ctx, &self.0, "tag") }
                #[graphql($($bz)*)] async fn z(&self, ctx: &Context<'_>) -> i32 { leaf_int(ctx, &self.0, "z") }
            }
            #[Object($($c)*)]
            impl C {
                async fn id(&self) -> ID { ID(self.0.clone()) }
                #[graphql($($ctag)*)] async fn tag(&self, ctx: &Context<'_>) -> i32 { leaf_int(ctx, &self.0, "tag") }
                #[graphql($($cv)*)] async fn v(&self, ctx: &Context<'_>) -> i32 { leaf_int(ctx, &self.0, "v") }
            }
            pub struct MP(pub String);
            #[Object($($mp)*)]
            impl MP {
                #[graphql($($mp1)*)] async fn mp1(&self, ctx: &Context<'_>) -> i32 { leaf_int(ctx, &self.0, "mp1") }
                #[graphql($($mp2)*)] async fn mp2(&self, ctx: &Context<'_>) -> i32 { leaf_int(ctx, &self.0, "mp2") }
            }
            pub struct MQ(pub String);
            #[Object($($mq)*)]
            impl MQ {
                #[graphql($($mq1)*)] async fn mq1(&self, ctx: &Context<'_>) -> i32 { leaf_int(ctx, &self.0, "mq1") }
            }
            #[derive(MergedObject)]
            pub struct M12(MP, MQ);
            #[derive(MergedObject)]
            pub struct M21(MQ, MP);
            #[derive(SimpleObject)]
            #[graphql(concrete(name = "IntBox", params(i32)), concrete(name = "StrBox", params(String)), $($bx)*)]
            pub struct Boxed<T: OutputType> {
                #[graphql($($bxval)*)] pub val: T,
                #[graphql($($bxfresh)*)] pub fresh: i32,
            }
            #[derive(Default)]
            pub struct QueryExtra;
            #[Object($($qx)*)]
            impl QueryExtra {
                #[graphql($($qxm12)*)] async fn m12(&self, ctx: &Context<'_>) -> Option<M12> { id_of(&req_of(ctx).lookup("root", "m12"), "M12").map(|i| M12(MP(i.clone()), MQ(i))) }
                #[graphql($($qxm21)*)] async fn m21(&self, ctx: &Context<'_>) -> Option<M21> { id_of(&req_of(ctx).lookup("root", "m21"), "M21").map(|i| M21(MQ(i.clone()), MP(i))) }
                #[graphql($($qxextra)*)] async fn extra(&self, ctx: &Context<'_>) -> i32 { leaf_int(ctx, "root", "extra") }
                #[graphql($($qxibox)*)] async fn ibox(&self, ctx: &Context<'_>) -> Option<Boxed<i32>> {
                    id_of(&req_of(ctx).lookup("root", "ibox"), "IntBox").map(|i| Boxed { val: leaf_int(ctx, &i, "val"), fresh: leaf_int(ctx, &i, "fresh") })
                }
                #[graphql($($qxsbox)*)] async fn sbox(&self, ctx: &Context<'_>) -> Vec<Boxed<String>> {
                    req_of(ctx).lookup("root", "sbox")["items"].as_array().map(|a| a.iter().filter_map(|w| id_of(w, "StrBox")).map(|i| Boxed { val: leaf_str(ctx, &i, "val"), fresh: leaf_int(ctx, &i, "fresh") }).collect()).unwrap_or_default()
                }
            }
            #[derive(MergedObject, Default)]
            pub struct Query($r1, $r2);
            #[derive(Default)]
            pub struct QueryCore;
            #[Object($($q)*)]
            impl QueryCore {
                #[graphql($($qa)*)] async fn a(&self, ctx: &Context<'_>) -> Option<A> { id_of(&req_of(ctx).lookup("root", "a"), "A").map(A) }
                #[graphql($($qb)*)] async fn b(&self, ctx: &Context<'_>) -> Option<B> { id_of(&req_of(ctx).lookup("root", "b"), "B").map(B) }
                #[graphql($($qc)*)] async fn c(&self, ctx: &Context<'_>) -> Option<C> { id_of(&req_of(ctx).lookup("root", "c"), "C").map(C) }
                #[graphql($($qnode)*)] async fn node(&self, ctx: &Context<'_>) -> Option<Node> { node_of(&req_of(ctx).lookup("root", "node")) }
                #[graphql($($qnodes)*)] async fn nodes(&self, ctx: &Context<'_>) -> Vec<Node> { req_of(ctx).lookup("root", "nodes")["items"].as_array().map(|a| a.iter().filter_map(node_of).collect()).unwrap_or_default() }
                #[graphql($($qu)*)] async fn u(&self, ctx: &Context<'_>) -> Option<U> { u_of(&req_of(ctx).lookup("root", "u")) }
                #[graphql($($qus)*)] async fn us(&self, ctx: &Context<'_>) -> Vec<U> { req_of(ctx).lookup("root", "us")["items"].as_array().map(|a| a.iter().filter_map(u_of).collect()).unwrap_or_default() }
                #[graphql($($qn)*)] async fn n(&self, ctx: &Context<'_>) -> i32 { leaf_int(ctx, "root", "n") }
            }
            pub fn schema(cap: Arc<Captured>) -> Schema<Query, EmptyMutation, EmptySubscription> {
                Schema::build(Query::default(), EmptyMutation, EmptySubscription).extension(Dump(cap)).finish()
            }
        }
    };
}
/// The law profile: a Query with one leaf field per policy of the domain.
macro_rules! laws {
    ($($f:ident [$($h:tt)*]),*) => {
        pub mod l {
            use super::*;
            pub struct Query;
            #[Object]
            impl Query {
                $( #[graphql($($h)*)] async fn $f(&self, ctx: &Context<'_>) -> i32 { leaf_int(ctx, "root", stringify!($f)) } )*
            }
            pub fn schema(cap: Arc<Captured>) -> Schema<Query, EmptyMutation, EmptySubscription> {
                Schema::build(Query, EmptyMutation, EmptySubscription).extension(Dump(cap)).finish()
            }
        }
    };
}
include!("c20_profiles.inc");

// ---------------------------------------------------------------- registry dump (hints are visible only there)
#[derive(Default)]
pub struct Captured { registry: Mutex<Option<J>> }
pub struct Dump(Arc<Captured>);
impl ExtensionFactory for Dump {
    fn create(&self) -> Arc<dyn Extension> { Arc::new(DumpExt(self.0.clone())) }
}
struct DumpExt(Arc<Captured>);
#[async_trait::async_trait]
impl Extension for DumpExt {
    async fn parse_query(&self, ctx: &ExtensionContext<'_>, query: &str, variables: &Variables, next: NextParseQuery<'_>) -> ServerResult<ExecutableDocument> {
        {
            let mut reg = self.0.registry.lock().unwrap();
            if reg.is_none() { *reg = Some(dump_registry(&ctx.schema_env.registry)); }
        }
        next.run(ctx, query, variables).await
    }
}
fn ty_json(t: &str) -> J {
    let t = t.trim();
    if let Some(x) = t.strip_suffix('!') { return json!({"k": "nn", "of": ty_json(x)}); }
    if let Some(x) = t.strip_prefix('[').and_then(|x| x.strip_suffix(']')) { return json!({"k": "list", "of": ty_json(x)}); }
    json!({"k": "named", "n": t})
}
fn hint(c: &CacheControl) -> J { json!({"public": c.public, "maxAge": c.max_age}) }
fn dump_registry(r: &Registry) -> J {
    let mut types = serde_json::Map::new();
    for (name, t) in &r.types {
        if name.starts_with("__") { continue; }
        let fields_json = |fields: &indexmap::IndexMap<String, async_graphql::registry::MetaField>| -> J {
            J::Object(fields.iter().filter(|(n, _)| !n.starts_with("__")).map(|(n, f)| (n.clone(), json!({"ty": ty_json(&f.ty), "hint": hint(&f.cache_control)}))).collect())
        };
        let v = match t {
            MetaType::Object { fields, cache_control, .. } => json!({"kind": "OBJECT", "fields": fields_json(fields), "hint": hint(cache_control),
                "implements": r.implements.get(name).map(|s| { let mut v: Vec<&String> = s.iter().collect(); v.sort(); json!(v) }).unwrap_or(json!([])), "members": []}),
            MetaType::Interface { fields, .. } => json!({"kind": "INTERFACE", "fields": fields_json(fields), "hint": hint(&CacheControl::default()), "implements": [], "members": []}),
            MetaType::Union { possible_types, .. } => { let mut v: Vec<&String> = possible_types.iter().collect(); v.sort(); json!({"kind": "UNION", "fields": {}, "hint": hint(&CacheControl::default()), "implements": [], "members": v}) }
            _ => continue,
        };
        types.insert(name.clone(), v);
    }
    json!({"query": r.query_type, "types": types})
}
fn canon(v: &J) -> J {
    match v {
        J::Object(o) => { let mut keys: Vec<&String> = o.keys().collect(); keys.sort(); J::Object(keys.into_iter().map(|k| (k.clone(), canon(&o[k]))).collect()) }
        J::Array(a) => J::Array(a.iter().map(canon).collect()),
        x => x.clone(),
    }
}
/// the part of a mirror profile that the registry can confirm
fn mirror_view(p: &J) -> J {
    let mut types = serde_json::Map::new();
    for (name, t) in p["types"].as_object().unwrap() {
        let fields: serde_json::Map<String, J> = t["fields"].as_object().unwrap().iter().map(|(f, d)| (f.clone(), json!({"ty": d["ty"], "hint": d["hint"]}))).collect();
        let mut members: Vec<String> = t["members"].as_array().unwrap().iter().map(|x| x.as_str().unwrap().to_string()).collect();
        members.sort();
        let mut implements: Vec<String> = t["implements"].as_array().unwrap().iter().map(|x| x.as_str().unwrap().to_string()).collect();
        implements.sort();
        types.insert(name.clone(), json!({"kind": t["kind"], "fields": fields, "hint": t["hint"], "implements": implements, "members": members}));
    }
    json!({"query": p["query"], "types": types})
}

fn strip_hints(v: &J) -> J {
    match v {
        J::Object(o) => J::Object(o.iter().filter(|(k, _)| k.as_str() != "hint").map(|(k, x)| (k.clone(), strip_hints(x))).collect()),
        J::Array(a) => J::Array(a.iter().map(strip_hints).collect()),
        x => x.clone(),
    }
}
fn hint_diffs(live: &J, want: &J, profile: &str, out: &mut Vec<J>) {
    for (name, t) in want["types"].as_object().unwrap() {
        let l = &live["types"][name];
        if l["hint"] != t["hint"] { out.push(json!({"profile": profile, "at": name, "registry": l["hint"], "annotated": t["hint"]})); }
        for (f, d) in t["fields"].as_object().unwrap() {
            if l["fields"][f]["hint"] != d["hint"] { out.push(json!({"profile": profile, "at": format!("{name}.{f}"), "registry": l["fields"][f]["hint"], "annotated": d["hint"]})); }
        }
    }
}

type Exec = Box<dyn Fn(Request) -> Response>;
fn policy(p: &J) -> CacheControl { CacheControl { public: p["public"].as_bool().unwrap_or(true), max_age: p["maxAge"].as_i64().unwrap_or(0) as i32 } }

fn main() {
    let args: Vec<String> = std::env::args().collect();
    if args.len() < 4 { tool_error("usage: c20 <cases.ndjson> <out.ndjson> <schemas/c20.json>"); }
    let cases = read_ndjson(&args[1]);
    let mirror: J = serde_json::from_str(&std::fs::read_to_string(&args[3]).unwrap_or_else(|e| tool_error(&format!("{}: {e}", args[3])))).unwrap_or_else(|e| tool_error(&format!("mirror: {e}")));
    let mut execs: std::collections::HashMap<String, Exec> = std::collections::HashMap::new();
    let mut hint_notes: Vec<J> = Vec::new();
    macro_rules! reg { ($name:expr, $m:ident) => {{
        let cap = Arc::new(Captured::default());
        let s = $m::schema(cap.clone());
        let r = futures_executor::block_on(s.execute(Request::new("{ __typename }").data(Req::new(json!({})))));
        if !r.errors.is_empty() { tool_error("probe query failed"); }
        let live = cap.registry.lock().unwrap().clone().unwrap_or_else(|| tool_error("the extension was not called"));
        let want = mirror_view(&mirror["profiles"][$name]);
        // structure (kinds, fields, types, implements, members) must agree: otherwise the harness itself is wrong.
        // Hints are NOT part of this: the registry is built by the code under test (derive macros, MergedObject);
        // a hint the registry holds differently is reported and shows up as a verdict on the observed policies.
        if canon(&strip_hints(&live)) != canon(&strip_hints(&want)) {
            tool_error(&format!("schemas/c20.json profile {} does not mirror the structure of the live registry.\nlive   = {}\nmirror = {}", $name, canon(&live), canon(&want)));
        }
        hint_diffs(&live, &want, $name, &mut hint_notes);
        execs.insert($name.to_string(), Box::new(move |rq: Request| futures_executor::block_on(s.execute(rq))));
    }}; }
    reg!("P1", p1); reg!("P2", p2); reg!("P3", p3); reg!("L", l);
    let mut out = NdWriter::create(&args[2]);
    let mut n = 0usize;
    for mut case in cases {
        let kind = case["kind"].as_str().unwrap_or("exec").to_string();
        if kind == "batch" {
            let ps: Vec<CacheControl> = case["ps"].as_array().unwrap().iter().map(policy).collect();
            let resp_of = |c: CacheControl| Response::new(Value::Null).cache_control(c);
            let fold = |v: Vec<CacheControl>| BatchResponse::Batch(v.into_iter().map(resp_of).collect()).cache_control();
            let got = exec::catch(|| match case["grouping"].as_str().unwrap_or("flat") {
                "left" if ps.len() == 3 => fold(vec![fold(vec![ps[0], ps[1]]), ps[2]]),
                "right" if ps.len() == 3 => fold(vec![ps[0], fold(vec![ps[1], ps[2]])]),
                _ => fold(ps.clone()),
            });
            case["obs"] = match got {
                Ok(c) => json!({"policy": hint(&c), "header": c.value().unwrap_or_default(), "problem": ""}),
                Err(p) => json!({"policy": hint(&CacheControl::default()), "header": "", "problem": format!("panic: {p}")}),
            };
        } else {
            let mut d = case["doc"].clone();
            let text = doc::print(&mut d);
            case["doc"] = d;
            case["text"] = json!(text);
            let profile = case["profile"].as_str().unwrap_or("P1").to_string();
            let run = execs.get(&profile).unwrap_or_else(|| tool_error(&format!("unknown profile {profile}")));
            let request = Request::new(text).data(Req::new(case["world"].clone()));
            let result = exec::catch(|| run(request));
            case["obs"] = match result {
                Ok(r) => json!({"policy": hint(&r.cache_control), "header": r.cache_control.value().unwrap_or_default(), "data": resp::ordered(&r.data),
                                "errors": r.errors.iter().map(|e| e.message.clone()).collect::<Vec<_>>(), "problem": ""}),
                Err(p) => json!({"policy": hint(&CacheControl::default()), "header": "", "data": {"k": "null"}, "errors": [], "problem": format!("panic: {p}")}),
            };
        }
        out.write(&case);
        n += 1;
    }
    out.finish();
    println!("{}", json!({"cases": n, "hint_notes": hint_notes}));
}
