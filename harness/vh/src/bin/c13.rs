//! C13 harness: render TLC-generated token sequences / code-point-class texts into GraphQL source,
//! parse them with the real `parse_query` / `parse_schema`, and log accept/reject together with the
//! syntax tree in the flat pre-order form of spec/lex/Grammar.tla.  TLC (GrammarTrace.tla) decides.
//!
//! usage: c13 run <cases.ndjson> <out.ndjson> <seed>
//!        c13 probe            (stdin: one JSON string per line = source text; prefix "S:" in the text = parse_schema)
//!
//! case kinds (field "mode"):
//!   exec / sdl : {"id","mode","toks":[[k,s]|[k,"",raw]],"style":n}   tokens rendered with seeded ignored tokens
//!                (style 0: none where legal, 1: single spaces, >=2: random + respelling; "seps":[..] = verbatim separators)
//!   lex        : {"id","mode":"lex","text":[classes]}                  `{f(a:[` text LF `])}`
//!   deep       : {"id","mode":"deep","depth":d,"shape":field|inline|inlineon|mixed|mixedon|inlinelast|fieldlast,"ctx":anon|query|frag}
use async_graphql_parser::types::*;
use async_graphql_parser::{Error, parse_query, parse_schema};
use async_graphql_value::{ConstValue, Value};
use rand::rngs::StdRng;
use rand::{Rng, SeedableRng};
use serde_json::{Value as J, json};
use std::io::BufRead;
use vh::io::*;

// ------------------------------------------------------------------------------------------------
// flat pre-order syntax tree (mirrors Grammar.tla: entries [k, s] or [k, "", code points])
// ------------------------------------------------------------------------------------------------
fn e(k: &str, s: &str) -> J { json!([k, s]) }
fn estr(k: &str, v: &str) -> J { json!([k, "", v.chars().map(|c| c as u32).collect::<Vec<_>>()]) }

fn flat_type(t: &Type, out: &mut Vec<J>) {
    match &t.base {
        BaseType::Named(n) => out.push(e("named", n.as_str())),
        BaseType::List(inner) => {
            out.push(e("list", ""));
            flat_type(inner, out);
            out.push(e("endlist", ""));
        }
    }
    if !t.nullable { out.push(e("nonnull", "")); }
}
fn flat_number(n: &async_graphql_value::Number, out: &mut Vec<J>) {
    if n.is_i64() || n.is_u64() { out.push(e("int", &n.to_string())) } else { out.push(e("float", &n.to_string())) }
}
fn flat_value(v: &Value, out: &mut Vec<J>) {
    match v {
        Value::Variable(n) => out.push(e("varref", n.as_str())),
        Value::Null => out.push(e("null", "")),
        Value::Number(n) => flat_number(n, out),
        Value::String(s) => out.push(estr("str", s)),
        Value::Boolean(b) => out.push(e("bool", if *b { "true" } else { "false" })),
        Value::Binary(_) => out.push(e("binary", "")),
        Value::Enum(n) => out.push(e("enum", n.as_str())),
        Value::List(l) => {
            out.push(e("[", ""));
            for x in l { flat_value(x, out); }
            out.push(e("]", ""));
        }
        Value::Object(o) => {
            out.push(e("{", ""));
            for (k, x) in o { out.push(e("key", k.as_str())); flat_value(x, out); }
            out.push(e("}", ""));
        }
    }
}
fn flat_cvalue(v: &ConstValue, out: &mut Vec<J>) {
    match v {
        ConstValue::Null => out.push(e("null", "")),
        ConstValue::Number(n) => flat_number(n, out),
        ConstValue::String(s) => out.push(estr("str", s)),
        ConstValue::Boolean(b) => out.push(e("bool", if *b { "true" } else { "false" })),
        ConstValue::Binary(_) => out.push(e("binary", "")),
        ConstValue::Enum(n) => out.push(e("enum", n.as_str())),
        ConstValue::List(l) => {
            out.push(e("[", ""));
            for x in l { flat_cvalue(x, out); }
            out.push(e("]", ""));
        }
        ConstValue::Object(o) => {
            out.push(e("{", ""));
            for (k, x) in o { out.push(e("key", k.as_str())); flat_cvalue(x, out); }
            out.push(e("}", ""));
        }
    }
}
fn flat_dirs(ds: &[async_graphql_parser::Positioned<Directive>], out: &mut Vec<J>) {
    for d in ds {
        out.push(e("dir", d.node.name.node.as_str()));
        for (n, v) in &d.node.arguments { out.push(e("arg", n.node.as_str())); flat_value(&v.node, out); }
    }
}
fn flat_cdirs(ds: &[async_graphql_parser::Positioned<ConstDirective>], out: &mut Vec<J>) {
    for d in ds {
        out.push(e("dir", d.node.name.node.as_str()));
        for (n, v) in &d.node.arguments { out.push(e("arg", n.node.as_str())); flat_cvalue(&v.node, out); }
    }
}
fn flat_selset(s: &SelectionSet, out: &mut Vec<J>, always: bool) {
    if s.items.is_empty() && !always { return; }
    out.push(e("sel{", ""));
    for it in &s.items {
        match &it.node {
            Selection::Field(f) => {
                let f = &f.node;
                out.push(e("field", f.name.node.as_str()));
                if let Some(a) = &f.alias { out.push(e("alias", a.node.as_str())); }
                for (n, v) in &f.arguments { out.push(e("arg", n.node.as_str())); flat_value(&v.node, out); }
                flat_dirs(&f.directives, out);
                flat_selset(&f.selection_set.node, out, false);
            }
            Selection::FragmentSpread(f) => {
                out.push(e("spread", f.node.fragment_name.node.as_str()));
                flat_dirs(&f.node.directives, out);
            }
            Selection::InlineFragment(f) => {
                out.push(e("inline", ""));
                if let Some(tc) = &f.node.type_condition { out.push(e("on", tc.node.on.node.as_str())); }
                flat_dirs(&f.node.directives, out);
                flat_selset(&f.node.selection_set.node, out, true);
            }
        }
    }
    out.push(e("}sel", ""));
}
fn flat_op(name: &str, op: &OperationDefinition) -> Vec<J> {
    let mut out = vec![e("def", ""), e("op", &op.ty.to_string()), e("opname", name)];
    for v in &op.variable_definitions {
        let v = &v.node;
        out.push(e("var", v.name.node.as_str()));
        flat_type(&v.var_type.node, &mut out);
        if let Some(d) = &v.default_value { out.push(e("default", "")); flat_cvalue(&d.node, &mut out); }
        flat_dirs(&v.directives, &mut out);
    }
    flat_dirs(&op.directives, &mut out);
    flat_selset(&op.selection_set.node, &mut out, true);
    out
}
fn flat_exec(doc: &ExecutableDocument) -> Vec<Vec<J>> {
    let mut defs = Vec::new();
    match &doc.operations {
        DocumentOperations::Single(op) => defs.push(flat_op("", &op.node)),
        DocumentOperations::Multiple(m) => {
            let mut names: Vec<_> = m.keys().cloned().collect();
            names.sort();
            for n in names { defs.push(flat_op(n.as_str(), &m[&n].node)); }
        }
    }
    let mut names: Vec<_> = doc.fragments.keys().cloned().collect();
    names.sort();
    for n in names {
        let f = &doc.fragments[&n].node;
        let mut out = vec![e("def", ""), e("frag", n.as_str()), e("on", f.type_condition.node.on.node.as_str())];
        flat_dirs(&f.directives, &mut out);
        flat_selset(&f.selection_set.node, &mut out, true);
        defs.push(out);
    }
    defs
}
fn flat_ivdef(v: &InputValueDefinition, out: &mut Vec<J>) {
    if let Some(d) = &v.description { out.push(estr("desc", &d.node)); }
    out.push(e("ivdef", v.name.node.as_str()));
    flat_type(&v.ty.node, out);
    if let Some(d) = &v.default_value { out.push(e("default", "")); flat_cvalue(&d.node, out); }
    flat_cdirs(&v.directives, out);
}
fn flat_fields(fs: &[async_graphql_parser::Positioned<FieldDefinition>], out: &mut Vec<J>) {
    if fs.is_empty() { return; }
    out.push(e("fields{", ""));
    for f in fs {
        let f = &f.node;
        if let Some(d) = &f.description { out.push(estr("desc", &d.node)); }
        out.push(e("fdef", f.name.node.as_str()));
        if !f.arguments.is_empty() {
            out.push(e("args(", ""));
            for a in &f.arguments { flat_ivdef(&a.node, out); }
            out.push(e(")args", ""));
        }
        flat_type(&f.ty.node, out);
        flat_cdirs(&f.directives, out);
    }
    out.push(e("}fields", ""));
}
fn loc_name(l: &DirectiveLocation) -> &'static str {
    match l {
        DirectiveLocation::Query => "QUERY", DirectiveLocation::Mutation => "MUTATION",
        DirectiveLocation::Subscription => "SUBSCRIPTION", DirectiveLocation::Field => "FIELD",
        DirectiveLocation::FragmentDefinition => "FRAGMENT_DEFINITION", DirectiveLocation::FragmentSpread => "FRAGMENT_SPREAD",
        DirectiveLocation::InlineFragment => "INLINE_FRAGMENT", DirectiveLocation::VariableDefinition => "VARIABLE_DEFINITION",
        DirectiveLocation::Schema => "SCHEMA", DirectiveLocation::Scalar => "SCALAR", DirectiveLocation::Object => "OBJECT",
        DirectiveLocation::FieldDefinition => "FIELD_DEFINITION", DirectiveLocation::ArgumentDefinition => "ARGUMENT_DEFINITION",
        DirectiveLocation::Interface => "INTERFACE", DirectiveLocation::Union => "UNION", DirectiveLocation::Enum => "ENUM",
        DirectiveLocation::EnumValue => "ENUM_VALUE", DirectiveLocation::InputObject => "INPUT_OBJECT",
        DirectiveLocation::InputFieldDefinition => "INPUT_FIELD_DEFINITION",
    }
}
fn flat_service(doc: &ServiceDocument) -> Vec<Vec<J>> {
    let mut defs = Vec::new();
    for d in &doc.definitions {
        let mut out = vec![e("def", "")];
        match d {
            TypeSystemDefinition::Schema(s) => {
                let s = &s.node;
                if s.extend { out.push(e("extend", "")); }
                out.push(e("kind", "schema"));
                flat_cdirs(&s.directives, &mut out);
                if let Some(n) = &s.query { out.push(e("rootq", n.node.as_str())); }
                if let Some(n) = &s.mutation { out.push(e("rootm", n.node.as_str())); }
                if let Some(n) = &s.subscription { out.push(e("roots", n.node.as_str())); }
            }
            TypeSystemDefinition::Type(t) => {
                let t = &t.node;
                if let Some(d) = &t.description { out.push(estr("desc", &d.node)); }
                if t.extend { out.push(e("extend", "")); }
                let kind = match &t.kind {
                    TypeKind::Scalar => "scalar", TypeKind::Object(_) => "type", TypeKind::Interface(_) => "interface",
                    TypeKind::Union(_) => "union", TypeKind::Enum(_) => "enum", TypeKind::InputObject(_) => "input",
                };
                out.push(e("kind", kind));
                out.push(e("name", t.name.node.as_str()));
                match &t.kind {
                    TypeKind::Scalar => flat_cdirs(&t.directives, &mut out),
                    TypeKind::Object(o) => {
                        for i in &o.implements { out.push(e("impl", i.node.as_str())); }
                        flat_cdirs(&t.directives, &mut out);
                        flat_fields(&o.fields, &mut out);
                    }
                    TypeKind::Interface(o) => {
                        for i in &o.implements { out.push(e("impl", i.node.as_str())); }
                        flat_cdirs(&t.directives, &mut out);
                        flat_fields(&o.fields, &mut out);
                    }
                    TypeKind::Union(u) => {
                        flat_cdirs(&t.directives, &mut out);
                        for m in &u.members { out.push(e("member", m.node.as_str())); }
                    }
                    TypeKind::Enum(en) => {
                        flat_cdirs(&t.directives, &mut out);
                        if !en.values.is_empty() {
                            out.push(e("values{", ""));
                            for v in &en.values {
                                if let Some(d) = &v.node.description { out.push(estr("desc", &d.node)); }
                                out.push(e("evalue", v.node.value.node.as_str()));
                                flat_cdirs(&v.node.directives, &mut out);
                            }
                            out.push(e("}values", ""));
                        }
                    }
                    TypeKind::InputObject(io) => {
                        flat_cdirs(&t.directives, &mut out);
                        if !io.fields.is_empty() {
                            out.push(e("infields{", ""));
                            for f in &io.fields { flat_ivdef(&f.node, &mut out); }
                            out.push(e("}infields", ""));
                        }
                    }
                }
            }
            TypeSystemDefinition::Directive(d) => {
                let d = &d.node;
                if let Some(ds) = &d.description { out.push(estr("desc", &ds.node)); }
                out.push(e("kind", "directive"));
                out.push(e("name", d.name.node.as_str()));
                if !d.arguments.is_empty() {
                    out.push(e("args(", ""));
                    for a in &d.arguments { flat_ivdef(&a.node, &mut out); }
                    out.push(e(")args", ""));
                }
                if d.is_repeatable { out.push(e("repeatable", "")); }
                for l in &d.locations { out.push(e("loc", loc_name(&l.node))); }
            }
        }
        defs.push(out);
    }
    defs
}

fn err_kind(e: &Error) -> &'static str {
    match e {
        Error::Syntax { .. } => "syntax", Error::MultipleRoots { .. } => "multiple_roots",
        Error::MissingQueryRoot { .. } => "missing_query_root", Error::MultipleOperations { .. } => "multiple_operations",
        Error::OperationDuplicated { .. } => "operation_duplicated", Error::FragmentDuplicated { .. } => "fragment_duplicated",
        Error::MissingOperation => "missing_operation", Error::RecursionLimitExceeded => "recursion_limit",
        #[allow(unreachable_patterns)]
        _ => "other",
    }
}

/// (acc, err kind, defs).  acc: "yes" | "no" | "panic"
fn run_parser(sdl: bool, src: &str) -> (&'static str, &'static str, Vec<Vec<J>>) {
    let src2 = src.to_string();
    let r = std::panic::catch_unwind(move || {
        if sdl {
            match parse_schema(&src2) { Ok(d) => ("yes", "", flat_service(&d)), Err(er) => ("no", err_kind(&er), vec![]) }
        } else {
            match parse_query(&src2) { Ok(d) => ("yes", "", flat_exec(&d)), Err(er) => ("no", err_kind(&er), vec![]) }
        }
    });
    r.unwrap_or(("panic", "panic", vec![]))
}

// ------------------------------------------------------------------------------------------------
// rendering
// ------------------------------------------------------------------------------------------------
/// One representative character per code-point class of StringLitP.tla.
fn class_char(c: &str) -> char {
    match c {
        "Q" => '"', "BS" => '\\', "LF" => '\n', "CR" => '\r', "SP" => ' ', "TAB" => '\t', "U4" => '\u{1F600}', "NB" => '\u{A0}', "LS" => '\u{2028}',
        "MINUS" => '-', "DOT" => '.', "PLUS" => '+', "SLASH" => '/', "HASH" => '#', "COMMA" => ',', "US" => '_',
        "EU" => 'E', "x" => 'x',
        s if s.chars().count() == 1 => s.chars().next().unwrap(),
        _ => tool_error(&format!("unknown class {c}")),
    }
}
fn class_text(cs: &[J]) -> String { cs.iter().map(|c| class_char(c.as_str().unwrap())).collect() }

fn tok_text(t: &J) -> String {
    let k = t[0].as_str().unwrap();
    match k {
        "p" | "n" | "i" | "f" => t[1].as_str().unwrap().to_string(),
        "s" => format!("\"{}\"", class_text(t[2].as_array().unwrap())),
        "b" => format!("\"\"\"{}\"\"\"", class_text(t[2].as_array().unwrap())),
        _ => tool_error(&format!("unknown token kind {k}")),
    }
}
/// Lexical rule (mirrored by NeedsSep in Grammar.tla, which re-checks every empty gap).
fn needs_sep(a: &J, b: &J) -> bool {
    let (ka, kb) = (a[0].as_str().unwrap(), b[0].as_str().unwrap());
    let wordy = |k: &str| k == "n" || k == "i" || k == "f";
    if wordy(ka) && wordy(kb) { return true; }
    if (ka == "i" || ka == "f") && kb == "p" && b[1] == "..." { return true; }
    if (ka == "s" || ka == "b") && (kb == "s" || kb == "b") { return true; }
    false
}
const SEPS: &[&str] = &[" ", " ", " ", "\n", "\t", ",", "\r", "\r\n", "\u{feff}", "#c\n", " #\r", "#\"{\r\n", "  ", ", ", "\n\n"];
/// gap code: "" empty, "w" only white space / commas / BOM / line terminators, "c" contains a comment
fn gap(rng: &mut StdRng, style: u64, must: bool) -> (String, &'static str) {
    if style == 0 {
        return if must { (" ".into(), "w") } else { ("".into(), "") };
    }
    if style == 1 { return (" ".into(), "w"); }
    // random: empty with probability 1/4 when allowed, else one or two separators
    if !must && rng.gen_range(0..4) == 0 { return ("".into(), ""); }
    let n = if rng.gen_range(0..4) == 0 { 2 } else { 1 };
    let mut s = String::new();
    for _ in 0..n { s.push_str(SEPS[rng.gen_range(0..SEPS.len())]); }
    let code = if s.contains('#') { "c" } else { "w" };
    (s, code)
}
/// Names the generator's placeholder names may be respelled to (TLC judges the actual tokens).
const SPELL: &[&str] = &["a", "b", "_", "a1", "Z_9", "query", "fragment", "type", "input", "extend", "schema", "implements",
    "onx", "truex", "nullable", "falsey", "queryx", "typeT", "on", "true", "null", "repeatable", "FIELD", "directive", "scalar"];
const SPELL_SAFE: usize = 12; // prefix of SPELL that is a plain name everywhere

/// separators given verbatim by the case (witnesses of known findings)
fn render_fixed(toks: &[J], seps: &[J], lead: &str, trail: &str) -> (String, Vec<&'static str>, Vec<String>, String, String) {
    let mut src = String::from(lead);
    let mut gaps = Vec::new();
    for i in 0..toks.len() {
        src.push_str(&tok_text(&toks[i]));
        if i + 1 < toks.len() {
            let g = seps[i].as_str().unwrap();
            src.push_str(g);
            gaps.push(if g.is_empty() { "" } else if g.contains('#') { "c" } else { "w" });
        }
    }
    src.push_str(trail);
    (src, gaps, seps.iter().map(|x| x.as_str().unwrap().to_string()).collect(), lead.to_string(), trail.to_string())
}

fn render(toks: &mut Vec<J>, style: u64, rng: &mut StdRng) -> (String, Vec<&'static str>, Vec<String>, String, String) {
    // respelling of the placeholder names a / b
    if style >= 2 {
        let r = rng.gen_range(0..8);
        let pick = |rng: &mut StdRng| -> &'static str {
            if r < 4 { SPELL[rng.gen_range(0..2)] } else if r < 7 { SPELL[rng.gen_range(0..SPELL_SAFE)] } else { SPELL[rng.gen_range(0..SPELL.len())] }
        };
        let (mut sa, mut sb) = (pick(rng), pick(rng));
        if r < 4 { sa = "a"; sb = "b"; }
        if sa == sb { sb = if sa == "b" { "a" } else { "b" }; }
        for t in toks.iter_mut() {
            if t[0] == "n" {
                if t[1] == "a" { t[1] = json!(sa); } else if t[1] == "b" { t[1] = json!(sb); }
            }
        }
    }
    let mut src = String::new();
    let mut gaps = Vec::new();
    let mut seps = Vec::new();
    // leading / trailing ignored tokens (never judged as a gap)
    let lead = if style >= 2 { gap(rng, style, false).0 } else { String::new() };
    src.push_str(&lead);
    for i in 0..toks.len() {
        src.push_str(&tok_text(&toks[i]));
        if i + 1 < toks.len() {
            let (g, code) = gap(rng, style, needs_sep(&toks[i], &toks[i + 1]));
            src.push_str(&g);
            gaps.push(code);
            seps.push(g);
        }
    }
    let trail = if style >= 2 { gap(rng, style, false).0 } else { String::new() };
    src.push_str(&trail);
    (src, gaps, seps, lead, trail)
}

/// `depth` selection sets open at once (nesting = depth - 1), the descents made of fields, inline fragments
/// (with / without type condition) or alternations, inside an anonymous / named operation or a fragment definition.
fn deep_tokens(depth: usize, shape: &str, ctx: &str) -> Vec<J> {
    let p = |s: &str| json!(["p", s]);
    let n = |s: &str| json!(["n", s]);
    let mut t = Vec::new();
    match ctx {
        "anon" => {}
        "query" => { t.push(n("query")); t.push(n("b")); }
        "frag" => { t.push(n("fragment")); t.push(n("b")); t.push(n("on")); t.push(n("a")); }
        _ => tool_error("unknown deep ctx"),
    }
    for lvl in 0..depth {
        t.push(p("{"));
        if lvl + 1 < depth {
            let kind = match shape {
                "field" => 0, "inline" => 1, "inlineon" => 2,
                "mixed" => if lvl % 2 == 1 { 1 } else { 0 },
                "mixedon" => if lvl % 2 == 1 { 2 } else { 0 },
                "inlinelast" => if lvl + 2 == depth { 1 } else { 0 },
                "fieldlast" => if lvl + 2 == depth { 0 } else { 2 },
                _ => tool_error("unknown deep shape"),
            };
            match kind {
                0 => t.push(n("a")),
                1 => t.push(p("...")),
                _ => { t.push(p("...")); t.push(n("on")); t.push(n("a")); }
            }
        } else {
            t.push(n("a"));
        }
    }
    for _ in 0..depth { t.push(p("}")); }
    if ctx == "frag" { t.push(p("{")); t.push(n("a")); t.push(p("}")); }
    t
}

fn main() {
    let args: Vec<String> = std::env::args().collect();
    if args.len() >= 2 && args[1] == "probe" {
        for line in std::io::stdin().lock().lines() {
            let line = line.unwrap();
            if line.trim().is_empty() { continue; }
            let s: String = serde_json::from_str(&line).unwrap_or(line.clone());
            let (sdl, text) = if let Some(r) = s.strip_prefix("S:") { (true, r.to_string()) } else { (false, s.clone()) };
            let (acc, err, defs) = run_parser(sdl, &text);
            println!("{}", json!({"src": text, "acc": acc, "err": err, "ast": defs}));
        }
        return;
    }
    if args.len() != 5 || args[1] != "run" { tool_error("usage: c13 run <cases.ndjson> <out.ndjson> <seed> | c13 probe"); }
    let seed: u64 = args[4].parse().unwrap_or_else(|_| tool_error("bad seed"));
    std::panic::set_hook(Box::new(|_| {}));
    let cases = read_ndjson(&args[2]);
    let mut w = NdWriter::create(&args[3]);
    for c in cases {
        let id = c["id"].clone();
        let mode = c["mode"].as_str().unwrap_or_else(|| tool_error("case without mode")).to_string();
        match mode.as_str() {
            "exec" | "sdl" | "deep" => {
                let mut toks: Vec<J> = if mode == "deep" {
                    deep_tokens(c["depth"].as_u64().unwrap() as usize, c["shape"].as_str().unwrap(), c["ctx"].as_str().unwrap_or("anon"))
                } else { c["toks"].as_array().unwrap().clone() };
                let style = c["style"].as_u64().unwrap_or(1);
                let cid = id.as_u64().unwrap_or(0);
                let mut rng = StdRng::seed_from_u64(seed.wrapping_mul(0x9E37_79B9_7F4A_7C15).wrapping_add(cid).wrapping_add(style << 40));
                let (src, gaps, seps, lead, trail) = match c.get("seps").and_then(|x| x.as_array()) {
                    Some(seps) if seps.len() + 1 == toks.len() => render_fixed(&toks, seps, c["lead"].as_str().unwrap_or(""), c["trail"].as_str().unwrap_or("")),
                    Some(_) => tool_error("case with seps of the wrong length"),
                    None => render(&mut toks, style, &mut rng),
                };
                let sdl = mode == "sdl";
                let (acc, err, defs) = run_parser(sdl, &src);
                w.write(&json!({"id": id, "mode": if mode == "deep" { "exec" } else { mode.as_str() }, "toks": toks, "gaps": gaps,
                    "text": [], "src": src, "acc": acc, "err": err, "ast": defs, "seps": seps, "lead": lead, "trail": trail}));
            }
            "lex" => {
                let text = c["text"].as_array().unwrap();
                let src = format!("{{f(a:[{}\n])}}", class_text(text));
                let (acc, err, defs) = run_parser(false, &src);
                w.write(&json!({"id": id, "mode": "lex", "toks": [], "gaps": [], "text": text, "src": src, "acc": acc, "err": err, "ast": defs, "seps": [], "lead": "", "trail": ""}));
            }
            _ => tool_error(&format!("unknown mode {mode}")),
        }
    }
    w.finish();
}
