//! C34 harness: render `GraphiQLSource::build()...finish()` with one configured slot set to a
//! TLC-generated (or seeded random) value and record, as code points, the page text that starts at
//! the slot: for the JavaScript slots the text from the opening quote of the slot's string literal
//! (found by a small JS tokenizer keyed on the property name that precedes the literal), for the
//! title the text after the `<title>` start tag.  Nothing is judged here: TLC (JsHtmlTrace.tla)
//! lexes the literal / decodes the RCDATA text and compares with the configured value.
//!
//! usage: c34 <cases.ndjson> <out.ndjson> <seed> <n-random>
//! case:  {"slot": "endpoint"|"subscription"|"title"|"hname"|"hvalue"|"pname"|"pvalue", "val": [code points]}
//! obs:   {"id", "slot", "kind": "js"|"title", "src": "tlc"|"random", "val", "win": [code points],
//!         "tail": [code points that follow the literal when the value is harmless], "problem": ""}
use async_graphql::http::GraphiQLSource;
use rand::{Rng, SeedableRng, rngs::StdRng};
use serde_json::{Value as J, json};
use vh::io::*;

const SLOTS: [&str; 7] = ["endpoint", "subscription", "title", "hname", "hvalue", "pname", "pvalue"];

fn benign(slot: &str) -> &'static str {
    match slot {
        "endpoint" => "/graphql",
        "subscription" => "/ws",
        "title" => "T",
        "hname" => "hk",
        "hvalue" => "hv",
        "pname" => "pk",
        "pvalue" => "pv",
        _ => tool_error("unknown slot"),
    }
}

/// Every slot configured; `slot` gets `v`, the others their harmless value.
fn render(slot: &str, v: &str) -> String {
    let g = |s: &str| -> String { if s == slot { v.to_string() } else { benign(s).to_string() } };
    let (e, s, t, hn, hv, pn, pv) = (g("endpoint"), g("subscription"), g("title"), g("hname"), g("hvalue"), g("pname"), g("pvalue"));
    GraphiQLSource::build()
        .endpoint(&e)
        .subscription_endpoint(&s)
        .title(&t)
        .header(&hn, &hv)
        .ws_connection_param(&pn, &pv)
        .finish()
}

fn find(hay: &[char], needle: &str, from: usize) -> Option<usize> {
    let n: Vec<char> = needle.chars().collect();
    (from..hay.len().saturating_sub(n.len()) + 1).find(|&i| hay[i..i + n.len()] == n[..])
}

#[derive(Debug, Clone, PartialEq)]
enum Tok {
    Ident(String),
    Punct(char),
    Str(usize, usize), // offsets of the opening quote and of the code point after the closing quote
    Other,
}

/// Minimal JS tokenizer (identifiers, punctuation, '..' / ".." strings, comments).  Regular
/// expression and template literals do not occur in the page and are not handled.  Stops at `limit`.
fn js_tokens(p: &[char], mut i: usize, limit: usize) -> Vec<(usize, Tok)> {
    let mut out = Vec::new();
    while i < limit {
        let c = p[i];
        if c.is_whitespace() {
            i += 1;
        } else if c == '/' && i + 1 < limit && p[i + 1] == '/' {
            while i < limit && p[i] != '\n' { i += 1; }
        } else if c == '/' && i + 1 < limit && p[i + 1] == '*' {
            i += 2;
            while i + 1 < limit && !(p[i] == '*' && p[i + 1] == '/') { i += 1; }
            i += 2;
        } else if c == '\'' || c == '"' {
            let start = i;
            i += 1;
            while i < limit && p[i] != c && p[i] != '\n' {
                if p[i] == '\\' { i += 1; }
                i += 1;
            }
            i = (i + 1).min(limit);
            out.push((start, Tok::Str(start, i)));
        } else if c.is_alphabetic() || c == '_' || c == '$' {
            let start = i;
            while i < limit && (p[i].is_alphanumeric() || p[i] == '_' || p[i] == '$') { i += 1; }
            out.push((start, Tok::Ident(p[start..i].iter().collect())));
        } else if c.is_ascii_digit() {
            while i < limit && (p[i].is_ascii_alphanumeric() || p[i] == '.') { i += 1; }
            out.push((i, Tok::Other));
        } else {
            out.push((i, Tok::Punct(c)));
            i += 1;
        }
    }
    out
}

/// Offset of the opening quote of the slot's literal in a page whose text *before* that quote is
/// harmless (every other slot holds its benign value).
fn locate_js(p: &[char], slot: &str) -> Result<usize, String> {
    let s0 = find(p, "<script type=\"module\">", 0).ok_or("no module script")? + 22;
    let toks = js_tokens(p, s0, p.len());
    let id = |s: &str| Tok::Ident(s.to_string());
    let pat: Vec<Tok> = match slot {
        "endpoint" => vec![id("url"), Tok::Punct(':'), id("createUrl"), Tok::Punct('(')],
        "subscription" => vec![id("subscriptionUrl"), Tok::Punct(':'), id("createUrl"), Tok::Punct('(')],
        "hname" | "hvalue" => vec![id("headers"), Tok::Punct(':'), Tok::Punct('{')],
        "pname" | "pvalue" => vec![id("wsConnectionParams"), Tok::Punct(':'), Tok::Punct('{')],
        _ => return Err("not a js slot".into()),
    };
    let at = (0..toks.len().saturating_sub(pat.len()))
        .find(|&i| (0..pat.len()).all(|k| toks[i + k].1 == pat[k]))
        .ok_or(format!("property name of slot {slot} not found"))?;
    let mut k = at + pat.len();
    if slot == "hvalue" || slot == "pvalue" {
        // the (harmless) name literal and the colon come first
        match (&toks.get(k), &toks.get(k + 1)) {
            (Some((_, Tok::Str(..))), Some((_, Tok::Punct(':')))) => k += 2,
            _ => return Err(format!("no `name:` before the value of slot {slot}")),
        }
    }
    match toks.get(k) {
        Some((_, Tok::Str(open, _))) => Ok(*open),
        Some((_, Tok::Punct('`'))) => Err("template literal".into()),
        _ => Err(format!("no string literal after the property name of slot {slot}")),
    }
}

/// What follows the slot's literal when its value is harmless (3 code points), or the offset
/// after `<title>`.
fn baseline_tail(slot: &str) -> Vec<u32> {
    let page: Vec<char> = render(slot, benign(slot)).chars().collect();
    let open = locate_js(&page, slot).unwrap_or_else(|e| tool_error(&format!("baseline page: {e}")));
    let q = page[open];
    let mut i = open + 1;
    while page[i] != q { i += 1; }
    // (what the literal holds is not checked here: a template that writes another setting into this
    // slot is a finding for TLC -- the harmless value of every slot is a case of its own)
    page[i + 1..i + 4].iter().map(|c| *c as u32).collect()
}

fn observe(id: usize, src: &str, slot: &str, val: &[u32], tails: &std::collections::HashMap<String, Vec<u32>>) -> J {
    let v: String = val.iter().map(|c| char::from_u32(*c).unwrap_or_else(|| tool_error("not a scalar value"))).collect();
    let page: Vec<char> = render(slot, &v).chars().collect();
    let wlen = 6 * val.len() + 16;
    let (kind, start, problem) = if slot == "title" {
        match find(&page, "<title>", 0) {
            Some(i) => ("title", i + 7, String::new()),
            None => ("title", 0, "no <title>".to_string()),
        }
    } else {
        match locate_js(&page, slot) {
            Ok(i) => ("js", i, String::new()),
            Err(e) => ("js", 0, e),
        }
    };
    let win: Vec<u32> = page[start..(start + wlen).min(page.len())].iter().map(|c| *c as u32).collect();
    json!({"id": id, "slot": slot, "kind": kind, "src": src, "val": val, "win": win,
           "tail": tails.get(slot).cloned().unwrap_or_default(), "problem": problem})
}

fn main() {
    let a: Vec<String> = std::env::args().collect();
    if a.len() != 5 {
        tool_error("usage: c34 <cases.ndjson> <out.ndjson> <seed> <n-random>");
    }
    let seed: u64 = a[3].parse().unwrap_or_else(|_| tool_error("seed"));
    let nrand: usize = a[4].parse().unwrap_or_else(|_| tool_error("n-random"));
    let mut tails = std::collections::HashMap::new();
    for s in SLOTS {
        if s != "title" {
            tails.insert(s.to_string(), baseline_tail(s));
        }
    }
    let mut w = NdWriter::create(&a[2]);
    let mut id = 0usize;
    // the complete module script of the harmless page, for TLC's check of the context the slots sit in
    {
        let page: Vec<char> = render("title", "T").chars().collect();
        let s0 = find(&page, "<script type=\"module\">", 0).unwrap_or_else(|| tool_error("no module script")) + 22;
        let e0 = find(&page, "</script>", s0).unwrap_or_else(|| tool_error("no </script>")) + 9;
        let offs: Vec<usize> = SLOTS.iter().filter(|s| **s != "title")
            .map(|s| locate_js(&page, s).unwrap_or_else(|e| tool_error(&e)) - s0 + 1).collect();
        id += 1;
        w.write(&json!({"id": id, "slot": "", "kind": "base", "src": "tlc", "val": offs,
                        "win": page[s0..e0].iter().map(|c| *c as u32).collect::<Vec<u32>>(), "tail": [], "problem": ""}));
    }
    for s in SLOTS {
        // the harmless configuration itself, judged like any other value
        id += 1;
        let val: Vec<u32> = benign(s).chars().map(|c| c as u32).collect();
        w.write(&observe(id, "tlc", s, &val, &tails));
    }
    for c in read_ndjson(&a[1]) {
        let slot = c["slot"].as_str().unwrap_or_else(|| tool_error("case without slot")).to_string();
        let val: Vec<u32> = c["val"].as_array().unwrap_or_else(|| tool_error("case without val"))
            .iter().map(|x| x.as_u64().unwrap() as u32).collect();
        id += 1;
        w.write(&observe(id, "tlc", &slot, &val, &tails));
    }
    // seeded random values: longer, wider alphabet (CR, U+2029, an astral character, escape-sequence letters)
    let alpha: Vec<u32> = "'\"&<>/\\\n\u{2028}sx\u{e9}\r\u{2029}\u{1F600}un04{}-!;# ScRipt=".chars().map(|c| c as u32).collect();
    let mut rng = StdRng::seed_from_u64(seed);
    for n in 0..nrand {
        let slot = SLOTS[n % SLOTS.len()];
        let len = rng.gen_range(5..=12);
        let mut val: Vec<u32> = (0..len).map(|_| alpha[rng.gen_range(0..alpha.len())]).collect();
        if slot == "title" {
            // a CR in the page is turned into LF by the HTML input-stream preprocessing; titles are generated without
            for c in val.iter_mut() { if *c == 13 { *c = 10; } }
        }
        id += 1;
        w.write(&observe(id, "random", slot, &val, &tails));
    }
    w.finish();
}
