//! C17 harness: builds the dynamic schema of each case (or picks a derive-built one), exports SDL under
//! the case's options, re-parses it with `async_graphql::parser::parse_schema` and logs what the
//! document denotes as flat facts {t, f, a, what, s, raw, val}.  Strings are logged twice: `raw` is the
//! string token as it stands in the SDL text (code points, found at the position the parser reports),
//! `val` is the value the crate's parser gave it.  TLC (SdlTrace.tla) reads `raw` with its own
//! transcription of the StringValue semantics and compares the facts with Describe(ts, opts).
//!
//! usage: c17 <cases.ndjson> <out.ndjson>
#[path = "../ts_build.rs"]
mod ts_build;
#[path = "../c17_static.rs"]
mod c17_static;

use async_graphql::parser::types::*;
use async_graphql::parser::{Pos, Positioned, parse_schema};
use async_graphql::{SDLExportOptions, Value};
use async_graphql_value::ConstValue;
use serde_json::{Value as J, json};
use std::cell::RefCell;
use std::panic::{AssertUnwindSafe, catch_unwind};
use vh::io::*;

thread_local! { static LAST_PANIC: RefCell<String> = const { RefCell::new(String::new()) }; }

pub fn options_of(o: &J) -> SDLExportOptions {
    let mut x = SDLExportOptions::new();
    let on = |k: &str| o[k].as_bool() == Some(true);
    if on("sorted_fields") { x = x.sorted_fields(); }
    if on("sorted_arguments") { x = x.sorted_arguments(); }
    if on("sorted_enum_items") { x = x.sorted_enum_items(); }
    if on("federation") { x = x.federation(); }
    if on("prefer_single_line_descriptions") { x = x.prefer_single_line_descriptions(); }
    if on("include_specified_by") { x = x.include_specified_by(); }
    if on("compose_directive") { x = x.compose_directive(); }
    let indent = o["indent"].as_u64().unwrap_or(0);
    if indent > 0 { x = x.use_space_ident().indent_width(indent as u8); }
    x
}

/// Index (in chars) of a parser position: line terminators are LF, CR LF and CR (GraphQL 2.1.2).
fn offset_of(chars: &[char], pos: Pos) -> Option<usize> {
    let (mut line, mut col) = (1usize, 1usize);
    let mut i = 0;
    while i <= chars.len() {
        if line == pos.line && col == pos.column { return Some(i); }
        if i == chars.len() { break; }
        match chars[i] {
            '\n' => { line += 1; col = 1; }
            '\r' => { if chars.get(i + 1) == Some(&'\n') { i += 1; } line += 1; col = 1; }
            _ => col += 1,
        }
        i += 1;
    }
    None
}

/// The string token starting at `start` (must be a quotation mark): up to its closing delimiter.
fn string_token(chars: &[char], start: usize) -> Vec<u32> {
    let at = |i: usize| chars.get(i).copied().unwrap_or('\0');
    if at(start) != '"' { return vec![]; }
    let triple = |i: usize| at(i) == '"' && at(i + 1) == '"' && at(i + 2) == '"';
    let mut i;
    if triple(start) {
        i = start + 3;
        while i < chars.len() {
            if at(i) == '\\' && triple(i + 1) { i += 4; continue; }
            if triple(i) { i += 3; break; }
            i += 1;
        }
    } else {
        i = start + 1;
        while i < chars.len() {
            if at(i) == '\\' { i += 2; continue; }
            if at(i) == '"' { i += 1; break; }
            if at(i) == '\n' || at(i) == '\r' { break; }
            i += 1;
        }
    }
    chars[start..i.min(chars.len())].iter().map(|c| *c as u32).collect()
}

fn cps(s: &str) -> Vec<u32> { s.chars().map(|c| c as u32).collect() }

struct Facts<'a> { chars: &'a [char], out: Vec<J>, unlocated: usize }
impl Facts<'_> {
    fn plain(&mut self, t: &str, f: &str, a: &str, what: &str, s: &str) {
        self.out.push(json!({"t": t, "f": f, "a": a, "what": what, "s": s, "raw": [], "val": []}));
    }
    fn string(&mut self, t: &str, f: &str, a: &str, what: &str, s: &str, pos: Pos, val: &str) {
        let raw = offset_of(self.chars, pos).map(|o| string_token(self.chars, o)).unwrap_or_default();
        if raw.is_empty() { self.unlocated += 1; }
        self.out.push(json!({"t": t, "f": f, "a": a, "what": what, "s": s, "raw": raw, "val": cps(val)}));
    }
    fn docs(&mut self, t: &str, f: &str, a: &str, description: &Option<Positioned<String>>, directives: &[Positioned<ConstDirective>]) {
        if let Some(d) = description { self.string(t, f, a, "desc", "", d.pos, &d.node); }
        for dir in directives {
            match dir.node.name.node.as_str() {
                "deprecated" => match dir.node.arguments.iter().find(|(n, _)| n.node == "reason") {
                    Some((_, v)) => match &v.node {
                        ConstValue::String(s) => self.string(t, f, a, "deprecated", "reason", v.pos, s.as_str()),
                        other => self.plain(t, f, a, "deprecated", &format!("other:{other}")),
                    },
                    None => self.plain(t, f, a, "deprecated", ""),
                },
                "specifiedBy" => {
                    if let Some((_, v)) = dir.node.arguments.iter().find(|(n, _)| n.node == "url") {
                        if let ConstValue::String(s) = &v.node { self.string(t, f, a, "specifiedBy", "", v.pos, s.as_str()); }
                    }
                }
                other => self.plain(t, f, a, "applied", &format!("@{other}")),
            }
        }
    }
    fn default(&mut self, t: &str, f: &str, a: &str, d: &Option<Positioned<ConstValue>>) {
        if let Some(d) = d {
            match &d.node {
                ConstValue::String(s) => self.string(t, f, a, "default", "str", d.pos, s.as_str()),
                ConstValue::Number(n) => self.plain(t, f, a, "default", &format!("int:{n}")),
                ConstValue::Boolean(b) => self.plain(t, f, a, "default", &format!("bool:{b}")),
                ConstValue::Enum(e) => self.plain(t, f, a, "default", &format!("enum:{e}")),
                ConstValue::Null => self.plain(t, f, a, "default", "null"),
                other => self.plain(t, f, a, "default", &format!("other:{other}")),
            }
        }
    }
    fn input_value(&mut self, t: &str, f: &str, a: &str, what: &str, iv: &InputValueDefinition) {
        self.plain(t, f, a, what, &ty_text(&iv.ty.node));
        self.plain(t, f, a, "ref", base_name(&iv.ty.node));
        self.docs(t, f, a, &iv.description, &iv.directives);
        self.default(t, f, a, &iv.default_value);
    }
    fn fields(&mut self, t: &str, fields: &[Positioned<FieldDefinition>]) {
        for fd in fields {
            let f = fd.node.name.node.as_str();
            self.plain(t, f, "", "field", &ty_text(&fd.node.ty.node));
            self.plain(t, f, "", "ref", base_name(&fd.node.ty.node));
            self.docs(t, f, "", &fd.node.description, &fd.node.directives);
            for arg in &fd.node.arguments {
                self.input_value(t, f, arg.node.name.node.as_str(), "arg", &arg.node);
            }
        }
    }
}

/// FieldDefinition -> FIELD_DEFINITION
fn screaming(s: &str) -> String {
    let mut out = String::new();
    for (i, c) in s.chars().enumerate() {
        if c.is_uppercase() && i > 0 { out.push('_'); }
        out.push(c.to_ascii_uppercase());
    }
    out
}

/// The named type a type reference is built on (for the closure rule).
fn base_name(t: &Type) -> &str {
    match &t.base {
        BaseType::Named(n) => n.as_str(),
        BaseType::List(inner) => base_name(inner),
    }
}

fn ty_text(t: &Type) -> String {
    let base = match &t.base {
        BaseType::Named(n) => n.to_string(),
        BaseType::List(inner) => format!("[{}]", ty_text(inner)),
    };
    if t.nullable { base } else { format!("{base}!") }
}

fn facts_of(doc: &ServiceDocument, chars: &[char]) -> (Vec<J>, usize) {
    let mut fx = Facts { chars, out: Vec::new(), unlocated: 0 };
    for def in &doc.definitions {
        match def {
            TypeSystemDefinition::Schema(_) => {}
            TypeSystemDefinition::Type(td) => {
                let t = td.node.name.node.as_str();
                let kind = match &td.node.kind {
                    TypeKind::Scalar => "SCALAR", TypeKind::Object(_) => "OBJECT", TypeKind::Interface(_) => "INTERFACE",
                    TypeKind::Union(_) => "UNION", TypeKind::Enum(_) => "ENUM", TypeKind::InputObject(_) => "INPUT_OBJECT",
                };
                fx.plain(t, "", "", "kind", if td.node.extend { "extend" } else { kind });
                fx.docs(t, "", "", &td.node.description, &td.node.directives);
                match &td.node.kind {
                    TypeKind::Scalar => {}
                    TypeKind::Object(o) => {
                        for i in &o.implements { fx.plain(t, "", "", "implements", i.node.as_str()); }
                        fx.fields(t, &o.fields);
                    }
                    TypeKind::Interface(o) => {
                        for i in &o.implements { fx.plain(t, "", "", "implements", i.node.as_str()); }
                        fx.fields(t, &o.fields);
                    }
                    TypeKind::Union(u) => for m in &u.members { fx.plain(t, "", "", "member", m.node.as_str()); },
                    TypeKind::Enum(e) => for v in &e.values {
                        let name = v.node.value.node.as_str();
                        fx.plain(t, name, "", "value", "");
                        fx.docs(t, name, "", &v.node.description, &v.node.directives);
                    },
                    TypeKind::InputObject(o) => for x in &o.fields {
                        fx.input_value(t, x.node.name.node.as_str(), "", "inputField", &x.node);
                    },
                }
            }
            TypeSystemDefinition::Directive(dd) => {
                let t = format!("@{}", dd.node.name.node);
                // The crate's grammar has `repeatable = { "repeatable"? }`, so DirectiveDefinition::is_repeatable is
                // always true (a parser matter, C13): read the keyword from the text of the definition instead.
                let _ = dd.node.is_repeatable;
                let repeatable = offset_of(chars, dd.pos).map(|o| {
                    let def: String = chars[o..].iter().take_while(|c| **c != '\n').collect();
                    def.contains(" repeatable on ")
                }).unwrap_or(false);
                fx.plain(&t, "", "", "directive", if repeatable { "repeatable" } else { "" });
                if let Some(d) = &dd.node.description { fx.string(&t, "", "", "desc", "", d.pos, &d.node); }
                for l in &dd.node.locations { fx.plain(&t, "", "", "location", &screaming(&format!("{:?}", l.node))); }
                for a in &dd.node.arguments { fx.input_value(&t, "", a.node.name.node.as_str(), "arg", &a.node); }
            }
        }
    }
    (fx.out, fx.unlocated)
}

/// Flavour "applied": the base type system of Gen_Sdl.tla (Base("none", <<>>)) written out against the dynamic API,
/// with `Directive::new("meta")` + the case's arguments on the definition named by `loc`.  The case carries the
/// type system as TLC printed it; a difference between the two shows up as a violation on the unchanged tree.
mod applied {
    use super::ts_build::value_of;
    use async_graphql::dynamic::*;
    use serde_json::Value as J;

    pub fn directive(args: &J) -> Directive {
        let mut d = Directive::new("meta");
        for (i, a) in args.as_array().cloned().unwrap_or_default().iter().enumerate() {
            d = d.argument(format!("a{}", i + 1), value_of(a).unwrap_or_else(|| vh::io::tool_error("applied: argument without a value")));
        }
        d
    }
    fn int() -> TypeRef { TypeRef::named(TypeRef::INT) }
    fn list_int() -> TypeRef { TypeRef::List(Box::new(int())) }

    pub fn schema(loc: &str, args: &J) -> Result<Schema, SchemaError> {
        const LOCS: [&str; 12] = ["object", "field", "arg", "interface", "ifaceField", "ifaceArg", "enum", "enumValue", "inputObject",
                                  "inputField", "union", "scalar"];
        if !LOCS.contains(&loc) { vh::io::tool_error(&format!("applied: unknown location {loc}")); }
        let null = async_graphql::Value::Null;
        // E
        let mut v1 = EnumItem::new("V1");
        if loc == "enumValue" { v1 = v1.directive(directive(args)); }
        let mut e = Enum::new("E").item(v1).item(EnumItem::new("V2").deprecation(None));
        if loc == "enum" { e = e.directive(directive(args)); }
        // I
        let mut ic = InputValue::new("c", list_int()).default_value(null.clone());
        if loc == "ifaceArg" { ic = ic.directive(directive(args)); }
        let mut ifld = InterfaceField::new("f", int())
            .argument(InputValue::new("a", TypeRef::named(TypeRef::STRING)))
            .argument(InputValue::new("b", int()))
            .argument(ic);
        if loc == "ifaceField" { ifld = ifld.directive(directive(args)); }
        let mut i = Interface::new("I").field(ifld);
        if loc == "interface" { i = i.directive(directive(args)); }
        // O
        let mut oa = InputValue::new("a", TypeRef::named(TypeRef::STRING)).default_value(async_graphql::Value::from("b c"));
        if loc == "arg" { oa = oa.directive(directive(args)); }
        let mut of = Field::new("f", int(), |_| FieldFuture::Value(None))
            .argument(oa)
            .argument(InputValue::new("b", int()).default_value(async_graphql::Value::from(7)))
            .argument(InputValue::new("c", list_int()).default_value(null.clone()))
            .argument(InputValue::new("d", TypeRef::named(TypeRef::BOOLEAN)).default_value(null.clone()));
        if loc == "field" { of = of.directive(directive(args)); }
        let mut o = Object::new("O").implement("I").field(of)
            .field(Field::new("g", TypeRef::NonNull(Box::new(TypeRef::List(Box::new(TypeRef::named_nn("E"))))), |_| FieldFuture::Value(None)));
        if loc == "object" { o = o.directive(directive(args)); }
        // Query
        let q = Object::new("Query")
            .field(Field::new("q", TypeRef::named("I"), |_| FieldFuture::Value(None))
                .argument(InputValue::new("x", TypeRef::named("X")))
                .argument(InputValue::new("n", TypeRef::named("X")).default_value(null.clone())))
            .field(Field::new("u", TypeRef::named("U"), |_| FieldFuture::Value(None)))
            .field(Field::new("s", TypeRef::named("S"), |_| FieldFuture::Value(None)));
        // S, U, X
        let mut s = Scalar::new("S").specified_by_url("http://x");
        if loc == "scalar" { s = s.directive(directive(args)); }
        let mut u = Union::new("U").possible_type("O");
        if loc == "union" { u = u.directive(directive(args)); }
        let mut xx = InputValue::new("x", TypeRef::named(TypeRef::STRING));
        if loc == "inputField" { xx = xx.directive(directive(args)); }
        let mut x = InputObject::new("X").field(xx)
            .field(InputValue::new("y", TypeRef::named_nn(TypeRef::INT)).default_value(async_graphql::Value::from(1)))
            .field(InputValue::new("z", int()).default_value(null.clone()))
            .field(InputValue::new("w", TypeRef::List(Box::new(TypeRef::named_nn("E")))).default_value(null));
        if loc == "inputObject" { x = x.directive(directive(args)); }
        Schema::build("Query", None, None).register(e).register(i).register(o).register(q).register(s).register(u).register(x).finish()
    }
}

fn guarded<T>(f: impl FnOnce() -> T) -> Result<T, String> {
    catch_unwind(AssertUnwindSafe(f)).map_err(|_| LAST_PANIC.with(|p| p.borrow().clone()))
}

fn main() {
    let args: Vec<String> = std::env::args().collect();
    if args.len() < 3 { tool_error("usage: c17 <cases.ndjson> <out.ndjson>"); }
    std::panic::set_hook(Box::new(|info| {
        let msg = info.to_string();
        LAST_PANIC.with(|p| *p.borrow_mut() = msg.chars().take(300).collect());
    }));
    let _ = Value::Null;
    let cases = read_ndjson(&args[1]);
    let mut out = NdWriter::create(&args[2]);
    let (mut exported, mut parsed) = (0usize, 0usize);
    for case in &cases {
        let opts = options_of(&case["opts"]);
        let flavour = case["flavour"].as_str().unwrap_or("dynamic");
        let mut ts = case["ts"].clone();
        let sdl: Result<Option<String>, String> = if let Some(name) = flavour.strip_prefix("static:") {
            ts = c17_static::mirror(name);
            guarded(|| Some(c17_static::sdl(name, opts)))
        } else if flavour == "applied" {
            let (loc, args) = (case["applied"]["loc"].as_str().unwrap_or("").to_string(), case["applied"]["args"].clone());
            guarded(|| Some(applied::schema(&loc, &args).unwrap_or_else(|e| tool_error(&format!("applied schema does not build: {e}"))).sdl_with_options(opts)))
        } else {
            guarded(|| ts_build::builder_of(&ts).finish().ok().map(|s| s.sdl_with_options(opts)))
        };
        let mut o = json!({"id": case["id"], "src": case["src"], "slot": case["slot"], "flavour": flavour, "opts": case["opts"], "ts": ts,
                           "built": false, "panic": "", "parse_error": "", "facts": [], "sdl": "", "unlocated": 0});
        match sdl {
            Err(p) => o["panic"] = json!(p),
            Ok(None) => {}
            Ok(Some(text)) => {
                exported += 1;
                o["built"] = json!(true);
                let chars: Vec<char> = text.chars().collect();
                match guarded(|| parse_schema(&text)) {
                    Err(p) => o["panic"] = json!(format!("parse_schema: {p}")),
                    Ok(Err(e)) => o["parse_error"] = json!(e.to_string().chars().take(200).collect::<String>()),
                    Ok(Ok(doc)) => {
                        parsed += 1;
                        let (facts, unlocated) = facts_of(&doc, &chars);
                        o["facts"] = J::Array(facts);
                        o["unlocated"] = json!(unlocated);
                    }
                }
                if std::env::var("VERIF_DUMP").is_ok() { eprintln!("{text}"); }
                o["sdl"] = json!(text);
            }
        }
        out.write(&o);
    }
    out.finish();
    println!("{}", json!({"cases": cases.len(), "exported": exported, "parsed": parsed}));
}
