//! ndjson case / observation I/O.
use serde_json::Value;
use std::io::{BufRead, BufWriter, Write};

pub fn read_ndjson(path: &str) -> Vec<Value> {
    let f = std::fs::File::open(path).unwrap_or_else(|e| tool_error(&format!("open {path}: {e}")));
    std::io::BufReader::new(f)
        .lines()
        .map(|l| l.unwrap())
        .filter(|l| !l.trim().is_empty())
        .map(|l| serde_json::from_str(&l).unwrap_or_else(|e| tool_error(&format!("bad json line in {path}: {e}"))))
        .collect()
}

pub struct NdWriter(BufWriter<std::fs::File>);
impl NdWriter {
    pub fn create(path: &str) -> Self {
        NdWriter(BufWriter::new(std::fs::File::create(path).unwrap_or_else(|e| tool_error(&format!("create {path}: {e}")))))
    }
    pub fn write(&mut self, v: &Value) {
        serde_json::to_writer(&mut self.0, v).unwrap();
        self.0.write_all(b"\n").unwrap();
    }
    pub fn finish(mut self) {
        self.0.flush().unwrap();
    }
}

/// Tool errors never look like verdicts: exit code 2.
pub fn tool_error(msg: &str) -> ! {
    eprintln!("TOOL-ERROR: {msg}");
    std::process::exit(2)
}
