//! Dynamic schemas built at run time from a JSON type system (DESIGN appendix A) with the same
//! data-driven resolvers as the static family.  Here a resolver can also return *nothing* for a
//! non-null type (`{"k":"nothing"}`) or a value of the wrong kind.
use crate::world::Req;
use async_graphql::dynamic::*;
use async_graphql::{Context, Error, Name, Value};
use serde_json::{Value as J, json};
use std::sync::Arc;

pub fn type_ref(t: &J) -> TypeRef {
    match t["k"].as_str().unwrap_or("named") {
        "named" => TypeRef::Named(t["n"].as_str().unwrap_or("Int").to_string().into()),
        "list" => TypeRef::List(Box::new(type_ref(&t["of"]))),
        _ => TypeRef::NonNull(Box::new(type_ref(&t["of"]))),
    }
}

fn path_of(ctx: &Context<'_>) -> J {
    match ctx.path_node {
        Some(node) => match serde_json::to_value(node) {
            Ok(J::Array(a)) => J::Array(a.into_iter().map(|x| if x.is_number() { json!(format!("#{x}")) } else { x }).collect()),
            _ => json!([]),
        },
        None => json!([]),
    }
}

/// Parent object id: the `String` carried by the parent FieldValue, or the root object.
fn parent_id(ctx: &ResolverContext<'_>, root_id: &str) -> Option<String> {
    match ctx.parent_value.downcast_ref::<String>() {
        Some(s) => Some(s.clone()),
        None => if ctx.parent_value.as_value().map(|v| matches!(v, Value::Null)).unwrap_or(false) && !root_id.is_empty() { Some(root_id.to_string()) } else { None },
    }
}

fn leaf_value(w: &J) -> Value {
    match w["k"].as_str().unwrap_or("null") {
        "int" => w["v"].as_str().and_then(|s| s.parse::<i64>().ok()).map(Value::from).unwrap_or(Value::Null),
        "float" => match w["v"].as_str() {
            Some("nan") => Value::from(f64::NAN), Some("inf") => Value::from(f64::INFINITY), Some("ninf") => Value::from(f64::NEG_INFINITY),
            Some(s) => s.parse::<f64>().map(Value::from).unwrap_or(Value::Null), None => Value::Null },
        "str" => Value::String(w["v"].as_str().unwrap_or("").to_string()),
        "bool" => Value::Boolean(w["v"].as_bool().unwrap_or(false)),
        "enum" => Value::Enum(Name::new(w["v"].as_str().unwrap_or("X"))),
        _ => Value::Null,
    }
}

/// outcome -> FieldValue (None = "no value")
fn field_value(w: &J, abstract_named: bool) -> Result<Option<FieldValue<'static>>, Error> {
    Ok(match w["k"].as_str().unwrap_or("null") {
        "err" | "guard" => return Err(Error::new("boom")),
        "nothing" | "null" => None,
        "ref" => {
            let v = FieldValue::owned_any(w["id"].as_str().unwrap_or("").to_string());
            Some(if abstract_named { v.with_type(w["ty"].as_str().unwrap_or("").to_string()) } else { v })
        }
        "list" => {
            let mut items = Vec::new();
            for it in w["items"].as_array().map(|a| a.as_slice()).unwrap_or(&[]) {
                match it["k"].as_str().unwrap_or("null") {
                    // an error inside a list cannot be expressed per item with the dynamic API: the resolver fails as a whole
                    "err" | "guard" => return Err(Error::new("boom")),
                    _ => items.push(field_value(it, abstract_named)?.unwrap_or(FieldValue::NULL)),
                }
            }
            Some(FieldValue::list(items))
        }
        _ => Some(FieldValue::value(leaf_value(w))),
    })
}

fn named(t: &J) -> String { let mut t = t; while t["k"] != "named" { t = &t["of"]; } t["n"].as_str().unwrap_or("").to_string() }

pub fn builder(ts: &J) -> Result<SchemaBuilder, String> {
    let q = ts["query"].as_str().unwrap_or("Query").to_string();
    let m = ts["mutation"].as_str().filter(|s| !s.is_empty()).map(|s| s.to_string());
    let s = ts["subscription"].as_str().filter(|s| !s.is_empty()).map(|s| s.to_string());
    let mut b = Schema::build(&q, m.as_deref(), s.as_deref());
    let types = ts["types"].as_object().ok_or("ts.types missing")?;
    // ts.federation: keyed objects (def.key), the library's own _Entity / _entities / _service, and an entity
    // resolver that turns a representation {__typename, id} into the object with that id
    let federation = ts["federation"].as_bool().unwrap_or(false);
    if federation {
        b = b.enable_federation().entity_resolver(|ctx| {
            FieldFuture::new(async move {
                let reps = ctx.args.try_get("representations")?.list()?;
                let mut out = Vec::new();
                for r in reps.iter() {
                    let o = r.object()?;
                    let ty = o.try_get("__typename")?.string()?.to_string();
                    let id = o.try_get("id")?.string()?.to_string();
                    out.push(FieldValue::owned_any(id).with_type(ty));
                }
                Ok(Some(FieldValue::list(out)))
            })
        });
    }
    for (name, def) in types {
        if federation && name.starts_with('_') { continue; }
        match def["kind"].as_str().unwrap_or("") {
            "OBJECT" => {
                let mut o = Object::new(name.as_str());
                if let Some(k) = def["key"].as_str() { o = o.key(k); }
                for i in def["implements"].as_array().map(|a| a.as_slice()).unwrap_or(&[]) { o = o.implement(i.as_str().unwrap()); }
                let root_id = if *name == q { "root" } else if Some(name) == m.as_ref() { "mroot" } else { "" };
                for (fname, fdef) in def["fields"].as_object().ok_or("fields missing")? {
                    if federation && fname.starts_with('_') { continue; }
                    let nt = named(&fdef["ty"]);
                    let abstract_named = matches!(types.get(&nt).and_then(|d| d["kind"].as_str()), Some("INTERFACE") | Some("UNION"));
                    let fname2 = fname.clone();
                    let root_id = root_id.to_string();
                    o = o.field(Field::new(fname.as_str(), type_ref(&fdef["ty"]), move |ctx| {
                        let fname = fname2.clone();
                        let root_id = root_id.clone();
                        FieldFuture::new(async move {
                            let req = ctx.data_unchecked::<Arc<Req>>().clone();
                            let id = parent_id(&ctx, &root_id).ok_or_else(|| Error::new("harness: resolver called without a parent object"))?;
                            let w = if fname == "id" && req.world.get(&id).and_then(|o| o.get("vals")).and_then(|v| v.get("id")).is_none() { json!({"k": "str", "v": id}) } else { req.lookup(&id, &fname) };
                            let call = req.bump(&format!("{id}.{fname}"));
                            req.event(json!({"ev": "start", "obj": id, "field": fname, "path": path_of(ctx.ctx), "call": call, "view": crate::fam::views(ctx.ctx)}));
                            if let Some(g) = w.get("gate").and_then(|g| g.as_u64()) { if g != 0 { let _ = req.gate(g).await; } }
                            let items = w.get("items").and_then(|i| i.as_array()).map(|a| a.len() as i64).unwrap_or(-1);
                            req.event(json!({"ev": "finish", "obj": id, "field": fname, "path": path_of(ctx.ctx), "call": call, "items": items}));
                            field_value(&w, abstract_named)
                        })
                    }));
                }
                b = b.register(o);
            }
            "INTERFACE" => {
                let mut i = Interface::new(name.as_str());
                for x in def["implements"].as_array().map(|a| a.as_slice()).unwrap_or(&[]) { i = i.implement(x.as_str().unwrap()); }
                for (fname, fdef) in def["fields"].as_object().ok_or("fields missing")? { i = i.field(InterfaceField::new(fname.as_str(), type_ref(&fdef["ty"]))); }
                b = b.register(i);
            }
            "UNION" => {
                let mut u = Union::new(name.as_str());
                for x in def["members"].as_array().map(|a| a.as_slice()).unwrap_or(&[]) { u = u.possible_type(x.as_str().unwrap()); }
                b = b.register(u);
            }
            "ENUM" => {
                let mut e = Enum::new(name.as_str());
                for x in def["values"].as_array().map(|a| a.as_slice()).unwrap_or(&[]) { e = e.item(x.as_str().unwrap()); }
                b = b.register(e);
            }
            "SCALAR" => { b = b.register(Scalar::new(name.as_str()).validator(|v| matches!(v, Value::String(_)))); }
            other => return Err(format!("unsupported kind {other}")),
        }
    }
    Ok(b)
}

pub fn build(ts: &J) -> Result<Schema, String> { builder(ts)?.finish().map_err(|e| e.to_string()) }
