//! Shared harness code for the TLA+-driven verification of async-graphql.
pub mod io;
