//! Shared harness code for the TLA+-driven verification of async-graphql.
pub mod io;
pub mod world;
pub mod resp;
pub mod fam;
pub mod exec;
pub mod doc;
pub mod dynfam;
pub mod mirror;
