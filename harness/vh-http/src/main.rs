fn main() { println!("vh-http skeleton"); }
