//! C35 harness: drives the five bundled web-framework integrations of async-graphql *in process*
//! with real HTTP request objects and records, per cell of the TLC-generated matrix
//! (spec/conc/HttpMethod.tla), the HTTP status, whether each response carries `errors`, and how often
//! the mutation / query resolvers ran.  It only drives and records; TLC (HttpMethodTrace.tla) judges.
//!
//! usage: c35 <cells.ndjson> <obs.ndjson>
//!
//! cell: {"id":n,"integ":"axum|actix-web|poem|warp|rocket","entry":"service|single|batch",
//!        "method":"GET|POST","accept":"json|mixed",
//!        "qs":[request]   (0 or 1: the request in the query string),
//!        "body":[request] (JSON body: 0 none, 1 an object, >=2 an array; GET cells may carry one too)}
//! request: {"doc":[{"type":..,"name":..}],"opk":"absent|empty|given","op":".."}
//!
//! The tokio current-thread runtime (and actix's System) only carries the frameworks' own plumbing:
//! nothing about scheduling is checked here.

use std::convert::Infallible;
use std::io::{BufRead, BufReader, BufWriter, Write};
use std::sync::atomic::{AtomicUsize, Ordering};

use async_graphql::{EmptySubscription, Object, Schema};
use serde_json::{Value, json};

static BUMPS: AtomicUsize = AtomicUsize::new(0); // side effect of the mutation resolver
static PINGS: AtomicUsize = AtomicUsize::new(0); // runs of the query resolver

struct QueryRoot;
#[Object]
impl QueryRoot {
    async fn ping(&self, by: i32) -> i32 {
        PINGS.fetch_add(1, Ordering::SeqCst);
        by
    }
}
struct MutationRoot;
#[Object]
impl MutationRoot {
    async fn bump(&self, by: i32) -> i32 {
        BUMPS.fetch_add(by as usize, Ordering::SeqCst);
        by
    }
}
type S = Schema<QueryRoot, MutationRoot, EmptySubscription>;

fn tool_error(msg: &str) -> ! {
    eprintln!("c35: {msg}");
    std::process::exit(2)
}

// ---------------------------------------------------------------------------------------------
// rendering of a cell into an HTTP request
// ---------------------------------------------------------------------------------------------

fn render_doc(doc: &Value) -> String {
    let mut parts = Vec::new();
    for op in doc.as_array().unwrap_or_else(|| tool_error("doc is not an array")) {
        let ty = op["type"].as_str().unwrap_or("");
        let name = op["name"].as_str().unwrap_or("");
        let field = match ty {
            "query" => "ping",
            "mutation" => "bump",
            _ => tool_error("unknown operation type"),
        };
        // an anonymous operation renders as `mutation ($by: Int!) { .. }`
        parts.push(format!("{ty} {name}($by: Int!) {{ {field}(by: $by) }}"));
    }
    parts.join(" ")
}

fn pct(s: &str) -> String {
    let mut out = String::new();
    for b in s.bytes() {
        if b.is_ascii_alphanumeric() || matches!(b, b'-' | b'_' | b'.' | b'~') {
            out.push(b as char);
        } else {
            out.push_str(&format!("%{b:02X}"));
        }
    }
    out
}

const VARIABLES: &str = r#"{"by":1}"#;

struct Wire {
    method: String,
    path: String,         // route of the entry
    uri: String,          // path plus query string (if the cell has one)
    body: Option<String>, // JSON body (POST; also sent along with GET cells that carry one)
    accept: Option<&'static str>,
}

const ACCEPT_MIXED: &str = r#"multipart/mixed; boundary="graphql"; subscriptionSpec="1.0""#;

/// operationName of a request: absent | present but empty | given
fn op_name(it: &Value) -> Option<String> {
    match it["opk"].as_str().unwrap_or("") {
        "absent" => None,
        "empty" => Some(String::new()),
        "given" => Some(it["op"].as_str().unwrap_or_else(|| tool_error("op missing")).to_string()),
        _ => tool_error("bad opk"),
    }
}

fn json_request(it: &Value) -> Value {
    let mut o = serde_json::Map::new();
    o.insert("query".into(), json!(render_doc(&it["doc"])));
    if let Some(n) = op_name(it) {
        o.insert("operationName".into(), json!(n));
    }
    o.insert("variables".into(), serde_json::from_str(VARIABLES).unwrap());
    Value::Object(o)
}

fn wire(cell: &Value) -> Wire {
    let integ = cell["integ"].as_str().unwrap_or("");
    let entry = cell["entry"].as_str().unwrap_or("");
    let method = cell["method"].as_str().unwrap_or("").to_string();
    let qs = cell["qs"].as_array().unwrap_or_else(|| tool_error("qs missing"));
    let items = cell["body"].as_array().unwrap_or_else(|| tool_error("body missing"));
    let path = match entry {
        "service" => "/",
        "single" => "/single",
        "batch" => "/batch",
        _ => tool_error("unknown entry"),
    }
    .to_string();
    if entry == "service" && !matches!(integ, "axum" | "actix-web" | "poem") {
        tool_error("no ready-made service in this integration");
    }
    let accept = match cell["accept"].as_str().unwrap_or("") {
        "json" => None,
        "mixed" if entry == "service" => Some(ACCEPT_MIXED),
        _ => tool_error("bad accept"),
    };
    if method != "GET" && method != "POST" {
        tool_error("unknown method");
    }
    if qs.len() > 1 || (method == "POST" && (!qs.is_empty() || items.is_empty())) {
        tool_error("bad cell");
    }
    // query string: query, operationName (absent | empty | name), variables
    let uri = match qs.first() {
        None => path.clone(),
        Some(it) => {
            let mut q = format!("query={}", pct(&render_doc(&it["doc"])));
            if let Some(n) = op_name(it) {
                q.push_str(&format!("&operationName={}", pct(&n)));
            }
            q.push_str(&format!("&variables={}", pct(VARIABLES)));
            format!("{path}?{q}")
        }
    };
    // JSON body: one request = an object, two or more = an array
    let reqs: Vec<Value> = items.iter().map(json_request).collect();
    let body = match reqs.len() {
        0 => None,
        1 => Some(reqs[0].to_string()),
        _ => Some(Value::Array(reqs).to_string()),
    };
    Wire { method, path, uri, body, accept }
}

// ---------------------------------------------------------------------------------------------
// the five integrations
// ---------------------------------------------------------------------------------------------

mod ax {
    use super::S;
    use async_graphql_axum::{GraphQL, GraphQLBatchRequest, GraphQLRequest, GraphQLResponse};
    use axum::{Router, body::Body, extract::State, routing::get};
    use tower::ServiceExt;

    async fn single(State(schema): State<S>, req: GraphQLRequest) -> GraphQLResponse {
        schema.execute(req.into_inner()).await.into()
    }
    async fn batch(State(schema): State<S>, req: GraphQLBatchRequest) -> GraphQLResponse {
        schema.execute_batch(req.into_inner()).await.into()
    }
    pub fn app(schema: S) -> Router {
        Router::new()
            .route_service("/", GraphQL::new(schema.clone()))
            .route("/single", get(single).post(single))
            .route("/batch", get(batch).post(batch))
            .with_state(schema)
    }
    pub async fn call(app: &Router, w: &super::Wire) -> (u16, Vec<u8>) {
        let mut b = http::Request::builder().method(w.method.as_str()).uri(w.uri.as_str());
        if let Some(a) = w.accept {
            b = b.header("accept", a);
        }
        let body = match &w.body {
            Some(s) => {
                b = b.header("content-type", "application/json");
                Body::from(s.clone())
            }
            None => Body::empty(),
        };
        let req = b.body(body).unwrap_or_else(|e| super::tool_error(&format!("axum request: {e}")));
        let resp = match app.clone().oneshot(req).await {
            Ok(r) => r,
            Err(e) => match e {},
        };
        let status = resp.status().as_u16();
        let bytes = axum::body::to_bytes(resp.into_body(), usize::MAX)
            .await
            .unwrap_or_else(|e| super::tool_error(&format!("axum body: {e}")));
        (status, bytes.to_vec())
    }
}

mod ac {
    use super::S;
    use actix_web::{App, test, web};
    use async_graphql_actix_web::{GraphQL, GraphQLBatchRequest, GraphQLRequest, GraphQLResponse};

    async fn single(schema: web::Data<S>, req: GraphQLRequest) -> GraphQLResponse {
        schema.execute(req.into_inner()).await.into()
    }
    async fn batch(schema: web::Data<S>, req: GraphQLBatchRequest) -> GraphQLResponse {
        schema.execute_batch(req.into_inner()).await.into()
    }
    /// runs all actix cells inside one actix System (tokio current-thread runtime + LocalSet)
    pub fn run(schema: S, wires: Vec<(usize, super::Wire)>, mut sink: impl FnMut(usize, &super::Wire, u16, Vec<u8>, (usize, usize))) {
        actix_web::rt::System::new().block_on(async move {
            let app = test::init_service(
                App::new()
                    .app_data(web::Data::new(schema.clone()))
                    .service(web::resource("/").to(GraphQL::new(schema.clone())))
                    .service(web::resource("/single").to(single))
                    .service(web::resource("/batch").to(batch)),
            )
            .await;
            for (k, w) in wires {
                let mut req = match w.method.as_str() {
                    "GET" => test::TestRequest::get().uri(&w.uri),
                    _ => test::TestRequest::post().uri(&w.uri),
                };
                if let Some(b) = &w.body {
                    req = req.insert_header(("content-type", "application/json")).set_payload(b.clone());
                }
                if let Some(a) = w.accept {
                    req = req.insert_header(("accept", a));
                }
                let req = req.to_request();
                let before = super::counters();
                let (status, body) = match test::try_call_service(&app, req).await {
                    Ok(resp) => {
                        let status = resp.status().as_u16();
                        (status, test::read_body(resp).await.to_vec())
                    }
                    Err(e) => {
                        let resp = e.error_response();
                        (resp.status().as_u16(), Vec::new())
                    }
                };
                sink(k, &w, status, body, before);
            }
        });
    }
}

mod po {
    use super::S;
    use async_graphql_poem::{GraphQL, GraphQLBatchRequest, GraphQLBatchResponse, GraphQLRequest, GraphQLResponse};
    use poem::{Endpoint, EndpointExt, Request, Route, get, handler, web::Data};

    #[handler]
    async fn single(schema: Data<&S>, req: GraphQLRequest) -> GraphQLResponse {
        GraphQLResponse(schema.execute(req.0).await)
    }
    #[handler]
    async fn batch(schema: Data<&S>, req: GraphQLBatchRequest) -> GraphQLBatchResponse {
        GraphQLBatchResponse(schema.execute_batch(req.0).await)
    }
    pub fn app(schema: S) -> impl Endpoint<Output = poem::Response> {
        Route::new()
            .at("/", get(GraphQL::new(schema.clone())).post(GraphQL::new(schema.clone())))
            .at("/single", get(single).post(single))
            .at("/batch", get(batch).post(batch))
            .data(schema)
            .map_to_response()
    }
    pub async fn call(app: &impl Endpoint<Output = poem::Response>, w: &super::Wire) -> (u16, Vec<u8>) {
        let uri: poem::http::Uri = w.uri.parse().unwrap_or_else(|_| super::tool_error("poem uri"));
        let method: poem::http::Method = w.method.parse().unwrap_or_else(|_| super::tool_error("poem method"));
        let mut b = Request::builder().method(method).uri(uri);
        if let Some(a) = w.accept {
            b = b.header("accept", a);
        }
        let req = match &w.body {
            Some(s) => b.content_type("application/json").body(s.clone()),
            None => b.finish(),
        };
        let resp = app.get_response(req).await;
        let status = resp.status().as_u16();
        let body = resp.into_body().into_vec().await.unwrap_or_default();
        (status, body)
    }
}

mod wa {
    use super::{Infallible, S};
    use async_graphql::{BatchRequest, Request};
    use async_graphql_warp::{GraphQLBatchResponse, GraphQLResponse, graphql, graphql_batch};
    use warp::Filter;

    pub async fn call(schema: &S, w: &super::Wire) -> (u16, Vec<u8>) {
        let single = warp::path("single").and(graphql(schema.clone())).and_then(
            |(schema, request): (S, Request)| async move {
                Ok::<_, Infallible>(GraphQLResponse::from(schema.execute(request).await))
            },
        );
        let batch = warp::path("batch").and(graphql_batch(schema.clone())).and_then(
            |(schema, request): (S, BatchRequest)| async move {
                Ok::<_, Infallible>(GraphQLBatchResponse::from(schema.execute_batch(request).await))
            },
        );
        let routes = single.or(batch);
        let mut req = warp::test::request().method(w.method.as_str()).path(w.uri.as_str());
        if let Some(s) = &w.body {
            req = req.header("content-type", "application/json").body(s.clone());
        }
        let resp = req.reply(&routes).await;
        (resp.status().as_u16(), resp.body().to_vec())
    }
}

mod rk {
    use super::S;
    use async_graphql_rocket::{GraphQLBatchRequest, GraphQLQuery, GraphQLRequest, GraphQLResponse};
    use rocket::{State, http::ContentType, local::asynchronous::Client};

    #[rocket::get("/single?<query..>")]
    async fn get_query(schema: &State<S>, query: GraphQLQuery) -> GraphQLResponse {
        query.execute(schema.inner()).await
    }
    #[rocket::post("/single", data = "<request>")]
    async fn single(schema: &State<S>, request: GraphQLRequest) -> GraphQLResponse {
        request.execute(schema.inner()).await
    }
    #[rocket::post("/batch", data = "<request>")]
    async fn batch(schema: &State<S>, request: GraphQLBatchRequest) -> GraphQLResponse {
        request.execute(schema.inner()).await
    }
    pub async fn client(schema: S) -> Client {
        let figment = rocket::Config::figment().merge(("log_level", "off"));
        let r = rocket::custom(figment).manage(schema).mount("/", rocket::routes![get_query, single, batch]);
        Client::untracked(r).await.unwrap_or_else(|e| super::tool_error(&format!("rocket client: {e}")))
    }
    pub async fn call(client: &Client, w: &super::Wire) -> (u16, Vec<u8>) {
        let mut req = if w.method == "GET" { client.get(w.uri.clone()) } else { client.post(w.uri.clone()) };
        if let Some(s) = &w.body {
            req = req.header(ContentType::JSON).body(s.clone());
        }
        let resp = req.dispatch().await;
        let status = resp.status().code;
        let body = resp.into_bytes().await.unwrap_or_default();
        (status, body)
    }
}

// ---------------------------------------------------------------------------------------------

fn counters() -> (usize, usize) {
    (BUMPS.load(Ordering::SeqCst), PINGS.load(Ordering::SeqCst))
}

fn has_errors(v: &Value) -> bool {
    v.get("errors").and_then(|e| e.as_array()).map(|a| !a.is_empty()).unwrap_or(false)
}

fn observe(cell: &Value, w: &Wire, status: u16, body: Vec<u8>, before: (usize, usize)) -> Value {
    let after = counters();
    let text = String::from_utf8_lossy(&body).to_string();
    let parsed: Option<Value> = serde_json::from_slice(&body).ok();
    // one flag per response of the body; no JSON body (a plain rejection) -> no flags
    let errs: Vec<bool> = match &parsed {
        Some(Value::Array(a)) => a.iter().map(has_errors).collect(),
        Some(v @ Value::Object(_)) => vec![has_errors(v)],
        // multipart/mixed; boundary=graphql: one flag per JSON part, heartbeats ({}) skipped
        _ if text.contains("--graphql") => text
            .lines()
            .filter(|l| l.starts_with('{'))
            .filter_map(|l| serde_json::from_str::<Value>(l).ok())
            .filter(|v| v.as_object().map(|o| !o.is_empty()).unwrap_or(false))
            .map(|v| has_errors(&v))
            .collect(),
        _ => vec![],
    };
    let mut o = cell.as_object().cloned().unwrap_or_default();
    o.insert("path".into(), json!(w.path));
    o.insert("url".into(), json!(w.uri));
    o.insert("payload".into(), json!(w.body.clone().unwrap_or_default()));
    o.insert("status".into(), json!(status));
    o.insert("errs".into(), json!(errs));
    o.insert("effects".into(), json!(after.0 - before.0));
    o.insert("reads".into(), json!(after.1 - before.1));
    o.insert("response".into(), json!(text.chars().take(240).collect::<String>()));
    Value::Object(o)
}

fn main() {
    let args: Vec<String> = std::env::args().collect();
    if args.len() != 3 {
        tool_error("usage: c35 <cells.ndjson> <obs.ndjson>");
    }
    let f = std::fs::File::open(&args[1]).unwrap_or_else(|e| tool_error(&format!("open {}: {e}", args[1])));
    let mut cells: Vec<Value> = Vec::new();
    for ln in BufReader::new(f).lines() {
        let ln = ln.unwrap_or_else(|e| tool_error(&format!("read: {e}")));
        if ln.trim().is_empty() {
            continue;
        }
        cells.push(serde_json::from_str(&ln).unwrap_or_else(|e| tool_error(&format!("bad cell json: {e}"))));
    }
    let schema: S = Schema::build(QueryRoot, MutationRoot, EmptySubscription).finish();
    let mut out: Vec<Option<Value>> = vec![None; cells.len()];

    // axum, poem, warp, rocket: one small current-thread tokio runtime (driving only)
    let rt = tokio::runtime::Builder::new_current_thread()
        .enable_all()
        .build()
        .unwrap_or_else(|e| tool_error(&format!("tokio runtime: {e}")));
    rt.block_on(async {
        let ax_app = ax::app(schema.clone());
        let po_app = po::app(schema.clone());
        let mut rk_client = None;
        for (k, cell) in cells.iter().enumerate() {
            let integ = cell["integ"].as_str().unwrap_or("");
            if integ == "actix-web" {
                continue;
            }
            let w = wire(cell);
            let before = counters();
            let (status, body) = match integ {
                "axum" => ax::call(&ax_app, &w).await,
                "poem" => po::call(&po_app, &w).await,
                "warp" => wa::call(&schema, &w).await,
                "rocket" => {
                    if rk_client.is_none() {
                        rk_client = Some(rk::client(schema.clone()).await);
                    }
                    rk::call(rk_client.as_ref().unwrap(), &w).await
                }
                _ => tool_error("unknown integration"),
            };
            out[k] = Some(observe(cell, &w, status, body, before));
        }
    });
    drop(rt);

    // actix-web: its own System
    let wires: Vec<(usize, Wire)> = cells
        .iter()
        .enumerate()
        .filter(|(_, c)| c["integ"].as_str() == Some("actix-web"))
        .map(|(k, c)| (k, wire(c)))
        .collect();
    if !wires.is_empty() {
        let cells_ref = &cells;
        let out_ref = &mut out;
        ac::run(schema.clone(), wires, |k, w, status, body, before| {
            out_ref[k] = Some(observe(&cells_ref[k], w, status, body, before));
        });
    }

    let f = std::fs::File::create(&args[2]).unwrap_or_else(|e| tool_error(&format!("create {}: {e}", args[2])));
    let mut wr = BufWriter::new(f);
    for o in out {
        let o = o.unwrap_or_else(|| tool_error("cell without observation"));
        writeln!(wr, "{}", o).unwrap_or_else(|e| tool_error(&format!("write: {e}")));
    }
    wr.flush().unwrap_or_else(|e| tool_error(&format!("flush: {e}")));
}
