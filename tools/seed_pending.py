#!/usr/bin/env python3
"""tools/seed_pending.py: print seed_queue.sh lines ("ID n pkg check") for delivered seeded changes
(/tmp/mutants/out/<ID>/m<n>.{diff,json,_demo.rs}) that have not been processed yet (no work/seeded/<ID>-m<n>.confirm.txt)."""
import glob, json, os, re
root = os.path.dirname(os.path.dirname(os.path.abspath(__file__)))
for j in sorted(glob.glob("/tmp/mutants/out/C*/m*.json")):
    m = re.match(r".*/(C\d+)/m(\d+)\.json", j)
    pid, n = m.group(1), m.group(2)
    if not (os.path.exists(j[:-5] + ".diff") and os.path.exists(j[:-5] + "_demo.rs")):
        continue
    if os.path.exists(os.path.join(root, "work", "seeded", "%s-m%s.confirm.txt" % (pid, n))):
        continue
    try:
        pkg = json.load(open(j)).get("package") or "async-graphql"
    except Exception:
        pkg = "async-graphql"
    if not pkg.startswith("async-graphql"):
        pkg = "async-graphql"
    print(pid, n, pkg, pid)
