#!/bin/sh
# tools/confirm_seeded.sh <ID> <n> [crate]  -- confirm a seeded change delivered in /tmp/mutants/out/<ID>/m<n>.diff:
#   the demonstration passes on the unchanged tree and fails with the change (scratch worktree, private target dir).
# Prints CONFIRMED / NOT-CONFIRMED.  Everything is removed afterwards except /tmp/seed-target (reused build cache,
# only ever used by one run at a time).
set -u
ID="$1"; N="$2"; PKG="${3:-async-graphql}"
OUT=/tmp/mutants/out/$ID
W=/tmp/seed-$ID-$N
git -C /repo worktree remove --force "$W" >/dev/null 2>&1
git -C /repo worktree add -q --detach "$W" HEAD || exit 2
trap 'git -C /repo worktree remove --force "$W" >/dev/null 2>&1' EXIT
case "$PKG" in
  async-graphql) TD="$W/tests" ;;
  async-graphql-parser) TD="$W/parser/tests" ;;
  async-graphql-value) TD="$W/value/tests" ;;
  async-graphql-derive) TD="$W/tests"; PKG=async-graphql ;;
  async-graphql-*) TD="$W/integrations/${PKG#async-graphql-}/tests" ;;
esac
mkdir -p "$TD"; cp "$OUT/m${N}_demo.rs" "$TD/mutant_demo_$N.rs"
# one build cache per queue (SEED_TARGET), seeded from the shared one; never shared between concurrent runs
export CARGO_TARGET_DIR="${SEED_TARGET:-/tmp/seed-target}"
if [ ! -d "$CARGO_TARGET_DIR" ] && [ -d /tmp/seed-target ]; then cp -a /tmp/seed-target "$CARGO_TARGET_DIR"; fi
cd "$W"
FEAT=""
[ "$PKG" = "async-graphql" ] && FEAT="--features dataloader,tokio,apollo_persisted_queries"
echo "--- without the change"
cargo test --offline -p "$PKG" $FEAT --test mutant_demo_$N 2>&1 | tail -5
cargo test --offline -p "$PKG" $FEAT --test mutant_demo_$N >/dev/null 2>&1; A=$?
git apply "$OUT/m$N.diff" || { echo "NOT-CONFIRMED (patch does not apply)"; exit 1; }
# make sure cargo sees the change (mtime granularity / shared target dir)
sleep 2; git diff --name-only | xargs -r touch; touch src/lib.rs parser/src/lib.rs value/src/lib.rs derive/src/lib.rs
echo "--- with the change"
cargo test --offline -p "$PKG" $FEAT --test mutant_demo_$N 2>&1 | tail -8
cargo test --offline -p "$PKG" $FEAT --test mutant_demo_$N >/dev/null 2>&1; B=$?
if [ $A -eq 0 ] && [ $B -ne 0 ]; then echo "CONFIRMED $ID m$N"; else echo "NOT-CONFIRMED $ID m$N (without=$A with=$B)"; fi
