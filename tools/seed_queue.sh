#!/bin/sh
# tools/seed_queue.sh <file>: each line "ID n pkg check1 check2 ..." -> confirm the demo, then run the checks.
ROOT="$(cd "$(dirname "$0")/.." && pwd)"
mkdir -p "$ROOT/work/seeded"
while read ID n PKG CHECKS; do
  [ -n "$ID" ] || continue
  d=/tmp/mutants/out/$ID/m$n.diff
  "$ROOT/tools/confirm_seeded.sh" "$ID" "$n" "$PKG" > "$ROOT/work/seeded/$ID-m$n.confirm.txt" 2>&1
  for c in $CHECKS; do
    "$ROOT/tools/mutant_run.sh" "$c" "$d" > "$ROOT/work/seeded/$ID-m$n.$c.txt" 2>&1
    echo "$ID m$n $c rc=$? $(grep -c '^VIOLATION' "$ROOT/work/seeded/$ID-m$n.$c.txt") violations; $(tail -1 "$ROOT/work/seeded/$ID-m$n.confirm.txt")"
  done
done < "$1"
