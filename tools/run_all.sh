#!/bin/sh
# tools/run_all.sh [tier]: run every claimed check once (default seed) and summarise; regenerates evidence/.
cd "$(dirname "$0")/.."
TIER="${1:-quick}"
mkdir -p work/tmp
for m in checks/C*.manifest.json; do
  id=$(basename "$m" .manifest.json)
  start=$(date +%s)
  ./check "$id" --tier "$TIER" > "work/tmp/all_$id.txt" 2>&1
  rc=$?
  echo "$id rc=$rc $(( $(date +%s) - start ))s $(grep -c '^VIOLATION' work/tmp/all_$id.txt) violations $(grep -c '^KNOWN-FINDING' work/tmp/all_$id.txt) known"
done
