#!/bin/sh
# tools/mutant_run.sh <Cxx> <patch.diff> [check args...]
# Runs ./check Cxx against a *scratch copy* of /repo with the patch applied, without touching /repo
# (other checks may be running against /repo at the same time).  Everything lives under
# /tmp/mut-<Cxx>-$$ and is removed afterwards.
set -e
PID_="$1"; PATCH="$(realpath "$2")"; shift 2
ROOT="$(cd "$(dirname "$0")/.." && pwd)"
S="/tmp/mut-$PID_-$$"
rm -rf "$S"; mkdir -p "$S"
trap 'git -C /repo worktree remove --force "$S/repo" >/dev/null 2>&1 || true; rm -rf "$S" "$ROOT/work/$PID_-mut$$" "$ROOT/work/$PID_-mut$$.json"' EXIT
git -C /repo worktree add -q --detach "$S/repo" HEAD
git -C "$S/repo" apply "$PATCH"
mkdir -p "$S/harness"
cp -a "$ROOT/harness/Cargo.toml" "$ROOT/harness/Cargo.lock" "$ROOT/harness/.cargo" "$ROOT/harness/vh" "$ROOT/harness/vh-http" "$S/harness/"
sed -i "s#path = \"/repo#path = \"$S/repo#g" "$S/harness/vh/Cargo.toml" "$S/harness/vh-http/Cargo.toml"
# warm start: reuse the compiled third-party dependencies
if [ -d "$ROOT/harness/target" ]; then cp -a "$ROOT/harness/target" "$S/harness/target" 2>/dev/null || true; fi
cd "$ROOT"
VERIF_HARNESS_DIR="$S/harness" VERIF_WORK_SUFFIX="-mut$$" ./check "$PID_" "$@"
