#!/usr/bin/env python3
"""tools/seed_record.py: collect every delivered mutant that the lead confirmed (work/seeded/<ID>-m<n>.confirm.txt ends with
CONFIRMED) into /verif/seeded/<ID>-m<n>/ {patch.diff, demo.rs, meta.json}; meta.json records which checks were run
against it and whether they reported a violation."""
import glob, json, os, re, shutil
root = os.path.dirname(os.path.dirname(os.path.abspath(__file__)))
out = {}
for conf in sorted(glob.glob(os.path.join(root, "work", "seeded", "*.confirm.txt"))):
    m = re.match(r"(C\d+)-m(\d+)\.confirm\.txt", os.path.basename(conf))
    pid, n = m.group(1), m.group(2)
    tail = open(conf).read().strip().splitlines()[-1] if os.path.getsize(conf) else ""
    if not tail.startswith("CONFIRMED"):
        continue
    src = "/tmp/mutants/out/%s" % pid
    if not os.path.exists("%s/m%s.diff" % (src, n)):
        continue
    d = os.path.join(root, "seeded", "%s-m%s" % (pid, n))
    os.makedirs(d, exist_ok=True)
    shutil.copy("%s/m%s.diff" % (src, n), os.path.join(d, "patch.diff"))
    shutil.copy("%s/m%s_demo.rs" % (src, n), os.path.join(d, "demo.rs"))
    meta = {}
    try:
        meta = json.load(open("%s/m%s.json" % (src, n)))
    except Exception:
        pass
    checks = {}
    for res in sorted(glob.glob(os.path.join(root, "work", "seeded", "%s-m%s.C*.txt" % (pid, n)))):
        c = os.path.basename(res).split(".")[1]
        txt = open(res).read()
        viol = len(re.findall(r"^VIOLATION", txt, re.M))
        tool = "TOOL-ERROR" in txt
        checks[c] = {"violations_printed": viol, "caught": viol > 0, "tool_error": tool,
                     "summary": (txt.strip().splitlines() or [""])[-1][:300]}
    meta_out = {"property": pid, "what": meta.get("what", ""), "needs": meta.get("needs", ""),
                "delivered_by": "fresh sub-agent given only the property text and a scratch worktree",
                "agent_ran": meta.get("ran", []),
                "lead_confirmed": "tools/confirm_seeded.sh %s %s: demonstration passes on the unchanged tree, fails with the patch" % (pid, n),
                "checks_run": checks}
    json.dump(meta_out, open(os.path.join(d, "meta.json"), "w"), indent=1)
    out["%s-m%s" % (pid, n)] = {c: v["caught"] for c, v in checks.items()}
print(json.dumps(out, indent=1))
