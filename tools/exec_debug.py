#!/usr/bin/env python3
"""tools/exec_debug.py <trace.ndjson> <case id> [mode]: print observed vs reference for one recorded case."""
import json, os, sys
sys.path.insert(0, os.path.join(os.path.dirname(os.path.abspath(__file__)), "..", "lib"))
import vlib
trace, cid = sys.argv[1], int(sys.argv[2])
mode = sys.argv[3] if len(sys.argv) > 3 else "data"
case = [json.loads(l) for l in open(trace) if json.loads(l)["id"] == cid][0]
os.makedirs(os.path.join(vlib.ROOT, "work", "debug"), exist_ok=True)
p = os.path.join(vlib.ROOT, "work", "debug", "one.ndjson")
vlib.write_ndjson(p, [case])
v = vlib.run_tlc("gql/ExecTrace.tla", "gql/ExecTrace.cfg", env={"TRACE": p, "SCHEMA": os.path.join(vlib.ROOT, "schemas", "exec.json"), "MODE": mode, "DEBUG": "1"}, workers=1)
print("text   :", case["text"], case["vars"])
print("verdict:", v.tagged("VERDICT"))
for t in v.tagged("EXPECTED"):
    e = json.loads(t[2])
    print("expect :", json.dumps(e["val"]))
    print("   req :", json.dumps(e["req"]), " opt:", json.dumps(e["opt"]))
print("observe:", json.dumps(case["obs"]["data"]))
print("errors :", json.dumps(case["obs"]["errors"]))
