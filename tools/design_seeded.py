#!/usr/bin/env python3
"""Print the 'which check catches which seeded change' table (DESIGN.md 10.7) from seeded/*/meta.json."""
import glob, json, os
root = os.path.dirname(os.path.dirname(os.path.abspath(__file__)))
print("| seeded change | what (needs) | caught by | run but silent |")
print("|---|---|---|---|")
for d in sorted(glob.glob(os.path.join(root, "seeded", "*"))):
    m = json.load(open(os.path.join(d, "meta.json")))
    caught = [c for c, v in m["checks_run"].items() if v["caught"]]
    silent = [c for c, v in m["checks_run"].items() if not v["caught"]]
    what = (m.get("what", "") + " — needs: " + m.get("needs", "")).replace("|", "\\|").replace("\n", " ")
    print("| %s | %s | %s | %s |" % (os.path.basename(d), what[:420], ", ".join(caught) or "**none**", ", ".join(silent) or "-"))
