#!/bin/sh
# tools/seed_lane.sh <lane>: keep processing delivered seeded changes (tools/seed_pending.py) one at a time until
# /tmp/mutants/STOP exists; a change is claimed by creating its confirm file first, so several lanes can run.
ROOT="$(cd "$(dirname "$0")/.." && pwd)"
LANE="$1"
export SEED_TARGET=/tmp/seed-target-$LANE
mkdir -p "$ROOT/work/seeded" "$ROOT/work/tmp"
while [ ! -f /tmp/mutants/STOP ]; do
  line=$(python3 "$ROOT/tools/seed_pending.py" | head -1)
  if [ -z "$line" ]; then sleep 60; continue; fi
  set -- $line
  echo claimed > "$ROOT/work/seeded/$1-m$2.confirm.txt"
  echo "$line" > "$ROOT/work/tmp/lane-$LANE.txt"
  "$ROOT/tools/seed_queue.sh" "$ROOT/work/tmp/lane-$LANE.txt" >> "$ROOT/work/tmp/lane-$LANE.log" 2>&1
done
