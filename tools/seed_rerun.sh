#!/bin/sh
# tools/seed_rerun.sh <file>: lines "ID n check..." -> run the checks against an already confirmed seeded change again
ROOT="$(cd "$(dirname "$0")/.." && pwd)"
while read ID n CHECKS; do
  [ -n "$ID" ] || continue
  d=/tmp/mutants/out/$ID/m$n.diff
  for c in $CHECKS; do
    "$ROOT/tools/mutant_run.sh" "$c" "$d" > "$ROOT/work/seeded/$ID-m$n.$c.txt" 2>&1
    echo "$ID m$n $c rc=$? $(grep -c '^VIOLATION' "$ROOT/work/seeded/$ID-m$n.$c.txt") violations (rerun)"
  done
done < "$1"
