#!/usr/bin/env python3
"""Print the per-property status table for DESIGN.md section 10.6 from manifests and known-findings files."""
import glob, json, os
root = os.path.dirname(os.path.dirname(os.path.abspath(__file__)))
props = [json.loads(l) for l in open(os.path.join(root, "properties.jsonl")) if l.strip()]
print("| id | level | spec modules (spec/) | known findings (ids) | fixed |")
print("|---|---|---|---|---|")
for p in props:
    pid = p["id"]
    mf = os.path.join(root, "checks", pid + ".manifest.json")
    if not os.path.exists(mf):
        print("| %s | not claimed | | | |" % pid)
        continue
    m = json.load(open(mf))
    drv = open(os.path.join(root, "checks", pid + ".py")).read()
    import re
    mods = sorted(set(re.findall(r'"((?:gql|conc|lex|common)/[A-Za-z_0-9]+)\.tla"', drv)))
    kf = os.path.join(root, "known_findings", pid + ".json")
    ids, fixed = [], 0
    if os.path.exists(kf):
        d = json.load(open(kf))
        ids = [f["id"] for f in d.get("findings", [])]
        fixed = len(d.get("fixed", []))
    print("| %s | %s | %s | %s | %d |" % (pid, m["level_claimed"]["category"], ", ".join(mods), ", ".join(ids) or "-", fixed))
