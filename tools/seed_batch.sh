#!/bin/sh
# tools/seed_batch.sh <ID> "<checks to run>" [crate] : for every delivered mutant of property ID confirm the
# demonstration and run the listed checks against it; results under work/seeded/.
ID="$1"; CHECKS="$2"; PKG="${3:-async-graphql}"
ROOT="$(cd "$(dirname "$0")/.." && pwd)"
mkdir -p "$ROOT/work/seeded"
for d in /tmp/mutants/out/$ID/m*.diff; do
  [ -f "$d" ] || continue
  n=$(basename "$d" .diff | sed 's/^m//')
  "$ROOT/tools/confirm_seeded.sh" "$ID" "$n" "$PKG" > "$ROOT/work/seeded/$ID-m$n.confirm.txt" 2>&1
  for c in $CHECKS; do
    "$ROOT/tools/mutant_run.sh" "$c" "$d" > "$ROOT/work/seeded/$ID-m$n.$c.txt" 2>&1
    echo "$ID m$n $c rc=$? $(grep -c '^VIOLATION' "$ROOT/work/seeded/$ID-m$n.$c.txt") violations; $(tail -1 "$ROOT/work/seeded/$ID-m$n.confirm.txt")"
  done
done
