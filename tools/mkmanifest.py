#!/usr/bin/env python3
"""Assemble MANIFEST.json from checks/Cxx.manifest.json fragments (one per claimed property)."""
import glob, json, os
root = os.path.dirname(os.path.dirname(os.path.abspath(__file__)))
props = [json.loads(l)["id"] for l in open(os.path.join(root, "properties.jsonl")) if l.strip()]
na_reasons = json.load(open(os.path.join(root, "checks", "not_applicable.json")))
checks, claimed = [], set()
for f in sorted(glob.glob(os.path.join(root, "checks", "C*.manifest.json"))):
    frag = json.load(open(f))
    pid = frag["property_id"]
    if not os.path.exists(os.path.join(root, "checks", pid + ".py")):
        continue
    claimed.add(pid)
    entry = {
        "property_id": pid,
        "quick_cmd": "./check %s --tier quick" % pid,
        "thorough_cmd": "./check %s --tier thorough" % pid,
        "evidence_file": "/verif/evidence/%s.json" % pid,
        "engine": "tlc+vh",
        "level_claimed": frag["level_claimed"],
        "level_note": frag["level_note"],
        "technique": frag["technique"],
    }
    # only drivers that implement --replay advertise it
    if "c.replay" in open(os.path.join(root, "checks", pid + ".py")).read():
        entry["replay_cmd_template"] = "./check %s --replay {path}" % pid
    checks.append(entry)
hooks = json.load(open(os.path.join(root, "checks", "hooks.json")))
man = {
    "version": 1,
    "setup_cmd": "./setup.sh",
    "hooks": hooks,
    "engines": [{"name": "tlc+vh", "path": "/verif/check",
                 "serves_properties": sorted(claimed),
                 "kind_free_text": "explicit TLA+ specification (spec/) checked with TLC; bound to /repo by the Rust harness (harness/vh): TLC-generated cases/schedules are replayed into the real library and recorded observations are validated by TLC trace specs"}],
    "checks": checks,
    "notes": "See DESIGN.md. Exit 0 = held (possibly with KNOWN-FINDING lines), 1 = VIOLATION, 2 = tool error.",
    "not_applicable": [{"property_id": p, "reason": na_reasons.get(p, "check not built yet in this round (see DESIGN.md section 9 build order)")}
                       for p in props if p not in claimed],
}
json.dump(man, open(os.path.join(root, "MANIFEST.json"), "w"), indent=1)
print("claimed", len(claimed), "not_applicable", len(man["not_applicable"]))
