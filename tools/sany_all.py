#!/usr/bin/env python3
import os, sys
sys.path.insert(0, os.path.join(os.path.dirname(os.path.abspath(__file__)), "..", "lib"))
import vlib
from concurrent.futures import ThreadPoolExecutor
mods = []
for d in vlib.spec_dirs():
    for f in sorted(os.listdir(d)):
        if f.endswith(".tla"):
            mods.append(os.path.join(d, f))
bad = 0
with ThreadPoolExecutor(8) as ex:
    for m, (ok, out) in zip(mods, ex.map(vlib.sany, mods)):
        if not ok:
            bad += 1
            print("SANY FAILED", m); print(out[-2000:])
print("sany: %d modules, %d failed" % (len(mods), bad))
sys.exit(1 if bad else 0)
