"""Case assembly for the execution-semantics checks (C01 C02 C03 C04 C05 C22 C30):
flat pre-order documents printed by spec/gql/Gen_Doc.tla -> tree documents (DESIGN appendix A),
seeded data worlds over a type system, variable supply forms, fault injection."""
import copy
import json
import random


def named(ty):
    while ty["k"] != "named":
        ty = ty["of"]
    return ty["n"]


def kind(ts, t):
    return ts["types"][t]["kind"] if t in ts["types"] else "SCALAR"


def possible(ts, t):
    k = kind(ts, t)
    if k == "OBJECT":
        return [t]
    if k == "INTERFACE":
        return sorted(o for o, d in ts["types"].items() if d["kind"] == "OBJECT" and t in d["implements"])
    if k == "UNION":
        return list(ts["types"][t]["members"])
    return []


def parse_dir(d):
    """'skip:$s' / 'include:true' -> directive record"""
    if not d:
        return []
    out = []
    for one in d.split(","):      # several directives on one selection: 'skip:false,include:$s'
        name, val = one.split(":")
        if val.startswith("$"):
            v = {"k": "var", "name": val[1:]}
        else:
            v = {"k": "bool", "v": val == "true"}
        out.append({"name": name, "val": v})
    return out


def tree_from_flat(flat, op_type="query"):
    """flat: [{d,k,name,alias,on,dir}] in pre-order. 'spread' nodes become named fragments F1, F2, ..."""
    frags = []
    root = []
    stack = [(0, root)]  # (depth of owner node, list receiving children)
    nid = [0]
    for n in flat:
        d = n["d"]
        while stack and stack[-1][0] >= d:
            stack.pop()
        parent = stack[-1][1]
        dirs = parse_dir(n.get("dir", ""))
        if n["k"] == "field":
            nid[0] += 1
            node = {"k": "field", "name": n["name"], "alias": n.get("alias", ""), "args": n.get("args", []), "dirs": dirs,
                    "sels": [], "nid": nid[0], "line": 0, "col": 0}
            parent.append(node)
            stack.append((d, node["sels"]))
        elif n["k"] == "inline":
            node = {"k": "inline", "on": n["on"], "dirs": dirs, "sels": []}
            parent.append(node)
            stack.append((d, node["sels"]))
        else:  # spread -> named fragment
            name = "F%d" % (len(frags) + 1)
            fr = {"name": name, "on": n["on"], "dirs": [], "sels": []}
            frags.append(fr)
            parent.append({"k": "spread", "name": name, "dirs": dirs})
            stack.append((d, fr["sels"]))
    return {"ops": [{"name": "", "ty": op_type, "vars": [], "dirs": [], "sels": root}], "frags": frags}


def uses_var(doc, name="s"):
    return ('"k": "var", "name": "%s"' % name) in json.dumps(doc)


def var_forms(doc, rng=None):
    """All ways to define/supply the Boolean variable $s used by @skip/@include."""
    if not uses_var(doc):
        return [([], [])]
    B = {"k": "named", "n": "Boolean"}
    NB = {"k": "nn", "of": B}
    forms = []
    for val in (True, False):
        forms.append(([{"name": "s", "ty": NB, "hasDefault": False, "default": {"k": "bool", "v": False}}],
                      [{"name": "s", "val": {"k": "bool", "v": val}}]))
        # default used because the variable is omitted
        forms.append(([{"name": "s", "ty": B, "hasDefault": True, "default": {"k": "bool", "v": val}}], []))
        # default overridden by a supplied value
        forms.append(([{"name": "s", "ty": NB, "hasDefault": True, "default": {"k": "bool", "v": not val}}],
                      [{"name": "s", "val": {"k": "bool", "v": val}}]))
    return forms


LEAVES = {
    "Int": lambda r: {"k": "int", "v": str(r.choice([0, 1, -1, 7, 2147483647, -2147483648]))},
    "Float": lambda r: {"k": "float", "v": r.choice(["1.5", "-2.0", "0.1", "1e300"])},
    "String": lambda r: {"k": "str", "v": r.choice(["", "x", "héllo", "q\"uote"])},
    "ID": lambda r: {"k": "str", "v": r.choice(["id1", "42"])},
    "Boolean": lambda r: {"k": "bool", "v": r.choice([True, False])},
}


class WorldGen:
    def __init__(self, ts, rng, objects=None, p_null=0.2, p_err=0.0, p_nonfinite=0.0, max_list=3, p_invalid=0.0, p_nothing=0.0):
        self.ts, self.r = ts, rng
        self.p_null, self.p_err, self.p_nonfinite, self.max_list = p_null, p_err, p_nonfinite, max_list
        self.p_invalid, self.p_nothing = p_invalid, p_nothing
        self.dyn_lists = False
        # object ids per object type
        self.objects = objects or {"root": ts["query"], "a1": "A", "a2": "A", "b1": "B"}
        if ts["types"].get("S", {}).get("simple") and "S" not in self.objects.values():
            self.objects["s1"] = "S"
        if ts.get("mutation"):
            self.objects.setdefault("mroot", ts["mutation"])

    def ids_of(self, t):
        poss = set(possible(self.ts, t))
        return sorted(i for i, ty in self.objects.items() if ty in poss and i not in ("root", "mroot"))

    def value(self, ty, top=True):
        r = self.r
        if ty["k"] == "nn":
            return self.inner(ty["of"])
        if r.random() < self.p_null:
            return {"k": "null"}
        return self.inner(ty)

    def inner(self, ty):
        r = self.r
        if self.p_err and r.random() < self.p_err:
            return {"k": "err"}
        if ty["k"] == "nn":
            return self.inner(ty["of"])
        if ty["k"] == "list":
            of = ty["of"]
            if self.dyn_lists and self.p_err:
                # the dynamic API cannot fail a single list item (a resolver returns the whole list or an error)
                saved, self.p_err = self.p_err, 0.0
                try:
                    return self.inner(ty)
                finally:
                    self.p_err = saved
            if self.dyn_lists and of["k"] != "nn" and named(of) not in LEAVES:
                # the dynamic API cannot express a null item of object/abstract/enum/custom-scalar type
                # (FieldValue::NULL is also the placeholder parent of objects): generate non-null items
                return {"k": "list", "items": [self.inner(of) for _ in range(r.randint(0, self.max_list))]}
            return {"k": "list", "items": [self.value(of) for _ in range(r.randint(0, self.max_list))]}
        n = ty["n"]
        k = kind(self.ts, n)
        if k in ("OBJECT", "INTERFACE", "UNION"):
            ids = self.ids_of(n)
            i = r.choice(ids)
            return {"k": "ref", "id": i, "ty": self.objects[i]}
        if self.p_nothing and r.random() < self.p_nothing:
            return {"k": "nothing"}
        if self.p_invalid and r.random() < self.p_invalid:
            # a value of the wrong kind for the declared leaf type (dynamic schemas only)
            if k == "ENUM":
                return {"k": "enum", "v": "PURPLE"}
            if n in ("Int", "Float", "Boolean"):
                return {"k": "str", "v": "wrong"}
            if n == "String":
                return {"k": "int", "v": "5"}
            if n not in LEAVES:
                return {"k": "int", "v": "5"}
        if k == "ENUM":
            return {"k": "enum", "v": r.choice(self.ts["types"][n]["values"])}
        if n == "Float" and self.p_nonfinite and r.random() < self.p_nonfinite:
            return {"k": "float", "v": r.choice(["nan", "inf", "ninf"])}
        if n in LEAVES:
            return LEAVES[n](r)
        return {"k": "str", "v": "custom"}

    def world(self):
        w = {}
        for i, t in sorted(self.objects.items()):
            vals = {}
            # derive(SimpleObject) types ("simple"): generated resolvers cannot fail
            saved = self.p_err
            if self.ts["types"][t].get("simple"):
                self.p_err = 0.0
            for f, d in sorted(self.ts["types"][t]["fields"].items()):
                if f in ("id", "sid"):
                    vals[f] = {"k": "str", "v": i}
                else:
                    vals[f] = self.value(d["ty"])
            self.p_err = saved
            w[i] = {"type": t, "vals": vals}
        return w


def resolved_positions(ts, doc, world):
    """(not an oracle) rough walk used only to choose fault positions: yields (objId, field) pairs reachable
    from the operation's root selections, ignoring directives/type conditions."""
    out = []
    frag = {f["name"]: f for f in doc["frags"]}

    def walk(sels, oid, depth, seen):
        if depth > 6:
            return
        for s in sels:
            if s["k"] == "field":
                if s["name"] == "__typename":
                    continue
                t = world[oid]["type"]
                if s["name"] not in ts["types"][t]["fields"]:
                    continue
                if not ts["types"][t].get("simple"):
                    out.append((oid, s["name"]))
                for rid in refs(world[oid]["vals"].get(s["name"], {"k": "null"})):
                    walk(s["sels"], rid, depth + 1, seen)
            elif s["k"] == "inline":
                walk(s["sels"], oid, depth, seen)
            elif s["name"] in frag and s["name"] not in seen:
                walk(frag[s["name"]]["sels"], oid, depth, seen | {s["name"]})

    def refs(w):
        if w["k"] == "ref":
            return [w["id"]]
        if w["k"] == "list":
            return [x for it in w["items"] for x in refs(it)]
        return []

    op = doc["ops"][0]
    walk(op["sels"], "mroot" if op["ty"] == "mutation" else "root", 0, frozenset())
    seen, uniq = set(), []
    for p in out:
        if p not in seen:
            seen.add(p)
            uniq.append(p)
    return uniq


class DocGen:
    """Seeded random *valid* documents over all fields of a type system (bigger than Gen_Doc's bound):
    aliases, repeated keys, inline fragments / named fragments on every overlapping type condition,
    nested fragments, @skip/@include with literals and the variable $s."""

    def __init__(self, ts, rng, max_depth=4, max_items=4, p_dir=0.15, p_frag=0.25, p_alias=0.2):
        self.ts, self.r = ts, rng
        self.max_depth, self.max_items = max_depth, max_items
        self.p_dir, self.p_frag, self.p_alias = p_dir, p_frag, p_alias
        self.p_dup = 0.2

    def dirs(self):
        if self.r.random() >= self.p_dir:
            return ""
        one = self.r.choice(["skip:$s", "include:$s", "skip:true", "skip:false", "include:true", "include:false"])
        if self.r.random() < 0.3:
            # both directives on one selection (in either order): included iff @skip is false AND @include is true
            other = self.r.choice(["$s", "true", "false"])
            return one + "," + ("include:" if one.startswith("skip") else "skip:") + other
        return one

    def conds(self, t):
        pt = set(possible(self.ts, t))
        out = []
        for c, d in self.ts["types"].items():
            if d["kind"] in ("OBJECT", "INTERFACE", "UNION") and pt & set(possible(self.ts, c)) and c not in (self.ts["query"], self.ts.get("mutation"), self.ts.get("subscription")):
                out.append(c)
        return sorted(out)

    def sels(self, t, depth, flat, budget):
        """append a non-empty selection set for static type t at depth `depth`"""
        r = self.r
        n = r.randint(1, self.max_items)
        made = 0
        for _ in range(n):
            if budget[0] <= 0 and made > 0:
                break
            k = kind(self.ts, t)
            can_frag = depth < self.max_depth and r.random() < self.p_frag
            if can_frag:
                conds = self.conds(t)
                c = r.choice(conds + [""]) if conds else ""
                fk = r.choice(["inline", "spread"]) if c else "inline"
                flat.append({"d": depth, "k": fk, "name": "", "alias": "", "on": c, "dir": self.dirs()})
                budget[0] -= 1
                self.sels(c or t, depth + 1, flat, budget)
                made += 1
                continue
            fields = sorted(self.ts["types"][t]["fields"]) if k in ("OBJECT", "INTERFACE") else []
            f = r.choice(fields + ["__typename"])
            alias = r.choice(["x", "y", "n", "id"]) if r.random() < self.p_alias else ""
            if f == "__typename":
                flat.append({"d": depth, "k": "field", "name": f, "alias": alias, "on": "", "dir": self.dirs()})
                budget[0] -= 1
                made += 1
                continue
            ft = named(self.ts["types"][t]["fields"][f]["ty"])
            comp = kind(self.ts, ft) in ("OBJECT", "INTERFACE", "UNION")
            if comp and depth >= self.max_depth:
                continue
            flat.append({"d": depth, "k": "field", "name": f, "alias": alias, "on": "", "dir": self.dirs()})
            budget[0] -= 1
            made += 1
            if comp:
                self.sels(ft, depth + 1, flat, budget)
                # the same response key again with another sub-selection: the two must be merged (also below)
                if r.random() < self.p_dup and budget[0] > 0:
                    flat.append({"d": depth, "k": "field", "name": f, "alias": alias, "on": "", "dir": ""})
                    budget[0] -= 1
                    self.sels(ft, depth + 1, flat, budget)
        if made == 0:
            flat.append({"d": depth, "k": "field", "name": "__typename", "alias": "", "on": "", "dir": ""})

    def doc(self, root, op_type="query", budget=14):
        flat = []
        self.sels(root, 1, flat, [budget])
        return tree_from_flat(flat, op_type)


def conflicting_keys(ts, doc):
    """True if two fields that can land in the same response object share a response key but differ in
    field name (5.3.2 would reject it).  Conservative: compares by key within one selection set tree,
    following fragments, ignoring type conditions."""
    frag = {f["name"]: f for f in doc["frags"]}

    def collect(sels, acc, seen):
        for s in sels:
            if s["k"] == "field":
                acc.append(s)
            elif s["k"] == "inline":
                collect(s["sels"], acc, seen)
            elif s["name"] in frag and s["name"] not in seen:
                collect(frag[s["name"]]["sels"], acc, seen | {s["name"]})

    def check(sels):
        acc = []
        collect(sels, acc, frozenset())
        by = {}
        for f in acc:
            by.setdefault(f["alias"] or f["name"], []).append(f)
        for k, fs in by.items():
            if len({f["name"] for f in fs}) > 1:
                return True
            merged = [x for f in fs for x in f["sels"]]
            if merged and check(merged):
                return True
        return False

    if any(check(op["sels"]) for op in doc["ops"]):
        return True
    return False


def random_ts(rng, n_obj=4):
    """Seeded random small type system for dynamic schemas: objects, interfaces (incl. interface
    inheritance), unions, an enum, a custom scalar.  Always valid (interface fields are copied into
    implementors with identical types)."""
    def nm(n): return {"k": "named", "n": n}
    def wrap(t):
        x = rng.random()
        if x < 0.45: return t
        if x < 0.6: return {"k": "nn", "of": t}
        if x < 0.75: return {"k": "list", "of": t}
        if x < 0.85: return {"k": "list", "of": {"k": "nn", "of": t}}
        if x < 0.90: return {"k": "nn", "of": {"k": "list", "of": {"k": "nn", "of": t}}}
        if x < 0.94: return {"k": "nn", "of": {"k": "list", "of": t}}
        # nested lists: [[T]], [[T!]!], [[T]!]!
        if x < 0.96: return {"k": "list", "of": {"k": "list", "of": t}}
        if x < 0.98: return {"k": "list", "of": {"k": "nn", "of": {"k": "list", "of": {"k": "nn", "of": t}}}}
        return {"k": "nn", "of": {"k": "list", "of": {"k": "nn", "of": {"k": "list", "of": t}}}}
    def F(ty): return {"ty": ty, "outer": False, "guard": False, "gen": True}
    types = {}
    types["Color"] = {"kind": "ENUM", "fields": {}, "implements": [], "members": [], "values": ["RED", "GREEN", "BLUE"][:rng.randint(2, 3)]}
    types["Stamp"] = {"kind": "SCALAR", "fields": {}, "implements": [], "members": [], "values": []}
    objs = ["O%d" % i for i in range(1, n_obj + 1)]
    ifaces = ["I1"] + (["I2"] if rng.random() < 0.6 else [])
    unions = ["U1"] + (["U2"] if rng.random() < 0.4 else [])
    leafs = ["Int", "Float", "String", "Boolean", "ID", "Color", "Stamp"]
    comps = objs + ifaces + unions
    def rand_fields(k):
        fs = {}
        for j in range(k):
            t = rng.choice(leafs) if rng.random() < 0.55 else rng.choice(comps)
            fs["f%d" % (j + 1)] = F(wrap(nm(t)))
        return fs
    i1 = {"id": F({"k": "nn", "of": nm("ID")})}
    i1.update({("i1" + k): v for k, v in rand_fields(rng.randint(1, 2)).items()})
    types["I1"] = {"kind": "INTERFACE", "fields": i1, "implements": [], "members": [], "values": []}
    if "I2" in ifaces:
        i2 = dict(i1)
        i2.update({("i2" + k): v for k, v in rand_fields(1).items()})
        types["I2"] = {"kind": "INTERFACE", "fields": i2, "implements": ["I1"], "members": [], "values": []}
    for o in objs:
        fields = {"id": F({"k": "nn", "of": nm("ID")})}
        impl = []
        x = rng.random()
        if "I2" in ifaces and x < 0.3:
            impl = ["I2", "I1"]
        elif x < 0.7:
            impl = ["I1"]
        for i in impl:
            fields.update(json.loads(json.dumps(types[i]["fields"])))
        fields.update(rand_fields(rng.randint(1, 3)))
        types[o] = {"kind": "OBJECT", "fields": fields, "implements": impl, "members": [], "values": []}
    if not any("I1" in types[o]["implements"] for o in objs):
        types[objs[0]]["implements"] = ["I1"]
        types[objs[0]]["fields"].update(json.loads(json.dumps(i1)))
    if "I2" in ifaces and not any("I2" in types[o]["implements"] for o in objs):
        types[objs[-1]]["implements"] = ["I2", "I1"]
        types[objs[-1]]["fields"].update(json.loads(json.dumps(types["I2"]["fields"])))
    for u in unions:
        types[u] = {"kind": "UNION", "fields": {}, "implements": [], "members": sorted(rng.sample(objs, rng.randint(1, min(3, len(objs))))), "values": []}
    q = {}
    for j, t in enumerate(rng.sample(comps, min(len(comps), rng.randint(3, 5)))):
        q["q%d" % (j + 1)] = F(wrap(nm(t)))
    q["n"] = F(nm("Int"))
    types["Query"] = {"kind": "OBJECT", "fields": q, "implements": [], "members": [], "values": []}
    objects = {"root": "Query"}
    for o in objs:
        objects[o.lower() + "a"] = o
        objects[o.lower() + "b"] = o
    return {"types": types, "query": "Query", "mutation": "", "subscription": ""}, objects


def wrapping_docs():
    """Hand-picked documents over the exec family that reach a non-null leaf / object below every list and
    nullability wrapping ([T!]!, [T!], [T], T!, T) -- the generators reach them only occasionally."""
    def f(d, name, alias=""): return {"d": d, "k": "field", "name": name, "alias": alias, "on": "", "dir": ""}
    def on(d, t): return {"d": d, "k": "inline", "name": "", "alias": "", "on": t, "dir": ""}
    docs = [
        [f(1, "nodes"), on(2, "A"), f(3, "nn"), f(2, "id")],
        [f(1, "nodes"), on(2, "A"), f(3, "selfNN"), f(4, "nn")],
        [f(1, "a"), f(2, "kidsNN"), on(3, "A"), f(4, "nn"), f(2, "n")],
        [f(1, "a"), f(2, "kids"), on(3, "A"), f(4, "fnn"), f(2, "n")],
        [f(1, "a"), f(2, "opt"), f(3, "nn"), f(3, "n"), f(2, "id")],
        [f(1, "us"), on(2, "A"), f(3, "nn"), on(2, "B"), f(3, "b")],
        [f(1, "ann"), f(2, "kidsNN"), f(3, "id"), on(3, "A"), f(4, "selfNN"), f(5, "nn"), f(1, "n")],
        [f(1, "ann"), f(2, "selfNN"), f(3, "kidsNN"), on(4, "A"), f(5, "nn")],
        [f(1, "node"), on(2, "A"), f(3, "kidsNN"), f(4, "peer"), f(5, "id"), f(3, "nn")],
        [f(1, "u"), on(2, "A"), f(3, "opt"), f(4, "selfNN"), f(5, "fnn")],
        [f(1, "a"), f(2, "u"), on(3, "A"), f(4, "kidsNN"), on(5, "A"), f(6, "nn"), f(2, "fail"), f(2, "guarded")],
        [f(1, "nn"), f(1, "a"), f(2, "nn"), f(2, "e"), f(2, "f"), f(2, "label")],
        # repeated response keys whose values must be merged two levels down (objects, and objects inside lists)
        [f(1, "a"), f(2, "self"), f(3, "self"), f(4, "n"), f(2, "self"), f(3, "self"), f(4, "nn"), f(3, "id")],
        [f(1, "nodes"), on(2, "A"), f(3, "self"), f(4, "n"), f(1, "nodes"), on(2, "A"), f(3, "self"), f(4, "nn")],
        [f(1, "a"), f(2, "kidsNN"), f(3, "peer"), f(4, "id"), f(2, "kidsNN"), f(3, "peer"), f(4, "label"), f(3, "id")],
        [f(1, "ann"), f(2, "opt"), f(3, "u"), on(4, "A"), f(5, "n"), f(2, "opt"), f(3, "u"), on(4, "A"), f(5, "nn"), on(4, "B"), f(5, "b")],
        # leaf lists, nested lists, lists of enums; interface inheritance (Entity between Node and the objects)
        [f(1, "a"), f(2, "ints"), f(2, "grid"), f(2, "colors"), f(2, "n")],
        [f(1, "ann"), f(2, "ints"), f(2, "colors"), f(1, "n")],
        [f(1, "nodes"), on(2, "A"), f(3, "grid"), f(3, "ints", "g"), f(2, "id")],
        [f(1, "a"), f(2, "kids"), on(3, "A"), f(4, "colors"), f(4, "grid"), f(2, "ints"), f(2, "ints", "again")],
        [f(1, "entity"), f(2, "id"), on(2, "Node"), f(3, "peer"), on(4, "Entity"), f(5, "label"), on(2, "A"), f(3, "ints")],
        [f(1, "node"), on(2, "Entity"), on(3, "B"), f(4, "b"), on(3, "A"), f(4, "grid"), f(2, "__typename")],
        # @skip and @include on the same selection, each order, each combination that decides differently
        [dict(f(1, "a"), dir="skip:false,include:false"), f(2, "n"), dict(f(1, "n", "k2"), dir="include:true,skip:true"), dict(f(1, "n", "k3"), dir="include:true,skip:false"),
         dict(f(1, "n", "k4"), dir="skip:true,include:true"), dict(f(1, "nn", "k5"), dir="skip:false,include:true"), dict(f(1, "nn", "k6"), dir="include:false,skip:false")],
        [f(1, "node"), dict(on(2, "A"), dir="skip:false,include:false"), f(3, "n"), dict(on(2, "Node"), dir="include:true,skip:true"), f(3, "label"), dict(on(2, "B"), dir="include:true,skip:false"), f(3, "b"), f(2, "id")],
        # plain-fn resolvers below lists and nullable parents
        [f(1, "nodes"), on(2, "A"), f(3, "sy"), f(3, "syo"), f(2, "id")],
        [f(1, "a"), f(2, "sy"), f(2, "kids"), on(3, "A"), f(4, "sy"), f(4, "n"), f(2, "syo", "z")],
        [f(1, "ann"), f(2, "selfNN"), f(3, "sy"), f(2, "opt"), f(3, "sy"), f(3, "syo")],
        # derive(SimpleObject) with a flattened part
        [f(1, "simple"), f(2, "slabel"), f(2, "sid"), f(2, "snn"), f(2, "sints"), f(2, "sb"), f(2, "se"), f(2, "sf"), f(2, "sn"), f(2, "__typename")],
        [f(1, "a"), f(2, "simple"), f(3, "sb", "x"), f(3, "sid"), on(3, "S"), f(4, "sints"), f(4, "slabel"), f(2, "simple", "again"), f(3, "snn"), f(2, "n")],
    ]
    return [tree_from_flat(d, "query") for d in docs]
