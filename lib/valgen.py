"""Case assembly for C09 (validation): expansion of the opaque codes printed by spec/gql/Gen_ValDoc.tla into
abstract documents (G1), seeded random *valid* documents over a type system with arguments / input objects /
variables / directives, and rule-targeted mutations of them (G2).  Nothing here is an oracle: every case is
judged by TLC (spec/gql/ValidationTrace.tla); the generators only have to make each rule's violations likely."""
import copy
import json
import random
import re


# ---------------------------------------------------------------------------------------------------------
# abstract values / types
def I(n): return {"k": "int", "v": str(n)}
def S(s): return {"k": "str", "v": s}
def B(b): return {"k": "bool", "v": b}
def E(v): return {"k": "enum", "v": v}
def V(n): return {"k": "var", "name": n}
def L(*xs): return {"k": "list", "items": list(xs)}
def O(*kv): return {"k": "obj", "entries": [{"key": k, "val": v} for k, v in kv]}
NULL = {"k": "null"}
FL = {"k": "float", "v": "1.5"}


def N(n): return {"k": "named", "n": n}
def NN(t): return {"k": "nn", "of": t}
def LT(t): return {"k": "list", "of": t}


def parse_type(s):
    s = s.strip()
    if s.endswith("!"):
        return NN(parse_type(s[:-1]))
    if s.startswith("["):
        return LT(parse_type(s[1:-1]))
    return N(s)


def type_str(t):
    return t["n"] if t["k"] == "named" else ("[%s]" % type_str(t["of"]) if t["k"] == "list" else type_str(t["of"]) + "!")


def named(t):
    while t["k"] != "named":
        t = t["of"]
    return t["n"]


# value codes usable in Gen_ValDoc pools
VALS = {
    "int1": I(1), "int2": I(2), "str": S("s"), "true": B(True), "false": B(False), "float": FL, "null": NULL,
    "RED": E("RED"), "PURPLE": E("PURPLE"), "sRED": S("RED"), "sPURPLE": S("PURPLE"),
    "$v": V("v"), "$w": V("w"), "$zz": V("zz"),
    "l1": L(I(1)), "l12": L(I(1), I(2)), "lstr": L(S("s")), "lnull": L(NULL), "l$v": L(V("v")), "l$vstr": L(V("v"), S("s")), "lempty": L(),
    "obj": O(("b", S("s"))), "objfull": O(("a", I(1)), ("b", S("s")), ("c", E("RED")), ("l", L(I(1))), ("d", I(2))),
    "objnob": O(("a", I(1))), "objunk": O(("b", S("s")), ("zz", I(1))), "objbad": O(("b", I(1))),
    "objdup": O(("b", S("s")), ("b", S("t"))), "objdupbad": O(("b", S("s")), ("b", I(1))), "objdupgood": O(("b", I(1)), ("b", S("s"))),
    "obj$v": O(("a", V("v")), ("b", S("s"))), "obj$vbad": O(("a", V("v")), ("b", I(1))),
    "objn": O(("b", S("s")), ("n", O(("b", S("t"))))), "objnbad": O(("b", S("s")), ("n", O(("a", I(1))))), "objdnull": O(("b", S("s")), ("d", NULL)),
    "lobj": L(O(("b", S("s")))), "lobj1": L(I(1)),
}


def parse_arg(code):
    name, val = code.split("=", 1)
    return {"name": name, "val": copy.deepcopy(VALS[val])}


def parse_dir(code):
    m = re.match(r"^(\w+)(?:\((.*)\))?$", code)
    args = [parse_arg(a) for a in m.group(2).split(";")] if m.group(2) else []
    return {"name": m.group(1), "args": args}


def parse_var(code):
    name, ty, default, dirs = code.split("|")
    return {"name": name, "ty": parse_type(ty), "hasDefault": default != "", "default": copy.deepcopy(VALS[default]) if default else NULL,
            "dirs": [parse_dir(d) for d in dirs.split("+")] if dirs else []}


def tree_from_sections(secs):
    """secs: Gen_ValDoc sections [{kind, head, on, vars, dirs, nodes:[{d,k,name,alias,on,args,dirs}]}] -> abstract document"""
    ops, frags = [], []
    for s in secs:
        root = []
        stack = [(0, root)]
        for n in s["nodes"]:
            d = n["d"]
            while stack and stack[-1][0] >= d:
                stack.pop()
            parent = stack[-1][1]
            dirs = [parse_dir(x) for x in n["dirs"]]
            if n["k"] == "field":
                node = {"k": "field", "name": n["name"], "alias": n["alias"], "args": [parse_arg(a) for a in n["args"]], "dirs": dirs, "sels": []}
                parent.append(node)
                stack.append((d, node["sels"]))
            elif n["k"] == "inline":
                node = {"k": "inline", "on": n["on"], "dirs": dirs, "sels": []}
                parent.append(node)
                stack.append((d, node["sels"]))
            else:
                parent.append({"k": "spread", "name": n["name"], "dirs": dirs})
        sdirs = [parse_dir(x) for x in s["dirs"]]
        if s["kind"] == "op":
            ty, name = s["head"].split(":")
            ops.append({"name": name, "ty": ty, "vars": [parse_var(v) for v in s["vars"]], "dirs": sdirs, "sels": root})
        else:
            frags.append({"name": s["head"], "on": s["on"], "dirs": sdirs, "sels": root})
    return {"ops": ops, "frags": frags}


# ---------------------------------------------------------------------------------------------------------
# type-system helpers
SCALARS = ("Int", "Float", "String", "Boolean", "ID")


def kind(ts, t):
    return ts["types"][t]["kind"] if t in ts["types"] else ("SCALAR" if t in SCALARS else "NONE")


def possible(ts, t):
    k = kind(ts, t)
    if k == "OBJECT":
        return [t]
    if k == "INTERFACE":
        return sorted(o for o, d in ts["types"].items() if d["kind"] == "OBJECT" and t in d["implements"])
    if k == "UNION":
        return list(ts["types"][t]["members"])
    return []


def composites(ts):
    roots = (ts["query"], ts.get("mutation"), ts.get("subscription"))
    return sorted(t for t, d in ts["types"].items() if d["kind"] in ("OBJECT", "INTERFACE", "UNION") and t not in roots)


def value_for(ts, ty, rng, depth=0, enum_as="enum"):
    """a literal that is valid for input type ty (enum_as='str' for JSON variable values)"""
    if ty["k"] == "nn":
        return value_for(ts, ty["of"], rng, depth, enum_as)
    if ty["k"] == "list":
        if rng.random() < 0.2:
            return value_for(ts, ty["of"], rng, depth, enum_as)       # a single value coerces to a list
        return L(*[value_for(ts, ty["of"], rng, depth, enum_as) for _ in range(rng.randint(0, 2))])
    n = ty["n"]
    k = kind(ts, n)
    if k == "ENUM":
        v = rng.choice(ts["types"][n]["values"])
        return E(v) if enum_as == "enum" else S(v)
    if k == "INPUT_OBJECT":
        es = []
        for f in ts["types"][n]["inputFields"]:
            req = f["ty"]["k"] == "nn" and not f["hasDefault"]
            if req or (depth < 2 and rng.random() < 0.3):
                es.append((f["name"], value_for(ts, f["ty"], rng, depth + 1, enum_as)))
        return O(*es)
    return {"Int": I(rng.choice([0, 1, 7])), "Float": rng.choice([FL, I(2)]), "String": S(rng.choice(["s", "", "RED"])), "Boolean": B(rng.random() < 0.5),
            "ID": rng.choice([S("id1"), I(5)])}.get(n, S("custom"))


def wrong_value_for(ts, ty, rng):
    """a literal of the wrong kind for ty (chosen so that no coercion rule accepts it)"""
    inner = ty["of"] if ty["k"] == "nn" else ty
    if ty["k"] == "nn" and rng.random() < 0.25:
        return NULL
    if inner["k"] == "list":
        it = inner["of"]
        return rng.choice([L(wrong_value_for(ts, it, rng)), wrong_value_for(ts, it, rng), L(value_for(ts, it, rng), wrong_value_for(ts, it, rng))])
    n = inner["n"]
    k = kind(ts, n)
    if k == "ENUM":
        return rng.choice([E("PURPLE"), S(ts["types"][n]["values"][0]), S("PURPLE"), I(1), B(True)])
    if k == "INPUT_OBJECT":
        good = value_for(ts, inner, rng)
        fields = ts["types"][n]["inputFields"]
        req = [f for f in fields if f["ty"]["k"] == "nn" and not f["hasDefault"]]
        choice = rng.randrange(6)
        if choice == 0:
            return rng.choice([I(1), S("s"), B(True), E("RED")])                       # scalar for input object
        if choice == 1:
            return L(I(1))                                                              # list of scalars for input object
        if choice == 2:
            good["entries"].append({"key": "zz", "val": I(1)})                          # unknown input field
            return good
        if choice == 3 and req:
            good["entries"] = [e for e in good["entries"] if e["key"] != req[0]["name"]]  # required field missing
            return good
        if choice == 4 and good["entries"]:
            e = rng.choice(good["entries"])                                              # duplicated input field
            good["entries"].append({"key": e["key"], "val": copy.deepcopy(e["val"])})
            return good
        f = rng.choice(fields)                                                            # wrong kind inside
        good["entries"] = [e for e in good["entries"] if e["key"] != f["name"]] + [{"key": f["name"], "val": wrong_value_for(ts, f["ty"], rng)}]
        return good
    return {"Int": rng.choice([S("s"), FL, B(True), E("RED")]), "Float": rng.choice([S("s"), B(True)]), "String": rng.choice([I(1), B(False), E("RED")]),
            "Boolean": rng.choice([I(1), S("true")]), "ID": rng.choice([FL, B(True)])}.get(n, NULL)


# ---------------------------------------------------------------------------------------------------------
# seeded random documents that are valid with high probability (TLC decides)
def field(name, sels=(), args=(), dirs=(), alias=""):
    return {"k": "field", "name": name, "alias": alias, "args": list(args), "dirs": list(dirs), "sels": list(sels)}


def inline(on, sels, dirs=()):
    return {"k": "inline", "on": on, "dirs": list(dirs), "sels": list(sels)}


def spread(name, dirs=()):
    return {"k": "spread", "name": name, "dirs": list(dirs)}


def vardef(name, ty, default=None, dirs=()):
    return {"name": name, "ty": ty, "hasDefault": default is not None, "default": default if default is not None else NULL, "dirs": list(dirs)}


class ValidDocGen:
    def __init__(self, ts, rng, max_depth=3, max_items=3, p_var=0.35, p_dir=0.15, p_frag=0.3, p_alias=0.15):
        self.ts, self.r = ts, rng
        self.max_depth, self.max_items = max_depth, max_items
        self.p_var, self.p_dir, self.p_frag, self.p_alias = p_var, p_dir, p_frag, p_alias

    def new_var(self, ty):
        """declare a variable whose type fits a location of type ty exactly (or is stricter)"""
        r = self.r
        name = "v%d" % (len(self.vars) + 1)
        vt = ty
        if ty["k"] != "nn" and r.random() < 0.3:
            vt = NN(ty)                                       # a stricter variable type is allowed
        default = None
        if vt["k"] != "nn" and r.random() < 0.3:
            default = value_for(self.ts, vt, r)
        self.vars.append(vardef(name, vt, default))
        return V(name)

    def arg_value(self, ty):
        if self.allow_vars and self.r.random() < self.p_var:
            return self.new_var(ty)
        return value_for(self.ts, ty, self.r)

    def args_for(self, defs):
        out = []
        for a in defs:
            req = a["ty"]["k"] == "nn" and not a["hasDefault"]
            if req or self.r.random() < 0.6:
                out.append({"name": a["name"], "val": self.arg_value(a["ty"])})
        self.r.shuffle(out)
        return out

    def dirs(self):
        if self.r.random() >= self.p_dir:
            return []
        name = self.r.choice(["skip", "include"])
        val = self.new_var(NN(N("Boolean"))) if self.allow_vars and self.r.random() < 0.4 else B(self.r.random() < 0.5)
        return [{"name": name, "args": [{"name": "if", "val": val}]}]

    def conds(self, t):
        pt = set(possible(self.ts, t))
        return [c for c in composites(self.ts) if pt & set(possible(self.ts, c))]

    def sels(self, t, depth, used):
        """non-empty selection set for static type t; `used` = response keys already taken in this object scope"""
        r = self.r
        out = []
        k = kind(self.ts, t)
        fields = sorted(self.ts["types"][t]["fields"]) if k in ("OBJECT", "INTERFACE") else []
        for _ in range(r.randint(1, self.max_items)):
            if depth < self.max_depth and r.random() < self.p_frag:
                cs = self.conds(t)
                c = r.choice(cs + [""]) if cs else ""
                # fields inside a fragment share the response object: keep keys disjoint (conservative)
                if c and r.random() < 0.5 and self.allow_frags:
                    name = "F%d" % (len(self.frags) + 1)
                    fr = {"name": name, "on": c, "dirs": [], "sels": []}
                    self.frags.append(fr)
                    saved, self.allow_vars = self.allow_vars, self.allow_vars and self.single_op
                    fr["sels"] = self.sels(c, depth + 1, used)
                    self.allow_vars = saved
                    out.append(spread(name, self.dirs()))
                else:
                    out.append(inline(c, self.sels(c or t, depth + 1, used), self.dirs()))
                continue
            f = r.choice(fields + ["__typename"])
            alias = ""
            if f in used or r.random() < self.p_alias:
                alias = "k%d" % (len(used) + 1)
            key = alias or f
            if key in used:
                continue
            if f == "__typename":
                used.add(key)
                out.append(field(f, alias=alias))
                continue
            fd = self.ts["types"][t]["fields"][f]
            ft = named(fd["ty"])
            comp = kind(self.ts, ft) in ("OBJECT", "INTERFACE", "UNION")
            if comp and depth >= self.max_depth:
                continue
            used.add(key)
            out.append(field(f, self.sels(ft, depth + 1, set()) if comp else [], self.args_for(fd["args"]), self.dirs(), alias))
        if not out:
            key = "__typename" if "__typename" not in used else "k%d" % (len(used) + 1)
            used.add(key)
            out.append(field("__typename", alias="" if key == "__typename" else key))
        return out

    def doc(self, op_type="query", name=None, single_op=True, allow_frags=True):
        self.vars, self.frags, self.allow_vars, self.single_op, self.allow_frags = [], [], True, single_op, allow_frags
        root = {"query": self.ts["query"], "mutation": self.ts.get("mutation"), "subscription": self.ts.get("subscription")}[op_type]
        if op_type == "subscription":
            # exactly one root field, no directives at the root
            f = self.r.choice(sorted(self.ts["types"][root]["fields"]))
            fd = self.ts["types"][root]["fields"][f]
            ft = named(fd["ty"])
            comp = kind(self.ts, ft) in ("OBJECT", "INTERFACE", "UNION")
            sels = [field(f, self.sels(ft, 2, set()) if comp else [], self.args_for(fd["args"]))]
        else:
            sels = self.sels(root, 1, set())
        if name is None:
            name = "Q" if (self.vars or self.r.random() < 0.3) else ""
        return {"ops": [{"name": name, "ty": op_type, "vars": self.vars, "dirs": [], "sels": sels}], "frags": self.frags}


def supply(ts, doc, rng, op_index=0):
    """(opName, vars): values for the variables of the selected operation: a valid value of the declared type;
    nullable / defaulted variables are sometimes left out"""
    op = doc["ops"][op_index]
    out, seen = [], set()
    for vd in op["vars"]:
        if vd["name"] in seen or vd["name"] in OMIT_ALWAYS:
            continue
        seen.add(vd["name"])
        n = named(vd["ty"])
        if kind(ts, n) not in ("SCALAR", "ENUM", "INPUT_OBJECT"):
            if rng.random() < 0.5:
                out.append({"name": vd["name"], "val": I(1)})
            continue
        optional = vd["ty"]["k"] != "nn" or vd["hasDefault"]
        if optional and rng.random() < 0.45:
            continue
        out.append({"name": vd["name"], "val": value_for(ts, vd["ty"], rng, enum_as="str")})
    return (op["name"], out)


# ---------------------------------------------------------------------------------------------------------
# G2: rule-targeted mutations.  Each returns a mutated deep copy or None when it does not apply.
def walk(doc):
    """yields (node, parent_list, static_parent_type_name or None, scope) for every selection"""
    def rec(sels, scope):
        for s in sels:
            yield s, sels, scope
            if s["k"] in ("field", "inline"):
                yield from rec(s["sels"], scope)
    for i, op in enumerate(doc["ops"]):
        yield from rec(op["sels"], ("op", i))
    for fr in doc["frags"]:
        yield from rec(fr["sels"], ("frag", fr["name"]))


def typed_walk(ts, doc):
    """yields (node, siblings, static type of the enclosing selection set or None)"""
    def rec(sels, t):
        for s in sels:
            yield s, sels, t
            if s["k"] == "field":
                sub = None
                if t and kind(ts, t) in ("OBJECT", "INTERFACE") and s["name"] in ts["types"][t]["fields"]:
                    sub = named(ts["types"][t]["fields"][s["name"]]["ty"])
                yield from rec(s["sels"], sub)
            elif s["k"] == "inline":
                yield from rec(s["sels"], (s["on"] or t) if (not s["on"] or s["on"] in ts["types"]) else None)
    for op in doc["ops"]:
        yield from rec(op["sels"], {"query": ts["query"], "mutation": ts.get("mutation"), "subscription": ts.get("subscription")}[op["ty"]])
    for fr in doc["frags"]:
        yield from rec(fr["sels"], fr["on"] if fr["on"] in ts["types"] else None)


def pick(rng, xs):
    xs = list(xs)
    return rng.choice(xs) if xs else None


def fields_with_args(ts, doc):
    out = []
    for s, sibs, t in typed_walk(ts, doc):
        if s["k"] == "field" and t and kind(ts, t) in ("OBJECT", "INTERFACE") and s["name"] in ts["types"][t]["fields"]:
            out.append((s, ts["types"][t]["fields"][s["name"]]))
    return out


def any_sels(ts, doc, want=None):
    """selection lists with their static type"""
    seen, out = set(), []
    for s, sibs, t in typed_walk(ts, doc):
        if id(sibs) not in seen and t and (want is None or want(t)):
            seen.add(id(sibs))
            out.append((sibs, t))
    return out


def M(name):
    def deco(f):
        MUTATIONS.append((name, f))
        return f
    return deco


MUTATIONS = []


@M("unknown-field")
def m_unknown_field(ts, d, r):
    x = pick(r, [s for s, _, t in typed_walk(ts, d) if s["k"] == "field" and s["name"] != "__typename"])
    if not x: return None
    x["name"] = "nope"
    return d


@M("field-of-other-type")
def m_field_other_type(ts, d, r):
    x = pick(r, [(sibs, t) for sibs, t in any_sels(ts, d) if kind(ts, t) in ("OBJECT", "INTERFACE", "UNION")])
    if not x: return None
    sibs, t = x
    others = sorted({f for o, dd in ts["types"].items() if dd["kind"] == "OBJECT" for f in dd["fields"]} - set(ts["types"][t]["fields"]))
    if not others: return None
    f = r.choice(others)
    sibs.append(field(f, alias="zz"))
    return d


@M("unknown-argument")
def m_unknown_arg(ts, d, r):
    x = pick(r, [s for s, _, t in typed_walk(ts, d) if s["k"] == "field" and s["name"] != "__typename"])
    if not x: return None
    x["args"].append({"name": "zz", "val": I(1)})
    return d


@M("duplicate-argument")
def m_dup_arg(ts, d, r):
    x = pick(r, [s for s, fd in fields_with_args(ts, d) if s["args"]])
    if not x: return None
    a = r.choice(x["args"])
    x["args"].append(copy.deepcopy(a))
    return d


@M("wrong-argument-value")
def m_wrong_arg(ts, d, r):
    x = pick(r, [(s, fd) for s, fd in fields_with_args(ts, d) if fd["args"]])
    if not x: return None
    s, fd = x
    a = r.choice(fd["args"])
    s["args"] = [y for y in s["args"] if y["name"] != a["name"]] + [{"name": a["name"], "val": wrong_value_for(ts, a["ty"], r)}]
    return d


@M("wrong-argument-value-on-new-field")
def m_wrong_arg_new(ts, d, r):
    q = ts["types"][ts["query"]]["fields"]
    if d["ops"][0]["ty"] != "query": return None
    f = r.choice(sorted(n for n, fd in q.items() if fd["args"] and kind(ts, named(fd["ty"])) in ("SCALAR", "ENUM")))
    a = r.choice(q[f]["args"])
    args = [{"name": x["name"], "val": value_for(ts, x["ty"], r)} for x in q[f]["args"] if x["name"] != a["name"] and x["ty"]["k"] == "nn" and not x["hasDefault"]]
    d["ops"][0]["sels"].append(field(f, args=args + [{"name": a["name"], "val": wrong_value_for(ts, a["ty"], r)}], alias="zz"))
    return d


@M("missing-required-argument")
def m_missing_arg(ts, d, r):
    cands = [(s, a) for s, fd in fields_with_args(ts, d) for a in fd["args"] if a["ty"]["k"] == "nn" and not a["hasDefault"]]
    if cands:
        s, a = r.choice(cands)
        s["args"] = [y for y in s["args"] if y["name"] != a["name"]]
        return d
    if d["ops"][0]["ty"] != "query": return None
    q = ts["types"][ts["query"]]["fields"]
    fs = sorted(n for n, fd in q.items() if any(a["ty"]["k"] == "nn" and not a["hasDefault"] for a in fd["args"]) and kind(ts, named(fd["ty"])) in ("SCALAR", "ENUM"))
    if not fs: return None
    d["ops"][0]["sels"].append(field(r.choice(fs), alias="zz"))
    return d


@M("null-for-non-null-argument")
def m_null_arg(ts, d, r):
    cands = [(s, a) for s, fd in fields_with_args(ts, d) for a in fd["args"] if a["ty"]["k"] == "nn"]
    if not cands: return None
    s, a = r.choice(cands)
    s["args"] = [y for y in s["args"] if y["name"] != a["name"]] + [{"name": a["name"], "val": NULL}]
    return d


@M("selection-on-leaf")
def m_leaf_sel(ts, d, r):
    x = pick(r, [s for s, _, t in typed_walk(ts, d) if s["k"] == "field" and not s["sels"]])
    if not x: return None
    x["sels"] = [field(r.choice(["id", "__typename"]))]
    return d


@M("no-selection-on-composite")
def m_comp_nosel(ts, d, r):
    x = pick(r, [s for s, _, t in typed_walk(ts, d) if s["k"] == "field" and s["sels"]])
    if not x: return None
    x["sels"] = []
    return d


@M("unknown-type-condition")
def m_unknown_cond(ts, d, r):
    x = pick(r, [s for s, _, _ in walk(d) if s["k"] == "inline"] + d["frags"])
    if not x:
        d["ops"][0]["sels"].append(inline("Nope", [field("__typename", alias="zz")]))
        return d
    x["on"] = "Nope"
    return d


@M("non-composite-type-condition")
def m_noncomp_cond(ts, d, r):
    bad = r.choice(["Int", "String"] + sorted(t for t, dd in ts["types"].items() if dd["kind"] in ("ENUM", "INPUT_OBJECT", "SCALAR")))
    x = pick(r, [s for s, _, _ in walk(d) if s["k"] == "inline"] + d["frags"])
    if not x:
        d["ops"][0]["sels"].append(inline(bad, [field("__typename", alias="zz")]))
        return d
    x["on"] = bad
    return d


@M("impossible-fragment-spread")
def m_impossible(ts, d, r):
    cands = []
    for sibs, t in any_sels(ts, d):
        pt = set(possible(ts, t))
        no = [c for c in composites(ts) if not (pt & set(possible(ts, c)))]
        if no and kind(ts, t) != "NONE":
            cands.append((sibs, no))
    if not cands: return None
    sibs, no = r.choice(cands)
    c = r.choice(no)
    if r.random() < 0.5:
        sibs.append(inline(c, [field("__typename", alias="zz")]))
    else:
        d["frags"].append({"name": "FX", "on": c, "dirs": [], "sels": [field("__typename", alias="zz")]})
        sibs.append(spread("FX"))
    return d


@M("unknown-fragment")
def m_unknown_frag(ts, d, r):
    sibs = r.choice([sibs for sibs, t in any_sels(ts, d)] or [d["ops"][0]["sels"]])
    sibs.append(spread("Nope"))
    return d


@M("unused-fragment")
def m_unused_frag(ts, d, r):
    d["frags"].append({"name": "FU", "on": r.choice(composites(ts)), "dirs": [], "sels": [field("__typename")]})
    if r.random() < 0.4:    # used only by another unused fragment
        d["frags"].append({"name": "FV", "on": d["frags"][-1]["on"], "dirs": [], "sels": [spread("FU")]})
    return d


@M("fragment-cycle")
def m_cycle(ts, d, r):
    t = r.choice([x for x in composites(ts) if kind(ts, x) in ("OBJECT", "INTERFACE")])
    holder = pick(r, [(sibs, tt) for sibs, tt in any_sels(ts, d) if set(possible(ts, tt)) & set(possible(ts, t))])
    if not holder: return None
    n = r.choice([1, 2, 3])
    names = ["FC%d" % i for i in range(1, n + 1)]
    for i, nm in enumerate(names):
        d["frags"].append({"name": nm, "on": t, "dirs": [], "sels": [field("__typename", alias="zz"), spread(names[(i + 1) % n])]})
    holder[0].append(spread(names[0]))
    return d


@M("duplicate-fragment-name")
def m_dup_frag(ts, d, r):
    if not d["frags"]:
        d["frags"].append({"name": "FD", "on": ts["query"], "dirs": [], "sels": [field("__typename", alias="zz")]})
        d["ops"][0]["sels"].append(spread("FD"))
    d["frags"].append(copy.deepcopy(r.choice(d["frags"])))
    return d


@M("duplicate-operation-name")
def m_dup_op(ts, d, r):
    if not d["ops"][0]["name"]:
        d["ops"][0]["name"] = "Q"
    d["ops"].append({"name": d["ops"][0]["name"], "ty": "query", "vars": [], "dirs": [], "sels": [field("__typename")]})
    return d


@M("anonymous-not-alone")
def m_anon(ts, d, r):
    extra = {"name": r.choice(["", "R"]), "ty": "query", "vars": [], "dirs": [], "sels": [field("__typename")]}
    if d["ops"][0]["name"] and extra["name"]:
        extra["name"] = ""
    if r.random() < 0.5:
        d["ops"].append(extra)
    else:
        d["ops"].insert(0, extra)
    return d


@M("second-operation-invalid")
def m_second_op(ts, d, r):
    """a second, unselected operation that is itself invalid (validation covers the whole document)"""
    if not d["ops"][0]["name"]:
        d["ops"][0]["name"] = "Q"
    bad = r.choice([
        {"name": "R", "ty": "query", "vars": [], "dirs": [], "sels": [field("nope")]},
        {"name": "R", "ty": "query", "vars": [vardef("u", N("Int"))], "dirs": [], "sels": [field("__typename")]},
        {"name": "R", "ty": "query", "vars": [], "dirs": [], "sels": [field("fi", args=[{"name": "x", "val": V("v1")}])]},
        {"name": "R", "ty": "query", "vars": [vardef("v1", N("String"))], "dirs": [], "sels": [field("fi", args=[{"name": "x", "val": L(V("v1"), S("s"))}])]},
        {"name": "R", "ty": "query", "vars": [], "dirs": [], "sels": [field("fi", args=[{"name": "x", "val": S("s")}])]},
    ])
    d["ops"].append(bad)
    return d


@M("second-operation-valid")
def m_second_op_ok(ts, d, r):
    if not d["ops"][0]["name"]:
        d["ops"][0]["name"] = "Q"
    d["ops"].append({"name": "R", "ty": r.choice(["query", "mutation"]), "vars": [], "dirs": [], "sels": [field("__typename")]})
    return d


def conflict_pairs(ts):
    """(static type, node a, node b): two selections to append into a selection set of that type"""
    A = lambda alias, name, **kw: field(name, alias=alias, **kw)
    out = [
        ("*", A("zk", "__typename"), A("zk", "id")),                                                    # same scope, different fields
        ("A", A("zk", "id"), A("zk", "name")),
        ("A", field("echo", args=[{"name": "x", "val": I(1)}]), field("echo", args=[{"name": "x", "val": I(2)}])),   # differing arguments
        ("A", field("echo", args=[{"name": "x", "val": I(1)}]), field("echo")),
        ("A", A("zk", "echo", args=[{"name": "x", "val": V("v1")}]), A("zk", "echo", args=[{"name": "x", "val": V("v2")}])),
        ("Node", A("zk", "id"), inline("A", [A("zk", "name")])),                                         # unconditioned vs conditioned
        ("Node", inline("A", [A("zk", "id")]), inline("Node", [A("zk", "name")])),
        ("U", inline("A", [A("zk", "val")]), inline("B", [A("zk", "val")])),                            # response shape Int vs String
        ("U", inline("A", [field("val")]), inline("B", [field("val")])),
        ("Node", inline("A", [field("w")]), inline("B", [field("w")])),                                  # Int! vs Int
        ("Node", inline("A", [field("items")]), inline("B", [field("items")])),                          # [Int] vs Int
        ("U", inline("A", [A("zk", "val")]), inline("B", [A("zk", "w")])),                               # same shape, different objects: VALID
        ("U", inline("A", [inline("", [A("zk", "val")])]), inline("B", [inline("", [A("zk", "w")])])),   # valid, nested untyped inline fragments
        ("Node", inline("A", [inline("", [field("echo", args=[{"name": "x", "val": I(1)}])])]), inline("B", [inline("", [field("echo", args=[{"name": "x", "val": I(2)}])])])),  # valid
        ("A", A("zs", "self", sels=[A("zk", "id")]), A("zs", "self", sels=[A("zk", "name")])),           # conflict in merged sub-selections
        ("A", A("zs", "self", sels=[A("zk", "id")]), A("zs", "peer", sels=[A("zk", "id")])),
        ("Node", inline("A", [A("zs", "self", sels=[field("val")])]), inline("B", [A("zs", "peer", sels=[inline("B", [field("val")])])])),  # shape conflict below
        ("A", A("zk", "val"), inline("A", [A("zk", "w")])),                                              # same parent object through a fragment
        ("A", inline("Node", [A("zk", "id")]), inline("A", [A("zk", "name")])),
    ]
    return out


@M("conflicting-fields")
def m_conflict(ts, d, r):
    if "A" not in ts["types"] or "Node" not in ts["types"]: return None
    pairs = conflict_pairs(ts)
    t, a, b = r.choice(pairs)
    cands = [sibs for sibs, tt in any_sels(ts, d) if t == "*" or tt == t]
    if not cands:
        root = {"A": "a", "Node": "node", "U": "u"}.get(t)
        if d["ops"][0]["ty"] != "query" or not root: return None
        holder = field(root, alias="zh")
        d["ops"][0]["sels"].append(holder)
        cands = [holder["sels"]]
    sibs = r.choice(cands)
    a, b = copy.deepcopy(a), copy.deepcopy(b)
    used_vars = {x for x in re.findall(r'"k": "var", "name": "(v\d)"', json.dumps([a, b]))}
    have = {v["name"] for v in d["ops"][0]["vars"]}
    for v in sorted(used_vars - have):
        d["ops"][0]["vars"].append(vardef(v, N("Int")))
    if used_vars and not d["ops"][0]["name"]:
        d["ops"][0]["name"] = "Q"
    if r.random() < 0.3 and kind(ts, "A") == "OBJECT":
        # put the second one into a named fragment
        t2 = t if t != "*" else None
        if t2:
            d["frags"].append({"name": "FK", "on": t2, "dirs": [], "sels": [b]})
            b = spread("FK")
    sibs.extend([a, b])
    return d


@M("undefined-variable")
def m_undef_var(ts, d, r):
    x = pick(r, [(s, a) for s, fd in fields_with_args(ts, d) for a in fd["args"]])
    if not x: return None
    s, a = x
    s["args"] = [y for y in s["args"] if y["name"] != a["name"]] + [{"name": a["name"], "val": V("zz")}]
    return d


@M("undefined-variable-in-fragment")
def m_undef_var_frag(ts, d, r):
    t = ts["query"] if d["ops"][0]["ty"] == "query" else None
    if not t or "fi" not in ts["types"][t]["fields"]: return None
    d["frags"].append({"name": "FW", "on": t, "dirs": [], "sels": [field("fi", args=[{"name": "x", "val": V("zz")}], alias="zw")]})
    d["ops"][0]["sels"].append(spread("FW"))
    return d


@M("unused-variable")
def m_unused_var(ts, d, r):
    d["ops"][0]["vars"].append(vardef("zu", r.choice([N("Int"), NN(N("String")), LT(N("Int"))])))
    if not d["ops"][0]["name"]:
        d["ops"][0]["name"] = "Q"
    return d


@M("duplicate-variable")
def m_dup_var(ts, d, r):
    if not d["ops"][0]["vars"]: return None
    d["ops"][0]["vars"].append(copy.deepcopy(r.choice(d["ops"][0]["vars"])))
    return d


@M("variable-of-non-input-type")
def m_var_noninput(ts, d, r):
    if not d["ops"][0]["vars"]: return None
    v = r.choice(d["ops"][0]["vars"])
    v["ty"] = r.choice([N(r.choice(composites(ts))), N("Nope"), LT(N("Nope")), NN(N("Nope"))])
    v["hasDefault"], v["default"] = False, NULL
    return d


@M("variable-unknown-list-type-with-default")
def m_var_unknown_default(ts, d, r):
    if not d["ops"][0]["name"]:
        d["ops"][0]["name"] = "Q"
    d["ops"][0]["vars"].append(vardef("zd", r.choice([LT(N("Nope")), NN(LT(N("Nope"))), N("Nope"), NN(N("Nope"))]), r.choice([L(I(1)), I(1), L(), L(NULL), NULL])))
    d["ops"][0]["sels"].append(field("__typename", alias="zt", dirs=[]))
    return d


@M("wrong-variable-default")
def m_var_default(ts, d, r):
    vs = [v for v in d["ops"][0]["vars"] if kind(ts, named(v["ty"])) in ("SCALAR", "ENUM", "INPUT_OBJECT")]
    if not vs: return None
    v = r.choice(vs)
    v["hasDefault"], v["default"] = True, wrong_value_for(ts, v["ty"], r)
    return d


VAR_TYPE_SWAPS = {"Int": ["String", "Float", "Boolean", "[Int]"], "String": ["Int", "ID", "[String]"], "Boolean": ["Int", "String"], "Float": ["Int", "String"],
                  "ID": ["String", "Int"], "Color": ["String", "Int"], "In": ["String", "Int", "[In]"]}


@M("variable-in-incompatible-position")
def m_var_position(ts, d, r):
    vs = d["ops"][0]["vars"]
    if not vs: return None
    v = r.choice(vs)
    t = v["ty"]
    choice = r.randrange(4)
    if choice == 0 and t["k"] == "nn":
        v["ty"] = t["of"]                                                           # nullable variable in a non-null position
        if r.random() < 0.3:
            v["hasDefault"], v["default"] = True, value_for(ts, t["of"], r)          # ... allowed when it has a default
    elif choice == 1:
        base = named(t)
        swaps = VAR_TYPE_SWAPS.get(base)
        if not swaps: return None
        v["ty"] = parse_type(r.choice(swaps))
        v["hasDefault"], v["default"] = False, NULL
    elif choice == 2:
        v["ty"] = LT(t["of"] if t["k"] == "nn" else t)                               # list variable where an item is expected
        v["hasDefault"], v["default"] = False, NULL
    else:
        inner = t["of"] if t["k"] == "nn" else t
        if inner["k"] != "list": return None
        v["ty"] = inner["of"]                                                        # item variable where a list is expected
        v["hasDefault"], v["default"] = False, NULL
    return d


@M("variable-inside-list-or-object")
def m_var_nested(ts, d, r):
    if d["ops"][0]["ty"] != "query" or "fin" not in ts["types"][ts["query"]]["fields"]: return None
    if not d["ops"][0]["name"]:
        d["ops"][0]["name"] = "Q"
    form = r.randrange(6)
    vt, f = {
        0: (N("Int"), field("fl", args=[{"name": "l", "val": L(V("zn"), I(2))}], alias="zf")),                 # Int in [Int!] item position: invalid
        1: (NN(N("Int")), field("fl", args=[{"name": "l", "val": L(V("zn"))}], alias="zf")),                  # valid
        2: (N("Int"), field("fin", args=[{"name": "i", "val": O(("a", V("zn")), ("b", S("s")))}], alias="zf")),   # valid
        3: (N("Int"), field("fin", args=[{"name": "i", "val": O(("b", V("zn")))}], alias="zf")),               # Int var for String!
        4: (N("Int"), field("fin", args=[{"name": "i", "val": O(("b", S("s")), ("d", V("zn")))}], alias="zf")),  # Int for Int! with a field default: valid
        5: (N("String"), field("fl", args=[{"name": "l", "val": L(V("zn"), S("s"))}], alias="zf")),            # wrong literal beside a variable
    }[form]
    d["ops"][0]["vars"].append(vardef("zn", vt))
    d["ops"][0]["sels"].append(f)
    return d


def all_dir_holders(d):
    out = [s for s, _, _ in walk(d)]
    return out


@M("unknown-directive")
def m_dir_unknown(ts, d, r):
    x = pick(r, all_dir_holders(d) + d["ops"] + d["frags"])
    x["dirs"].append({"name": "nope", "args": r.choice([[], [{"name": "if", "val": B(True)}]])})
    return d


@M("misplaced-directive")
def m_dir_misplaced(ts, d, r):
    if r.random() < 0.5:
        x = pick(r, d["ops"] + d["frags"])
        x["dirs"].append({"name": r.choice(["skip", "include"]), "args": [{"name": "if", "val": B(True)}]})
    else:
        x = pick(r, all_dir_holders(d))
        x["dirs"].append(r.choice([{"name": "deprecated", "args": []}, {"name": "deprecated", "args": [{"name": "reason", "val": S("x")}]},
                                   {"name": "oneOf", "args": []}, {"name": "specifiedBy", "args": [{"name": "url", "val": S("u")}]}]))
    return d


@M("duplicate-directive")
def m_dir_dup(ts, d, r):
    x = pick(r, all_dir_holders(d))
    dd = {"name": r.choice(["skip", "include"]), "args": [{"name": "if", "val": B(r.random() < 0.5)}]}
    x["dirs"] = [y for y in x["dirs"] if y["name"] != dd["name"]] + [dd, copy.deepcopy(dd)]
    return d


@M("repeatable-directive-twice")
def m_dir_tag(ts, d, r):
    x = pick(r, [s for s in all_dir_holders(d) if s["k"] == "field"])
    if not x: return None
    n = r.choice([1, 2])
    x["dirs"] += [{"name": "tag", "args": [{"name": "v", "val": I(i)}]} for i in range(n)]
    return d


@M("directive-argument-problem")
def m_dir_arg(ts, d, r):
    x = pick(r, all_dir_holders(d))
    bad = r.choice([[], [{"name": "if", "val": I(1)}], [{"name": "if", "val": NULL}], [{"name": "if", "val": B(True)}, {"name": "zz", "val": I(1)}],
                    [{"name": "if", "val": B(True)}, {"name": "if", "val": B(True)}], [{"name": "if", "val": S("true")}]])
    x["dirs"] = [y for y in x["dirs"] if y["name"] != "skip"] + [{"name": "skip", "args": bad}]
    return d


@M("directive-on-variable-definition")
def m_dir_vardef(ts, d, r):
    vs = d["ops"][0]["vars"]
    if not vs: return None
    v = r.choice(vs)
    v["dirs"] = r.choice([[{"name": "nope", "args": []}], [{"name": "skip", "args": [{"name": "if", "val": B(True)}]}],
                          [{"name": "skip", "args": [{"name": "if", "val": B(True)}]}] * 2, [{"name": "deprecated", "args": []}], [{"name": "nope", "args": []}] * 2])
    return d


@M("typename-problem")
def m_typename(ts, d, r):
    """problems located on a `__typename` field (never visited by the implementation's walker)"""
    sibs = r.choice([s for s, t in any_sels(ts, d) if kind(ts, t) in ("OBJECT", "INTERFACE", "UNION")] or [d["ops"][0]["sels"]])
    form = r.randrange(6)
    f = field("__typename", alias="zy")
    if form == 0:
        f["dirs"] = [{"name": "nope", "args": []}]
    elif form == 1:
        f["args"] = [{"name": "x", "val": I(1)}]
    elif form == 2:
        f["sels"] = [field("id")]
    elif form == 3:
        f["dirs"] = [{"name": "skip", "args": [{"name": "if", "val": V("zz")}]}]       # undefined variable
    elif form == 4:
        f["dirs"] = [{"name": "skip", "args": [{"name": "if", "val": I(1)}]}]
    else:
        f["dirs"] = [{"name": "skip", "args": [{"name": "if", "val": B(True)}]}] * 2
    sibs.append(f)
    return d


@M("variable-used-only-on-typename")
def m_typename_var(ts, d, r):
    """VALID document: the only use of a variable is in a directive on `__typename`"""
    if not d["ops"][0]["name"]:
        d["ops"][0]["name"] = "Q"
    d["ops"][0]["vars"].append(vardef("zb", NN(N("Boolean"))))
    d["ops"][0]["sels"].append(field("__typename", alias="zy", dirs=[{"name": r.choice(["skip", "include"]), "args": [{"name": "if", "val": V("zb")}]}]))
    return d


@M("subscription-root-fields")
def m_sub_roots(ts, d, r):
    if d["ops"][0]["ty"] != "subscription": return None
    sub = ts["types"][ts["subscription"]]["fields"]
    leafs = sorted(f for f, fd in sub.items() if kind(ts, named(fd["ty"])) in ("SCALAR", "ENUM") and not any(a["ty"]["k"] == "nn" and not a["hasDefault"] for a in fd["args"]))
    if not leafs: return None
    f = r.choice(leafs)
    form = r.randrange(6)
    sels = d["ops"][0]["sels"]
    if form == 0:
        sels.append(field(f, alias="zr"))                                    # two root fields
    elif form == 1:
        sels.append(field("__typename"))                                      # introspection root field
    elif form == 2:
        d["ops"][0]["sels"] = [field("__typename")]
    elif form == 3:
        sels.append(inline(ts["subscription"], [field(f, alias="zr")]))       # second root field behind a fragment
    elif form == 4:
        d["frags"].append({"name": "FS", "on": ts["subscription"], "dirs": [], "sels": [field(f, alias="zr")]})
        sels.append(spread("FS"))
    else:
        sels.append(copy.deepcopy(sels[0]))                                   # the same root field twice: still one response key, VALID
    return d


@M("unsupplied-variable-beside-wrong-literal")
def m_unsupplied(ts, d, r):
    """a wrong literal in an argument value that also mentions a variable the request leaves out"""
    if d["ops"][0]["ty"] != "query" or "fin" not in ts["types"][ts["query"]]["fields"]: return None
    if not d["ops"][0]["name"]:
        d["ops"][0]["name"] = "Q"
    d["ops"][0]["vars"].append(vardef("zo", N("Int")))
    d["ops"][0]["sels"].append(r.choice([
        field("fl", args=[{"name": "l", "val": L(V("zo"), S("s"))}], alias="zf"),
        field("fin", args=[{"name": "i", "val": O(("a", V("zo")), ("b", I(1)))}], alias="zf"),
        field("fin", args=[{"name": "i", "val": O(("a", V("zo")))}], alias="zf"),
        field("fin", args=[{"name": "i", "val": O(("a", V("zo")), ("b", S("s")), ("zz", I(1)))}], alias="zf"),
    ]))
    return d     # the driver leaves $zo out of the supplied variables (see `omit`)


OMIT_ALWAYS = {"zo"}


def mutate(ts, doc, rng, name=None):
    """apply one mutation (by name or random); returns (name, doc) or None"""
    cands = [(n, f) for n, f in MUTATIONS if name is None or n == name]
    n, f = rng.choice(cands)
    try:
        out = f(ts, copy.deepcopy(doc), rng)
    except (IndexError, KeyError, ValueError):      # the mutation does not apply to this document / type system
        out = None
    return (n, out) if out is not None else None


# ---------------------------------------------------------------------------------------------------------
# G1: pool configurations of spec/gql/Gen_ValDoc.tla
BASE = {"MaxNodes": 2, "MaxSecs": 1, "MaxAlias": 0, "MaxArgs": 0, "MaxDirs": 0, "MaxVars": 0, "OpHeads": ["query:"], "FragNames": [],
        "Fields": [], "Conds": [], "Spreads": [], "ArgPool": [], "DirPool": [], "VarPool": [], "OpenOnly": [], "LeafOnly": [], "FragSeq": (), "Inline": 1}

ARGS_IN = ["i=obj", "i=objnob", "i=objunk", "i=objbad", "i=objdup", "i=objdupbad", "i=objdupgood", "i=int1", "i=l1", "i=obj$v", "i=obj$vbad", "i=objnbad", "i=objdnull", "i=objfull", "i=objn"]
ARGS_LIST = ["l=l1", "l=int1", "l=lstr", "l=str", "l=lnull", "l=null", "l=l$v", "l=l$vstr", "l=$v", "l=lobj", "l=lobj1", "l=obj", "l=lempty"]
VARS_ALL = ["v|Int||", "v|Int!||", "v|Int|int1|", "v|Int|null|", "v|Int|str|", "v|[Int]||", "v|[Int!]!||", "v|[Int]|l1|", "v|[Int]|int1|", "v|String||", "v|Color|RED|", "v|Color|sRED|", "v|Color|PURPLE|",
            "v|In||", "v|In|obj|", "v|In|int1|", "v|In|objnob|", "v|A||", "v|Nope||", "v|[Nope]|l1|", "v|[Nope]!|int1|", "v|[Nope]|lempty|", "v|[Nope]|null|", "v|Nope!|int1|", "v|Float||", "v|Boolean!||", "v|ID||"]
DIRS_ALL = ["skip(if=true)", "skip", "skip(if=$v)", "include(if=int1)", "include(if=null)", "nope", "deprecated", "tag(v=int1)", "skip(if=true;zz=int1)", "skip(if=true;if=false)"]


def g1_configs(quick):
    """pool configurations of Gen_ValDoc.tla, each aimed at a group of rules (quick: small budgets, thorough: one more node / bigger pools)"""
    q = quick
    c = {}
    c["shape"] = dict(BASE, MaxNodes=3 if q else 4, MaxAlias=0, Fields=["id", "a", "u", "nope", "__typename"] if q else ["id", "a", "node", "nope", "__typename"],
                      Conds=["A", "C", "Int", "Nope"] if q else ["A", "C", "U", "Int", "Nope"])
    c["merge"] = dict(BASE, MaxNodes=4 if q else 5, MaxAlias=2, Fields=["node", "id", "name"], Conds=["A"] if q else ["A", "B"], OpenOnly=["node"], LeafOnly=["id", "name"])
    c["merge2"] = dict(BASE, MaxNodes=3 if q else 4, MaxAlias=0 if q else 1, MaxArgs=2, Fields=["a", "echo"] if q else ["a", "echo", "val"], Conds=[] if q else ["A"], OpenOnly=["a"], LeafOnly=["echo", "val"], ArgPool=["x=int1", "x=int2"])
    c["args"] = dict(BASE, MaxNodes=1 if q else 2, MaxArgs=2, MaxVars=1, OpHeads=["query:Q"], Fields=["fi", "fr", "fd", "f2", "nope"], LeafOnly=["fi", "fr", "fd", "f2", "nope"],
                     ArgPool=["x=int1", "x=str", "x=null", "x=$v", "y=str", "zz=int1"], VarPool=["v|Int||", "v|Int!||", "v|String||"])
    c["argsin"] = dict(BASE, MaxNodes=1, MaxArgs=1 if q else 2, MaxVars=1, OpHeads=["query:Q"], Fields=["fe", "fin", "fli"], LeafOnly=["fe", "fin", "fli"],
                       ArgPool=["e=RED", "e=PURPLE", "e=sRED", "e=sPURPLE", "e=int1", "e=$v"] + ARGS_IN + ["l=lobj", "l=lobj1", "l=obj"], VarPool=["v|Int||", "v|Color||"] if q else ["v|Int||", "v|Color||", "v|In||", "v|String||"])
    c["argslist"] = dict(BASE, MaxNodes=1, MaxArgs=1 if q else 2, MaxVars=1, OpHeads=["query:Q"], Fields=["fl", "fln"], LeafOnly=["fl", "fln"], ArgPool=ARGS_LIST,
                         VarPool=["v|Int||", "v|[Int!]||"] if q else ["v|Int||", "v|Int!||", "v|[Int!]||", "v|[Int]||", "v|[Int]!||", "v|String||"])
    c["dirs"] = dict(BASE, MaxNodes=2, MaxDirs=2, MaxVars=1, OpHeads=["query:Q"] if q else ["query:Q", "mutation:M"], Fields=["n", "__typename"], LeafOnly=["n", "__typename"], Conds=["Query"],
                     DirPool=["skip(if=true)", "skip", "skip(if=$v)", "nope", "deprecated"] if q else DIRS_ALL, VarPool=["v|Boolean!||", "v|Int||"] if q else ["v|Boolean!||", "v|Boolean||", "v|Boolean|true|", "v|Int||"])
    c["vardirs"] = dict(BASE, MaxNodes=1, MaxDirs=1, MaxVars=1, OpHeads=["query:Q"], Fields=["n", "fb"], LeafOnly=["n", "fb"], MaxArgs=1, ArgPool=["b=$v"],
                        VarPool=["v|Boolean||", "v|Boolean||nope", "v|Boolean||skip(if=true)", "v|Boolean||skip(if=true)+skip(if=true)", "v|Boolean||nope+nope", "v|Boolean||deprecated", "v|Boolean||tag(v=int1)+tag(v=int1)"],
                        DirPool=["skip(if=$v)"])
    c["vars"] = dict(BASE, MaxNodes=1 if q else 2, MaxArgs=1, MaxVars=1, OpHeads=["query:Q"], Fields=["fi", "fr", "fd", "fl", "fin", "fe"], LeafOnly=["fi", "fr", "fd", "fl", "fin", "fe"],
                     ArgPool=["x=$v", "x=$zz", "l=$v", "l=l$v", "i=$v", "i=obj$v", "e=$v", "x=int1"], VarPool=VARS_ALL)
    c["vars2"] = dict(BASE, MaxNodes=2, MaxArgs=2, MaxVars=2, OpHeads=["query:Q"], Fields=["fi", "f2"], LeafOnly=["fi", "f2"], ArgPool=["x=$v", "x=$w", "y=$w"] if q else ["x=$v", "x=$w", "y=$w", "y=$v", "x=int1"],
                      VarPool=["v|Int||", "w|String||", "w|Int||"] if q else ["v|Int||", "v|String||", "w|String||", "w|Int||"])
    c["frags"] = dict(BASE, MaxNodes=3 if q else 4, MaxSecs=3, Fields=["n"], LeafOnly=["n"], Conds=["Query"] if q else ["Query", "A", "Nope"], FragNames=["F1", "F2"], Spreads=["F1", "F2", "Nope"])
    # fragment DAGs: spreads between fragments, shared non-leaf fragments (diamonds, shared sub-chains, double spreads) and their cyclic neighbours
    c["fragdag"] = dict(BASE, MaxNodes=4 if q else 5, MaxSecs=4, Fields=["n"], LeafOnly=["n"], Conds=["Query"], Inline=0,
                        FragSeq=("F1", "F2", "F3"), Spreads=["F1", "F2", "F3"])
    # two selections with one response name whose argument sets are equal / subset / superset / disjoint / differ in a value, in both orders
    c["mergeargs"] = dict(BASE, MaxNodes=3, MaxArgs=4, Fields=["f2"], LeafOnly=["f2"], ArgPool=["x=int1", "y=str", "x=int2"] if q else ["x=int1", "y=str", "x=int2", "y=$v"],
                          MaxVars=0 if q else 1, VarPool=[] if q else ["v|String||"], OpHeads=["query:"] if q else ["query:Q"])
    c["fragvars"] = dict(BASE, MaxNodes=3, MaxSecs=2 if q else 3, MaxArgs=1, MaxVars=1, OpHeads=["query:Q"] if q else ["query:Q", "query:R"], Fields=["fi"], LeafOnly=["fi"], Conds=["Query"], FragNames=["F1"], Spreads=["F1"],
                         ArgPool=["x=$v", "x=int1"] if q else ["x=$v", "x=int1", "x=$w"], VarPool=["v|Int||", "v|String||"])
    c["ops"] = dict(BASE, MaxNodes=3, MaxSecs=2, MaxAlias=1, OpHeads=["query:", "query:Q", "subscription:S", "mutation:Q"] if q else ["query:", "query:Q", "query:R", "mutation:Q", "subscription:S", "subscription:"],
                    Fields=["tick", "n"] if q else ["n", "tick", "bump", "__typename"], LeafOnly=["tick", "n", "bump", "__typename"], Conds=[] if q else ["Subscription"])
    # several operations sharing fragments that use a variable: 5.8.3 holds per operation through transitively spread fragments
    # (an operation that defines $v next to one that does not, a fragment reached directly and through another fragment)
    c["opvars"] = dict(BASE, MaxNodes=3 if q else 4, MaxSecs=3 if q else 4, MaxArgs=1, MaxVars=1, OpHeads=["query:Q", "query:R"],
                       Fields=["fi"], LeafOnly=["fi"], Conds=["Query"], Inline=0, FragSeq=("F1", "F2"), Spreads=["F1", "F2"], ArgPool=["x=$v"], VarPool=["v|Int||"])
    return c


def tla_str(x):
    return '"%s"' % x.replace("\\", "\\\\").replace('"', '\\"')


def write_gen_module(dirpath, name, confs, invariants):
    """writes <name>.tla (EXTENDS Gen_ValDoc, defines the configuration set) and <name>.cfg; returns the module path"""
    recs = []
    for label, conf in sorted(confs.items()):
        fs = ['label |-> %s' % tla_str(label)]
        for k, v in sorted(conf.items()):
            lit = "{" + ", ".join(tla_str(x) for x in v) + "}" if isinstance(v, list) else "<<" + ", ".join(tla_str(x) for x in v) + ">>" if isinstance(v, tuple) else str(v)
            fs.append("%s |-> %s" % (k, lit))
        recs.append("  [" + ", ".join(fs) + "]")
    mod = "%s/%s.tla" % (dirpath, name)
    with open(mod, "w") as f:
        f.write("---- MODULE %s ----\nEXTENDS Gen_ValDoc\nCfgSet == {\n%s }\n====\n" % (name, ",\n".join(recs)))
    with open("%s/%s.cfg" % (dirpath, name), "w") as f:
        f.write("CONSTANT Configs <- CfgSet\nINIT Init\nNEXT Next\n" + "".join("INVARIANT %s\n" % i for i in invariants))
    return mod


# ---------------------------------------------------------------------------------------------------------
# seeded random type systems (dynamic flavour): lib/gqlgen.random_ts extended with arguments, input objects,
# a mutation and a subscription root, and the schema's directive definitions
def random_ts(rng, directives):
    import gqlgen
    ts, _objects = gqlgen.random_ts(rng, n_obj=rng.randint(3, 4))
    types = ts["types"]
    for t in types.values():
        t["inputFields"] = []
        for f in t["fields"].values():
            f["args"] = []
    nvals = len(types["Color"]["values"])
    def arg(name, ty, default=None):
        return {"name": name, "ty": ty, "hasDefault": default is not None, "default": default if default is not None else NULL}
    in2 = [arg("k", NN(N("Int"))), arg("t", N("Stamp"))]
    in1 = [arg("a", N("Int")), arg("b", NN(N("String"))), arg("e", N("Color")), arg("l", LT(NN(N("Int")))), arg("d", NN(N("Int")), I(3)), arg("n", N("IN1"))]
    if rng.random() < 0.6:
        in1.append(arg("o", rng.choice([N("IN2"), NN(N("IN2")), LT(N("IN2"))])))
    types["IN1"] = {"kind": "INPUT_OBJECT", "fields": {}, "implements": [], "members": [], "values": [], "inputFields": in1}
    types["IN2"] = {"kind": "INPUT_OBJECT", "fields": {}, "implements": [], "members": [], "values": [], "inputFields": in2}
    arg_types = ["Int", "Int!", "String", "Boolean!", "ID", "Float", "Color", "Color!", "Stamp", "IN1", "IN1!", "IN2", "[Int!]", "[Int]!", "[IN1]", "[Color!]", "[String]"]
    iface_fields = {f for t in types.values() if t["kind"] == "INTERFACE" for f in t["fields"]}
    for tn, t in sorted(types.items()):
        if t["kind"] != "OBJECT":
            continue
        for fn, f in sorted(t["fields"].items()):
            if fn in iface_fields or rng.random() > (0.6 if tn == "Query" else 0.3):
                continue
            for j in range(rng.randint(1, 2)):
                ty = parse_type(rng.choice(arg_types))
                default = None
                if rng.random() < 0.3:
                    default = value_for(ts, ty, rng)
                f["args"].append(arg("p%d" % (j + 1), ty, default))
    def F(ty, *args): return {"ty": ty, "args": list(args), "outer": False, "guard": False, "gen": True}
    objs = sorted(t for t, d in types.items() if d["kind"] == "OBJECT" and t != "Query")
    types["Mutation"] = {"kind": "OBJECT", "fields": {"m1": F(NN(N("Int")), arg("x", NN(N("Int")), I(1))), "m2": F(N(objs[0]), arg("i", NN(N("IN1"))))},
                         "implements": [], "members": [], "values": [], "inputFields": []}
    types["Subscription"] = {"kind": "OBJECT", "fields": {"s1": F(NN(N("Int")), arg("n", N("Int"))), "s2": F(NN(N(objs[-1]))), "s3": F(N("String"))},
                             "implements": [], "members": [], "values": [], "inputFields": []}
    ts["mutation"], ts["subscription"] = "Mutation", "Subscription"
    ts["directives"] = {k: dict(v, staticOnly=False) for k, v in directives.items() if not v.get("staticOnly")}
    return prune_unused(ts)


def prune_unused(ts):
    """async-graphql drops every type that is not reachable from the root types through field types, argument types,
    union members, the possible types of an interface and input fields (Registry::remove_unused_types; an interface that is
    only named in `implements` lists is NOT reachable).  The harness compares the result with the live registry."""
    types = ts["types"]
    used = set()

    def visit(n):
        if n in used or n not in types:
            return
        used.add(n)
        t = types[n]
        for f in t["fields"].values():
            visit(named(f["ty"]))
            for a in f["args"]:
                visit(named(a["ty"]))
        if t["kind"] == "INTERFACE":
            for o, d in types.items():
                if n in d["implements"]:
                    visit(o)
        for m in t["members"]:
            visit(m)
        for a in t["inputFields"]:
            visit(named(a["ty"]))
    for root in (ts["query"], ts.get("mutation"), ts.get("subscription")):
        if root:
            visit(root)
    ts["types"] = {n: t for n, t in types.items() if n in used}
    for t in ts["types"].values():
        t["implements"] = [i for i in t["implements"] if i in used]
    return ts


@M("generic-conflict")
def m_generic_conflict(ts, d, r):
    """two fields with one response key: in one object scope, or behind two object type conditions (TLC decides whether they may merge)"""
    def leafs(t):
        return sorted(f for f, fd in ts["types"][t]["fields"].items() if kind(ts, named(fd["ty"])) in ("SCALAR", "ENUM")
                      and not any(a["ty"]["k"] == "nn" and not a["hasDefault"] for a in fd["args"]))
    cands = [(sibs, t) for sibs, t in any_sels(ts, d) if kind(ts, t) in ("OBJECT", "INTERFACE", "UNION")]
    if not cands: return None
    sibs, t = r.choice(cands)
    ps = possible(ts, t)
    if kind(ts, t) != "UNION" and len(leafs(t)) >= 2 and (len(ps) < 2 or r.random() < 0.5):
        f, g = r.sample(leafs(t), 2)
        sibs += [field(f, alias="zk"), field(g, alias="zk")]
        return d
    if len(ps) >= 2:
        o1, o2 = r.sample(ps, 2)
        if not leafs(o1) or not leafs(o2): return None
        sibs += [inline(o1, [field(r.choice(leafs(o1)), alias="zk")]), inline(o2, [field(r.choice(leafs(o2)), alias="zk")])]
        return d
    return None


# ---------------------------------------------------------------------------------------------------------
# fragment DAGs (5.5.2.2: only CYCLES are forbidden; a fragment may be spread from several places)
DAG_SHAPES = {
    # name: edges between fragments 1..n (fragment 1 is spread from the document); the last fragment only selects a field
    "double-spread":    {1: [2, 2], 2: [3], 3: []},
    "shared-sub-chain": {1: [2, 3], 2: [3], 3: [4], 4: []},
    "diamond":          {1: [2, 3], 2: [4], 3: [4], 4: [5], 5: []},
    "diamond-leaf":     {1: [2, 3], 2: [4], 3: [4], 4: []},
    "chain-3":          {1: [2], 2: [3], 3: [4], 4: []},
    "fan-in-deep":      {1: [2, 3, 4], 2: [4], 3: [4], 4: [5], 5: [6], 6: []},
    "two-entry":        {1: [3], 2: [3], 3: [4], 4: []},          # fragments 1 and 2 are both spread from the document
}


@M("fragment-dag")
def m_fragment_dag(ts, d, r):
    """a DAG of named fragments with a shared non-leaf fragment (valid), or the same DAG closed into a cycle (invalid)"""
    holders = [(sibs, t) for sibs, t in any_sels(ts, d) if kind(ts, t) in ("OBJECT", "INTERFACE", "UNION")]
    if not holders: return None
    sibs, t = r.choice(holders)
    shape = r.choice(sorted(DAG_SHAPES))
    edges = {k: list(v) for k, v in DAG_SHAPES[shape].items()}
    n = len(edges)
    cyclic = r.random() < 0.4
    if cyclic:
        src = r.randint(2, n)                      # a back edge to an ancestor (or to itself)
        edges[src].append(r.randint(1, src))
    order = list(edges)
    r.shuffle(order)                               # definition order is free
    for k in order:
        sels = [spread("FG%d" % j) for j in edges[k]]
        if not edges[k] or r.random() < 0.5:
            sels.insert(r.randint(0, len(sels)), field("__typename", alias="zg"))
        d["frags"].append({"name": "FG%d" % k, "on": t, "dirs": [], "sels": sels})
    sibs.append(spread("FG1"))
    if shape == "two-entry":
        sibs.append(spread("FG2"))
    return d


def optional_arg_fields(ts, t):
    """leaf fields of type t with >= 2 arguments that may all be left out"""
    if kind(ts, t) not in ("OBJECT", "INTERFACE"): return []
    out = []
    for f, fd in sorted(ts["types"][t]["fields"].items()):
        opt = [a for a in fd["args"] if a["ty"]["k"] != "nn" or a["hasDefault"]]
        if len(opt) >= 2 and len(opt) == len(fd["args"]) and kind(ts, named(fd["ty"])) in ("SCALAR", "ENUM"):
            out.append((f, opt))
    return out


@M("argument-set-pair")
def m_argument_sets(ts, d, r):
    """two selections of one field under one response name whose argument sets are equal / reordered (valid) or
    subset / superset / disjoint / different in one value (invalid by 5.3.2), in both orders, possibly through an
    inline fragment without type condition"""
    cands = [(sibs, t, fa) for sibs, t in any_sels(ts, d) for fa in optional_arg_fields(ts, t)]
    if not cands: return None
    sibs, t, (f, opt) = r.choice(cands)
    a, b = r.sample(opt, 2)
    va, vb = value_for(ts, a["ty"], r), value_for(ts, b["ty"], r)
    A_ = {"name": a["name"], "val": va}
    B_ = {"name": b["name"], "val": vb}
    other = wrong_value_for(ts, b["ty"], r)     # only used when it differs from vb; validity is TLC's business
    rel = r.choice(["subset", "subset", "disjoint", "empty-vs-one", "value", "equal", "reordered"])
    first, second = {
        "subset": ([A_], [A_, B_]), "disjoint": ([A_], [B_]), "empty-vs-one": ([], [A_]),
        "value": ([A_, B_], [A_, {"name": b["name"], "val": value_for(ts, b["ty"], r) if r.random() < 0.5 else other}]),
        "equal": ([A_, B_], [A_, B_]), "reordered": ([A_, B_], [B_, A_]),
    }[rel]
    if r.random() < 0.5:
        first, second = second, first               # superset-first / both orders
    n1 = field(f, args=copy.deepcopy(first), alias="zr")
    n2 = field(f, args=copy.deepcopy(second), alias="zr")
    form = r.randrange(4)
    if form == 1:
        n2 = inline("", [n2])
    elif form == 2:
        n1 = inline("", [n1])
    elif form == 3 and kind(ts, t) in ("OBJECT", "INTERFACE", "UNION"):
        d["frags"].append({"name": "FR", "on": t, "dirs": [], "sels": [n2]})
        n2 = spread("FR")
    sibs += [n1, n2]
    return d


# ---------------------------------------------------------------------------------------------------------
# G4: several operations over one chain of fragments that uses a variable (5.8.3 is a per-operation rule: the variable
# must be defined by EVERY operation that reaches the use through transitively spread fragments).  Not registered as a G2
# mutation: the family has its own random stream, so the G1-G3 case streams stay what they were.
OP_NAME_POOL = ["Good", "Bad", "Other", "Q", "R", "S", "T", "Main", "List", "Get", "One", "Two", "Zeta", "A1", "B2", "op", "x", "Fetch", "M0", "Last"]
FRAG_TAGS = ["F", "Frag", "Part", "p", "Shared", "fx", "Z"]


def shared_var_doc(ts, rng):
    """(kind, doc, op_index): 2-6 named query operations that enter one chain of 1-4 fragments at different links (directly,
    through an inline fragment or below `a { .. }`); the last fragment (sometimes a middle one too) uses $var as an argument.
    kind says which operations define the variable: 'one-bad' (all but one), 'some-bad', 'all-good' (valid), 'all-bad'.
    Validity is TLC's business; the kinds only spread the cases."""
    q = ts["query"]
    L = rng.choice([1, 1, 2, 2, 3, 3, 4])
    nops = rng.choice([2, 3, 3, 4, 4, 5, 6])
    var = rng.choice(["a", "v", "sv", "id", "x9"])
    tag = rng.choice(FRAG_TAGS)
    nums = rng.sample(range(1, 40), L)
    fnames = ["%s%d" % (tag, k) for k in nums]
    # type of every link: Query, or A from some link on (entered through `a { ...next }`)
    first_a = rng.choice([None, None] + list(range(1, L))) if L > 1 else rng.choice([None, None, 0])
    on = [("A" if first_a is not None and i >= first_a else q) for i in range(L)]

    def use(t, alias):
        if t == "A":
            return field("echo", args=[{"name": "x", "val": V(var)}], alias=alias)
        return field(rng.choice(["fi", "f2"]), args=[{"name": "x", "val": V(var)}], alias=alias)

    def enter(frm, i):
        """selections that lead from a selection set on `frm` into fragment i"""
        sp = spread(fnames[i])
        if frm == on[i]:
            x = rng.random()
            return [sp] if x < 0.6 else [inline(on[i] if x < 0.8 else "", [sp])]
        return [field("a", [sp] if rng.random() < 0.7 else [field("self", [sp], alias="zs")], alias="za%d" % i)]

    frags = []
    for i in range(L):
        sels = []
        if rng.random() < 0.4:
            sels.append(field("name" if on[i] == "A" else "n", alias="k%d" % i))
        if i == L - 1 or rng.random() < 0.2:
            sels.append(use(on[i], "u%d" % i))
        if i < L - 1:
            sels += enter(on[i], i + 1)
        rng.shuffle(sels)
        frags.append({"name": fnames[i], "on": on[i], "dirs": [], "sels": sels})
    kind_ = rng.choice(["one-bad"] * 5 + ["some-bad"] * 3 + ["all-good"] * 2 + ["all-bad"])
    defines = {"one-bad": [True] * (nops - 1) + [False], "all-good": [True] * nops, "all-bad": [False] * nops,
               "some-bad": [True, False] + [rng.random() < 0.5 for _ in range(nops - 2)]}[kind_]
    rng.shuffle(defines)
    entries = [0] + [rng.randrange(L) for _ in range(nops - 1)]          # the head of the chain is always used
    rng.shuffle(entries)
    names = rng.sample(OP_NAME_POOL, nops)
    ops = []
    for j in range(nops):
        sels = enter(q, entries[j])
        vars_ = [vardef(var, N("Int"), I(3) if rng.random() < 0.2 else None)] if defines[j] else []
        if rng.random() < 0.3:                                          # a variable of its own, used directly
            vars_.append(vardef("own", N("Int")))
            sels.append(field("fi", args=[{"name": "x", "val": V("own")}], alias="zo%d" % j))
        if rng.random() < 0.3:
            sels.insert(rng.randint(0, len(sels)), field("__typename"))
        if rng.random() < 0.15 and entries[j] + 1 < L and on[entries[j] + 1] == q:   # a second way into the chain
            sels.append(spread(fnames[entries[j] + 1]))
        ops.append({"name": names[j], "ty": "query", "vars": vars_, "dirs": [], "sels": sels})
    frag_defs = list(frags)
    rng.shuffle(frag_defs)
    return kind_, {"ops": ops, "frags": frag_defs}, rng.randrange(nops)
