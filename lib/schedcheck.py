"""Schedule generation for C04/C05: dry run -> task tree of gated resolvers -> TLC (ExecSched.tla) enumerates
every completion order the executor can be driven through -> cases with gate schedules."""
import json, os, random
import vlib, execcheck


def dry_run(c, cases, tag):
    for i, x in enumerate(cases):
        x["id"] = i + 1
    inp, out = c.path("dry_%s.ndjson" % tag), c.path("dry_%s_out.ndjson" % tag)
    vlib.write_ndjson(inp, cases)
    (binary,) = vlib.build_harness(["cexec"])
    p = vlib.run_harness(binary, [inp, out, execcheck.SCHEMA], timeout=3000)
    if p.returncode != 0:
        raise vlib.ToolError("cexec (dry run) failed: " + p.stderr[-2000:])
    return vlib.read_ndjson(out)


def task_tree(case, dry, rng, max_tasks):
    """Pick up to max_tasks resolver positions (obj, field) that the dry run resolved at exactly one response
    path; gate them; return (world with gates, tree record) or None."""
    starts = [e for e in dry["obs"]["log"] if e["ev"] == "start"]
    by_pos = {}
    for e in starts:
        by_pos.setdefault((e["obj"], e["field"]), set()).add(tuple(e["path"]))
    # plain-fn resolvers of the static family ("sync" in the schema mirror) never wait on a gate
    sync = {f for t in json.load(open(execcheck.SCHEMA))["types"].values() for f, d in t["fields"].items() if d.get("sync")}
    cands = sorted(p for p, paths in by_pos.items() if len(paths) == 1 and p[1] not in sync)
    if not cands:
        return None
    chosen = cands if len(cands) <= max_tasks else sorted(rng.sample(cands, max_tasks))
    paths = [sorted(by_pos[p])[0] for p in chosen]
    # document order of root keys = order of first start per root key in the (ungated, hence sequentially polled) dry run
    roots = []
    for e in starts:
        if e["path"][0] not in roots:
            roots.append(e["path"][0])
    world = json.loads(json.dumps(case["world"]))
    parent, root = [], []
    for i, (pos, path) in enumerate(zip(chosen, paths)):
        world[pos[0]]["vals"][pos[1]]["gate"] = i + 1
        best, bi = -1, 0
        for j, q in enumerate(paths):
            if j != i and len(q) < len(path) and tuple(path[:len(q)]) == tuple(q) and len(q) > best:
                best, bi = len(q), j + 1
        parent.append(bi)
        root.append(roots.index(path[0]) + 1)
    serial = case["doc"]["ops"][case["opIndex"] - 1]["ty"] == "mutation"
    # dynamic flavour: fields of a nested object are resolved serially (list items stay concurrent)
    order = {}
    for e in starts:
        order.setdefault(tuple(e["path"]), len(order))
    after = []
    for i, path in enumerate(paths):
        a = []
        if case["flavour"] == "dynamic":
            for j, q in enumerate(paths):
                if j == i or order[tuple(q)] > order[tuple(path)]:
                    continue
                k = 0
                while k < len(q) and k < len(path) and q[k] == path[k]:
                    k += 1
                if k == len(q):      # q is an ancestor of path: handled by parent
                    continue
                if k >= 1 and k < len(path) and not (str(q[k]).startswith("#") and str(path[k]).startswith("#")):
                    a.append(j + 1)
        after.append(a)
    return world, {"serial": serial, "parent": parent, "root": root, "after": after}


def schedules(c, trees, label, sim=None):
    """trees: list of tree records with 'id'. Returns {id: [schedule,...]} from TLC: all behaviours (BFS), or
    `sim` random behaviours (TLC -simulate, seeded) for task trees too large to enumerate."""
    path = c.path("trees_%s.ndjson" % label)
    vlib.write_ndjson(path, trees)
    if sim:
        r = vlib.run_tlc("conc/ExecSched.tla", "conc/Sim_ExecSched.cfg", env={"TREES": path}, workers=1, timeout=1800,
                         simulate=sim, depth=4 * max(len(t["parent"]) for t in trees) + 4, seed=c.seed, keep_lines=20, xmx="4g")
        c.add_tlc("G ExecSched -simulate (%d random completion orders)" % sim, r)
        out = {}
        for t in r.tagged("REPLAY"):
            out.setdefault(t[1], set()).add(t[2])
        return {k: [json.loads(s) for s in sorted(v)] for k, v in out.items()}
    r = vlib.run_tlc("conc/ExecSched.tla", "conc/MC_ExecSched.cfg", env={"TREES": path}, workers=8, timeout=1800,
                     coverage=True, keep_lines=20, xmx="8g")
    if r.invariant_violated:
        raise vlib.ToolError("design-level failure in ExecSched.tla: %s" % r.invariant_violated)
    if r.coverage.get("ExecSched!Next", (0, 0))[0] == 0 or not r.tagged("REPLAY"):
        raise vlib.ToolError("vacuity: ExecSched produced no behaviour")
    c.add_tlc("M+G ExecSched (%d task trees: invariants, termination, all completion orders)" % len(trees), r)
    out = {}
    for t in r.tagged("REPLAY"):
        out.setdefault(t[1], set()).add(t[2])
    return {k: [json.loads(s) for s in sorted(v)] for k, v in out.items()}
