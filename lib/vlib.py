"""Runner library for the TLA+-driven verification of async-graphql.

No third-party imports.  Every check driver (checks/Cxx.py) uses this module to
  * rebuild the Rust harness against /repo's current working tree (hooks on),
  * run TLC in one of the three modes (M model-check, G generate, V validate),
  * classify per-case / per-trace verdicts against known_findings.json,
  * write evidence/<id>.json and replays/<id>/<n>.json,
  * print VIOLATION / KNOWN-FINDING lines and pick the exit code
    (0 held, 1 violation, 2 tool error -- never 1 for a tool problem).
"""
import hashlib
import json
import os
import re
import shutil
import subprocess
import sys
import time

ROOT = os.path.dirname(os.path.dirname(os.path.abspath(__file__)))
SPEC = os.path.join(ROOT, "spec")
HARNESS = os.environ.get("VERIF_HARNESS_DIR") or os.path.join(ROOT, "harness")
WORK_SUFFIX = os.environ.get("VERIF_WORK_SUFFIX", "")
JAR = "/opt/veriftools/tla/tla2tools.jar:/opt/veriftools/tla/CommunityModules-deps.jar"


class ToolError(Exception):
    pass


def spec_dirs():
    out = []
    for d, _sub, files in os.walk(SPEC):
        if any(f.endswith(".tla") for f in files):
            out.append(d)
    return sorted(out)


def canon(obj):
    return json.dumps(obj, sort_keys=True, separators=(",", ":"), ensure_ascii=True)


def chash(obj):
    return hashlib.sha256(canon(obj).encode()).hexdigest()[:16]


_TLA_STR = re.compile(r'"((?:[^"\\]|\\.)*)"')


def tla_unescape(s):
    out = []
    i = 0
    while i < len(s):
        c = s[i]
        if c == "\\" and i + 1 < len(s):
            n = s[i + 1]
            out.append({"n": "\n", "t": "\t", "r": "\r", "f": "\f", '"': '"', "\\": "\\"}.get(n, "\\" + n))
            i += 2
        else:
            out.append(c)
            i += 1
    return "".join(out)


def parse_tuple_line(line):
    """Parse a TLC PrintT line of the form <<"TAG", x, y, ...>> whose elements are
    strings, integers, TRUE/FALSE (nested tuples/sets are returned as raw text)."""
    line = line.strip()
    if not (line.startswith("<<") and line.endswith(">>")):
        return None
    body = line[2:-2]
    elems = []
    i = 0
    n = len(body)
    while i < n:
        while i < n and body[i] in " ,":
            i += 1
        if i >= n:
            break
        if body[i] == '"':
            m = _TLA_STR.match(body, i)
            if not m:
                return None
            elems.append(tla_unescape(m.group(1)))
            i = m.end()
        else:
            depth = 0
            j = i
            while j < n:
                ch = body[j]
                if body.startswith("<<", j) or ch in "{[(":
                    depth += 1
                    j += 2 if body.startswith("<<", j) else 1
                    continue
                if body.startswith(">>", j) or ch in "}])":
                    depth -= 1
                    j += 2 if body.startswith(">>", j) else 1
                    continue
                if ch == '"':
                    m = _TLA_STR.match(body, j)
                    j = m.end() if m else j + 1
                    continue
                if ch == "," and depth == 0:
                    break
                j += 1
            tok = body[i:j].strip()
            if re.fullmatch(r"-?\d+", tok):
                elems.append(int(tok))
            elif tok == "TRUE":
                elems.append(True)
            elif tok == "FALSE":
                elems.append(False)
            else:
                elems.append(tok)
            i = j
    return elems


class TlcResult:
    def __init__(self):
        self.lines = []
        self.tuples = []  # parsed PrintT tuples
        self.generated = 0
        self.distinct = 0
        self.ok = False
        self.invariant_violated = None
        self.coverage = {}
        self.wall = 0.0
        self.rc = None
        self.cmd = ""

    def tagged(self, tag):
        return [t for t in self.tuples if t and t[0] == tag]


def run_tlc(module, cfg=None, env=None, workers=1, simulate=None, depth=None, seed=None,
            timeout=600, xmx="4g", deque=False, coverage=False, metadir=None, extra=None,
            expect_violation=False, keep_lines=20000):
    """Run TLC on spec module (path relative to spec/ or absolute)."""
    mod = module if os.path.isabs(module) else os.path.join(SPEC, module)
    if cfg is None:
        cfg = mod[:-4] + ".cfg"
    elif not os.path.isabs(cfg):
        cfg = os.path.join(SPEC, cfg)
    if metadir is None:
        import uuid
        metadir = os.path.join(ROOT, "work", "tlc", os.path.basename(mod)[:-4] + "-" + str(os.getpid()) + "-" + uuid.uuid4().hex[:8])
    shutil.rmtree(metadir, ignore_errors=True)
    os.makedirs(metadir, exist_ok=True)
    jvm = ["java", "-XX:+UseParallelGC", "-Xss1g", "-Xmx" + xmx,
           "-DTLA-Library=" + ":".join(spec_dirs())]
    if deque:
        jvm.append("-Dtlc2.tool.queue.IStateQueue=StateDeque")
    cmd = jvm + ["-cp", JAR, "tlc2.TLC", "-workers", str(workers), "-config", cfg,
                 "-metadir", metadir, "-cleanup", "-noGenerateSpecTE", "-deadlock"]
    if coverage:
        cmd += ["-coverage", "1"]
    if simulate is not None:
        cmd += ["-simulate", "num=%d" % simulate]
        if depth:
            cmd += ["-depth", str(depth)]
    if seed is not None:
        cmd += ["-seed", str(seed)]
    if extra:
        cmd += list(extra)
    cmd.append(mod)
    e = dict(os.environ)
    e.pop("JAVA_TOOL_OPTIONS", None)
    if env:
        e.update({k: str(v) for k, v in env.items()})
    res = TlcResult()
    res.cmd = " ".join(cmd)
    t0 = time.time()
    try:
        p = subprocess.run(cmd, env=e, cwd=os.path.dirname(mod), stdout=subprocess.PIPE,
                           stderr=subprocess.STDOUT, timeout=timeout, text=True, errors="replace")
    except subprocess.TimeoutExpired:
        raise ToolError("TLC timed out after %ss: %s" % (timeout, res.cmd))
    finally:
        shutil.rmtree(metadir, ignore_errors=True)
    res.wall = time.time() - t0
    res.rc = p.returncode
    out = p.stdout.splitlines()
    # TLC's pretty-printer wraps long PrintT tuples over several lines: re-join them first
    joined, acc = [], None
    for ln in out:
        st = ln.strip()
        if acc is not None:
            acc += " " + st
            if st.endswith(">>"):
                joined.append(acc)
                acc = None
            elif len(acc) > 2000000:
                joined.append(acc)
                acc = None
            continue
        if st.startswith("<<") and not st.endswith(">>") and (st.startswith("<<\"") or st.startswith("<< \"")):
            acc = st
            continue
        joined.append(ln)
    if acc is not None:
        joined.append(acc)
    out = joined
    for ln in out:
        s = ln.strip()
        if s.startswith("<<"):
            t = parse_tuple_line(s)
            if t is not None:
                res.tuples.append(t)
                continue
        m = re.match(r"(\d+) states generated, (\d+) distinct states found", s)
        if m:
            res.generated, res.distinct = int(m.group(1)), int(m.group(2))
        m = re.match(r"Error: Invariant (\S+) is violated", s)
        if m:
            res.invariant_violated = m.group(1)
        if s.startswith("Error: Action property") or s.startswith("Error: Temporal properties were violated"):
            res.invariant_violated = res.invariant_violated or s
        m = re.match(r"<(\w+) line \d+, col \d+ to line \d+, col \d+ of module (\w+)>: (\d+):(\d+)", s)
        if m:
            res.coverage[m.group(2) + "!" + m.group(1)] = (int(m.group(3)), int(m.group(4)))
        if len(res.lines) < keep_lines:
            res.lines.append(ln)
    finished = any("Model checking completed" in l or "Finished in" in l or "The number of states generated" in l
                   for l in out)
    res.ok = (p.returncode == 0)
    if res.invariant_violated and expect_violation:
        return res
    if p.returncode != 0 and not (res.invariant_violated and expect_violation):
        if res.invariant_violated:
            return res  # caller decides (mode M on the ideal spec: a design-level failure)
        tail = "\n".join(out[-40:])
        raise ToolError("TLC failed (rc=%s) on %s:\n%s" % (p.returncode, res.cmd, tail))
    if not finished and simulate is None:
        raise ToolError("TLC did not finish: " + res.cmd)
    return res


def run_tlc_sliced(module, cfg, trace_path, env=None, slices=8, env_key="TRACE", **kw):
    """Mode V on a big ndjson: TLC loads ndjson slowly and a trace-validation run does not profit from several
    workers, so the trace is split into contiguous slices, each validated by its own 1-worker JVM in parallel.
    Returns a TlcResult with the merged PrintT tuples and summed state counts."""
    from concurrent.futures import ThreadPoolExecutor
    with open(trace_path) as f:
        rows = [ln for ln in f if ln.strip()]
    n = max(1, min(slices, (len(rows) + 199) // 200))
    size = (len(rows) + n - 1) // n
    paths = []
    for i in range(n):
        part = rows[i * size:(i + 1) * size]
        if not part:
            continue
        p = "%s.slice%d" % (trace_path, i)
        with open(p, "w") as f:
            f.writelines(part)
        paths.append(p)
    kw["workers"] = 1

    def one(p):
        e = dict(env or {})
        e[env_key] = p
        return run_tlc(module, cfg, env=e, **kw)
    t0 = time.time()
    with ThreadPoolExecutor(len(paths)) as ex:
        results = list(ex.map(one, paths))
    for p in paths:
        try:
            os.remove(p)
        except OSError:
            pass
    res = TlcResult()
    for r in results:
        res.tuples += r.tuples
        res.generated += r.generated
        res.distinct += r.distinct
        res.lines += r.lines[:50]
    res.wall = time.time() - t0
    res.ok = all(r.ok for r in results)
    res.cmd = results[0].cmd + " (x%d slices)" % len(results)
    return res


def sany(module):
    mod = module if os.path.isabs(module) else os.path.join(SPEC, module)
    cmd = ["java", "-DTLA-Library=" + ":".join(spec_dirs()), "-cp", JAR, "tla2sany.SANY", mod]
    p = subprocess.run(cmd, cwd=os.path.dirname(mod), stdout=subprocess.PIPE, stderr=subprocess.STDOUT, text=True)
    bad = p.returncode != 0 or "*** Errors" in p.stdout or "Fatal errors" in p.stdout or "Could not find module" in p.stdout
    return (not bad), p.stdout


def build_harness(bins):
    """cargo build the given harness binaries against /repo's current working tree (hooks on)."""
    if isinstance(bins, str):
        bins = [bins]
    cmd = ["cargo", "build", "--release", "--offline", "-q"]
    for b in bins:
        cmd += ["--bin", b]
    env = dict(os.environ)
    env["CARGO_NET_OFFLINE"] = "true"
    p = subprocess.run(cmd, cwd=os.path.join(HARNESS, "vh"), env=env, stdout=subprocess.PIPE, stderr=subprocess.STDOUT, text=True)
    if p.returncode != 0:
        # A compile failure of /repo's current tree is a tool error, not a verdict.
        raise ToolError("harness build failed:\n" + p.stdout[-6000:])
    return [os.path.join(HARNESS, "target", "release", b) for b in bins]


def run_harness(binary, args, timeout=600, env=None, stdin=None):
    e = dict(os.environ)
    if env:
        e.update({k: str(v) for k, v in env.items()})
    try:
        p = subprocess.run([binary] + [str(a) for a in args], env=e, stdout=subprocess.PIPE, stderr=subprocess.PIPE,
                           timeout=timeout, text=True, errors="replace", input=stdin)
    except subprocess.TimeoutExpired:
        raise ToolError("harness timed out: %s %s" % (binary, args))
    return p


def read_ndjson(path):
    out = []
    with open(path) as f:
        for ln in f:
            ln = ln.strip()
            if ln:
                out.append(json.loads(ln))
    return out


def write_ndjson(path, rows):
    with open(path, "w") as f:
        for r in rows:
            f.write(json.dumps(r, separators=(",", ":")) + "\n")


def load_known(pid):
    """known_findings/<pid>.json: {"findings": [{"id", "deviation", "what", "witness"}], "fixed": ["fixed: property=.. <commit> .."]}"""
    p = os.path.join(ROOT, "known_findings", pid + ".json")
    if not os.path.exists(p):
        return {"findings": [], "fixed": []}
    with open(p) as f:
        return json.load(f)


class Check:
    """State of one check invocation: work dir, verdict accounting, evidence."""

    def __init__(self, pid, level, argv=None):
        import argparse
        ap = argparse.ArgumentParser()
        ap.add_argument("--tier", default=os.environ.get("VERIF_TIER", "quick"))
        ap.add_argument("--replay", default=None)
        a = ap.parse_args(argv)
        self.pid = pid
        self.level = level
        self.tier = a.tier if a.tier in ("quick", "thorough") else "quick"
        self.replay = a.replay
        try:
            self.seed = int(os.environ.get("VERIF_SEED", "1"))
        except ValueError:
            self.seed = 1
        self.t0 = time.time()
        self.work = os.path.join(ROOT, "work", pid + WORK_SUFFIX)
        shutil.rmtree(self.work, ignore_errors=True)
        os.makedirs(self.work, exist_ok=True)
        self.replay_dir = os.path.join(ROOT, "replays", pid + WORK_SUFFIX)
        shutil.rmtree(self.replay_dir, ignore_errors=True)
        self.violations = []
        self.known_seen = {}
        self.known = load_known(pid)["findings"]
        self.cov = {"evaluations": 0, "distinct_nontrivial": 0, "rule": "", "samples": [],
                    "states": 0, "transitions": 0, "traces_validated_against_impl": 0,
                    "exhaustive": False, "model_drift": 0, "known_findings": [], "tlc_runs": []}
        self.assumptions = []
        self.notes = []
        self._seen_hashes = set()

    @property
    def quick(self):
        return self.tier == "quick"

    def path(self, name):
        return os.path.join(self.work, name)

    # ---- accounting ---------------------------------------------------------------------
    def add_tlc(self, label, res):
        self.cov["states"] += res.distinct
        self.cov["transitions"] += res.generated
        self.cov["tlc_runs"].append({"label": label, "distinct_states": res.distinct, "states_generated": res.generated,
                                     "wall_s": round(res.wall, 2)})

    def count_case(self, case, nontrivial=True):
        self.cov["evaluations"] += 1
        if nontrivial:
            h = chash(case)
            if h not in self._seen_hashes:
                self._seen_hashes.add(h)
                self.cov["distinct_nontrivial"] += 1

    def sample(self, obj, limit=3):
        if len(self.cov["samples"]) < limit:
            self.cov["samples"].append(obj)

    # ---- verdicts -----------------------------------------------------------------------
    def violation(self, replay_obj, what=""):
        os.makedirs(self.replay_dir, exist_ok=True)
        n = len(self.violations) + 1
        path = os.path.join(self.replay_dir, "%d.json" % n)
        if n <= 50:
            with open(path, "w") as f:
                json.dump({"property": self.pid, "what": what, "case": replay_obj}, f, indent=1)
        else:
            path = os.path.join(self.replay_dir, "50.json")
        self.violations.append(path)
        if n <= 50:
            print("VIOLATION property=%s replay=%s%s" % (self.pid, path, (" " + what) if what else ""), flush=True)

    def known_finding(self, dev, case=None):
        """A verdict explained only by named deviation `dev`: allowed iff known_findings.json lists it."""
        for k in self.known:
            if k["deviation"] == dev:
                if dev not in self.known_seen:
                    self.known_seen[dev] = 0
                    print("KNOWN-FINDING: property=%s %s: %s" % (self.pid, k["id"], k["what"]), flush=True)
                self.known_seen[dev] += 1
                return
        self.violation(case, "unlisted deviation " + dev)

    def verdict(self, v, case, what=""):
        """v: 'ok' | 'known:<Dev>[,<Dev>...]' | anything else = violation."""
        self.cov.setdefault("verdicts", {})
        self.cov["verdicts"][str(v)] = self.cov["verdicts"].get(str(v), 0) + 1
        if v == "ok":
            return
        if isinstance(v, str) and v.startswith("known:"):
            for d in v[6:].split(","):
                self.known_finding(d, case)
            return
        self.violation(case, what or str(v))

    def drift(self, what):
        self.cov["model_drift"] += 1
        if self.cov["model_drift"] <= 5:
            print("MODEL-DRIFT property=%s %s" % (self.pid, what), flush=True)

    # ---- finishing ----------------------------------------------------------------------
    def finish(self):
        self.cov["known_findings"] = sorted(self.known_seen)
        self.cov["known_finding_cases"] = dict(self.known_seen)
        ev = {"property_id": self.pid, "tier": self.tier, "seed": self.seed, "level": self.level,
              "coverage": self.cov, "assumptions": self.assumptions, "wall_s": round(time.time() - self.t0, 2),
              "violations": len(self.violations)}
        if self.notes:
            ev["notes"] = self.notes
        if self.cov["evaluations"] < 1 or self.cov["distinct_nontrivial"] < 2 or not self.cov["samples"]:
            raise ToolError("vacuous run: evaluations=%s distinct_nontrivial=%s" %
                            (self.cov["evaluations"], self.cov["distinct_nontrivial"]))
        os.makedirs(os.path.join(ROOT, "evidence"), exist_ok=True)
        with open(os.path.join(ROOT, "evidence" if not WORK_SUFFIX else "work", self.pid + WORK_SUFFIX + ".json"), "w") as f:
            json.dump(ev, f, indent=1)
        if self.cov.get("verdicts"):
            print("verdicts: " + json.dumps(self.cov["verdicts"], sort_keys=True), flush=True)
        print("%s tier=%s evaluations=%d distinct=%d states=%d violations=%d known=%s wall=%.1fs" %
              (self.pid, self.tier, self.cov["evaluations"], self.cov["distinct_nontrivial"], self.cov["states"],
               len(self.violations), sorted(self.known_seen), time.time() - self.t0), flush=True)
        return 1 if self.violations else 0


def main(pid, level, body):
    """Entry point used by every checks/Cxx.py."""
    c = None
    try:
        c = Check(pid, level, sys.argv[1:])
        body(c)
        rc = c.finish()
    except ToolError as e:
        print("TOOL-ERROR property=%s %s" % (pid, e), file=sys.stderr, flush=True)
        # a violation that was already reported stands: vacuity / bookkeeping guards that trip afterwards
        # (typically *because* of the violating behaviour) must not turn the verdict into a tool error
        if c is not None and c.violations:
            try:
                c.cov["evaluations"] = max(c.cov["evaluations"], 1)
                c.cov["distinct_nontrivial"] = max(c.cov["distinct_nontrivial"], 2)
                if not c.cov["samples"]:
                    c.cov["samples"] = [{"note": "run aborted by a tool error after violations were reported"}]
                c.notes.append("tool error after violations: %s" % e)
                c.finish()
            except Exception:
                pass
            sys.exit(1)
        sys.exit(2)
    sys.exit(rc)
