"""Shared driver logic of the execution-semantics checks (C01 static / C02 dynamic)."""
import json, os, random
import vlib, gqlgen

SCHEMA = os.path.join(vlib.ROOT, "schemas", "exec.json")


def gen_docs(c, root, n, dirs, label, max_alias=1):
    cfg = c.path("Gen_%s.cfg" % label)
    with open(cfg, "w") as f:
        f.write('CONSTANT MaxNodes = %d\nCONSTANT MaxDirs = 1\nCONSTANT MaxAlias = %d\nCONSTANT Root = "%s"\nCONSTANT Dirs = {%s}\n'
                'INIT Init\nNEXT Next\nINVARIANT DepthOK\nINVARIANT Emit\n' % (n, max_alias, root, ", ".join('"%s"' % d for d in dirs)))
    g = vlib.run_tlc("gql/Gen_Doc.tla", cfg, env={"SCHEMA": SCHEMA}, workers=8, timeout=1800, keep_lines=20, xmx="8g")
    c.add_tlc("G documents root=%s N=%d" % (root, n), g)
    return sorted(set(t[1] for t in g.tagged("REPLAY")))


def with_vars(doc, form):
    defs, supplied = form
    d = json.loads(json.dumps(doc))
    d["ops"][0]["vars"] = defs
    if defs:
        d["ops"][0]["name"] = "Q"
    return d, supplied


def run_cases(c, cases, mode, schema=SCHEMA):
    for i, x in enumerate(cases):
        x["id"] = i + 1
        # every third case runs with a pass-through extension registered (extension-aware executor paths)
        x.setdefault("ext", i % 3 == 2)
        # every fifth case is executed through Schema::execute_stream (first item), the entry point of the
        # WebSocket / multipart transports, instead of Schema::execute
        x.setdefault("stream", i % 5 == 1)
    vlib.write_ndjson(c.path("cases.ndjson"), cases)
    (binary,) = vlib.build_harness(["cexec"])
    p = vlib.run_harness(binary, [c.path("cases.ndjson"), c.path("trace.ndjson"), schema], timeout=3000)
    if p.returncode != 0:
        raise vlib.ToolError("cexec failed: " + p.stderr[-2000:])
    v = vlib.run_tlc_sliced("gql/ExecTrace.tla", "gql/ExecTrace1.cfg", c.path("trace.ndjson"), env={"SCHEMA": schema, "MODE": mode},
                            slices=8, timeout=6000, keep_lines=50, xmx="3g")
    c.add_tlc("V ExecTrace (%s)" % mode, v)
    verdicts = {t[1]: t[2] for t in v.tagged("VERDICT")}
    obs = vlib.read_ndjson(c.path("trace.ndjson"))
    if len(verdicts) != len(obs):
        raise vlib.ToolError("V produced %d verdicts for %d cases" % (len(verdicts), len(obs)))
    return obs, verdicts
