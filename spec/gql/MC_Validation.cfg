CONSTANT Full = TRUE
INIT Init
NEXT Next
INVARIANT Law1
INVARIANT Law2
INVARIANT Law3
