-------------------------- MODULE SchemaCheckTrace --------------------------
(* Mode V for C33: every recorded build of a type system is judged with      *)
(* SchemaCheck.  A case is {id, src, ts, ok, err, panic, post}: `ok` is      *)
(* finish().is_ok(); `panic` is non-empty when the build or any of the       *)
(* post-build exercises (introspection, SDL export, one document per root    *)
(* field) panicked.                                                          *)
(*                                                                           *)
(*   ok          build result = TypeSystemValid(ts)                          *)
(*   unjudged    only rules outside the property's list are violated         *)
(*   known D     the result differs from the specification's, and equals     *)
(*               what the clauses give with the (minimal) set D of named     *)
(*               deviations switched on, all of them triggered by ts         *)
(*   violation   anything else, and every panic                              *)
EXTENDS SchemaCheck, Json, IOUtils

Cases == ndJsonDeserialize(IOEnv.TRACE)
CONSTANT Chunk
VARIABLE l

Minimal(E) == CHOOSE D \in E : \A D2 \in E : Cardinality(D) <= Cardinality(D2)
ExpectedOf(v) == IF v \cap Judged # {} THEN "reject" ELSE IF v = {} THEN "accept" ELSE "any"

Verdict(c) ==
  LET v == Violated(c.ts, {})
      e == ExpectedOf(v)
      triggered == {d \in Devs : Violated(c.ts, {d}) # v}
      explaining == {D \in SUBSET triggered : D # {} /\ Matches(c.ok, ExpectedOf(Violated(c.ts, D)))}
  IN IF c.panic # "" THEN <<"violation", {"Panic"}, v>>
     ELSE IF Matches(c.ok, e) THEN <<IF e = "any" THEN "unjudged" ELSE "ok", {}, v>>
     ELSE IF explaining # {} THEN <<"known", Minimal(explaining), v>>
     ELSE <<"violation", {}, v>>

TInit == l \in {i \in 1..Len(Cases) : i % Chunk = 1 \/ Chunk = 1}
TNext == /\ l <= Len(Cases)
         \* TLC wraps long tuples over several lines: one short line per fact
         /\ LET r == Verdict(Cases[l]) IN /\ \A d \in r[2] : PrintT(<<"DEV", Cases[l].id, d>>)
                                          /\ \A x \in r[3] : PrintT(<<"CLAUSE", Cases[l].id, x>>)
                                          /\ PrintT(<<"VERDICT", Cases[l].id, r[1]>>)
         /\ l % Chunk # 0
         /\ l' = l + 1
=============================================================================
