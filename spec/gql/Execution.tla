------------------------------ MODULE Execution ------------------------------
(***************************************************************************)
(* Reference semantics of GraphQL execution (spec October 2021, section 6: *)
(* 6.3 ExecuteSelectionSet / CollectFields / DoesFragmentTypeApply,        *)
(* 6.4 ExecuteField / CompleteValue / ResolveAbstractType, 6.4.4 handling  *)
(* field errors, 3.13.1-2 @skip / @include), written over                  *)
(*   - an abstract type system   ts  (schemas/*.json, DESIGN appendix A),  *)
(*   - an abstract document      doc (tree form),                          *)
(*   - an abstract data world    world : object id -> field -> outcome.    *)
(* A context C bundles [ts, doc, vars, world, dev]; dev is the set of      *)
(* named deviations of today's implementation that are switched on (empty  *)
(* for the ideal semantics).                                               *)
(*                                                                         *)
(* Results are records R(val, fail, req, opt, force):                      *)
(*   val   ordered response value ([k |-> "obj", entries |-> <<[key,val]>>])*)
(*   fail  this position could not be produced and must be nulled by the   *)
(*         nearest nullable ancestor (6.4.4)                               *)
(*   req   sequence of non-empty error sets: at least one error of each    *)
(*         set must be reported (a set has several members only when       *)
(*         several failures race for the same propagation)                 *)
(*   opt   errors that may or may not be reported (they lie in a region    *)
(*         discarded by another failure's propagation)                     *)
(*   force (deviations only) null that bypasses the non-null check         *)
(***************************************************************************)
EXTENDS Naturals, Sequences, FiniteSets, TLC

Null == [k |-> "null"]
R(v, f, rq, op, fo) == [val |-> v, fail |-> f, req |-> rq, opt |-> op, force |-> fo]
Err(path, node) == [path |-> path, line |-> node.line, col |-> node.col]
Idx(j) == "#" \o ToString(j - 1)          \* list indices in paths, 0-based, as strings

RECURSIVE SeqUnion(_, _)
SeqUnion(s, i) == IF i > Len(s) THEN {} ELSE s[i] \cup SeqUnion(s, i + 1)
AllErrs(r) == SeqUnion(r.req, 1) \cup r.opt

----------------------------------------------------------------------------
(* type system helpers *)
TypeDef(C, t) == C.ts.types[t]
Kind(C, t) == IF t \in DOMAIN C.ts.types THEN C.ts.types[t].kind ELSE "SCALAR"
InSeq(x, s) == \E i \in 1..Len(s) : s[i] = x
\* 3.7/3.8: the object types an (abstract) type can stand for
IsPossible(C, obj, t) ==
  CASE Kind(C, t) = "OBJECT"    -> obj = t
    [] Kind(C, t) = "INTERFACE" -> InSeq(t, TypeDef(C, obj).implements)
    [] Kind(C, t) = "UNION"     -> InSeq(obj, TypeDef(C, t).members)
    [] OTHER -> FALSE
\* 6.3.2 DoesFragmentTypeApply
FragApplies(C, obj, cond) ==
  IF cond = "" THEN TRUE
  ELSE IF "DevUnionCond" \in C.dev /\ Kind(C, cond) = "UNION" THEN FALSE     \* known deviation
  ELSE IsPossible(C, obj, cond)

----------------------------------------------------------------------------
(* variables and directives: 6.1.2 CoerceVariableValues restricted to the Boolean variables *)
(* that feed @skip/@include; 3.13.1, 3.13.2                                                  *)
VarDefs(C) == C.op.vars
HasVarDef(C, n) == \E i \in 1..Len(VarDefs(C)) : VarDefs(C)[i].name = n
VarDef(C, n) == VarDefs(C)[CHOOSE i \in 1..Len(VarDefs(C)) : VarDefs(C)[i].name = n]
Supplied(C, n) == \E i \in 1..Len(C.vars) : C.vars[i].name = n
SuppliedVal(C, n) == C.vars[CHOOSE i \in 1..Len(C.vars) : C.vars[i].name = n].val
\* value of a Boolean variable after coercion (default applies when the variable is omitted)
VarBool(C, n) ==
  IF Supplied(C, n) THEN SuppliedVal(C, n).v
  ELSE IF VarDef(C, n).hasDefault /\ ~("DevSkipIgnoresVarDefault" \in C.dev) THEN VarDef(C, n).default.v
  ELSE FALSE   \* unreachable for valid requests of the generator; the deviation treats "omitted" as false
DirIf(C, d) == IF d.val.k = "var" THEN VarBool(C, d.val.name) ELSE d.val.v
ShouldInclude(C, dirs) ==
  \A i \in 1..Len(dirs) :
     /\ (dirs[i].name = "skip"    => ~DirIf(C, dirs[i]))
     /\ (dirs[i].name = "include" =>  DirIf(C, dirs[i]))
\* a case exercises a variable default iff some used variable is omitted and has a default
UsesVarDefault(C) == \E i \in 1..Len(VarDefs(C)) : VarDefs(C)[i].hasDefault /\ ~Supplied(C, VarDefs(C)[i].name)

----------------------------------------------------------------------------
(* 6.3.2 CollectFields: ordered groups [key, nodes] *)
Key(f) == IF f.alias = "" THEN f.name ELSE f.alias
HasFrag(C, n) == \E i \in 1..Len(C.doc.frags) : C.doc.frags[i].name = n
Frag(C, n) == C.doc.frags[CHOOSE i \in 1..Len(C.doc.frags) : C.doc.frags[i].name = n]

AddToGroups(groups, f) ==
  IF \E i \in 1..Len(groups) : groups[i].key = Key(f)
  THEN [i \in 1..Len(groups) |-> IF groups[i].key = Key(f)
                                  THEN [groups[i] EXCEPT !.nodes = Append(groups[i].nodes, f)] ELSE groups[i]]
  ELSE Append(groups, [key |-> Key(f), nodes |-> <<f>>])

RECURSIVE Collect(_, _, _, _, _, _)
Collect(C, obj, sels, i, groups, visited) ==
  IF i > Len(sels) THEN [g |-> groups, v |-> visited]
  ELSE LET s == sels[i] IN
    IF ~ShouldInclude(C, s.dirs) THEN Collect(C, obj, sels, i + 1, groups, visited)
    ELSE IF s.k = "field" THEN Collect(C, obj, sels, i + 1, AddToGroups(groups, s), visited)
    ELSE IF s.k = "spread" THEN
      IF s.name \in visited \/ ~HasFrag(C, s.name) THEN Collect(C, obj, sels, i + 1, groups, visited)
      ELSE LET fr == Frag(C, s.name) IN
           IF ~FragApplies(C, obj, fr.on) THEN Collect(C, obj, sels, i + 1, groups, visited \cup {s.name})
           ELSE LET r == Collect(C, obj, fr.sels, 1, groups, visited \cup {s.name})
                IN Collect(C, obj, sels, i + 1, r.g, r.v)
    ELSE \* inline fragment
      IF ~FragApplies(C, obj, s.on) THEN Collect(C, obj, sels, i + 1, groups, visited)
      ELSE LET r == Collect(C, obj, s.sels, 1, groups, visited)
           IN Collect(C, obj, sels, i + 1, r.g, r.v)

RECURSIVE MergedSels(_, _)
MergedSels(nodes, i) == IF i > Len(nodes) THEN <<>> ELSE nodes[i].sels \o MergedSels(nodes, i + 1)

----------------------------------------------------------------------------
(* 3.5 / 6.4.3 result coercion of leaves.  Returns [ok, val, force].                       *)
(* Float: non-finite values cannot be coerced and raise a field error (3.5.2).              *)
Pass(w) == [ok |-> TRUE, val |-> IF w.k = "enum" THEN [k |-> "enum", v |-> w.v] ELSE [k |-> w.k, v |-> w.v], force |-> FALSE]
Bad == [ok |-> FALSE, val |-> Null, force |-> FALSE]
BuiltinScalars == {"Int", "Float", "String", "ID", "Boolean"}
Leaf(C, tname, w) ==
  \* known deviation (dynamic schemas): the built-in scalars carry no validator, any leaf value passes unchanged
  IF "DevDynamicScalarUnchecked" \in C.dev /\ tname \in BuiltinScalars /\ w.k \in {"int", "float", "str", "bool", "enum"}
     /\ ~(w.k = "float" /\ w.v \in {"nan", "inf", "ninf"})
  THEN Pass(w)
  ELSE
  CASE tname = "Int"     -> IF w.k = "int" THEN Pass(w) ELSE Bad
    [] tname = "Float"   -> IF w.k = "float" /\ w.v \notin {"nan", "inf", "ninf"} THEN Pass(w)
                            ELSE IF w.k = "float" /\ "DevNonFiniteFloatIsNull" \in C.dev THEN [ok |-> TRUE, val |-> Null, force |-> TRUE]
                            ELSE IF w.k = "int" THEN Pass(w)
                            ELSE Bad
    [] tname \in {"String", "ID"} -> IF w.k = "str" THEN Pass(w) ELSE Bad
    [] tname = "Boolean" -> IF w.k = "bool" THEN Pass(w) ELSE Bad
    [] Kind(C, tname) = "ENUM" -> IF w.k \in {"enum", "str"} /\ InSeq(w.v, TypeDef(C, tname).values)
                                  THEN [ok |-> TRUE, val |-> [k |-> C.enumAs, v |-> w.v], force |-> FALSE]
                                  ELSE Bad
    [] OTHER -> \* custom scalar of a dynamic schema: validator = "the value is a string"
                IF w.k = "str" THEN Pass(w) ELSE Bad

IsComposite(C, t) == Kind(C, t) \in {"OBJECT", "INTERFACE", "UNION"}
FieldDef(C, obj, name) == TypeDef(C, obj).fields[name]

----------------------------------------------------------------------------
(* 6.3 ExecuteSelectionSet, 6.4 ExecuteField, 6.4.3 CompleteValue, 6.4.4 errors *)
RECURSIVE ExecSel(_, _, _, _, _), ExecGroups(_, _, _, _, _, _, _, _, _, _), ExecField(_, _, _, _, _),
          Complete(_, _, _, _, _, _), CompleteInner(_, _, _, _, _, _), CompleteItems(_, _, _, _, _, _, _, _, _, _, _)

ExecSel(C, sels, objId, obj, path) ==
  ExecGroups(C, Collect(C, obj, sels, 1, <<>>, {}).g, 1, objId, obj, path, <<>>, <<>>, {}, {})

\* entries/req/opt accumulate the successful part; causes accumulates the cause errors of failed fields
ExecGroups(C, groups, i, objId, obj, path, entries, req, opt, causes) ==
  IF i > Len(groups)
  THEN IF causes = {} THEN R([k |-> "obj", entries |-> entries], FALSE, req, opt, FALSE)
       ELSE R(Null, TRUE, <<causes>>, opt \cup SeqUnion(req, 1), FALSE)
  ELSE LET r == ExecField(C, groups[i], objId, obj, path) IN
       IF r.fail
       THEN ExecGroups(C, groups, i + 1, objId, obj, path, entries, req, opt \cup r.opt, causes \cup SeqUnion(r.req, 1))
       ELSE ExecGroups(C, groups, i + 1, objId, obj, path,
                       Append(entries, [key |-> groups[i].key, val |-> r.val]), req \o r.req, opt \cup r.opt, causes)

\* Known deviation DevFieldPerOccurrence: the executors run one resolver per *occurrence* of a response key
\* (each with only its own sub-selection) and merge the values afterwards (resolver_utils/container.rs
\* insert_value): objects are merged key by key, lists item by item, anything else keeps the first value.
RECURSIVE MergeVal(_, _), MergeEntries(_, _, _), MergeItems(_, _, _)
HasKey(entries, k) == \E i \in 1..Len(entries) : entries[i].key = k
MergeVal(a, b) ==
  IF a.k = "obj" /\ b.k = "obj" THEN [k |-> "obj", entries |-> MergeEntries(a.entries, b.entries, 1)]
  ELSE IF a.k = "list" /\ b.k = "list" THEN [k |-> "list", items |-> MergeItems(a.items, b.items, 1)]
  ELSE a
MergeEntries(ea, eb, i) ==
  IF i > Len(eb) THEN ea
  ELSE IF HasKey(ea, eb[i].key)
       THEN MergeEntries([j \in 1..Len(ea) |-> IF ea[j].key = eb[i].key THEN [ea[j] EXCEPT !.val = MergeVal(ea[j].val, eb[i].val)] ELSE ea[j]], eb, i + 1)
       ELSE MergeEntries(Append(ea, eb[i]), eb, i + 1)
MergeItems(ia, ib, j) ==
  IF j > Len(ia) THEN <<>>
  ELSE <<IF j <= Len(ib) /\ ia[j].k = "obj" /\ ib[j].k = "obj" THEN MergeVal(ia[j], ib[j]) ELSE ia[j]>> \o MergeItems(ia, ib, j + 1)

RECURSIVE PerOccurrence(_, _, _, _, _, _, _, _, _, _)
PerOccurrence(C, def, group, w, p, i, acc, req, opt, causes) ==
  IF i > Len(group.nodes)
  THEN IF causes = {} THEN R(acc, FALSE, req, opt, FALSE) ELSE R(Null, TRUE, <<causes>>, opt \cup SeqUnion(req, 1), FALSE)
  ELSE LET r == Complete(C, def.ty, <<group.nodes[i]>>, w, p, group.nodes[i]) IN
       IF r.fail THEN PerOccurrence(C, def, group, w, p, i + 1, acc, req, opt \cup r.opt, causes \cup SeqUnion(r.req, 1))
       ELSE PerOccurrence(C, def, group, w, p, i + 1, IF i = 1 THEN r.val ELSE MergeVal(acc, r.val), req \o r.req, opt \cup r.opt, causes)

ExecField(C, group, objId, obj, path) ==
  LET node == group.nodes[1]
      p == Append(path, group.key)
  IN IF node.name = "__typename" THEN R([k |-> "str", v |-> obj], FALSE, <<>>, {}, FALSE)
     ELSE LET def == FieldDef(C, obj, node.name)
              w == C.world[objId].vals[node.name]
              r == IF "DevFieldPerOccurrence" \in C.dev /\ Len(group.nodes) > 1
                   THEN PerOccurrence(C, def, group, w, p, 1, Null, <<>>, {}, {})
                   ELSE Complete(C, def.ty, group.nodes, w, p, node)
          IN \* deviation: a resolver error of a nullable field written as Result<Option<T>> (static schemas)
             \* is raised to the parent instead of being captured at the field
             \* (DevOuterResultNullsParent); the same happens when the guard of a nullable field rejects (DevGuardNullsParent)
             IF ~r.fail /\ r.val = Null /\ Len(r.req) >= 1 /\ def.ty.k # "nn"
                /\ (("DevOuterResultNullsParent" \in C.dev /\ def.outer /\ w.k = "err") \/ ("DevGuardNullsParent" \in C.dev /\ w.k = "guard"))
             THEN R(Null, TRUE, <<SeqUnion(r.req, 1)>>, r.opt, FALSE)
             ELSE r

\* a position of type ty (possibly non-null)
Complete(C, ty, nodes, w, path, node) ==
  LET nn == ty.k = "nn"
      inner == IF nn THEN ty.of ELSE ty
      r == CompleteInner(C, inner, nodes, w, path, node)
  IN IF r.fail THEN (IF nn THEN r ELSE R(Null, FALSE, r.req, r.opt, FALSE))         \* 6.4.4: captured at a nullable position
     ELSE IF nn /\ r.val = Null /\ ~r.force THEN R(Null, TRUE, <<{Err(path, node)}>>, AllErrs(r), FALSE)   \* null for Non-Null
     ELSE r

CompleteInner(C, ty, nodes, w, path, node) ==
  IF w.k \in {"err", "guard"} THEN R(Null, TRUE, <<{Err(path, node)}>>, {}, FALSE)
  ELSE IF w.k \in {"null", "nothing"} THEN R(Null, FALSE, <<>>, {}, FALSE)
  ELSE IF ty.k = "list" THEN
         IF w.k # "list" THEN R(Null, TRUE, <<{Err(path, node)}>>, {}, FALSE)
         ELSE CompleteItems(C, ty.of, nodes, w.items, 1, path, node, <<>>, <<>>, {}, {})
  ELSE IF IsComposite(C, ty.n) THEN
         IF w.k # "ref" THEN R(Null, TRUE, <<{Err(path, node)}>>, {}, FALSE)
         ELSE LET rt == C.world[w.id].type IN
              IF ~IsPossible(C, rt, ty.n) THEN R(Null, TRUE, <<{Err(path, node)}>>, {}, FALSE)
              ELSE ExecSel(C, MergedSels(nodes, 1), w.id, rt, path)
  ELSE LET l == Leaf(C, ty.n, w) IN
       IF l.ok THEN R(l.val, FALSE, <<>>, {}, l.force) ELSE R(Null, TRUE, <<{Err(path, node)}>>, {}, FALSE)

CompleteItems(C, ity, nodes, items, j, path, node, vals, req, opt, causes) ==
  IF j > Len(items)
  THEN IF causes = {} THEN R([k |-> "list", items |-> vals], FALSE, req, opt, FALSE)
       ELSE R(Null, TRUE, <<causes>>, opt \cup SeqUnion(req, 1), FALSE)
  ELSE LET r == Complete(C, ity, nodes, items[j], Append(path, Idx(j)), node) IN
       IF r.fail
       THEN CompleteItems(C, ity, nodes, items, j + 1, path, node, vals, req, opt \cup r.opt, causes \cup SeqUnion(r.req, 1))
       ELSE CompleteItems(C, ity, nodes, items, j + 1, path, node, Append(vals, r.val), req \o r.req, opt \cup r.opt, causes)

----------------------------------------------------------------------------
(* 6.2 executing the selected operation; the root object has id "root" (query) / "mroot" (mutation) *)
RootId(C) == IF C.op.ty = "mutation" THEN "mroot" ELSE "root"
RootType(C) == IF C.op.ty = "mutation" THEN C.ts.mutation ELSE IF C.op.ty = "subscription" THEN C.ts.subscription ELSE C.ts.query
Execute(C) ==
  LET r == ExecSel(C, C.op.sels, RootId(C), RootType(C), <<>>)
  IN IF r.fail THEN R(Null, FALSE, r.req, r.opt, FALSE) ELSE r        \* data as a whole is the last nullable position

\* context from a recorded case
Ctx(case, ts, dev) ==
  [ts |-> ts, doc |-> case.doc, op |-> case.doc.ops[case.opIndex], vars |-> case.vars, world |-> case.world,
   dev |-> dev, enumAs |-> "enum"]
=============================================================================
