--------------------------- MODULE Gen_SchemaCheck ---------------------------
(***************************************************************************)
(* Builder state machine for type systems (property C33, modes M and G).   *)
(*                                                                         *)
(* State: the type system built so far.  Each action registers one more    *)
(* element (a type, a field, an argument, an `implements`, a union member, *)
(* an input field), exactly as a user of async_graphql::dynamic calls      *)
(* Object::new / .field / .argument / .implement / Union::possible_type /  *)
(* InputObject::field before SchemaBuilder::register.  Every reachable     *)
(* state is a complete registration and is emitted (mode G): the valid     *)
(* type systems and every single-rule violation of the universe arise on   *)
(* the way.  The state is the type system itself, so TLC's BFS visits each *)
(* type system of the universe exactly once, whatever the order of calls.  *)
(*                                                                         *)
(* A universe (U_... below) fixes the initial type systems and the         *)
(* elements that may be added; the cfg names the universes to explore      *)
(* (CONSTANT Universes); each is explored from its own initial states in   *)
(* the same run (variable u).                                              *)
(***************************************************************************)
EXTENDS SchemaCheck, Json

CONSTANT Universes       \* names of the universes to explore, e.g. {"Roots", "Refs"}
VARIABLES u, ts, size
vars == <<u, ts, size>>

NoDefault  == [k |-> "none"]
IntDefault == [k |-> "int", v |-> "1"]
EmptyFn == [x \in {} |-> 0]
Wrap2(n) == {Named(n), NN(Named(n))}
Wrap3(n) == Wrap2(n) \cup {ListOf(Named(n))}
Wrap6(n) == Wrap3(n) \cup {ListOf(NN(Named(n))), NN(ListOf(Named(n))), NN(ListOf(NN(Named(n))))}
Ext(f, k, v) == [x \in DOMAIN f \cup {k} |-> IF x = k THEN v ELSE f[x]]
\* while building, implements / members are sets (canonical state); Out() makes them sequences
NewType(k) == [kind |-> k, fields |-> EmptyFn, implements |-> {}, members |-> {},
               values |-> IF k = "ENUM" THEN <<"V">> ELSE <<>>, inputFields |-> EmptyFn, oneOf |-> FALSE]
RECURSIVE SeqOf(_)
SeqOf(S) == IF S = {} THEN <<>> ELSE LET x == CHOOSE x \in S : TRUE IN <<x>> \o SeqOf(S \ {x})
Out(t) == [t EXCEPT !.types = [n \in DOMAIN t.types |->
                                 [t.types[n] EXCEPT !.implements = SeqOf(@), !.members = SeqOf(@)]]]

\* ---- universes ------------------------------------------------------------------------------
Int == Named("Int")
Fld(ty) == [ty |-> ty, args |-> EmptyFn]
Obj(fields, impls) == [NewType("OBJECT") EXCEPT !.fields = fields, !.implements = impls]
Itf(fields, impls) == [NewType("INTERFACE") EXCEPT !.fields = fields, !.implements = impls]
QueryT == Obj(Ext(EmptyFn, "q", Fld(Int)), {})
Roots(types, q, m, s) == [types |-> types, query |-> q, mutation |-> m, subscription |-> s]
WithQuery(types) == Roots(Ext(types, "Query", QueryT), "Query", "", "")
Fn2(k1, v1, k2, v2) == Ext(Ext(EmptyFn, k1, v1), k2, v2)
Fn3(k1, v1, k2, v2, k3, v3) == Ext(Fn2(k1, v1, k2, v2), k3, v3)
NoElems == [decl |-> {}, fields |-> {}, args |-> {}, impls |-> {}, members |-> {}, inputs |-> {}]
AllKinds == {"OBJECT", "INTERFACE", "UNION", "ENUM", "INPUT_OBJECT", "SCALAR"}

\* root operation types: existence and kind
U_Roots ==
  [NoElems EXCEPT
    !.decl = ({"A"} \X {"OBJECT", "INTERFACE", "INPUT_OBJECT", "UNION"}) \cup ({"B"} \X {"OBJECT", "ENUM", "SCALAR"})
             \cup ({"C"} \X {"OBJECT", "UNION"}),
    !.fields = {<<"A", "f", Int>>, <<"B", "f", Int>>, <<"C", "f", Int>>},
    !.inputs = {<<"A", "x", Int, NoDefault>>}]
  @@ [init |-> {Roots(EmptyFn, "A", m, s) : m \in {"", "A", "B"}, s \in {"", "B", "C"}}, max |-> 6]

\* kinds in output / input positions, unknown names, reserved names, union members, implements targets
U_Refs ==
  [NoElems EXCEPT
    !.decl = ({"A"} \X AllKinds) \cup ({"B"} \X {"OBJECT", "INTERFACE", "INPUT_OBJECT", "ENUM"}),
    !.fields = {<<"A", "f", Named("B")>>, <<"A", "f", Named("Zz")>>, <<"A", "f", NN(ListOf(NN(Named("B"))))>>,
                <<"A", "__f", Int>>, <<"B", "f", Int>>},
    !.args = {<<"A", "f", "a", Named("B"), NoDefault>>, <<"A", "f", "a", Named("Zz"), NoDefault>>,
              <<"A", "f", "a", NN(Named("B")), NoDefault>>, <<"A", "f", "__a", Int, NoDefault>>},
    !.inputs = {<<"A", "x", Named("B"), NoDefault>>, <<"A", "x", ListOf(Named("B")), NoDefault>>,
                <<"A", "x", Named("Zz"), NoDefault>>, <<"A", "x", Int, NoDefault>>, <<"A", "__x", Int, NoDefault>>,
                <<"B", "x", Int, NoDefault>>},
    !.members = {"A"} \X {"B", "Zz", "Int"},
    !.impls = {"A"} \X {"B", "Zz"}]
  @@ [init |-> {WithQuery(EmptyFn)}, max |-> 20]
U_RefsBig ==
  [NoElems EXCEPT
    !.decl = ({"A"} \X AllKinds) \cup ({"B"} \X {"OBJECT", "INTERFACE", "INPUT_OBJECT", "ENUM"}),
    !.fields = {<<"A", "f", Named("B")>>, <<"A", "f", Named("Zz")>>, <<"A", "f", Named("A")>>,
                <<"A", "f", NN(ListOf(NN(Named("B"))))>>, <<"A", "__f", Int>>, <<"B", "f", Int>>},
    !.args = {<<"A", "f", "a", Named("B"), NoDefault>>, <<"A", "f", "a", Named("Zz"), NoDefault>>,
              <<"A", "f", "a", NN(Named("B")), NoDefault>>, <<"A", "f", "__a", Int, NoDefault>>},
    !.inputs = {<<"A", "x", Named("B"), NoDefault>>, <<"A", "x", ListOf(Named("B")), NoDefault>>,
                <<"A", "x", Named("Zz"), NoDefault>>, <<"A", "x", Int, NoDefault>>, <<"A", "__x", Int, NoDefault>>,
                <<"B", "x", Int, NoDefault>>},
    !.members = {"A"} \X {"B", "Zz", "Int", "Query"},
    !.impls = {"A"} \X {"B", "Zz", "Query"}]
  @@ [init |-> {WithQuery(EmptyFn)}, max |-> 20]

\* a reserved type name
U_TypeName ==
  [NoElems EXCEPT !.decl = {"__T"} \X {"OBJECT", "SCALAR", "ENUM"}, !.fields = {<<"__T", "f", Int>>}]
  @@ [init |-> {WithQuery(EmptyFn)}, max |-> 2]

\* covariant field types: interface I { f: ? }, O implements I { g: Int, f: ? }; kindO = kind of O
ImplBase(kindO) ==
  WithQuery(
    Ext(Fn3("I", Itf(EmptyFn, {}),
            "O", [NewType(kindO) EXCEPT !.fields = Ext(EmptyFn, "g", Fld(Int)), !.implements = {"I"}],
            "P", Obj(Ext(EmptyFn, "p", Fld(Int)), {})),
        "V", [NewType("UNION") EXCEPT !.members = IF kindO = "OBJECT" THEN {"O"} ELSE {"P"}]))
U_Impl(kindO, wrap(_)) ==
  [NoElems EXCEPT
    !.fields = ({"I"} \X {"f"} \X UNION {wrap(n) : n \in {"Int", "I", "O", "V", "P"}})
               \cup ({"O"} \X {"f"} \X UNION {wrap(n) : n \in {"Int", "I", "O", "V", "P"}})]
  @@ [init |-> {ImplBase(kindO)}, max |-> 2]
U_ImplObject6    == U_Impl("OBJECT", Wrap6)
U_ImplInterface6 == U_Impl("INTERFACE", Wrap6)
U_ImplObject3    == U_Impl("OBJECT", Wrap3)
U_ImplInterface3 == U_Impl("INTERFACE", Wrap3)

\* arguments of implemented fields: same name, same type; additional ones optional
ArgsBase == WithQuery(Fn2("I", Itf(Ext(EmptyFn, "f", Fld(Int)), {}), "O", Obj(Ext(EmptyFn, "f", Fld(Int)), {"I"})))
U_Args ==
  [NoElems EXCEPT
    !.args = ({"I"} \X {"f"} \X {"a"} \X {Int, NN(Int), ListOf(Int)} \X {NoDefault})
             \cup {<<"I", "f", "a", NN(Int), IntDefault>>, <<"I", "f", "c", Int, NoDefault>>, <<"O", "f", "c", Int, NoDefault>>,
                   <<"O", "f", "a", NN(Int), IntDefault>>, <<"O", "f", "b", NN(Int), IntDefault>>}
             \cup ({"O"} \X {"f"} \X {"a"} \X {Int, NN(Int), ListOf(Int), ListOf(NN(Int))} \X {NoDefault})
             \cup ({"O"} \X {"f"} \X {"b"} \X {Int, NN(Int)} \X {NoDefault})]
  @@ [init |-> {ArgsBase}, max |-> 5]

\* interfaces implementing interfaces: transitivity, self-implementation, cycles
ChainBase == WithQuery(Fn3("I", Itf(EmptyFn, {}), "J", Itf(EmptyFn, {}), "O", Obj(Ext(EmptyFn, "h", Fld(Int)), {})))
U_Chain ==
  [NoElems EXCEPT
    !.fields = {<<"I", "f", Int>>, <<"J", "f", Int>>, <<"J", "g", Int>>, <<"O", "f", Int>>, <<"O", "g", Int>>},
    !.impls = {<<"J", "I">>, <<"I", "J">>, <<"J", "J">>, <<"O", "I">>, <<"O", "J">>}]
  @@ [init |-> {ChainBase}, max |-> 10]

\* required input fields must not form a cycle
InputT == NewType("INPUT_OBJECT")
CycleBase == WithQuery(Fn3("X", InputT, "Y", InputT, "Z", InputT))
NNn(n) == NN(Named(n))
NoDef(S) == {<<e[1], e[2], e[3], NoDefault>> : e \in S}
U_Cycle ==
  [NoElems EXCEPT
    !.inputs = NoDef(({"X"} \X {"x"} \X {Int, NNn("X"), NNn("Y"), NN(ListOf(NNn("X"))), Named("Y")})
                \cup ({"X"} \X {"y"} \X {Int, NNn("Z")})
                \cup ({"Y"} \X {"x"} \X {Int, NNn("X"), NNn("Z"), Named("Z"), NN(ListOf(NNn("Z")))})
                \cup ({"Y"} \X {"y"} \X {NNn("Y")})
                \cup ({"Z"} \X {"x"} \X {Int, NNn("X"), NNn("Y"), NNn("Z")}))]
  @@ [init |-> {CycleBase}, max |-> 5]
U_CycleBig ==
  [NoElems EXCEPT
    !.inputs = NoDef(({"X", "Y", "Z"} \X {"x"} \X {Int, NNn("X"), NNn("Y"), NNn("Z"), Named("Y"), NN(ListOf(NNn("Z")))})
                \cup ({"X", "Y"} \X {"y"} \X {Int, NNn("X"), NNn("Y"), NNn("Z"), Named("X"), ListOf(NNn("Y"))}))]
  @@ [init |-> {CycleBase}, max |-> 5]

\* mode M universe: interface chain with covariant wrappers, a union, and input objects
U_MC ==
  [NoElems EXCEPT
    !.fields = {<<"I", "f", Named("I")>>, <<"J", "f", Named("J")>>, <<"J", "f", NN(Named("O"))>>, <<"O", "f", Named("O")>>,
                <<"O", "f", ListOf(Named("V"))>>},
    !.impls = {<<"J", "I">>, <<"I", "J">>, <<"J", "J">>, <<"O", "I">>, <<"O", "J">>},
    !.decl = {<<"V", "UNION">>, <<"X", "INPUT_OBJECT">>, <<"Y", "INPUT_OBJECT">>},
    !.members = {<<"V", "O">>, <<"V", "I">>},
    !.inputs = NoDef(({"X", "Y"} \X {"x"} \X {NNn("X"), NNn("Y"), Named("Y")}) \cup ({"X"} \X {"y"} \X {NNn("Y")}))]
  @@ [init |-> {ChainBase}, max |-> 4]
Univ == [n \in {"Roots", "Refs", "RefsBig", "TypeName", "ImplObject6", "ImplInterface6", "ImplObject3", "ImplInterface3", "Args",
                "Chain", "Cycle", "CycleBig", "MC"} |->
           CASE n = "Roots" -> U_Roots [] n = "Refs" -> U_Refs [] n = "RefsBig" -> U_RefsBig [] n = "TypeName" -> U_TypeName
             [] n = "ImplObject6" -> U_ImplObject6 [] n = "ImplInterface6" -> U_ImplInterface6
             [] n = "ImplObject3" -> U_ImplObject3 [] n = "ImplInterface3" -> U_ImplInterface3
             [] n = "Args" -> U_Args [] n = "Chain" -> U_Chain [] n = "Cycle" -> U_Cycle [] n = "CycleBig" -> U_CycleBig
             [] n = "MC" -> U_MC]

\* ---- the builder ---------------------------------------------------------------------------------
Init == u \in Universes /\ ts \in Univ[u].init /\ size = 0

Declare ==
  \E d \in Univ[u].decl :
    /\ d[1] \notin DOMAIN ts.types
    /\ ts' = [ts EXCEPT !.types = Ext(@, d[1], NewType(d[2]))]
AddField ==
  \E e \in Univ[u].fields :
    /\ e[1] \in DOMAIN ts.types
    /\ IF e[1] \in DOMAIN ts.types THEN /\ ts.types[e[1]].kind \in {"OBJECT", "INTERFACE"}
                                         /\ e[2] \notin DOMAIN ts.types[e[1]].fields
       ELSE FALSE
    /\ ts' = [ts EXCEPT !.types[e[1]].fields = Ext(@, e[2], [ty |-> e[3], args |-> EmptyFn])]
AddArg ==
  \E e \in Univ[u].args :
    /\ IF e[1] \in DOMAIN ts.types
       THEN IF ts.types[e[1]].kind \in {"OBJECT", "INTERFACE"} /\ e[2] \in DOMAIN ts.types[e[1]].fields
            THEN e[3] \notin DOMAIN ts.types[e[1]].fields[e[2]].args ELSE FALSE
       ELSE FALSE
    /\ ts' = [ts EXCEPT !.types[e[1]].fields[e[2]].args = Ext(@, e[3], [ty |-> e[4], default |-> e[5]])]
AddImplements ==
  \E e \in Univ[u].impls :
    /\ IF e[1] \in DOMAIN ts.types
       THEN ts.types[e[1]].kind \in {"OBJECT", "INTERFACE"} /\ e[2] \notin ts.types[e[1]].implements
       ELSE FALSE
    /\ ts' = [ts EXCEPT !.types[e[1]].implements = @ \cup {e[2]}]
AddMember ==
  \E e \in Univ[u].members :
    /\ IF e[1] \in DOMAIN ts.types
       THEN ts.types[e[1]].kind = "UNION" /\ e[2] \notin ts.types[e[1]].members
       ELSE FALSE
    /\ ts' = [ts EXCEPT !.types[e[1]].members = @ \cup {e[2]}]
AddInputField ==
  \E e \in Univ[u].inputs :
    /\ IF e[1] \in DOMAIN ts.types
       THEN ts.types[e[1]].kind = "INPUT_OBJECT" /\ e[2] \notin DOMAIN ts.types[e[1]].inputFields
       ELSE FALSE
    /\ ts' = [ts EXCEPT !.types[e[1]].inputFields = Ext(@, e[2], [ty |-> e[3], default |-> e[4]])]

Next == /\ size < Univ[u].max
        /\ size' = size + 1 /\ u' = u
        /\ (Declare \/ AddField \/ AddArg \/ AddImplements \/ AddMember \/ AddInputField)
Spec == Init /\ [][Next]_vars

\* ---- mode G ------------------------------------------------------------------------------
Emit == PrintT(<<"REPLAY", u, ToJson(ts)>>)

\* ---- mode M: the reference operators checked against each other on every reachable type system
Names == (DOMAIN ts.types) \cup {"Int"}
Pool6 == UNION {Wrap6(n) : n \in Names \cap {"Int", "I", "J", "O", "V"}}
Pool2 == UNION {Wrap2(n) : n \in Names}
\* the two-switch family contains the specification's algorithm and today's code
InvFamily == LET T == Out(ts) IN
  \A x, y \in Pool6 : /\ SubG(T, x, y, FALSE, TRUE) = IsValidImplementationFieldType(T, x, y)
                       /\ SubG(T, x, y, TRUE, FALSE) = CodeIsSubtype(x, y)
\* covariance is a pre-order wherever the transitive-implements rule holds (that is what the rule is for)
InvReflexive  == LET T == Out(ts) IN \A x \in Pool6 : IsValidImplementationFieldType(T, x, x)
InvTransitive == LET T == Out(ts)
                     R == {p \in Pool2 \X Pool2 : IsValidImplementationFieldType(T, p[1], p[2])}
                 IN ("ImplTransitive" \notin Violated(T, {})) =>
                      \A p, q \in R : p[2] = q[1] => <<p[1], q[2]>> \in R
\* the declarative and the algorithmic reading of the input-object cycle rule agree
InvCycle == LET T == Out(ts) IN RequiredCycle(T) = RequiredCycleByClosure(T)
\* deviations that only drop a check can only remove clauses; the two covariance switches only touch ImplFieldType
InvDevs == LET T == Out(ts)
               v == Violated(T, {})
           IN /\ \A d \in Devs \ {"DevCovarianceReversed", "DevNoNamedCovariance"} : Violated(T, {d}) \subseteq v
              /\ \A d \in {"DevCovarianceReversed", "DevNoNamedCovariance"} :
                    (Violated(T, {d}) \ {"ImplFieldType"}) = (v \ {"ImplFieldType"})
              /\ v \subseteq (Judged \cup Unjudged) /\ Judged \cap Unjudged = {}

=============================================================================
