----------------------------- MODULE ViewTrace -----------------------------
(***************************************************************************)
(* Mode V for C22: inside a resolver, the selection-field view             *)
(* (ctx.field().selection_set()) and the look-ahead view                   *)
(* (ctx.look_ahead().field(name).exists()) must                            *)
(*   (1) contain every sub-field that execution subsequently resolves      *)
(*       directly below that field (taken from the recorded event log), and*)
(*   (2) contain no field that @skip/@include removes: every reported name *)
(*       must occur, not skipped, in the field's sub-selection with        *)
(*       fragments followed (type conditions ignored: the runtime type is  *)
(*       not known when the view is taken, so a superset by type is fine). *)
(***************************************************************************)
EXTENDS Execution, Json, IOUtils

Cases == ndJsonDeserialize(IOEnv.TRACE)
TS == JsonDeserialize(IOEnv.SCHEMA)
CONSTANT Chunk
VARIABLE l

TsOf(c) == IF "ts" \in DOMAIN c THEN c.ts ELSE TS
IdxStrs == {"#" \o ToString(i) : i \in 0..64}
Keys(path) == SelectSeq(path, LAMBDA s : s \notin IdxStrs)
Range(s) == {s[i] : i \in 1..Len(s)}

\* all field nodes with response key `key` in a selection sequence, fragments followed, directives honoured
RECURSIVE FieldsWithKey(_, _, _, _, _)
FieldsWithKey(C, sels, i, key, seen) ==
  IF i > Len(sels) THEN <<>>
  ELSE LET s == sels[i]
           here == IF ~ShouldInclude(C, s.dirs) THEN <<>>
                   ELSE IF s.k = "field" THEN (IF Key(s) = key THEN <<s>> ELSE <<>>)
                   ELSE IF s.k = "inline" THEN FieldsWithKey(C, s.sels, 1, key, seen)
                   ELSE IF s.name \in seen \/ ~HasFrag(C, s.name) THEN <<>>
                   ELSE FieldsWithKey(C, Frag(C, s.name).sels, 1, key, seen \cup {s.name})
       IN here \o FieldsWithKey(C, sels, i + 1, key, seen)

\* the merged sub-selection of the field(s) at a response path
RECURSIVE SelsAt(_, _, _, _)
SelsAt(C, sels, keys, i) ==
  IF i > Len(keys) THEN sels
  ELSE SelsAt(C, MergedSels(FieldsWithKey(C, sels, 1, keys[i], {}), 1), keys, i + 1)

\* names that may be reported for a sub-selection: not skipped, fragments followed
RECURSIVE NamesIn(_, _, _, _)
NamesIn(C, sels, i, seen) ==
  IF i > Len(sels) THEN {}
  ELSE LET s == sels[i]
           here == IF ~ShouldInclude(C, s.dirs) THEN {}
                   ELSE IF s.k = "field" THEN {s.name}
                   ELSE IF s.k = "inline" THEN NamesIn(C, s.sels, 1, seen)
                   ELSE IF s.name \in seen \/ ~HasFrag(C, s.name) THEN {}
                   ELSE NamesIn(C, Frag(C, s.name).sels, 1, seen \cup {s.name})
       IN here \cup NamesIn(C, sels, i + 1, seen)

\* all field nodes directly in a selection sequence, fragments followed, directives honoured
RECURSIVE AllFields(_, _, _, _)
AllFields(C, sels, i, seen) ==
  IF i > Len(sels) THEN <<>>
  ELSE LET s == sels[i]
           here == IF ~ShouldInclude(C, s.dirs) THEN <<>>
                   ELSE IF s.k = "field" THEN <<s>>
                   ELSE IF s.k = "inline" THEN AllFields(C, s.sels, 1, seen)
                   ELSE IF s.name \in seen \/ ~HasFrag(C, s.name) THEN <<>>
                   ELSE AllFields(C, Frag(C, s.name).sels, 1, seen \cup {s.name})
       IN here \o AllFields(C, sels, i + 1, seen)
\* 6.4.1 for the views: an argument given by a variable shows the supplied value, else the variable's default, else it is absent
ArgPresent(C, a) == a.val.k # "var" \/ Supplied(C, a.val.name) \/ VarDef(C, a.val.name).hasDefault
ArgValue(C, a) == IF a.val.k # "var" THEN a.val
                  ELSE IF Supplied(C, a.val.name) THEN SuppliedVal(C, a.val.name) ELSE VarDef(C, a.val.name).default
\* input-object literals: an entry given by an omitted variable without default is absent, the others are resolved;
\* entries are compared as sets (input object fields are unordered)
RECURSIVE ResolveIn(_, _)
ResolveIn(C, v) ==
  IF v.k = "var" THEN (IF Supplied(C, v.name) THEN SuppliedVal(C, v.name) ELSE VarDef(C, v.name).default)
  ELSE IF v.k = "obj" THEN
    [k |-> "obj", entries |-> {[key |-> v.entries[i].key, val |-> ResolveIn(C, v.entries[i].val)] :
                                 i \in {j \in 1..Len(v.entries) : LET w == v.entries[j].val IN
                                           w.k # "var" \/ Supplied(C, w.name) \/ VarDef(C, w.name).hasDefault}}]
  ELSE v
RECURSIVE NormObs(_)
NormObs(v) == IF v.k = "obj" THEN [k |-> "obj", entries |-> {[key |-> v.entries[i].key, val |-> NormObs(v.entries[i].val)] : i \in 1..Len(v.entries)}]
              ELSE v
ExpectedArgs(C, n) == {[name |-> n.args[k].name, val |-> ResolveIn(C, n.args[k].val)] : k \in {j \in 1..Len(n.args) : ArgPresent(C, n.args[j])}}
ViewArgs(v) == {[name |-> v.args[k].name, val |-> NormObs(v.args[k].val)] : k \in 1..Len(v.args)}

Log(c) == c.obs.log
StartIdx(c) == {i \in 1..Len(Log(c)) : Log(c)[i].ev = "start"}
\* fields resolved directly below the event at index i
ChildNames(c, i) ==
  LET p == Keys(Log(c)[i].path) IN
  {Log(c)[j].field : j \in {k \in StartIdx(c) : LET q == Keys(Log(c)[k].path) IN
                                   Len(q) = Len(p) + 1 /\ SubSeq(q, 1, Len(p)) = p
                                   /\ Len(Log(c)[k].path) > Len(Log(c)[i].path)
                                   /\ SubSeq(Log(c)[k].path, 1, Len(Log(c)[i].path)) = Log(c)[i].path}}
SelNames(e) == {e.view.sel[k].name : k \in 1..Len(e.view.sel)}
LaNames(e) == {e.view.la[k] : k \in 1..Len(e.view.la)}

SamePath(c, i) == {j \in StartIdx(c) : Log(c)[j].path = Log(c)[i].path}
UnionSel(c, i) == UNION {SelNames(Log(c)[j]) : j \in SamePath(c, i)}
UnionLa(c, i) == UNION {LaNames(Log(c)[j]) : j \in SamePath(c, i)}

\* merged = FALSE: each invocation's own views are judged (the property as stated);
\* merged = TRUE : the views of all invocations for the same response position are united first -- this is
\*                 what the per-occurrence execution (known deviation DevFieldPerOccurrence) can still satisfy.
EventOK(c, C, i, merged) ==
  LET e == Log(c)[i]
      allowed == NamesIn(C, SelsAt(C, C.op.sels, Keys(e.path), 1), 1, {})
      below == ChildNames(c, i)
      sel == IF merged THEN UnionSel(c, i) ELSE SelNames(e)
      la == IF merged THEN UnionLa(c, i) ELSE LaNames(e)
  IN /\ (~merged => \A n \in Range(AllFields(C, SelsAt(C, C.op.sels, Keys(e.path), 1), 1, {})) :
                      \* every sub-field with arguments is reported with exactly its resolved arguments
                      Len(n.args) > 0 => \E k \in 1..Len(e.view.sel) :
                          e.view.sel[k].name = n.name /\ e.view.sel[k].alias = n.alias /\ ViewArgs(e.view.sel[k]) = ExpectedArgs(C, n))
     /\ below \subseteq sel                                \* (1) selection-field view
     /\ below \subseteq la                                 \* (1) look-ahead view
     /\ (sel \ {"__typename"}) \subseteq allowed            \* (2)
     /\ la \subseteq allowed                                \* (2)

HasDup(c) == \E i \in StartIdx(c) : Cardinality(SamePath(c, i)) > 1

Verdict(c) ==
  IF c.obs.problem # "" THEN "violation:problem"
  ELSE LET C == Ctx(c, TsOf(c), {}) IN
       IF \A i \in StartIdx(c) : EventOK(c, C, i, FALSE) THEN "ok"
       ELSE IF HasDup(c) /\ \A i \in StartIdx(c) : (IF Cardinality(SamePath(c, i)) > 1 THEN EventOK(c, C, i, TRUE) ELSE EventOK(c, C, i, FALSE))
            THEN "known:DevFieldPerOccurrence"
       ELSE "violation"

TInit == l \in {i \in 1..Len(Cases) : i % Chunk = 1 \/ Chunk = 1}
TNext == /\ l <= Len(Cases)
         /\ PrintT(<<"VERDICT", Cases[l].id, Verdict(Cases[l])>>)
         /\ l % Chunk # 0
         /\ l' = l + 1
=============================================================================
