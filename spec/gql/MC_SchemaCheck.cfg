CONSTANT Universes = {"MC"}
INIT Init
NEXT Next
INVARIANT InvFamily
INVARIANT InvReflexive
INVARIANT InvTransitive
INVARIANT InvCycle
INVARIANT InvDevs
