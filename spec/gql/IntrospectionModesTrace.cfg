CONSTANT MaxKinds = 0
CONSTANT MaxKindsWrapped = 0
CONSTANT Wraps = {}
CONSTANT Orders = {}
CONSTANT Aliases = {}
CONSTANT HookWraps = {}
INIT TInit
NEXT TNext
