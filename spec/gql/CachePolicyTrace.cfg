INIT TInit
NEXT TNext
