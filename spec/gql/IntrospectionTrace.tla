------------------------- MODULE IntrospectionTrace -------------------------
(* Mode V for C18: each case = (type system, flag context, observed dump, __type(name:) answers, SDL names). *)
EXTENDS Introspection, Json, IOUtils
Cases == ndJsonDeserialize(IOEnv.TRACE)
VisTS == JsonDeserialize(IOEnv.SCHEMA)
VARIABLE l
TsOf(c) == IF c.flavour = "static" THEN VisTS ELSE c.ts
FlagsOf(c) == {x \in {"a", "b", "c"} : (x = "a" /\ c.flags[1]) \/ (x = "b" /\ c.flags[2]) \/ (x = "c" /\ c.flags[3])}
\* __type(name:) agrees with the listing
ByNameOK(c) == \A i \in 1..Len(c.byName) :
  LET b == c.byName[i] t == DType(c.obs.dump, b.name) IN
  /\ b.kind = t.kind /\ Range(b.fields) = {f.name : f \in Range(t.fields)} /\ Range(b.enumValues) = Range(t.enumValues)
  /\ Range(b.inputFields) = {a.name : a \in Range(t.inputFields)} /\ Range(b.possibleTypes) = Range(t.possibleTypes)
\* the SDL export (which has no request context) re-parses and names exactly the fully visible type system's user types
SdlOK(c) == c.sdl.ok /\ (c.flavour = "dynamic" =>
              {t.name : t \in Range(c.sdl.types)} = {n \in TypeNames(c.ts) : n \notin Builtin})
Rest(c) == IF ~ByNameOK(c) THEN "violation:type-by-name-differs" ELSE IF ~SdlOK(c) THEN "violation:sdl-differs" ELSE "ok"
Verdict(c) ==
  IF c.problem # "" THEN "violation:problem"
  ELSE IF c.obs.errors # 0 THEN "violation:introspection-errors"
  ELSE IF ~NothingHiddenAppears(TsOf(c), FlagsOf(c), c.obs.dump) THEN "violation:hidden-element-appears"
  ELSE IF SelfConsistent(c.obs.dump) /\ MatchesSchema(TsOf(c), FlagsOf(c), c.obs.dump, FALSE) THEN Rest(c)
  ELSE IF /\ SelfConsistentModulo(c.obs.dump, OwnHidden(TsOf(c), FlagsOf(c)))
          /\ MatchesSchema(TsOf(c), FlagsOf(c), c.obs.dump, TRUE)
          /\ Rest(c) = "ok"
       THEN "known:DevHiddenTypeStillReferenced"
  ELSE IF ~SelfConsistent(c.obs.dump) THEN "violation:not-self-consistent"
  ELSE "violation:differs-from-schema"
TInit == l = 1
TNext == l <= Len(Cases) /\ PrintT(<<"VERDICT", Cases[l].id, Verdict(Cases[l])>>) /\ l' = l + 1
=============================================================================
