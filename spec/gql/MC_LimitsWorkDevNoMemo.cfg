CONSTANT MaxN = 14
CONSTANT MaxFan = 0
CONSTANT EqN = 0
INIT Init
NEXT Next
INVARIANT CodedPoly
