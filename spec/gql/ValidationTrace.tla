--------------------------- MODULE ValidationTrace ---------------------------
(***************************************************************************)
(* Mode V for C09.  Each recorded case (document, supplied variables,      *)
(* selected operation, flavour, observation of the real library under      *)
(* ValidationMode::Strict) is judged against Validation!Violations:        *)
(*                                                                         *)
(*    rejected before execution  <=>  Violations(doc) # {}                 *)
(*                                                                         *)
(* where "rejected" = the parse_query or the validation hook returned Err. *)
(* A rejection must come with >= 1 error carrying a source location, no    *)
(* resolver may have run and `execute` must not have been reached.         *)
(* Not compared: messages, which rule reported, the number of errors.      *)
(* A mismatch that is reproduced by switching on named deviations of the   *)
(* implementation yields "known:<Dev,...>": the smallest set of switches    *)
(* that reproduces the observed outcome, so every deviation named is       *)
(* necessary on THIS document (its trigger).                               *)
(***************************************************************************)
EXTENDS Validation, Json, IOUtils

ASSUME TLCSet(7, ndJsonDeserialize(IOEnv.TRACE))
Cases == TLCGet(7)
ASSUME TLCSet(8, JsonDeserialize(IOEnv.SCHEMA))
TS == TLCGet(8)
CONSTANT Chunk
VARIABLE l

TsOf(c) == IF "ts" \in DOMAIN c THEN c.ts ELSE TS

\* TLC wraps printed tuples longer than 80 characters, so verdict lines carry index codes; the legend
\* (index -> name) is printed once per run.
DevList == <<"DevInputValueNotForwarded", "DevOverlapMissesConflicts", "DevEnumAcceptsString", "DevUnsuppliedVarSkipsArgCheck",
             "DevDuplicateInputFieldsCollapsed", "DevTypenameNotVisited", "DevNoSingleRootFieldRule", "DevVarDefDirectivesNotVisited">>
ClauseList == <<"LoneAnonymousOperation", "UniqueOperationNames", "SingleRootFieldSubscription.single",
                "SingleRootFieldSubscription.introspection", "FieldsOnCorrectType", "FieldsInSetCanMerge",
                "ScalarLeafs.selectionOnLeaf", "ScalarLeafs.noSelectionOnComposite", "KnownArgumentNames",
                "UniqueArgumentNames", "ProvidedRequiredArguments", "UniqueFragmentNames", "KnownTypeNames.typeCondition",
                "KnownTypeNames.variable", "FragmentsOnCompositeTypes", "NoUnusedFragments", "KnownFragmentNames",
                "NoFragmentCycles", "PossibleFragmentSpreads", "ValuesOfCorrectType.nullForNonNull",
                "ValuesOfCorrectType.scalar", "ValuesOfCorrectType.enum", "ValuesOfCorrectType.inputObject",
                "UniqueInputFieldNames", "InputObjectFieldNames", "InputObjectRequiredFields",
                "KnownDirectives.defined", "KnownDirectives.location", "UniqueDirectivesPerLocation",
                "UniqueVariableNames", "VariablesAreInputTypes", "NoUndefinedVariables", "NoUnusedVariables",
                "VariablesInAllowedPosition", "DocumentedRestrictions.uploadOutsideMutation">>
ASSUME \A i \in 1..Len(DevList) : PrintT(<<"LEGEND", "D", i, DevList[i]>>)
ASSUME \A i \in 1..Len(ClauseList) : PrintT(<<"LEGEND", "C", i, ClauseList[i]>>)
AllDevs == Range(DevList)      \* the switches of Validation.tla
RECURSIVE Code(_, _, _)
Code(S, list, i) ==     \* indices of the members of S in list, joined by "."
  IF i > Len(list) THEN (IF S \subseteq Range(list) THEN "" ELSE "?")
  ELSE (IF list[i] \in S THEN ToString(i) \o "." ELSE "") \o Code(S, list, i + 1)

\* ---- observation ----
Rejected(c) == c.obs.parseErr \/ c.obs.validationErr
WellFormedRejection(c) ==
  Rejected(c) => /\ c.obs.resolverRuns = 0 /\ ~c.obs.executed
                 /\ \E i \in 1..Len(c.obs.rejErrors) : Len(c.obs.rejErrors[i].locs) >= 1

\* ---- verdict ----
Predict(c, D) == Violations(Ctx(c, TsOf(c), D)) # {}
Explains(c, D) == Predict(c, D) = Rejected(c)
OfSize(n) == {D \in SUBSET AllDevs : Cardinality(D) = n}
\* The smallest set of deviation switches that reproduces the observed outcome (sets are tried by increasing
\* size, so no proper subset explains it: every named deviation is necessary for the explanation -- this is the
\* trigger: a deviation is only blamed on a document on which switching it off changes the predicted outcome).
RECURSIVE Smallest(_, _)
Smallest(c, n) ==
  IF n > 4 THEN (IF Rejected(c) THEN "v:rejected-valid" ELSE "v:accepted-invalid")
  ELSE IF \E D \in OfSize(n) : Explains(c, D) THEN "k:" \o Code(CHOOSE D \in OfSize(n) : Explains(c, D), DevList, 1)
  ELSE Smallest(c, n + 1)
FirstDev(c, ideal) == Smallest(c, 1)

Verdict(c, ideal) ==
  IF c.obs.problem # "" THEN "v:problem"
  ELSE IF c.obs.panic # "" THEN "v:panic"       \* a panic inside Schema::execute is never a rejection
  ELSE IF ~WellFormedRejection(c) THEN "v:malformed-rejection"
  ELSE IF Rejected(c) = (ideal # {}) THEN "ok"
  ELSE FirstDev(c, ideal)

TInit == l \in {i \in 1..Len(Cases) : i % Chunk = 1 \/ Chunk = 1}
TNext == /\ l <= Len(Cases)
         /\ LET ideal == Violations(Ctx(Cases[l], TsOf(Cases[l]), {})) IN
            PrintT(<<"VERDICT", Cases[l].id, Verdict(Cases[l], ideal), Code(ideal, ClauseList, 1)>>)
         /\ l % Chunk # 0
         /\ l' = l + 1
=============================================================================
