----------------------------- MODULE WorkTrace -----------------------------
(***************************************************************************)
(* Mode V for C11.  A trace event is one request:                          *)
(*   [id, family, n, doc, obs |-> [counters, wallUs, refused, problem]]     *)
(* counters = <<visit_selection, visit_field, recursive_depth,              *)
(* max_directives, find_conflicts>> read from the cfg-guarded hook after    *)
(* the request.                                                             *)
(* Verdict (the property): every counter <= PolyBound(doc) = K * Size^2.    *)
(*   A request above the bound is excused as known:DevNoMemo only if the    *)
(*   document is in the deviation's trigger class (some fragment is         *)
(*   expanded more than once when the operations are walked) and no counter *)
(*   exceeds the work of the code as written (Limits!Visits_asCoded,        *)
(*   evaluated through the cost table).                                     *)
(* Drift (never a verdict): counters = Visits_asCoded(doc).                 *)
(***************************************************************************)
EXTENDS Limits, Json, IOUtils

ASSUME TLCSet(7, ndJsonDeserialize(IOEnv.TRACE))
Cases == TLCGet(7)
VARIABLE l

Judge(c) ==
  LET C     == WorkCtx(c.doc)
      cnt   == c.obs.counters
      coded == Visits_asCodedFast(C)
      b     == PolyBound(C)
      v     == IF c.obs.problem # "" \/ Len(cnt) # 5 THEN "violation:problem"
               ELSE IF WithinBound(cnt, b) THEN "ok"
               ELSE IF TriggerNoMemo(C) /\ (\A i \in 1..5 : cnt[i] <= coded[i]) THEN "known:DevNoMemo"
               ELSE "violation"
  \* one JSON string, so that TLC prints the tuple on one line
  IN <<"VERDICT", c.id, ToJson([verdict |-> v, size |-> Size(C), bound |-> b, coded |-> coded,
                                match |-> (cnt = coded), ideal |-> Visits_ideal(C)])>>

TInit == l = 1
TNext == l <= Len(Cases) /\ PrintT(Judge(Cases[l])) /\ l' = l + 1
=============================================================================
