----------------------------- MODULE WorkTrace -----------------------------
(***************************************************************************)
(* Mode V for C11.  A trace event is one request:                          *)
(*   [id, family, n, cfg |-> [recursive, directives], doc,                  *)
(*    obs |-> [counters, wallUs, refused, aborted, problem]]                *)
(* cfg: the limit_recursive_depth (-1: default 32) and limit_directives     *)
(* (-1: unset) of the schema the request ran on.                            *)
(* counters = <<visit_selection, visit_field, recursive_depth,              *)
(* max_directives, find_conflicts>> read from the cfg-guarded hook after    *)
(* the request.                                                             *)
(* Verdict (the property): every counter <= PolyBound(doc) = K * Size^2.    *)
(*   A request above the bound is excused as known:DevNoMemo only if the    *)
(*   request is in the deviation's trigger class (some fragment is expanded *)
(*   more than once and some walker that ran did more than visiting every   *)
(*   fragment body once costs -- a request refused by a limit before the    *)
(*   fan-out is walked is not) and no counter exceeds the work of the code  *)
(*   as written under the request's limits (Limits!Visits_asCodedAt: the    *)
(*   schema.rs walkers stop at the first violation).                        *)
(* Drift (never a verdict): counters = Visits_asCodedAt(doc, cfg).          *)
(***************************************************************************)
EXTENDS Limits, Json, IOUtils

ASSUME TLCSet(7, ndJsonDeserialize(IOEnv.TRACE))
Cases == TLCGet(7)
VARIABLE l

Judge(c) ==
  LET C     == WorkCtx(c.doc)
      cnt   == c.obs.counters
      coded == Visits_asCodedFastAt(C, c.cfg)
      b     == PolyBound(C)
      v     == IF c.obs.problem # "" \/ Len(cnt) # 5 THEN "violation:problem"
               ELSE IF WithinBound(cnt, b) THEN "ok"
               ELSE IF TriggerNoMemoAt(C, c.cfg) /\ (\A i \in 1..5 : cnt[i] <= coded[i]) THEN "known:DevNoMemo"
               ELSE "violation"
  \* one JSON string, so that TLC prints the tuple on one line
  IN <<"VERDICT", c.id, ToJson([verdict |-> v, size |-> Size(C), bound |-> b, coded |-> coded,
                                match |-> (cnt = coded), ideal |-> Visits_idealAt(C, c.cfg)])>>

TInit == l = 1
TNext == l <= Len(Cases) /\ PrintT(Judge(Cases[l])) /\ l' = l + 1
=============================================================================
