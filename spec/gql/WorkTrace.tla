----------------------------- MODULE WorkTrace -----------------------------
(***************************************************************************)
(* Mode V for C11.  A trace event is one request:                          *)
(*   [id, family, n, cfg |-> [recursive, directives], doc,                  *)
(*    obs |-> [counters, wallUs, cpuUs, refused, aborted, problem]]         *)
(* cfg: the limit_recursive_depth (-1: default 32) and limit_directives     *)
(* (-1: unset) of the schema the request ran on.                            *)
(* counters = <<visit_selection, visit_field, recursive_depth,              *)
(* max_directives, find_conflicts>> read from the cfg-guarded hook after    *)
(* the request.                                                             *)
(* Verdict (the property): every counter <= PolyBound(doc) = K * Size^2.    *)
(*   A request above the bound is excused as known:DevNoMemo only if the    *)
(*   request is in the deviation's trigger class (some fragment is expanded *)
(*   more than once and some walker that ran did more than visiting every   *)
(*   fragment body once costs -- a request refused by a limit before the    *)
(*   fan-out is walked is not) and no counter exceeds the work of the code  *)
(*   as written under the request's limits (Limits!Visits_asCodedAt: the    *)
(*   schema.rs walkers stop at the first violation).                        *)
(* Drift (never a verdict): counters = Visits_asCodedAt(doc, cfg).          *)
(*                                                                         *)
(* Work that no counter sees (the rules' own searches: NoFragmentCycles,    *)
(* NoUnusedFragments, NoUndefinedVariables ... walk the spread graph after  *)
(* the visitor pass) is held through obs.cpuUs, the CPU time of the         *)
(* request's thread (the smallest of up to three runs), with a bound that   *)
(* is orders of magnitude above the unchanged tree and still polynomial:    *)
(*   cpuUs <= SlackUs + UsPerUnit * max(PolyBound(doc), as-coded work)      *)
(* (the as-coded work only matters for the requests DevNoMemo excuses).     *)
(* Measured on the unchanged tree: < 0.1 us per unit of counted work, the   *)
(* Fibonacci DAG of 40 unreferenced fragments is answered in well under a   *)
(* millisecond; a search that walks every path of that DAG needs seconds.   *)
(* verdict "violation:cpu".  If the hook offers a sixth counter             *)
(* (cycle_detect: calls of CycleDetector::detect_from) it is judged like    *)
(* the others, without excuse: counters[6] <= PolyBound, and the drift      *)
(* compares it with Limits!Visits_cycles.                                   *)
(***************************************************************************)
EXTENDS Limits, Json, IOUtils
CONSTANTS UsPerUnit, SlackUs

ASSUME TLCSet(7, ndJsonDeserialize(IOEnv.TRACE))
Cases == TLCGet(7)
VARIABLE l

Judge(c) ==
  LET C     == WorkCtx(c.doc)
      cnt   == c.obs.counters
      coded == Visits_asCodedFastAt(C, c.cfg)
      b     == PolyBound(C)
      five  == SubSeq(cnt, 1, 5)
      cyc   == Visits_cycles(C)
      ran   == coded[1] > 0                                                  \* validation ran (no limit refused the request before)
      v0    == IF c.obs.problem # "" \/ Len(cnt) \notin {5, 6} THEN "violation:problem"
               ELSE IF Len(cnt) = 6 /\ cnt[6] > b THEN "violation:cycle_detect"
               ELSE IF WithinBound(five, b) THEN "ok"
               ELSE IF TriggerNoMemoAt(C, c.cfg) /\ (\A i \in 1..5 : cnt[i] <= coded[i]) THEN "known:DevNoMemo"
               ELSE "violation"
      allow == SlackUs + UsPerUnit * Max(b, MaxSet({coded[i] : i \in 1..5}))
      v     == IF v0 \in {"ok", "known:DevNoMemo"} /\ c.obs.cpuUs > allow THEN "violation:cpu" ELSE v0
      match == five = coded /\ (Len(cnt) = 6 => cnt[6] = (IF ran THEN cyc ELSE 0))
  \* one JSON string, so that TLC prints the tuple on one line
  IN <<"VERDICT", c.id, ToJson([verdict |-> v, size |-> Size(C), bound |-> b, coded |-> coded,
                                match |-> match, ideal |-> Visits_idealAt(C, c.cfg), cycles |-> cyc, cpuAllowed |-> allow])>>

TInit == l = 1
TNext == l <= Len(Cases) /\ PrintT(Judge(Cases[l])) /\ l' = l + 1
=============================================================================
