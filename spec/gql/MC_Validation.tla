---------------------------- MODULE MC_Validation ----------------------------
(***************************************************************************)
(* Mode M for C09: design-level checks of Validation.tla itself, decided   *)
(* by TLC alone over every document of a small bounded family (no Rust).   *)
(*                                                                         *)
(* Law 1 (two formulations agree).  On documents without fragments         *)
(*   definitions, variables, directives and repeated response keys, the    *)
(*   rule-by-rule definition Valid (a conjunction of 25 independent rules  *)
(*   over the flattened item list) coincides with Constructive, a single   *)
(*   top-down recursive check written the way Gen_Doc.tla constructs valid *)
(*   documents (field exists on the static type, leaf <=> no selection     *)
(*   set, type condition overlaps, arguments known / unique / required /   *)
(*   of the right literal kind).                                           *)
(* Law 2 (deviation switches that only DROP checks never add a clause):    *)
(*   Violations under such a switch is a subset of the ideal Violations.   *)
(* Law 3 (the evaluation shortcut of FieldsInSetCanMerge is sound): if no  *)
(*   response key is repeated, neither the specification's nor the         *)
(*   implementation's merge check reports anything.                        *)
(***************************************************************************)
EXTENDS Validation, Json, IOUtils

ASSUME TLCSet(8, JsonDeserialize(IOEnv.SCHEMA))
TS == TLCGet(8)
CONSTANT Full      \* TRUE: the whole family (thorough); FALSE: a third of the two-selection documents (quick)
VARIABLE d
Ctx0(doc, dev) == [ts |-> TS, doc |-> doc, vars |-> <<>>, opName |-> "", flavour |-> "static", dev |-> dev]

\* ---- the bounded family -------------------------------------------------
Int1 == [k |-> "int", v |-> "1"]
Str == [k |-> "str", v |-> "s"]
ArgSets == {<<>>, <<[name |-> "x", val |-> Int1]>>, <<[name |-> "x", val |-> Str]>>, <<[name |-> "x", val |-> [k |-> "null"]]>>,
            <<[name |-> "zz", val |-> Int1]>>, <<[name |-> "x", val |-> Int1], [name |-> "x", val |-> Int1]>>,
            <<[name |-> "i", val |-> Int1]>>, <<[name |-> "i", val |-> [k |-> "obj", entries |-> <<[key |-> "b", val |-> Str]>>]]>>,
            <<[name |-> "e", val |-> Str]>>, <<[name |-> "e", val |-> [k |-> "enum", v |-> "RED"]]>>}
F(name, alias, args, sels) == [k |-> "field", name |-> name, alias |-> alias, args |-> args, dirs |-> <<>>, sels |-> sels]
Inl(on, sels) == [k |-> "inline", on |-> on, dirs |-> <<>>, sels |-> sels]
Leaves == {F(n, "", <<>>, <<>>) : n \in {"id", "val", "nope", "__typename", "a"}}
Level2 == Leaves \cup {Inl(c, <<l>>) : c \in {"", "A", "C", "Int", "Nope"}, l \in Leaves}
Level1 ==
  {F(n, al, as, <<>>) : n \in {"n", "a", "fi", "fr", "fd", "fin", "fe", "nope", "__typename"}, al \in {"", "k"}, as \in ArgSets}
  \cup {F(n, "", <<>>, <<s>>) : n \in {"a", "node", "u", "n", "c"}, s \in Level2}
  \cup {Inl(c, <<l>>) : c \in {"", "Query", "A"}, l \in {F("n", "", <<>>, <<>>), F("id", "", <<>>, <<>>)}}
Doc(sels) == [ops |-> <<[name |-> "", ty |-> "query", vars |-> <<>>, dirs |-> <<>>, sels |-> sels]>>, frags |-> <<>>]
Small == {F(n, al, <<>>, <<>>) : n \in (IF Full THEN {"n", "a", "nope"} ELSE {"n"}), al \in {"", "k"}}
Docs == {Doc(<<s>>) : s \in Level1} \cup {Doc(<<s, t>>) : s \in Small, t \in Level1}

\* ---- Law 1: the constructive formulation ---------------------------------
LiteralOK(C, ty, v) == ValueClauses(C, ty, v) = {}      \* (literal kinds are not re-formulated; the structure is)
ArgsOK(C, defs, args) ==
  /\ \A i \in 1..Len(args) : HasArg(defs, args[i].name) /\ LiteralOK(C, ArgDef(defs, args[i].name).ty, args[i].val)
  /\ \A i, j \in 1..Len(args) : i # j => args[i].name # args[j].name
  /\ \A k \in 1..Len(defs) : (defs[k].ty.k = "nn" /\ ~defs[k].hasDefault) => HasArg(args, defs[k].name)
RECURSIVE Constructive(_, _, _)
Constructive(C, sels, t) ==
  \A i \in 1..Len(sels) :
    LET s == sels[i] IN
    IF s.k = "field" THEN
      IF s.name = "__typename" THEN IsComposite(C, t) /\ s.sels = <<>> /\ s.args = <<>>
      ELSE /\ Kind(C, t) \in {"OBJECT", "INTERFACE"} /\ s.name \in DOMAIN TypeDef(C, t).fields
           /\ LET def == TypeDef(C, t).fields[s.name]
                  ft == NamedOf(def.ty)
              IN /\ ArgsOK(C, def.args, s.args)
                 /\ IF IsLeaf(C, ft) THEN s.sels = <<>> ELSE s.sels # <<>> /\ Constructive(C, s.sels, ft)
    ELSE \* inline fragment
      /\ s.sels # <<>>
      /\ IF s.on = "" THEN Constructive(C, s.sels, t)
         ELSE /\ TypeExists(C, s.on) /\ IsComposite(C, s.on)
              /\ PossibleTypes(C, s.on) \cap PossibleTypes(C, t) # {}
              /\ Constructive(C, s.sels, s.on)
Law1 == LET C == Ctx0(d, {}) IN
        ~SomeKeyRepeated(C) => (Valid(C) <=> Constructive(C, d.ops[1].sels, TS.query))

\* ---- Law 2 ---------------------------------------------------------------
DroppingDevs == {"DevInputValueNotForwarded", "DevEnumAcceptsString", "DevUnsuppliedVarSkipsArgCheck",
                 "DevVarDefDirectivesNotVisited", "DevOverlapMissesConflicts"}
Law2 == \A dv \in DroppingDevs : Violations(Ctx0(d, {dv})) \subseteq Violations(Ctx0(d, {}))
\* ---- Law 3 ---------------------------------------------------------------
Law3 == LET C == Ctx0(d, {}) IN ~SomeKeyRepeated(C) => FieldsInSetCanMergeIdeal(C) = {} /\ FieldsInSetCanMergeImpl(C) = {}
\* the family is not vacuous: it contains valid and invalid documents and documents with repeated keys
ASSUME \E x \in Docs : Valid(Ctx0(x, {}))
ASSUME \E x \in Docs : ~Valid(Ctx0(x, {}))
ASSUME \E x \in Docs : SomeKeyRepeated(Ctx0(x, {}))

Init == d \in Docs
Next == UNCHANGED d
=============================================================================
