----------------------------- MODULE ExecTrace -----------------------------
(***************************************************************************)
(* Mode V for the execution-semantics properties.  Each recorded case      *)
(* (document, variables, world, observation of the real library) is judged *)
(* against Execution!Execute.                                              *)
(*   MODE = "data"   (C01, C02): obs.data = reference data                 *)
(*   MODE = "errors" (C03):      data as above and the reported errors are *)
(*        exactly explained by the reference (required / optional sets)    *)
(* A mismatch that is reproduced by switching on named deviations of the   *)
(* implementation (smallest set first) yields "known:<Dev,...>".           *)
(***************************************************************************)
EXTENDS Execution, Json, IOUtils

Cases == ndJsonDeserialize(IOEnv.TRACE)
TS == JsonDeserialize(IOEnv.SCHEMA)
Mode == IOEnv.MODE
CONSTANT Chunk
VARIABLE l

TsOf(c) == IF "ts" \in DOMAIN c THEN c.ts ELSE TS

\* named deviations that may explain a mismatch (known_findings/*.json decides whether they are excused)
StaticDevs  == {"DevTypenameDirsNotValidated", "DevNonFiniteFloatIsNull", "DevOuterResultNullsParent", "DevGuardNullsParent", "DevFieldPerOccurrence"}
DynamicDevs == {"DevTypenameDirsNotValidated", "DevNonFiniteFloatIsNull", "DevDynamicScalarUnchecked", "DevFieldPerOccurrence"}
DevsOf(c) == IF c.flavour = "dynamic" THEN DynamicDevs ELSE StaticDevs

RECURSIVE JoinSet(_)
JoinSet(S) == IF S = {} THEN "" ELSE LET x == CHOOSE y \in S : TRUE IN
              IF Cardinality(S) = 1 THEN x ELSE x \o "," \o JoinSet(S \ {x})

\* ---- trigger of DevTypenameDirsNotValidated: validation does not visit `__typename` fields, so a variable
\* whose only uses are in directives on `__typename` fields is reported as unused and the request is rejected.
RECURSIVE VarUsesSels(_, _, _), VarUsesDirs(_, _)
VarUsesDirs(dirs, i) == IF i > Len(dirs) THEN 0 ELSE (IF dirs[i].val.k = "var" THEN 1 ELSE 0) + VarUsesDirs(dirs, i + 1)
\* [tn, other]: variable uses on __typename fields / anywhere else
VarUsesSels(sels, i, acc) ==
  IF i > Len(sels) THEN acc
  ELSE LET s == sels[i]
           u == VarUsesDirs(s.dirs, 1)
           a1 == IF s.k = "field" /\ s.name = "__typename" THEN [acc EXCEPT !.tn = @ + u] ELSE [acc EXCEPT !.other = @ + u]
           a2 == IF s.k = "spread" THEN a1 ELSE VarUsesSels(s.sels, 1, a1)
       IN VarUsesSels(sels, i + 1, a2)
RECURSIVE VarUsesFrags(_, _, _)
VarUsesFrags(frags, i, acc) == IF i > Len(frags) THEN acc ELSE VarUsesFrags(frags, i + 1, VarUsesSels(frags[i].sels, 1, acc))
VarOnlyOnTypename(c) ==
  LET u == VarUsesFrags(c.doc.frags, 1, VarUsesSels(c.doc.ops[c.opIndex].sels, 1, [tn |-> 0, other |-> 0]))
  IN u.tn > 0 /\ u.other = 0

\* ---- observation helpers ----
ObsErr(e) == [path |-> e.path, line |-> IF Len(e.locs) >= 1 THEN e.locs[1][1] ELSE 0, col |-> IF Len(e.locs) >= 1 THEN e.locs[1][2] ELSE 0]
ObsErrs(c) == [i \in 1..Len(c.obs.errors) |-> ObsErr(c.obs.errors[i])]
NoDup(s) == \A i, j \in 1..Len(s) : i # j => s[i] # s[j]
OneLoc(c) == \A i \in 1..Len(c.obs.errors) : Len(c.obs.errors[i].locs) = 1

ErrorsExplained(c, r, nopath) ==
  LET oe == ObsErrs(c)
      strip(e) == IF nopath THEN [e EXCEPT !.path = <<>>] ELSE e
      all == {strip(e) : e \in AllErrs(r)}
  IN /\ OneLoc(c)
     /\ (nopath \/ NoDup(oe))
     /\ \A i \in 1..Len(oe) : oe[i] \in all
     /\ \A k \in 1..Len(r.req) : \E e \in r.req[k] : \E i \in 1..Len(oe) : oe[i] = strip(e)

Matches(c, dev) ==
  IF "DevTypenameDirsNotValidated" \in dev
  THEN VarOnlyOnTypename(c) /\ c.obs.data = Null /\ Len(c.obs.errors) >= 1 /\ c.obs.log = <<>>     \* rejected before execution
  ELSE LET r == Execute(Ctx(c, TsOf(c), dev)) IN
       /\ c.obs.data = r.val
       /\ (Mode = "errors" => ErrorsExplained(c, r, "DevDynamicNoErrorPath" \in dev))

\* smallest set of deviations that reproduces the observation (sets are tried by increasing size so that the
\* common single-deviation cases cost |Devs| evaluations of the reference, not 2^|Devs|)
OfSize(c, n) == {D \in SUBSET DevsOf(c) : Cardinality(D) = n}
RECURSIVE FirstDevN(_, _)
FirstDevN(c, n) ==
  IF n > Cardinality(DevsOf(c)) THEN "violation"
  ELSE LET E == {D \in OfSize(c, n) : Matches(c, D)} IN
       IF E # {} THEN "known:" \o JoinSet(CHOOSE D \in E : TRUE) ELSE FirstDevN(c, n + 1)
FirstDev(c) == FirstDevN(c, 1)

Verdict(c) ==
  IF c.obs.problem # "" THEN "violation:" \o "problem"
  ELSE IF Matches(c, {}) THEN "ok"
  ELSE FirstDev(c)

TInit == l \in {i \in 1..Len(Cases) : i % Chunk = 1 \/ Chunk = 1}
Debug == IF "DEBUG" \in DOMAIN IOEnv THEN IOEnv.DEBUG = "1" ELSE FALSE
TNext == /\ l <= Len(Cases)
         /\ PrintT(<<"VERDICT", Cases[l].id, Verdict(Cases[l])>>)
         /\ (Debug => PrintT(<<"EXPECTED", Cases[l].id, ToJson(Execute(Ctx(Cases[l], TsOf(Cases[l]), {})))>>))
         /\ l % Chunk # 0
         /\ l' = l + 1
=============================================================================
