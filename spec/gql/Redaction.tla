------------------------------ MODULE Redaction ------------------------------
(***************************************************************************)
(* C21 -- secret arguments never appear in logged or traced query text.    *)
(*                                                                         *)
(* The library prints an executable document for its Logger and Tracing    *)
(* extensions (Registry::stringify_exec_doc behind                         *)
(* ExtensionContext::stringify_execute_doc).  Arguments and input-object   *)
(* fields may be marked secret in the schema (#[graphql(secret)]).         *)
(*                                                                         *)
(*  1. SecretLeaves(case): the scalar values of a request that stand in a  *)
(*     secret position, by a type-directed walk of the document            *)
(*     (GraphQL Oct 2021: 5.3 fields on the static type, 5.5.2 fragment    *)
(*     type conditions, 5.6 input values against the argument / input      *)
(*     field type, 5.8 variables; 6.1.2 a variable stands for its supplied *)
(*     value or its default): the whole value of a secret argument, the    *)
(*     values of secret fields of input objects reached through lists and  *)
(*     nested input objects, through variables (supplied value and default *)
(*     value), in operations and in fragment definitions.                  *)
(*     Property: none of them occurs in the printed text.                  *)
(*  2. Printed(case, dev): an implementation-shaped model of what the      *)
(*     printer writes in clear, following the way stringify_exec_doc       *)
(*     tracks the parent type; the deviations of today's code are named    *)
(*     switches.  With no switch it prints no secret leaf (mode M).        *)
(*  3. A generator state machine (mode G): a document is a chain of steps  *)
(*     (field / inline fragment with and without type condition / named    *)
(*     fragment) from an operation root to one target field whose          *)
(*     arguments are filled with value templates: every shape of the       *)
(*     argument type up to a depth (lists, nested input objects, input     *)
(*     objects without secret fields of their own around inner ones with   *)
(*     secrets, object / list values of a JSON-like scalar in a secret     *)
(*     position), one                                                      *)
(*     value node per argument optionally lifted into a variable (supplied,*)
(*     default only, default and supplied), distinct sentinels in every    *)
(*     secret leaf; named and anonymous operations, aliases on the target  *)
(*     field and on its ancestor fields (response keys never matter: every *)
(*     walk below resolves a field by its NAME).                           *)
(* Sentinels: leaf i is the string "zq<i>z" or the integer 9100+i; the leaf*)
(* carries its number in the field sid so that TLC can build its code      *)
(* points (TLC cannot look inside strings).                                *)
(***************************************************************************)
EXTENDS Naturals, Sequences, FiniteSets, TLC, Json, IOUtils

ASSUME TLCSet(8, JsonDeserialize(IOEnv.SCHEMA))
TS == TLCGet(8)                       \* schemas/c21.json, mirror of the harness schema incl. secret flags

CONSTANTS MaxSteps,      \* longest chain of steps from the operation root to the target field
          ShapeBudget,   \* a target below a chain of L steps gets argument shapes of depth <= max(0, ShapeBudget - L)
          MaxListLen,    \* 1 or 2: list values have one element, or one and two elements
          VarModes,      \* subset of {"supplied", "default", "both"}
          Styles,        \* subset of {"anon", "named", "anonAlias", "namedAlias"} (alias = on the target field)
          StepAliases    \* subset of {"none", "fresh", "sibling"}: how the ancestor fields of a chain are selected
VARIABLE g

----------------------------------------------------------------------------
(* type system helpers *)
Types == DOMAIN TS.types
KindOf(t) == IF t \in Types THEN TS.types[t].kind ELSE "SCALAR"
RECURSIVE NamedOf(_)
NamedOf(ty) == IF ty.k = "named" THEN ty.n ELSE NamedOf(ty.of)
Strip(ty) == IF ty.k = "nn" THEN ty.of ELSE ty
InSeq(x, s) == \E i \in 1..Len(s) : s[i] = x
ObjectTypes == {t \in Types : KindOf(t) = "OBJECT"}
Possible(t) == CASE KindOf(t) = "OBJECT" -> {t}
                 [] KindOf(t) = "INTERFACE" -> {o \in ObjectTypes : InSeq(t, TS.types[o].implements)}
                 [] KindOf(t) = "UNION" -> {o \in ObjectTypes : InSeq(o, TS.types[t].members)}
                 [] OTHER -> {}
Composite(t) == KindOf(t) \in {"OBJECT", "INTERFACE", "UNION"}
FieldsOf(t) == IF KindOf(t) \in {"OBJECT", "INTERFACE"} THEN DOMAIN TS.types[t].fields ELSE {}
FieldDef(t, f) == TS.types[t].fields[f]
ArgsOf(t, f) == DOMAIN FieldDef(t, f).args
InputFieldsOf(t) == IF KindOf(t) = "INPUT_OBJECT" THEN DOMAIN TS.types[t].inputFields ELSE {}
RootOf(opty) == CASE opty = "query" -> TS.query [] opty = "mutation" -> TS.mutation [] OTHER -> TS.subscription
RECURSIVE SeqOf(_)
SeqOf(S) == IF S = {} THEN <<>> ELSE LET x == CHOOSE y \in S : TRUE IN <<x>> \o SeqOf(S \ {x})

----------------------------------------------------------------------------
(* 1. secret positions.  E = [defs |-> variable definitions of the operation, vars |-> supplied variables] *)
HasDef(E, n) == \E i \in 1..Len(E.defs) : E.defs[i].name = n
DefOf(E, n) == E.defs[CHOOSE i \in 1..Len(E.defs) : E.defs[i].name = n]
IsSupplied(E, n) == \E i \in 1..Len(E.vars) : E.vars[i].name = n
SuppliedVal(E, n) == E.vars[CHOOSE i \in 1..Len(E.vars) : E.vars[i].name = n].val
\* 6.1.2 CoerceVariableValues: the values a variable can stand for: the supplied one, or the default
VarValues(E, n) == (IF IsSupplied(E, n) THEN {SuppliedVal(E, n)} ELSE {})
                   \cup (IF HasDef(E, n) /\ DefOf(E, n).hasDefault THEN {DefOf(E, n).default} ELSE {})

IsLeaf(v) == v.k \in {"str", "int", "bool", "enum", "float"}
\* scalar leaves of the value v of type ty that are secret; sec: v itself stands in a secret position
RECURSIVE SecretIn(_, _, _, _)
SecretIn(E, v, ty, sec) ==
  CASE v.k = "var"  -> UNION {SecretIn(E, w, ty, sec) : w \in VarValues(E, v.name)}
    [] IsLeaf(v)    -> IF sec THEN {v} ELSE {}
    [] v.k = "list" -> LET ity == IF Strip(ty).k = "list" THEN Strip(ty).of ELSE ty
                       IN UNION {SecretIn(E, v.items[i], ity, sec) : i \in 1..Len(v.items)}
    [] v.k = "obj"  -> LET tn == NamedOf(ty) IN
                       UNION {LET e == v.entries[i] IN
                              IF e.key \in InputFieldsOf(tn)
                              THEN SecretIn(E, e.val, TS.types[tn].inputFields[e.key].ty, sec \/ TS.types[tn].inputFields[e.key].secret)
                              ELSE SecretIn(E, e.val, ty, sec) : i \in 1..Len(v.entries)}
    [] OTHER -> {}

RECURSIVE SecretInSels(_, _, _)
SecretInSels(E, sels, T) ==
  UNION {LET s == sels[i] IN
         CASE s.k = "field" ->
                IF s.name \notin FieldsOf(T) THEN {}
                ELSE UNION {LET a == s.args[j] IN
                            IF a.name \in ArgsOf(T, s.name)
                            THEN SecretIn(E, a.val, FieldDef(T, s.name).args[a.name].ty, FieldDef(T, s.name).args[a.name].secret)
                            ELSE {} : j \in 1..Len(s.args)}
                     \cup SecretInSels(E, s.sels, NamedOf(FieldDef(T, s.name).ty))
           [] s.k = "inline" -> SecretInSels(E, s.sels, IF s.on = "" THEN T ELSE s.on)      \* 5.5.2: no condition = same type
           [] OTHER -> {}                                                                   \* spreads: fragment definitions are walked once
         : i \in 1..Len(sels)}

EnvOf(case, op) == [defs |-> op.vars, vars |-> case.vars]
\* single-operation documents: fragments are spread by that operation and see its variables
SecretLeaves(case) ==
  UNION {SecretInSels(EnvOf(case, case.doc.ops[i]), case.doc.ops[i].sels, RootOf(case.doc.ops[i].ty)) : i \in 1..Len(case.doc.ops)}
  \cup UNION {SecretInSels(EnvOf(case, case.doc.ops[1]), case.doc.frags[i].sels, case.doc.frags[i].on) : i \in 1..Len(case.doc.frags)}
Sids(L) == {l.sid : l \in {x \in L : "sid" \in DOMAIN x}}

\* code points of a sentinel leaf
RECURSIVE DigitsCP(_)
DigitsCP(n) == IF n < 10 THEN <<48 + n>> ELSE Append(DigitsCP(n \div 10), 48 + (n % 10))
SentinelCP(l) == IF l.k = "int" THEN DigitsCP(9100 + l.sid) ELSE <<122, 113>> \o DigitsCP(l.sid) \o <<122>>
Sentinel(sty, i) == IF sty = "Int" THEN [k |-> "int", v |-> ToString(9100 + i), sid |-> i]
                    ELSE [k |-> "str", v |-> "zq" \o ToString(i) \o "z", sid |-> i]

----------------------------------------------------------------------------
(* 2. implementation-shaped model of the printer: the leaves it writes in clear.                       *)
(* Deviations of today's code (known_findings/C21.json):                                               *)
(*   (fixed in /repo c722304, switches removed: lists were written verbatim; below `... { }` the       *)
(*    parent type was lost)                                                                            *)
(*   DevVarDefaultPrinted      the variable definitions of a named operation are written with their    *)
(*                             default values verbatim                                                 *)
Devs == {"DevVarDefaultPrinted"}

RECURSIVE LeavesOf(_)
LeavesOf(v) == CASE IsLeaf(v) -> {v}
                 [] v.k = "list" -> UNION {LeavesOf(v.items[i]) : i \in 1..Len(v.items)}
                 [] v.k = "obj"  -> UNION {LeavesOf(v.entries[i].val) : i \in 1..Len(v.entries)}
                 [] OTHER -> {}
\* Value::into_const_with(|name| variables.get(name)): supplied variables are substituted; an omitted one makes
\* the whole argument print as null
RECURSIVE MissingVar(_, _), ConstOf(_, _)
MissingVar(E, v) == CASE v.k = "var"  -> ~IsSupplied(E, v.name)
                      [] v.k = "list" -> \E i \in 1..Len(v.items) : MissingVar(E, v.items[i])
                      [] v.k = "obj"  -> \E i \in 1..Len(v.entries) : MissingVar(E, v.entries[i].val)
                      [] OTHER -> FALSE
ConstOf(E, v) == CASE v.k = "var"  -> SuppliedVal(E, v.name)
                   [] v.k = "list" -> [v EXCEPT !.items = [i \in 1..Len(v.items) |-> ConstOf(E, v.items[i])]]
                   [] v.k = "obj"  -> [v EXCEPT !.entries = [i \in 1..Len(v.entries) |-> [key |-> v.entries[i].key, val |-> ConstOf(E, v.entries[i].val)]]]
                   [] OTHER -> v

NoMeta == [present |-> FALSE]
Meta(def) == [present |-> TRUE, secret |-> def.secret, ty |-> def.ty]
\* stringify_input_value
RECURSIVE PrintedVal(_, _, _)
PrintedVal(v, meta, dev) ==
  IF meta.present /\ meta.secret THEN {}
  ELSE IF v.k = "obj" /\ meta.present /\ KindOf(NamedOf(meta.ty)) = "INPUT_OBJECT"
       THEN LET tn == NamedOf(meta.ty) IN
            UNION {LET e == v.entries[i] IN
                   PrintedVal(e.val, IF e.key \in InputFieldsOf(tn) THEN Meta(TS.types[tn].inputFields[e.key]) ELSE NoMeta, dev)
                   : i \in 1..Len(v.entries)}
  ELSE IF v.k = "list" /\ meta.present
       THEN LET ity == IF Strip(meta.ty).k = "list" THEN Strip(meta.ty).of ELSE meta.ty IN
            UNION {PrintedVal(v.items[i], [meta EXCEPT !.ty = ity], dev) : i \in 1..Len(v.items)}
  ELSE LeavesOf(v)                                        \* written verbatim

\* stringify_selection_set; P = [known, t]: the parent type the printer carries along
RECURSIVE PrintedSels(_, _, _, _)
PrintedSels(E, sels, P, dev) ==
  UNION {LET s == sels[i] IN
         CASE s.k = "field" ->
                LET fknown == P.known /\ s.name \in FieldsOf(P.t) IN
                UNION {LET a == s.args[j]
                           meta == IF fknown /\ a.name \in ArgsOf(P.t, s.name) THEN Meta(FieldDef(P.t, s.name).args[a.name]) ELSE NoMeta
                       IN IF MissingVar(E, a.val) THEN {} ELSE PrintedVal(ConstOf(E, a.val), meta, dev)
                       : j \in 1..Len(s.args)}
                \cup PrintedSels(E, s.sels, IF fknown THEN [known |-> TRUE, t |-> NamedOf(FieldDef(P.t, s.name).ty)] ELSE [known |-> FALSE, t |-> ""], dev)
           [] s.k = "inline" ->
                PrintedSels(E, s.sels,
                            IF s.on # "" THEN [known |-> TRUE, t |-> s.on] ELSE P, dev)
           [] OTHER -> {}
         : i \in 1..Len(sels)}
PrintedDefs(op, dev) ==
  IF op.name # "" /\ "DevVarDefaultPrinted" \in dev
  THEN UNION {IF op.vars[i].hasDefault THEN LeavesOf(op.vars[i].default) ELSE {} : i \in 1..Len(op.vars)}
  ELSE {}
Printed(case, dev) ==
  UNION {LET op == case.doc.ops[i] IN
         PrintedDefs(op, dev) \cup PrintedSels(EnvOf(case, op), op.sels, [known |-> TRUE, t |-> RootOf(op.ty)], dev) : i \in 1..Len(case.doc.ops)}
  \cup UNION {PrintedSels(EnvOf(case, case.doc.ops[1]), case.doc.frags[i].sels, [known |-> TRUE, t |-> case.doc.frags[i].on], dev) : i \in 1..Len(case.doc.frags)}
\* the inputs on which a deviation can show: alone it already writes a secret leaf
Trigger(d, case) == Sids(Printed(case, {d})) # {}

----------------------------------------------------------------------------
(* 3. generator *)
\* --- value templates.  Every node carries the declared type of its position (ty); a secret leaf is the
\* placeholder [k |-> "S"], numbered when the case is assembled.
Absent == [k |-> "absent"]
Benign(tn, ty) == IF tn = "Int" THEN [k |-> "int", v |-> "1", ty |-> ty] ELSE [k |-> "str", v |-> "pub", ty |-> ty]
IsCompositeInput(ty) == Strip(ty).k = "list" \/ KindOf(NamedOf(ty)) = "INPUT_OBJECT" \/ NamedOf(ty) = "JSON"

\* values of the JSON-like scalar in a secret position: a plain string, an object with a nested object, a list of
\* objects -- every leaf its own sentinel.  json marks the node: nothing inside it is lifted into a variable (the
\* inside of a custom scalar has no GraphQL type), only the value as a whole.
JsonLeaf(sty) == [k |-> "S", ty |-> [k |-> "named", n |-> sty], sty |-> sty]
JsonSecretTpls(ty) ==
  {[k |-> "S", ty |-> ty, sty |-> "String"],
   [k |-> "obj", ty |-> ty, json |-> TRUE,
    entries |-> <<[key |-> "a", val |-> JsonLeaf("String")],
                  [key |-> "b", val |-> [k |-> "obj", ty |-> ty, json |-> TRUE, entries |-> <<[key |-> "c", val |-> JsonLeaf("Int")]>>]]>>],
   [k |-> "list", ty |-> ty, json |-> TRUE,
    items |-> <<[k |-> "obj", ty |-> ty, json |-> TRUE, entries |-> <<[key |-> "a", val |-> JsonLeaf("String")]>>]>>]}
RECURSIVE Tpl(_, _, _), ObjProd(_, _, _, _, _)
Tpl(ty, sec, d) ==
  LET t == Strip(ty) IN
  IF t.k = "named" /\ t.n = "JSON"
  THEN (IF sec THEN JsonSecretTpls(ty) ELSE {[k |-> "obj", ty |-> ty, json |-> TRUE, entries |-> <<[key |-> "a", val |-> [k |-> "str", v |-> "pub", ty |-> ty]]>>]})
  ELSE IF t.k = "list"
  THEN {[k |-> "list", ty |-> ty, items |-> <<x>>] : x \in Tpl(t.of, sec, d)}
       \cup (IF MaxListLen >= 2 THEN {[k |-> "list", ty |-> ty, items |-> <<x, x>>] : x \in Tpl(t.of, sec, d)} ELSE {})
  ELSE IF KindOf(t.n) = "INPUT_OBJECT"
       THEN {[k |-> "obj", ty |-> ty, entries |-> es] : es \in ObjProd(t.n, SeqOf(InputFieldsOf(t.n)), 1, sec, d)}
  ELSE IF sec THEN {[k |-> "S", ty |-> ty, sty |-> t.n]} ELSE {Benign(t.n, ty)}
\* entry sequences of an input object: scalar fields always present; optional list / input-object fields absent,
\* or present when the depth budget allows
ObjProd(tn, fs, i, sec, d) ==
  IF i > Len(fs) THEN {<<>>}
  ELSE LET def == TS.types[tn].inputFields[fs[i]]
           fsec == sec \/ def.secret
           opts == IF IsCompositeInput(def.ty)
                   THEN (IF def.ty.k = "nn" THEN {} ELSE {Absent}) \cup (IF d > 0 \/ def.ty.k = "nn" THEN Tpl(def.ty, fsec, IF d > 0 THEN d - 1 ELSE 0) ELSE {})
                   ELSE Tpl(def.ty, fsec, d)
       IN {IF o = Absent THEN rest ELSE <<[key |-> fs[i], val |-> o]>> \o rest : o \in opts, rest \in ObjProd(tn, fs, i + 1, sec, d)}

RECURSIVE HasS(_)
HasS(v) == CASE v.k = "S" -> TRUE
             [] v.k = "list" -> \E i \in 1..Len(v.items) : HasS(v.items[i])
             [] v.k = "obj"  -> \E i \in 1..Len(v.entries) : HasS(v.entries[i].val)
             [] OTHER -> FALSE
\* one value node that holds a secret leaf is lifted into a variable ("V" node)
RECURSIVE LiftOne(_)
LiftOne(v) ==
  IF ~HasS(v) THEN {}
  ELSE {[k |-> "V", mode |-> m, ty |-> v.ty, of |-> v] : m \in VarModes}
       \cup (CASE "json" \in DOMAIN v -> {}
               [] v.k = "list" -> UNION {{[v EXCEPT !.items[i] = w] : w \in LiftOne(v.items[i])} : i \in 1..Len(v.items)}
               [] v.k = "obj"  -> UNION {{[v EXCEPT !.entries[i].val = w] : w \in LiftOne(v.entries[i].val)} : i \in 1..Len(v.entries)}
               [] OTHER -> {})
ArgOptions(T, f, a, d) ==
  LET def == FieldDef(T, f).args[a]
      lits == Tpl(def.ty, def.secret, d)
  IN (IF def.ty.k = "nn" THEN {} ELSE {Absent}) \cup lits \cup UNION {LiftOne(v) : v \in lits}
RECURSIVE ArgProd(_, _, _, _, _)
ArgProd(T, f, as, i, d) ==
  IF i > Len(as) THEN {<<>>}
  ELSE {IF o = Absent THEN rest ELSE <<[name |-> as[i], val |-> o]>> \o rest : o \in ArgOptions(T, f, as[i], d), rest \in ArgProd(T, f, as, i + 1, d)}

\* --- numbering of the secret leaves (threading the counter n through the tree); a V node keeps the numbered
\* subtree in `of` and, for mode "both", a second copy with fresh sentinels in `dflt`
RECURSIVE NumV(_, _), NumItems(_, _, _, _), NumEntries(_, _, _, _)
NumV(v, n) ==
  CASE v.k = "S"    -> [v |-> Sentinel(v.sty, n + 1), n |-> n + 1]
    [] v.k = "list" -> LET r == NumItems(v.items, 1, n, <<>>) IN [v |-> [k |-> "list", items |-> r.vs], n |-> r.n]
    [] v.k = "obj"  -> LET r == NumEntries(v.entries, 1, n, <<>>) IN [v |-> [k |-> "obj", entries |-> r.vs], n |-> r.n]
    [] v.k = "V"    -> LET r == NumV(v.of, n)
                           r2 == IF v.mode = "both" THEN NumV(v.of, r.n) ELSE r
                       IN [v |-> [k |-> "V", mode |-> v.mode, ty |-> v.ty, of |-> r.v, dflt |-> r2.v], n |-> r2.n]
    [] OTHER -> [v |-> [k |-> v.k, v |-> v.v], n |-> n]
NumItems(items, i, n, acc) ==
  IF i > Len(items) THEN [vs |-> acc, n |-> n]
  ELSE LET r == NumV(items[i], n) IN NumItems(items, i + 1, r.n, Append(acc, r.v))
NumEntries(es, i, n, acc) ==
  IF i > Len(es) THEN [vs |-> acc, n |-> n]
  ELSE LET r == NumV(es[i].val, n) IN NumEntries(es, i + 1, r.n, Append(acc, [key |-> es[i].key, val |-> r.v]))
RECURSIVE NumArgs(_, _, _, _)
NumArgs(args, i, n, acc) ==
  IF i > Len(args) THEN [vs |-> acc, n |-> n]
  ELSE LET r == NumV(args[i].val, n) IN NumArgs(args, i + 1, r.n, Append(acc, [name |-> args[i].name, val |-> r.v]))

\* --- variables: V nodes become `$v<j>` (j = index of the argument); definitions and supplied values are collected
RECURSIVE VNodes(_), WithVar(_, _)
VNodes(v) == CASE v.k = "V"    -> {v}
               [] v.k = "list" -> UNION {VNodes(v.items[i]) : i \in 1..Len(v.items)}
               [] v.k = "obj"  -> UNION {VNodes(v.entries[i].val) : i \in 1..Len(v.entries)}
               [] OTHER -> {}
WithVar(v, name) == CASE v.k = "V"    -> [k |-> "var", name |-> name]
                      [] v.k = "list" -> [v EXCEPT !.items = [i \in 1..Len(v.items) |-> WithVar(v.items[i], name)]]
                      [] v.k = "obj"  -> [v EXCEPT !.entries = [i \in 1..Len(v.entries) |-> [key |-> v.entries[i].key, val |-> WithVar(v.entries[i].val, name)]]]
                      [] OTHER -> v
VarName(j) == "v" \o ToString(j)
ArgIdxWithV(args) == {j \in 1..Len(args) : VNodes(args[j].val) # {}}
TheV(args, j) == CHOOSE x \in VNodes(args[j].val) : TRUE
NoDefault == [k |-> "null"]
VarDefsOf(args) == LET js == SeqOf(ArgIdxWithV(args)) IN
  [q \in 1..Len(js) |-> LET x == TheV(args, js[q]) IN
     [name |-> VarName(js[q]), ty |-> x.ty, hasDefault |-> x.mode \in {"default", "both"},
      default |-> IF x.mode = "default" THEN x.of ELSE IF x.mode = "both" THEN x.dflt ELSE NoDefault]]
SuppliedOf(args) == LET js == SeqOf({j \in ArgIdxWithV(args) : TheV(args, j).mode \in {"supplied", "both"}}) IN
  [q \in 1..Len(js) |-> [name |-> VarName(js[q]), val |-> TheV(args, js[q]).of]]
DocArgs(args) == [j \in 1..Len(args) |-> [name |-> args[j].name, val |-> WithVar(args[j].val, VarName(j))]]

\* --- chains of steps
FieldNode(n, al, args, sels) == [k |-> "field", name |-> n, alias |-> al, args |-> args, dirs |-> <<>>, sels |-> sels]
\* type conditions that may be spread inside static type t (5.5.2.3); operation roots only take themselves
Conds(t) == IF t \in {TS.query, TS.mutation, TS.subscription} THEN {t}
            ELSE {x \in Types : Composite(x) /\ Possible(x) \cap Possible(t) # {} /\ x \notin {TS.query, TS.mutation, TS.subscription}}
\* 3.3 / 5.3.3: an alias only renames the response key; the type of what is below an ancestor field is that of the
\* field NAMED there.  Ancestor fields are selected plainly, under a fresh alias ("anc"), and under an alias that
\* is the name of ANOTHER field of the same parent type (whose type and arguments differ).
SiblingOf(t, f) == LET S == FieldsOf(t) \ {f} IN IF S = {} THEN "" ELSE CHOOSE h \in S : TRUE
StepAliasOf(kind, t, f) == CASE kind = "fresh" -> "anc" [] kind = "sibling" -> SiblingOf(t, f) [] OTHER -> ""
StepsFrom(t) ==
  {[k |-> "field", name |-> f, on |-> "", alias |-> StepAliasOf(ak, t, f)] :
     f \in {h \in FieldsOf(t) : Composite(NamedOf(FieldDef(t, h).ty)) /\ ArgsOf(t, h) = {}}, ak \in StepAliases}
  \cup {[k |-> "inline", name |-> "", on |-> "", alias |-> ""]}
  \cup {[k |-> kk, name |-> "", on |-> x, alias |-> ""] : kk \in {"inline", "spread"}, x \in Conds(t)}
TypeAfter(t, st) == IF st.k = "field" THEN NamedOf(FieldDef(t, st.name).ty) ELSE IF st.on = "" THEN t ELSE st.on
Targets(t) == {f \in FieldsOf(t) : ArgsOf(t, f) # {}}
\* a union has no fields of its own, an inline fragment without condition below it is still a union
RECURSIVE Wrap(_, _, _, _)
\* builds the selection sets from the innermost outwards; returns [sels, frags]
Wrap(steps, i, sels, frags) ==
  IF i = 0 THEN [sels |-> sels, frags |-> frags]
  ELSE LET st == steps[i] IN
       CASE st.k = "field"  -> Wrap(steps, i - 1, <<FieldNode(st.name, st.alias, <<>>, sels)>>, frags)
         [] st.k = "inline" -> Wrap(steps, i - 1, <<[k |-> "inline", on |-> st.on, dirs |-> <<>>, sels |-> sels]>>, frags)
         [] st.k = "spread" -> LET fname == "F" \o ToString(Len(frags) + 1) IN
                               Wrap(steps, i - 1, <<[k |-> "spread", name |-> fname, dirs |-> <<>>]>>,
                                    Append(frags, [name |-> fname, on |-> st.on, dirs |-> <<>>, sels |-> sels]))

Named(style) == style \in {"named", "namedAlias"}
Aliased(style) == style \in {"anonAlias", "namedAlias"}
BuildCase(opty, steps, f, rawArgs, style) ==
  LET args == NumArgs(rawArgs, 1, 0, <<>>).vs
      target == FieldNode(f, IF Aliased(style) THEN "al" ELSE "", DocArgs(args), <<>>)
      w == Wrap(steps, Len(steps), <<target>>, <<>>)
  IN [doc |-> [ops |-> <<[name |-> IF Named(style) THEN "Op" ELSE "", ty |-> opty, vars |-> VarDefsOf(args), dirs |-> <<>>, sels |-> w.sels]>>,
               frags |-> w.frags],
      vars |-> SuppliedOf(args), opName |-> IF Named(style) THEN "Op" ELSE "",
      style |-> style, target |-> f, steps |-> steps, nsent |-> NumArgs(rawArgs, 1, 0, <<>>).n]

HoldsSecret(rawArgs) == \E j \in 1..Len(rawArgs) : HasS(rawArgs[j].val) \/ VNodes(rawArgs[j].val) # {}
DepthFor(steps) == IF ShapeBudget > Len(steps) THEN ShapeBudget - Len(steps) ELSE 0
Ops == {"query", "mutation", "subscription"}
Init == g \in {[stage |-> "path", op |-> o, steps |-> <<>>, ty |-> RootOf(o)] : o \in Ops}
Extend == /\ g.stage = "path" /\ Len(g.steps) < MaxSteps
          /\ \E st \in StepsFrom(g.ty) : g' = [g EXCEPT !.steps = Append(@, st), !.ty = TypeAfter(g.ty, st)]
Finish == /\ g.stage = "path"
          /\ \E f \in Targets(g.ty), style \in Styles :
               \E rawArgs \in {a \in ArgProd(g.ty, f, SeqOf(ArgsOf(g.ty, f)), 1, DepthFor(g.steps)) : HoldsSecret(a)} :
                 g' = [stage |-> "done", case |-> BuildCase(g.op, g.steps, f, rawArgs, style)]
Next == Extend \/ Finish
Done == g.stage = "done"

----------------------------------------------------------------------------
(* mode M invariants over every generated case *)
AllValueSids(case) ==
  LET op == case.doc.ops[1]
      RECURSIVE InSels(_)
      InSels(sels) == UNION {IF sels[i].k = "spread" THEN {}
                             ELSE (IF sels[i].k = "field" THEN UNION {LeavesOf(sels[i].args[j].val) : j \in 1..Len(sels[i].args)} ELSE {})
                                  \cup InSels(sels[i].sels) : i \in 1..Len(sels)}
  IN Sids(InSels(op.sels) \cup UNION {InSels(case.doc.frags[i].sels) : i \in 1..Len(case.doc.frags)}
          \cup UNION {IF op.vars[i].hasDefault THEN LeavesOf(op.vars[i].default) ELSE {} : i \in 1..Len(op.vars)}
          \cup UNION {LeavesOf(case.vars[i].val) : i \in 1..Len(case.vars)})
GenSound ==
  Done => LET case == g.case
              secret == SecretLeaves(case)
          IN /\ \A l \in secret : "sid" \in DOMAIN l                  \* every secret leaf is a sentinel
             /\ Sids(secret) = AllValueSids(case)                    \* and every sentinel placed is secret (two independent walks agree)
             /\ Sids(secret) = 1..case.nsent                         \* numbered 1..n, all distinct
             /\ Cardinality(secret) = case.nsent
             /\ case.nsent >= 1 /\ case.nsent < 90
\* the ideal printer model writes no secret leaf; the deviations only ever add secret leaves of the case
IdealRedacts == Done => Sids(Printed(g.case, {})) = {}
DevsInsideSecrets == Done => Sids(Printed(g.case, Devs)) \subseteq Sids(SecretLeaves(g.case))
Emit == Done => PrintT(<<"REPLAY", ToJson(g.case)>>)
=============================================================================
