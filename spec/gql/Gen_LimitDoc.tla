---------------------------- MODULE Gen_LimitDoc ----------------------------
(***************************************************************************)
(* Mode G for C10: generator state machine for valid executable documents   *)
(* over the limits family (IOEnv.SCHEMA = schemas/limits.json), modelled on *)
(* Gen_Doc.tla (flat pre-order form, `open` = stack of open selection sets) *)
(* and extended with what the four limits are sensitive to:                 *)
(*   - integer arguments feeding complexity rules (omitted / literal /      *)
(*     the variable $c),                                                    *)
(*   - any number of directives on one field (codes over s = @skip(if:      *)
(*     false), S = @skip(if: true), i = @include(if: true), t = the         *)
(*     repeatable custom directive @tag), directives on fragments,          *)
(*   - named fragments spread more than once (`reuse` of an already closed  *)
(*     spread: no cycles by construction; at the same or at a different     *)
(*     nesting depth, before or after a deeper/shallower placement, also    *)
(*     from inside another fragment), fragments inside fragments.           *)
(* Node: [d, k, name, alias, on, dirs, arg, ref].  TLC's breadth-first      *)
(* search visits every such document with at most MaxNodes nodes once.      *)
(***************************************************************************)
EXTENDS Naturals, Sequences, FiniteSets, TLC, Json, IOUtils

CONSTANTS MaxNodes, MaxDirs, MaxAlias, MaxArgs, MaxDecor, Root,
          Focus,          \* {} = all fields and __typename; otherwise only the fields named here (deeper bounds on a slice)
          OnlyDeepReuse   \* TRUE: emit only documents that spread one fragment at two different nesting depths
TS == JsonDeserialize(IOEnv.SCHEMA)
VARIABLES doc, open, ndir, nalias, nargs
vars == <<doc, open, ndir, nalias, nargs>>

Types == DOMAIN TS.types
Kind(t) == IF t \in Types THEN TS.types[t].kind ELSE "SCALAR"
RECURSIVE Named(_)
Named(ty) == IF ty.k = "named" THEN ty.n ELSE Named(ty.of)
InSeq(x, s) == \E i \in 1..Len(s) : s[i] = x
Objects == {t \in Types : Kind(t) = "OBJECT"}
Possible(t) == CASE Kind(t) = "OBJECT" -> {t}
                 [] Kind(t) = "INTERFACE" -> {o \in Objects : InSeq(t, TS.types[o].implements)}
                 [] Kind(t) = "UNION" -> {o \in Objects : InSeq(o, TS.types[t].members)}
                 [] OTHER -> {}
Composite(t) == Kind(t) \in {"OBJECT", "INTERFACE", "UNION"}
GenFields(t) == IF Kind(t) \in {"OBJECT", "INTERFACE"}
                THEN {f \in DOMAIN TS.types[t].fields : TS.types[t].fields[f].gen /\ (Focus = {} \/ f \in Focus)} ELSE {}
Typename == IF Focus = {} THEN {"__typename"} ELSE {}
\* type conditions that may be spread inside static type t (5.5.2.3 possible fragment spreads)
Conds(t) == {c \in Types : Composite(c) /\ Possible(c) \cap Possible(t) # {} /\ c # Root}

\* directive codes for fields (code, number of directives) and for fragments
\* (the driver replaces a code by a seeded composition of the same number of directives)
FieldDirs == {<<"", 0>>, <<"s", 1>>, <<"St", 2>>, <<"ttt", 3>>}
FragDirs  == {<<"", 0>>, <<"s", 1>>}
ArgCodes  == {"", "0", "1", "4", "$c"}

Top == open[Len(open)]
Bump == [open EXCEPT ![Len(open)].count = @ + 1]
Node(k, name, alias, on, dr, ar, ref) ==
  [d |-> Len(open), k |-> k, name |-> name, alias |-> alias, on |-> on, dirs |-> dr, arg |-> ar, ref |-> ref]

Init == doc = <<>> /\ open = <<[type |-> Root, count |-> 0, node |-> 0]>> /\ ndir = 0 /\ nalias = 0 /\ nargs = 0

\* ndir counts the nodes that carry directives; at most MaxDecor decorations (directive codes, aliases, arguments) per document
Decor == ndir + nalias + nargs
AliasChoice == IF nalias < MaxAlias /\ Decor < MaxDecor THEN {"", "x"} ELSE {""}
DirChoice(S) == IF ndir < MaxDirs /\ Decor < MaxDecor THEN S ELSE {<<"", 0>>}
HasArgs(t, f) == f # "__typename" /\ Len(TS.types[t].fields[f].args) > 0
ArgChoice(t, f) == IF HasArgs(t, f) /\ nargs < MaxArgs /\ Decor < MaxDecor THEN ArgCodes ELSE {""}

AddField ==
  /\ Len(doc) < MaxNodes
  /\ \E f \in GenFields(Top.type) \cup Typename, al \in AliasChoice, dr \in DirChoice(FieldDirs) :
     \E ar \in ArgChoice(Top.type, f) :
       /\ (IF al = "" THEN 0 ELSE 1) + (IF dr[2] = 0 THEN 0 ELSE 1) + (IF ar = "" THEN 0 ELSE 1) + Decor <= MaxDecor
       /\ LET t == IF f = "__typename" THEN "String" ELSE Named(TS.types[Top.type].fields[f].ty)
          IN open' = IF Composite(t) THEN Append(Bump, [type |-> t, count |-> 0, node |-> Len(doc) + 1]) ELSE Bump
       /\ doc' = Append(doc, Node("field", f, al, "", dr[1], ar, 0))
       /\ ndir' = IF dr[2] = 0 THEN ndir ELSE ndir + 1
       /\ nalias' = IF al = "" THEN nalias ELSE nalias + 1
       /\ nargs' = IF ar = "" THEN nargs ELSE nargs + 1

AddFragment ==
  /\ Len(doc) < MaxNodes - 1       \* a fragment needs at least one selection inside
  /\ \E k \in {"inline", "spread"}, c \in Conds(Top.type) \cup {""}, dr \in DirChoice(FragDirs) :
       /\ (k = "spread" => c # "")
       /\ doc' = Append(doc, Node(k, "", "", c, dr[1], "", 0))
       /\ open' = Append(Bump, [type |-> IF c = "" THEN Top.type ELSE c, count |-> 0, node |-> Len(doc) + 1])
       /\ ndir' = IF dr[2] = 0 THEN ndir ELSE ndir + 1
       /\ UNCHANGED <<nalias, nargs>>

\* spread an already completed named fragment once more (it cannot contain the current position: no cycle)
Reuse ==
  /\ Len(doc) < MaxNodes
  /\ \E i \in 1..Len(doc) :
       /\ doc[i].k = "spread"
       /\ \A j \in 1..Len(open) : open[j].node # i
       /\ doc[i].on \in Conds(Top.type)
       /\ doc' = Append(doc, Node("reuse", "", "", doc[i].on, "", "", i))
       /\ open' = Bump
       /\ UNCHANGED <<ndir, nalias, nargs>>

Close == /\ Len(open) > 1 /\ Top.count > 0
         /\ open' = SubSeq(open, 1, Len(open) - 1)
         /\ UNCHANGED <<doc, ndir, nalias, nargs>>

Next == AddField \/ AddFragment \/ Reuse \/ Close
Spec == Init /\ [][Next]_vars

\* design-level sanity (mode M): depth bookkeeping is consistent, reuse only refers backwards to spreads
DepthOK == \A i \in 1..Len(doc) : /\ doc[i].d >= 1 /\ (i > 1 => doc[i].d <= doc[i - 1].d + 1)
                                  /\ (doc[i].k = "reuse" => doc[i].ref < i /\ doc[doc[i].ref].k = "spread")
Complete == Len(open) = 1 /\ open[1].count > 0
\* the same fragment spread at two different nesting depths (in either order, possibly from inside another fragment):
\* a walker that remembers fragments instead of inlining them measures only the first placement
DeepReuse == \E i \in 1..Len(doc) : doc[i].k = "reuse" /\ doc[i].d # doc[doc[i].ref].d
Emit == (Complete /\ (OnlyDeepReuse => DeepReuse)) => PrintT(<<"REPLAY", ToJson(doc)>>)
=============================================================================
