\* mode M: every case of the generator up to the bounds: the two walks agree on the secret leaves (GenSound), the
\* ideal printer model writes none of them (IdealRedacts), the deviations only ever write secret leaves.
CONSTANT MaxSteps = 2
CONSTANT ShapeBudget = 2
CONSTANT MaxListLen = 2
CONSTANT VarModes = {"supplied", "default", "both"}
CONSTANT Styles = {"anon", "namedAlias"}
CONSTANT StepAliases = {"none", "fresh", "sibling"}
INIT Init
NEXT Next
INVARIANT GenSound
INVARIANT IdealRedacts
INVARIANT DevsInsideSecrets
