------------------------------- MODULE Limits -------------------------------
(***************************************************************************)
(* Reference measures of a request document for the four configurable      *)
(* limits of a schema (C10), and the work the pre-execution checks spend on *)
(* a document (C11, second half of the module).                             *)
(*                                                                         *)
(* A document is the abstract tree of DESIGN appendix A (the form used by   *)
(* Execution.tla): doc.ops = <<[name, ty, vars, dirs, sels]>>, doc.frags =  *)
(* <<[name, on, dirs, sels]>>, a selection is                               *)
(*   [k |-> "field", name, alias, args, dirs, sels]                         *)
(*   [k |-> "inline", on, dirs, sels]        (on = "" : no type condition)   *)
(*   [k |-> "spread", name, dirs].                                          *)
(* Integer argument values carry their number in field n:                   *)
(*   [k |-> "int", v |-> "3", n |-> 3], variables are [k |-> "var", name].   *)
(*                                                                         *)
(* All measures are taken "with fragments counted as if written inline":    *)
(* a spread ...F stands for `... on T { sels of F }` (T = F's type          *)
(* condition) at the spread's place.  They are measures of the *document*   *)
(* (every operation in it, fields removed by @skip/@include included):      *)
(*   Depth         field nesting: a field counts 1 + the depth of its       *)
(*                 selection set; fragments are transparent                 *)
(*   Complexity    sum over fields of the field's rule applied to the       *)
(*                 complexity of its selection set; the default rule is     *)
(*                 1 + children; declared rules are `const` and             *)
(*                 `mult * children + const`, mult a constant or an integer *)
(*                 argument of the field (coerced as in GraphQL 6.4.1:      *)
(*                 literal, variable value, variable default, argument      *)
(*                 default).  The rule is the one declared by the field     *)
(*                 definition in the static type the field is selected on   *)
(*                 (the innermost enclosing type condition / field type).   *)
(*   Nesting       selection sets nested inside an operation's root         *)
(*                 selection set; fields, inline fragments and spreads      *)
(*                 (contributing the fragment's selection set) open one     *)
(*   MaxDirectives the largest number of directives on one field            *)
(* A request is rejected iff some configured limit is strictly smaller than *)
(* its measure.                                                             *)
(*                                                                         *)
(* A context C is [ts, doc, op, vars, rules, dev]: ts the type system       *)
(* (schemas/limits.json), op the operation whose variable definitions are   *)
(* in scope, vars the supplied variable values, rules = FALSE for schemas   *)
(* that cannot declare complexity rules (dynamic schemas), dev the set of   *)
(* named deviations of today's implementation that are switched on.         *)
(***************************************************************************)
EXTENDS Execution      \* Kind, TypeDef, HasFrag, Frag, HasVarDef, VarDef, Supplied, SuppliedVal, RootType

Max(a, b) == IF a >= b THEN a ELSE b
RECURSIVE NamedOf(_)
NamedOf(ty) == IF ty.k = "named" THEN ty.n ELSE NamedOf(ty.of)
HasField(C, t, f) == t \in DOMAIN C.ts.types /\ f \in DOMAIN C.ts.types[t].fields
IsTypename(s) == s.k = "field" /\ s.name = "__typename"

\* selection set a spread stands for (an unknown fragment contributes nothing; valid documents have none)
SpreadSels(C, s) == IF HasFrag(C, s.name) THEN Frag(C, s.name).sels ELSE <<>>

----------------------------------------------------------------------------
(* Depth: field nesting, fragments transparent.                            *)
(* DevTypenameNotCounted: today's validation visitor never enters           *)
(* `__typename` fields (validation/visitor.rs visit_selection), so they     *)
(* count neither for the depth nor for the complexity.                      *)
RECURSIVE DepthSels(_, _, _)
DepthSels(C, sels, i) ==
  IF i > Len(sels) THEN 0
  ELSE LET s == sels[i]
           here == IF s.k = "field"
                   THEN (IF IsTypename(s) /\ "DevTypenameNotCounted" \in C.dev THEN 0 ELSE 1 + DepthSels(C, s.sels, 1))
                   ELSE IF s.k = "inline" THEN DepthSels(C, s.sels, 1)
                   ELSE DepthSels(C, SpreadSels(C, s), 1)
       IN Max(here, DepthSels(C, sels, i + 1))

----------------------------------------------------------------------------
(* Complexity.                                                             *)
DefaultRule == [k |-> "default", arg |-> "", mul |-> 1, add |-> 0, def |-> 0]
HasArg(s, a) == \E i \in 1..Len(s.args) : s.args[i].name = a
ArgVal(s, a) == s.args[CHOOSE i \in 1..Len(s.args) : s.args[i].name = a].val
\* 6.4.1 CoerceArgumentValues for an Int argument with a default value
IntArg(C, s, a, def) ==
  IF ~HasArg(s, a) THEN def
  ELSE LET v == ArgVal(s, a) IN
       IF v.k = "int" THEN v.n
       ELSE IF v.k = "var" THEN
              IF Supplied(C, v.name) THEN SuppliedVal(C, v.name).n
              ELSE IF HasVarDef(C, v.name) /\ VarDef(C, v.name).hasDefault THEN VarDef(C, v.name).default.n
              ELSE def          \* variable without a value: the argument's default applies
       ELSE def
ApplyRule(C, rule, s, child) ==
  CASE rule.k = "default" -> 1 + child
    [] rule.k = "const"   -> rule.add
    [] rule.k = "lin"     -> (IF rule.arg = "" THEN rule.mul ELSE IntArg(C, s, rule.arg, rule.def)) * child + rule.add

(* T is the static type the selections are written on ("" = unknown, only   *)
(* reachable under a deviation).                                            *)
(* DevSpreadNoTypePush: in inline mode today's visitor does not enter the   *)
(* fragment's type condition at a *named* spread (visit_fragment_spread),   *)
(* so the fields of the fragment are looked up on the type at the spread's  *)
(* place: a rule declared on the fragment's type is missed (or a rule of    *)
(* the outer object type is applied to a field selected on an interface).   *)
RECURSIVE CxSels(_, _, _, _)
CxSels(C, T, sels, i) ==
  IF i > Len(sels) THEN 0
  ELSE LET s == sels[i]
           here ==
             IF s.k = "field" THEN
               IF IsTypename(s) THEN (IF "DevTypenameNotCounted" \in C.dev THEN 0 ELSE 1)
               ELSE LET known == HasField(C, T, s.name)
                        ft    == IF known THEN NamedOf(C.ts.types[T].fields[s.name].ty) ELSE ""
                        child == CxSels(C, ft, s.sels, 1)
                        rule  == IF known /\ C.rules THEN C.ts.types[T].fields[s.name].rule ELSE DefaultRule
                    IN ApplyRule(C, rule, s, child)
             ELSE IF s.k = "inline" THEN CxSels(C, IF s.on = "" THEN T ELSE s.on, s.sels, 1)
             ELSE IF ~HasFrag(C, s.name) THEN 0
             ELSE CxSels(C, IF "DevSpreadNoTypePush" \in C.dev THEN T ELSE Frag(C, s.name).on, Frag(C, s.name).sels, 1)
       IN here + CxSels(C, T, sels, i + 1)

----------------------------------------------------------------------------
(* DevOmittedVarRuleError: today's rule evaluation (VisitorContext::param_value) reports *)
(* "Variable is not defined" when a rule's argument is given by a variable that has      *)
(* neither a supplied value nor a variable default -- although the request is valid      *)
(* (5.8.5: a nullable variable may feed a non-null argument that has a default) and      *)
(* executes with the argument's default.  The request is then refused whatever the       *)
(* limits are.  CxErr follows the traversal of CxSels (same type bookkeeping, same       *)
(* deviation switches) and says whether some rule evaluation hits such a variable.       *)
UndefinedVarArg(C, s, a) ==
  HasArg(s, a) /\ ArgVal(s, a).k = "var" /\ ~Supplied(C, ArgVal(s, a).name)
  /\ ~(HasVarDef(C, ArgVal(s, a).name) /\ VarDef(C, ArgVal(s, a).name).hasDefault)
RECURSIVE CxErr(_, _, _, _)
CxErr(C, T, sels, i) ==
  IF i > Len(sels) THEN FALSE
  ELSE LET s == sels[i]
           here ==
             IF s.k = "field" THEN
               IF IsTypename(s) THEN FALSE
               ELSE LET known == HasField(C, T, s.name)
                        ft    == IF known THEN NamedOf(C.ts.types[T].fields[s.name].ty) ELSE ""
                        rule  == IF known /\ C.rules THEN C.ts.types[T].fields[s.name].rule ELSE DefaultRule
                    IN (rule.k = "lin" /\ rule.arg # "" /\ UndefinedVarArg(C, s, rule.arg)) \/ CxErr(C, ft, s.sels, 1)
             ELSE IF s.k = "inline" THEN CxErr(C, IF s.on = "" THEN T ELSE s.on, s.sels, 1)
             ELSE IF ~HasFrag(C, s.name) THEN FALSE
             ELSE CxErr(C, IF "DevSpreadNoTypePush" \in C.dev THEN T ELSE Frag(C, s.name).on, Frag(C, s.name).sels, 1)
       IN here \/ CxErr(C, T, sels, i + 1)

----------------------------------------------------------------------------
(* Nesting (what limit_recursive_depth bounds) and MaxDirectives.           *)
RECURSIVE NestSels(_, _, _)
NestSels(C, sels, i) ==
  IF i > Len(sels) THEN 0
  ELSE LET s == sels[i]
           here == IF s.k = "field" THEN (IF s.sels = <<>> THEN 0 ELSE 1 + NestSels(C, s.sels, 1))
                   ELSE IF s.k = "inline" THEN 1 + NestSels(C, s.sels, 1)
                   ELSE IF HasFrag(C, s.name) THEN 1 + NestSels(C, Frag(C, s.name).sels, 1) ELSE 0
       IN Max(here, NestSels(C, sels, i + 1))

RECURSIVE DirSels(_, _, _)
DirSels(C, sels, i) ==
  IF i > Len(sels) THEN 0
  ELSE LET s == sels[i]
           here == IF s.k = "field" THEN Max(Len(s.dirs), DirSels(C, s.sels, 1))
                   ELSE IF s.k = "inline" THEN DirSels(C, s.sels, 1)
                   ELSE DirSels(C, SpreadSels(C, s), 1)
       IN Max(here, DirSels(C, sels, i + 1))

----------------------------------------------------------------------------
(* Measures of the whole document.  The variable definitions in scope for a *)
(* field are those of the operation it is (transitively) selected by.       *)
OpCtx(C, j) == [C EXCEPT !.op = C.doc.ops[j]]
MaxSet(S) == IF S = {} THEN 0 ELSE CHOOSE x \in S : \A y \in S : y <= x
OpIdx(C) == 1..Len(C.doc.ops)
RECURSIVE CxOps(_, _)
CxOps(C, j) == IF j > Len(C.doc.ops) THEN 0
               ELSE CxSels(OpCtx(C, j), RootType(OpCtx(C, j)), C.doc.ops[j].sels, 1) + CxOps(C, j + 1)

Depth(C)         == MaxSet({DepthSels(C, C.doc.ops[j].sels, 1) : j \in OpIdx(C)})
Complexity(C)    == CxOps(C, 1)
Nesting(C)       == MaxSet({NestSels(C, C.doc.ops[j].sels, 1) : j \in OpIdx(C)})
MaxDirectives(C) == MaxSet({DirSels(C, C.doc.ops[j].sels, 1) : j \in OpIdx(C)})

Measure(C, kind) == CASE kind = "depth"      -> Depth(C)
                      [] kind = "complexity" -> Complexity(C)
                      [] kind = "recursive"  -> Nesting(C)
                      [] kind = "directives" -> MaxDirectives(C)
LimitKinds == {"depth", "complexity", "recursive", "directives"}
\* limits: kind -> Int, a negative value = not configured
RuleError(C) == \E j \in OpIdx(C) : CxErr(OpCtx(C, j), RootType(OpCtx(C, j)), C.doc.ops[j].sels, 1)
Measures(C) == [k \in LimitKinds |-> Measure(C, k)]
\* M = Measures(C), computed once per document and configuration
Exceeds(M, limits) == \E k \in LimitKinds : limits[k] >= 0 /\ M[k] > limits[k]
MustReject(C, limits) == Exceeds(Measures(C), limits) \/ ("DevOmittedVarRuleError" \in C.dev /\ RuleError(C))

----------------------------------------------------------------------------
(* Trigger predicates of the deviations (the inputs on which each can show) *)
\* a named spread whose fragment has a type condition different from the static type at the spread's place
RECURSIVE SpreadMismatch(_, _, _, _)
SpreadMismatch(C, T, sels, i) ==
  IF i > Len(sels) THEN FALSE
  ELSE LET s == sels[i] IN
       \/ IF s.k = "field" THEN SpreadMismatch(C, IF HasField(C, T, s.name) THEN NamedOf(C.ts.types[T].fields[s.name].ty) ELSE "", s.sels, 1)
          ELSE IF s.k = "inline" THEN SpreadMismatch(C, IF s.on = "" THEN T ELSE s.on, s.sels, 1)
          ELSE IF HasFrag(C, s.name) THEN Frag(C, s.name).on # T \/ SpreadMismatch(C, Frag(C, s.name).on, Frag(C, s.name).sels, 1)
          ELSE FALSE
       \/ SpreadMismatch(C, T, sels, i + 1)
TriggerSpreadNoTypePush(C) == \E j \in OpIdx(C) : SpreadMismatch(C, RootType(OpCtx(C, j)), C.doc.ops[j].sels, 1)

RECURSIVE HasTypename(_, _, _)
HasTypename(C, sels, i) ==
  IF i > Len(sels) THEN FALSE
  ELSE LET s == sels[i] IN
       \/ IF s.k = "field" THEN IsTypename(s) \/ HasTypename(C, s.sels, 1)
          ELSE IF s.k = "inline" THEN HasTypename(C, s.sels, 1)
          ELSE HasTypename(C, SpreadSels(C, s), 1)
       \/ HasTypename(C, sels, i + 1)
TriggerOmittedVarRuleError(C) == RuleError([C EXCEPT !.dev = {}]) \/ RuleError([C EXCEPT !.dev = {"DevSpreadNoTypePush"}])
TriggerTypenameNotCounted(C) == \E j \in OpIdx(C) : HasTypename(C, C.doc.ops[j].sels, 1)
=============================================================================
