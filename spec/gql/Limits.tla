------------------------------- MODULE Limits -------------------------------
(***************************************************************************)
(* Reference measures of a request document for the four configurable      *)
(* limits of a schema (C10), and the work the pre-execution checks spend on *)
(* a document (C11, second half of the module).                             *)
(*                                                                         *)
(* A document is the abstract tree of DESIGN appendix A (the form used by   *)
(* Execution.tla): doc.ops = <<[name, ty, vars, dirs, sels]>>, doc.frags =  *)
(* <<[name, on, dirs, sels]>>, a selection is                               *)
(*   [k |-> "field", name, alias, args, dirs, sels]                         *)
(*   [k |-> "inline", on, dirs, sels]        (on = "" : no type condition)   *)
(*   [k |-> "spread", name, dirs].                                          *)
(* Integer argument values carry their number in field n:                   *)
(*   [k |-> "int", v |-> "3", n |-> 3], variables are [k |-> "var", name].   *)
(*                                                                         *)
(* All measures are taken "with fragments counted as if written inline":    *)
(* a spread ...F stands for `... on T { sels of F }` (T = F's type          *)
(* condition) at the spread's place.  They are measures of the *document*   *)
(* (every operation in it, fields removed by @skip/@include included):      *)
(*   Depth         field nesting: a field counts 1 + the depth of its       *)
(*                 selection set; fragments are transparent                 *)
(*   Complexity    sum over fields of the field's rule applied to the       *)
(*                 complexity of its selection set; the default rule is     *)
(*                 1 + children; declared rules are `const` and             *)
(*                 `mult * children + const`, mult a constant or an integer *)
(*                 argument of the field (coerced as in GraphQL 6.4.1:      *)
(*                 literal, variable value, variable default, argument      *)
(*                 default).  The rule is the one declared by the field     *)
(*                 definition in the static type the field is selected on   *)
(*                 (the innermost enclosing type condition / field type).   *)
(*   Nesting       selection sets nested inside an operation's root         *)
(*                 selection set; fields, inline fragments and spreads      *)
(*                 (contributing the fragment's selection set) open one     *)
(*   MaxDirectives the largest number of directives on one field            *)
(* A request is rejected iff some configured limit is strictly smaller than *)
(* its measure.                                                             *)
(*                                                                         *)
(* A context C is [ts, doc, op, vars, rules, dev]: ts the type system       *)
(* (schemas/limits.json), op the operation whose variable definitions are   *)
(* in scope, vars the supplied variable values, rules = FALSE for schemas   *)
(* that cannot declare complexity rules (dynamic schemas), dev the set of   *)
(* named deviations of today's implementation that are switched on.         *)
(***************************************************************************)
EXTENDS Execution      \* Kind, TypeDef, HasFrag, Frag, HasVarDef, VarDef, Supplied, SuppliedVal, RootType

Max(a, b) == IF a >= b THEN a ELSE b
RECURSIVE NamedOf(_)
NamedOf(ty) == IF ty.k = "named" THEN ty.n ELSE NamedOf(ty.of)
HasField(C, t, f) == t \in DOMAIN C.ts.types /\ f \in DOMAIN C.ts.types[t].fields
IsTypename(s) == s.k = "field" /\ s.name = "__typename"

\* selection set a spread stands for (an unknown fragment contributes nothing; valid documents have none)
SpreadSels(C, s) == IF HasFrag(C, s.name) THEN Frag(C, s.name).sels ELSE <<>>

----------------------------------------------------------------------------
(* Depth: field nesting, fragments transparent.                            *)
(* DevTypenameNotCounted: today's validation visitor never enters           *)
(* `__typename` fields (validation/visitor.rs visit_selection), so they     *)
(* count neither for the depth nor for the complexity.                      *)
RECURSIVE DepthSels(_, _, _)
DepthSels(C, sels, i) ==
  IF i > Len(sels) THEN 0
  ELSE LET s == sels[i]
           here == IF s.k = "field"
                   THEN (IF IsTypename(s) /\ "DevTypenameNotCounted" \in C.dev THEN 0 ELSE 1 + DepthSels(C, s.sels, 1))
                   ELSE IF s.k = "inline" THEN DepthSels(C, s.sels, 1)
                   ELSE DepthSels(C, SpreadSels(C, s), 1)
       IN Max(here, DepthSels(C, sels, i + 1))

----------------------------------------------------------------------------
(* Complexity.                                                             *)
DefaultRule == [k |-> "default", arg |-> "", mul |-> 1, add |-> 0, def |-> 0]
HasArg(s, a) == \E i \in 1..Len(s.args) : s.args[i].name = a
ArgVal(s, a) == s.args[CHOOSE i \in 1..Len(s.args) : s.args[i].name = a].val
\* 6.4.1 CoerceArgumentValues for an Int argument with a default value
IntArg(C, s, a, def) ==
  IF ~HasArg(s, a) THEN def
  ELSE LET v == ArgVal(s, a) IN
       IF v.k = "int" THEN v.n
       ELSE IF v.k = "var" THEN
              IF Supplied(C, v.name) THEN SuppliedVal(C, v.name).n
              ELSE IF HasVarDef(C, v.name) /\ VarDef(C, v.name).hasDefault THEN VarDef(C, v.name).default.n
              ELSE def          \* variable without a value: the argument's default applies
       ELSE def
\* rule.arg is the argument's name in the SCHEMA (what a document writes: after the object's rename_args rule or an
\* explicit name on the argument -- `page_size`, `topN`, `perPage` in schemas/limits.json), never the Rust parameter
\* the rule text mentions: the value the document gives under that name is the one the rule multiplies with.
ApplyRule(C, rule, s, child) ==
  CASE rule.k = "default" -> 1 + child
    [] rule.k = "const"   -> rule.add
    [] rule.k = "lin"     -> (IF rule.arg = "" THEN rule.mul ELSE IntArg(C, s, rule.arg, rule.def)) * child + rule.add

(* T is the static type the selections are written on: the enclosing field's *)
(* type, or the type condition of the innermost enclosing fragment -- for a  *)
(* named spread the fragment's own type condition (a former deviation,       *)
(* DevSpreadNoTypePush, kept the type at the spread's place; fixed in /repo  *)
(* 43a3432 and removed here).                                                *)
RECURSIVE CxSels(_, _, _, _)
CxSels(C, T, sels, i) ==
  IF i > Len(sels) THEN 0
  ELSE LET s == sels[i]
           here ==
             IF s.k = "field" THEN
               IF IsTypename(s) THEN (IF "DevTypenameNotCounted" \in C.dev THEN 0 ELSE 1)
               ELSE LET known == HasField(C, T, s.name)
                        ft    == IF known THEN NamedOf(C.ts.types[T].fields[s.name].ty) ELSE ""
                        child == CxSels(C, ft, s.sels, 1)
                        rule  == IF known /\ C.rules THEN C.ts.types[T].fields[s.name].rule ELSE DefaultRule
                    IN ApplyRule(C, rule, s, child)
             ELSE IF s.k = "inline" THEN CxSels(C, IF s.on = "" THEN T ELSE s.on, s.sels, 1)
             ELSE IF ~HasFrag(C, s.name) THEN 0
             ELSE CxSels(C, Frag(C, s.name).on, Frag(C, s.name).sels, 1)
       IN here + CxSels(C, T, sels, i + 1)

----------------------------------------------------------------------------
(* DevOmittedVarRuleError: today's rule evaluation (VisitorContext::param_value) reports *)
(* "Variable is not defined" when a rule's argument is given by a variable that has      *)
(* neither a supplied value nor a variable default -- although the request is valid      *)
(* (5.8.5: a nullable variable may feed a non-null argument that has a default) and      *)
(* executes with the argument's default.  The request is then refused whatever the       *)
(* limits are.  CxErr follows the traversal of CxSels (same type bookkeeping, same       *)
(* switches) and says whether some rule evaluation hits such a variable.       *)
UndefinedVarArg(C, s, a) ==
  HasArg(s, a) /\ ArgVal(s, a).k = "var" /\ ~Supplied(C, ArgVal(s, a).name)
  /\ ~(HasVarDef(C, ArgVal(s, a).name) /\ VarDef(C, ArgVal(s, a).name).hasDefault)
RECURSIVE CxErr(_, _, _, _)
CxErr(C, T, sels, i) ==
  IF i > Len(sels) THEN FALSE
  ELSE LET s == sels[i]
           here ==
             IF s.k = "field" THEN
               IF IsTypename(s) THEN FALSE
               ELSE LET known == HasField(C, T, s.name)
                        ft    == IF known THEN NamedOf(C.ts.types[T].fields[s.name].ty) ELSE ""
                        rule  == IF known /\ C.rules THEN C.ts.types[T].fields[s.name].rule ELSE DefaultRule
                    IN (rule.k = "lin" /\ rule.arg # "" /\ UndefinedVarArg(C, s, rule.arg)) \/ CxErr(C, ft, s.sels, 1)
             ELSE IF s.k = "inline" THEN CxErr(C, IF s.on = "" THEN T ELSE s.on, s.sels, 1)
             ELSE IF ~HasFrag(C, s.name) THEN FALSE
             ELSE CxErr(C, Frag(C, s.name).on, Frag(C, s.name).sels, 1)
       IN here \/ CxErr(C, T, sels, i + 1)

----------------------------------------------------------------------------
(* Nesting (what limit_recursive_depth bounds) and MaxDirectives.           *)
RECURSIVE NestSels(_, _, _)
NestSels(C, sels, i) ==
  IF i > Len(sels) THEN 0
  ELSE LET s == sels[i]
           here == IF s.k = "field" THEN (IF s.sels = <<>> THEN 0 ELSE 1 + NestSels(C, s.sels, 1))
                   ELSE IF s.k = "inline" THEN 1 + NestSels(C, s.sels, 1)
                   ELSE IF HasFrag(C, s.name) THEN 1 + NestSels(C, Frag(C, s.name).sels, 1) ELSE 0
       IN Max(here, NestSels(C, sels, i + 1))

RECURSIVE DirSels(_, _, _)
DirSels(C, sels, i) ==
  IF i > Len(sels) THEN 0
  ELSE LET s == sels[i]
           here == IF s.k = "field" THEN Max(Len(s.dirs), DirSels(C, s.sels, 1))
                   ELSE IF s.k = "inline" THEN DirSels(C, s.sels, 1)
                   ELSE DirSels(C, SpreadSels(C, s), 1)
       IN Max(here, DirSels(C, sels, i + 1))

----------------------------------------------------------------------------
(* Measures of the whole document.  The variable definitions in scope for a *)
(* field are those of the operation it is (transitively) selected by.       *)
OpCtx(C, j) == [C EXCEPT !.op = C.doc.ops[j]]
MaxSet(S) == IF S = {} THEN 0 ELSE CHOOSE x \in S : \A y \in S : y <= x
OpIdx(C) == 1..Len(C.doc.ops)
RECURSIVE CxOps(_, _)
CxOps(C, j) == IF j > Len(C.doc.ops) THEN 0
               ELSE CxSels(OpCtx(C, j), RootType(OpCtx(C, j)), C.doc.ops[j].sels, 1) + CxOps(C, j + 1)

Depth(C)         == MaxSet({DepthSels(C, C.doc.ops[j].sels, 1) : j \in OpIdx(C)})
Complexity(C)    == CxOps(C, 1)
Nesting(C)       == MaxSet({NestSels(C, C.doc.ops[j].sels, 1) : j \in OpIdx(C)})
MaxDirectives(C) == MaxSet({DirSels(C, C.doc.ops[j].sels, 1) : j \in OpIdx(C)})

Measure(C, kind) == CASE kind = "depth"      -> Depth(C)
                      [] kind = "complexity" -> Complexity(C)
                      [] kind = "recursive"  -> Nesting(C)
                      [] kind = "directives" -> MaxDirectives(C)
LimitKinds == {"depth", "complexity", "recursive", "directives"}
\* limits: kind -> Int, a negative value = not configured
RuleError(C) == \E j \in OpIdx(C) : CxErr(OpCtx(C, j), RootType(OpCtx(C, j)), C.doc.ops[j].sels, 1)
Measures(C) == [k \in LimitKinds |-> Measure(C, k)]
\* M = Measures(C), computed once per document and configuration
Exceeds(M, limits) == \E k \in LimitKinds : limits[k] >= 0 /\ M[k] > limits[k]
MustReject(C, limits) == Exceeds(Measures(C), limits) \/ ("DevOmittedVarRuleError" \in C.dev /\ RuleError(C))

----------------------------------------------------------------------------
(* "Fragments counted as if written inline", as a law of the measures (checked by TLC on every   *)
(* generated document in the measuring pass): replacing every spread by the inline fragment it  *)
(* stands for changes no measure.                                                               *)
RECURSIVE InlineSels(_, _, _)
InlineSels(C, sels, i) ==
  IF i > Len(sels) THEN <<>>
  ELSE LET s == sels[i]
           x == IF s.k = "spread"
                THEN (IF HasFrag(C, s.name)
                      THEN [k |-> "inline", on |-> Frag(C, s.name).on, dirs |-> s.dirs, sels |-> InlineSels(C, Frag(C, s.name).sels, 1)]
                      ELSE s)
                ELSE [s EXCEPT !.sels = InlineSels(C, s.sels, 1)]
       IN <<x>> \o InlineSels(C, sels, i + 1)
InlinedDoc(C) == [ops |-> [j \in 1..Len(C.doc.ops) |-> [C.doc.ops[j] EXCEPT !.sels = InlineSels(C, C.doc.ops[j].sels, 1)]], frags |-> <<>>]
InliningLaw(C) == Measures(C) = Measures([C EXCEPT !.doc = InlinedDoc(C)])

----------------------------------------------------------------------------
(* Trigger predicates of the deviations (the inputs on which each can show) *)
RECURSIVE HasTypename(_, _, _)
HasTypename(C, sels, i) ==
  IF i > Len(sels) THEN FALSE
  ELSE LET s == sels[i] IN
       \/ IF s.k = "field" THEN IsTypename(s) \/ HasTypename(C, s.sels, 1)
          ELSE IF s.k = "inline" THEN HasTypename(C, s.sels, 1)
          ELSE HasTypename(C, SpreadSels(C, s), 1)
       \/ HasTypename(C, sels, i + 1)
TriggerOmittedVarRuleError(C) == RuleError(C)
TriggerTypenameNotCounted(C) == \E j \in OpIdx(C) : HasTypename(C, C.doc.ops[j].sels, 1)
----------------------------------------------------------------------------
(***************************************************************************)
(* C11 -- work of the pre-execution checks.                                *)
(*                                                                         *)
(* The walkers of the request path, as recursive work functions:           *)
(*   sel  calls of visit_selection  \ validation/visitor.rs: one Normal-mode *)
(*   fld  calls of visit_field      / pass over every definition as written  *)
(*        (rules), one Inline-mode pass over the operations in which a       *)
(*        spread is followed into the fragment (depth, complexity, cache)    *)
(*   rd   selection sets entered by check_recursive_depth (schema.rs)        *)
(*   md   selection sets entered by check_max_directives  (schema.rs)        *)
(*   fc   calls of FindConflicts::find (rules/overlapping_fields_can_be_     *)
(*        merged.rs): one search per selection set as written, a fragment    *)
(*        is entered once per search (its `visited` set)                     *)
(*                                                                         *)
(* Walk(C, sels, i, tbl) is the work below the selections sels[i..] when a   *)
(* spread is followed.  tbl : fragment name -> work record says what a       *)
(* spread of that fragment costs; a fragment that is not in tbl is walked    *)
(* again -- so                                                               *)
(*   Walk(.., EmptyTbl)  is the code as written (DevNoMemo: no memoisation,  *)
(*                       a fragment is re-visited once per spread),          *)
(*   Walk(.., ZeroTbl)   does not follow spreads (a definition as written),  *)
(*   Walk(.., CostTbl)   equals Walk(.., EmptyTbl) (checked in mode M) but   *)
(*                       is evaluated in polynomial time: the table holds    *)
(*                       the work of every fragment, built bottom-up.        *)
(***************************************************************************)
\* counters saturate at 2^29 (TLC integers are 32-bit; real requests are sized below 2^20, only the tables of very long
\* chains that are refused by a limit get this far)
SatCap == 536870912
Sat(x) == IF x > SatCap THEN SatCap ELSE x
\* h = nesting height of the selection sets below (what check_recursive_depth bounds), dm = most directives on one field below
Work(sel, fld, rd, md, spr, h, dm) == [sel |-> Sat(sel), fld |-> Sat(fld), rd |-> Sat(rd), md |-> Sat(md), spr |-> Sat(spr), h |-> h, dm |-> dm]
ZeroWork == Work(0, 0, 0, 0, 0, 0, 0)
AddWork(a, b) == Work(a.sel + b.sel, a.fld + b.fld, a.rd + b.rd, a.md + b.md, a.spr + b.spr, Max(a.h, b.h), Max(a.dm, b.dm))

RECURSIVE Walk(_, _, _, _)
Walk(C, sels, i, tbl) ==
  IF i > Len(sels) THEN ZeroWork
  ELSE LET s == sels[i]
           here ==
             IF s.k = "field" THEN
               LET sub == Walk(C, s.sels, 1, tbl) IN
               Work(1 + sub.sel,
                    (IF IsTypename(s) THEN 0 ELSE 1) + sub.fld,           \* visit_field is not called for __typename
                    IF s.sels = <<>> THEN 0 ELSE 1 + sub.rd,                \* check_recursive_depth skips empty sets
                    1 + sub.md,                                            \* check_max_directives enters every field's set
                    sub.spr,
                    IF s.sels = <<>> THEN 0 ELSE 1 + sub.h,
                    Max(Len(s.dirs), sub.dm))
             ELSE IF s.k = "inline" THEN
               LET sub == Walk(C, s.sels, 1, tbl) IN Work(1 + sub.sel, sub.fld, 1 + sub.rd, 1 + sub.md, sub.spr, 1 + sub.h, sub.dm)
             ELSE IF ~HasFrag(C, s.name) THEN Work(1, 0, 0, 0, 0, 0, 0)
             ELSE LET body == IF s.name \in DOMAIN tbl THEN tbl[s.name] ELSE Walk(C, Frag(C, s.name).sels, 1, tbl)
                  IN Work(1 + body.sel, body.fld, 1 + body.rd, 1 + body.md, 1 + body.spr, 1 + body.h, body.dm)
       IN AddWork(here, Walk(C, sels, i + 1, tbl))

EmptyTbl == <<>>                                    \* DOMAIN = {} : nothing is remembered
FragNames(C) == {C.doc.frags[i].name : i \in 1..Len(C.doc.frags)}
ZeroTbl(C) == [n \in FragNames(C) |-> ZeroWork]

\* names of the fragments spread directly in a selection list (as written)
RECURSIVE SpreadNames(_, _)
SpreadNames(sels, i) ==
  IF i > Len(sels) THEN {}
  ELSE (IF sels[i].k = "spread" THEN {sels[i].name} ELSE SpreadNames(sels[i].sels, 1)) \cup SpreadNames(sels, i + 1)
\* work of every fragment, bottom-up: a fragment is added once all fragments it spreads are in the table
\* (unknown names count as resolved; fragments on a cycle never enter the table)
\* (TLC keeps [x \in S |-> e] as an unevaluated lambda and would re-walk a fragment at every look-up: the table is
\*  therefore extended with :> / @@, which store evaluated values)
RECURSIVE CostTblFrom(_, _, _)
CostTblFrom(C, tbl, fuel) ==
  LET ready == {n \in FragNames(C) \ DOMAIN tbl : (SpreadNames(Frag(C, n).sels, 1) \cap FragNames(C)) \subseteq DOMAIN tbl} IN
  IF fuel = 0 \/ ready = {} THEN tbl
  ELSE LET nm == CHOOSE x \in ready : TRUE
           w  == Walk(C, Frag(C, nm).sels, 1, tbl)
       IN CostTblFrom(C, IF DOMAIN tbl = {} THEN nm :> w ELSE tbl @@ (nm :> w), fuel - 1)
CostTbl(C) == CostTblFrom(C, EmptyTbl, Len(C.doc.frags))

\* FindConflicts: one search from a selection set; [n: calls of find, v: fragments visited so far]
RECURSIVE Find(_, _, _, _)
Find(C, sels, i, st) ==
  IF i > Len(sels) THEN st
  ELSE LET s == sels[i]
           st1 == IF s.k = "field" THEN st
                  ELSE IF s.k = "inline" THEN Find(C, s.sels, 1, [st EXCEPT !.n = @ + 1])
                  ELSE IF ~HasFrag(C, s.name) \/ s.name \in st.v THEN st
                  ELSE Find(C, Frag(C, s.name).sels, 1, [n |-> st.n + 1, v |-> st.v \cup {s.name}])
       IN Find(C, sels, i + 1, st1)
\* all searches of the Normal-mode pass: one per non-empty selection set as written
RECURSIVE FindAll(_, _)
FindAllIn(C, sels) == IF sels = <<>> THEN 0 ELSE Find(C, sels, 1, [n |-> 1, v |-> {}]).n + FindAll(C, <<sels, 1>>)
FindAll(C, p) ==
  LET sels == p[1] i == p[2] IN
  IF i > Len(sels) THEN 0
  ELSE (IF sels[i].k = "spread" THEN 0 ELSE FindAllIn(C, sels[i].sels)) + FindAll(C, <<sels, i + 1>>)

Defs(C) == [j \in 1..(Len(C.doc.ops) + Len(C.doc.frags)) |->
              IF j <= Len(C.doc.ops) THEN C.doc.ops[j].sels ELSE C.doc.frags[j - Len(C.doc.ops)].sels]
RECURSIVE SumWork(_, _, _, _), SumFind(_, _, _)
SumWork(C, lists, j, tbl) == IF j > Len(lists) THEN ZeroWork ELSE AddWork(Walk(C, lists[j], 1, tbl), SumWork(C, lists, j + 1, tbl))
SumFind(C, lists, j) == IF j > Len(lists) THEN 0 ELSE FindAllIn(C, lists[j]) + SumFind(C, lists, j + 1)
OpLists(C) == [j \in 1..Len(C.doc.ops) |-> C.doc.ops[j].sels]

\* size of the document: its definitions and selection nodes as written
Size(C) == Len(Defs(C)) + SumWork(C, Defs(C), 1, ZeroTbl(C)).sel
PolyK == 4
PolyBound(C) == PolyK * Size(C) * Size(C)

(* Work of one request under ValidationMode::Strict with limit_directives configured, as           *)
(* <<visit_selection, visit_field, recursive_depth, max_directives, find_conflicts>>.               *)
(* tbl = EmptyTbl / CostTbl(C): the code as written (DevNoMemo); tbl = ZeroTbl(C) plus every        *)
(* fragment body once: the memoised ideal.                                                          *)
VisitsWith(C, tbl, fragsOnce) ==
  LET written == SumWork(C, Defs(C), 1, ZeroTbl(C))                      \* Normal-mode pass: every definition as written
      inl     == SumWork(C, OpLists(C), 1, tbl)                          \* Inline-mode pass / the two schema.rs walkers
      extra   == IF fragsOnce THEN SumWork(C, [j \in 1..Len(C.doc.frags) |-> C.doc.frags[j].sels], 1, ZeroTbl(C)) ELSE ZeroWork
      nfr     == IF fragsOnce THEN Len(C.doc.frags) ELSE 0
  IN <<written.sel + inl.sel + extra.sel,
       written.fld + inl.fld + extra.fld,
       Len(C.doc.ops) + inl.rd + nfr + extra.rd,
       Len(C.doc.ops) + inl.md + nfr + extra.md,
       SumFind(C, Defs(C), 1)>>
Visits_asCoded(C)     == VisitsWith(C, EmptyTbl, FALSE)        \* the definition (exponential to evaluate on fan-out chains)
Visits_asCodedFast(C) == VisitsWith(C, CostTbl(C), FALSE)      \* the same numbers through the cost table
Visits_ideal(C)       == VisitsWith(C, ZeroTbl(C), TRUE)       \* every fragment body is walked once per walker

WithinBound(v, b) == \A i \in 1..Len(v) : v[i] <= b

(* NoFragmentCycles (validation/rules/no_fragment_cycles.rs).  exit_document starts CycleDetector::detect_from at every fragment   *)
(* definition not yet in `visited`; detect_from(f) puts f into `visited`, looks at every spread written inside f and recurses into *)
(* the spread fragment unless it is on the current path (a cycle: an error) or already in `visited`.  So detect_from is called     *)
(* once per name -- defined, or spread inside a fragment definition -- whatever the order of the hash maps and whatever the        *)
(* operations do: the search is linear in the document.                                                                            *)
CycleNames(C) == FragNames(C) \cup UNION {SpreadNames(C.doc.frags[i].sels, 1) : i \in 1..Len(C.doc.frags)}
Visits_cycles(C) == Cardinality(CycleNames(C))
\* The `visited` guard is what keeps it so.  A search that only stops on the current path walks every path of the spread graph:
\* CyclePaths(C)[f] = calls of detect_from below (and including) one start at f, for documents without cycles, as a table built
\* bottom-up like CostTbl.  Every fragment that no other fragment spreads is a start, so the unguarded search makes at least
\* Visits_cyclesNoGuard(C) calls in any order of the hash maps.
RECURSIVE SpreadSeq(_, _)
SpreadSeq(sels, i) ==                 \* the spreads written in a selection list, in order, with repetitions
  IF i > Len(sels) THEN <<>>
  ELSE (IF sels[i].k = "spread" THEN <<sels[i].name>> ELSE SpreadSeq(sels[i].sels, 1)) \o SpreadSeq(sels, i + 1)
RECURSIVE SumPaths(_, _, _), CyclePathsFrom(_, _, _)
SumPaths(tbl, names, i) == IF i > Len(names) THEN 0 ELSE Sat((IF names[i] \in DOMAIN tbl THEN tbl[names[i]] ELSE 1) + SumPaths(tbl, names, i + 1))
CyclePathsFrom(C, tbl, fuel) ==
  LET ready == {n \in FragNames(C) \ DOMAIN tbl : (SpreadNames(Frag(C, n).sels, 1) \cap FragNames(C)) \subseteq DOMAIN tbl} IN
  IF fuel = 0 \/ ready = {} THEN tbl
  ELSE LET nm == CHOOSE x \in ready : TRUE
           w  == Sat(1 + SumPaths(tbl, SpreadSeq(Frag(C, nm).sels, 1), 1))
       IN CyclePathsFrom(C, IF DOMAIN tbl = {} THEN nm :> w ELSE tbl @@ (nm :> w), fuel - 1)
CyclePaths(C) == CyclePathsFrom(C, EmptyTbl, Len(C.doc.frags))
Visits_cyclesNoGuard(C) == LET t == CyclePaths(C) IN MaxSet({t[f] : f \in DOMAIN t})
\* trigger of DevNoMemo: some fragment is expanded more than once when the operations are walked
\* ("a fragment is spread at least twice along a chain")
TriggerNoMemo(C) == SumWork(C, OpLists(C), 1, CostTbl(C)).spr > Len(C.doc.frags)

----------------------------------------------------------------------------
(* The two schema.rs walkers stop at the first violation of their limit (the request is then       *)
(* refused and nothing after them runs); the validation passes never stop early (their limits are  *)
(* compared after the walk).  cfg = [recursive |-> L (negative: the default 32), directives |-> D   *)
(* (negative: not configured, check_max_directives does not run)].                                  *)
(* RdStop / MdStop: the code as written -- calls made for the sets below sels[i..] of a set at      *)
(* `depth`, and whether the walk stopped.  RdStopF / MdStopF: the same numbers in polynomial time:  *)
(* a sub-tree that cannot violate (height / directive table) is charged its full table cost, the    *)
(* first one that must violate is entered.                                                          *)
EffL(cfg) == IF cfg.recursive < 0 THEN 32 ELSE cfg.recursive
ChildSet(C, s) == IF s.k = "spread" THEN SpreadSels(C, s) ELSE s.sels
\* does the walker recurse for this selection?
RdEnters(C, s) == IF s.k = "field" THEN s.sels # <<>> ELSE IF s.k = "inline" THEN TRUE ELSE HasFrag(C, s.name)
MdEnters(C, s) == IF s.k = "spread" THEN HasFrag(C, s.name) ELSE TRUE
Go(n) == [n |-> n, stop |-> FALSE]
Halt(n) == [n |-> n, stop |-> TRUE]

RECURSIVE RdStop(_, _, _, _, _)
RdStop(C, sels, i, depth, L) ==
  IF i > Len(sels) THEN Go(0)
  ELSE LET s == sels[i]
           r == IF ~RdEnters(C, s) THEN Go(0)
                ELSE IF depth + 1 > L THEN Halt(1)                          \* the call that finds current_depth > max_depth
                ELSE LET q == RdStop(C, ChildSet(C, s), 1, depth + 1, L) IN [n |-> Sat(1 + q.n), stop |-> q.stop]
       IN IF r.stop THEN r ELSE LET rest == RdStop(C, sels, i + 1, depth, L) IN [n |-> Sat(r.n + rest.n), stop |-> rest.stop]

RECURSIVE RdStopF(_, _, _, _, _, _)
RdStopF(C, sels, i, depth, L, tbl) ==
  IF i > Len(sels) THEN Go(0)
  ELSE LET s == sels[i]
           w == Walk(C, ChildSet(C, s), 1, tbl)
           r == IF ~RdEnters(C, s) THEN Go(0)
                ELSE IF depth + 1 + w.h <= L THEN Go(1 + w.rd)             \* nothing below can violate: full cost
                ELSE IF depth + 1 > L THEN Halt(1)
                ELSE Halt(Sat(1 + RdStopF(C, ChildSet(C, s), 1, depth + 1, L, tbl).n))
       IN IF r.stop THEN r ELSE LET rest == RdStopF(C, sels, i + 1, depth, L, tbl) IN [n |-> Sat(r.n + rest.n), stop |-> rest.stop]

RECURSIVE MdStop(_, _, _, _)
MdStop(C, sels, i, D) ==
  IF i > Len(sels) THEN Go(0)
  ELSE LET s == sels[i]
           r == IF s.k = "field" /\ Len(s.dirs) > D THEN Halt(0)            \* found before the field's set is entered
                ELSE IF ~MdEnters(C, s) THEN Go(0)
                ELSE LET q == MdStop(C, ChildSet(C, s), 1, D) IN [n |-> Sat(1 + q.n), stop |-> q.stop]
       IN IF r.stop THEN r ELSE LET rest == MdStop(C, sels, i + 1, D) IN [n |-> Sat(r.n + rest.n), stop |-> rest.stop]

RECURSIVE MdStopF(_, _, _, _, _)
MdStopF(C, sels, i, D, tbl) ==
  IF i > Len(sels) THEN Go(0)
  ELSE LET s == sels[i]
           w == Walk(C, ChildSet(C, s), 1, tbl)
           r == IF s.k = "field" /\ Len(s.dirs) > D THEN Halt(0)
                ELSE IF ~MdEnters(C, s) THEN Go(0)
                ELSE IF w.dm <= D THEN Go(1 + w.md)
                ELSE Halt(Sat(1 + MdStopF(C, ChildSet(C, s), 1, D, tbl).n))
       IN IF r.stop THEN r ELSE LET rest == MdStopF(C, sels, i + 1, D, tbl) IN [n |-> Sat(r.n + rest.n), stop |-> rest.stop]

\* over the operations, in order (several operations are walked in hash order by the code: the families keep them alike)
RECURSIVE RdOps(_, _, _, _, _), MdOps(_, _, _, _, _)
RdOps(C, j, L, fast, tbl) ==
  IF j > Len(C.doc.ops) THEN Go(0)
  ELSE LET q == IF fast THEN RdStopF(C, C.doc.ops[j].sels, 1, 0, L, tbl) ELSE RdStop(C, C.doc.ops[j].sels, 1, 0, L)
       IN IF q.stop THEN Halt(1 + q.n) ELSE LET rest == RdOps(C, j + 1, L, fast, tbl) IN [n |-> Sat(1 + q.n + rest.n), stop |-> rest.stop]
MdOps(C, j, D, fast, tbl) ==
  IF j > Len(C.doc.ops) THEN Go(0)
  ELSE LET q == IF fast THEN MdStopF(C, C.doc.ops[j].sels, 1, D, tbl) ELSE MdStop(C, C.doc.ops[j].sels, 1, D)
       IN IF q.stop THEN Halt(1 + q.n) ELSE LET rest == MdOps(C, j + 1, D, fast, tbl) IN [n |-> Sat(1 + q.n + rest.n), stop |-> rest.stop]

\* work of one request under cfg; `full` = the five counters when no walker stops
VisitsAt(C, cfg, fast, full) ==
  LET tbl == IF fast THEN CostTbl(C) ELSE EmptyTbl
      rd  == RdOps(C, 1, EffL(cfg), fast, tbl)
      md  == IF cfg.directives < 0 THEN Go(0) ELSE MdOps(C, 1, cfg.directives, fast, tbl)
  IN IF rd.stop THEN <<0, 0, rd.n, 0, 0>>                                  \* refused by check_recursive_depth
     ELSE IF md.stop THEN <<0, 0, rd.n, md.n, 0>>                          \* refused by check_max_directives
     ELSE <<full[1], full[2], rd.n, md.n, full[5]>>
Visits_asCodedAt(C, cfg)     == VisitsAt(C, cfg, FALSE, VisitsWith(C, EmptyTbl, FALSE))    \* the definition
Visits_asCodedFastAt(C, cfg) == VisitsAt(C, cfg, TRUE, VisitsWith(C, CostTbl(C), FALSE))   \* through the tables
\* memoised ideal: it stops at the first violation as well, so its work is at most the full ideal work of the walkers that ran
Visits_idealAt(C, cfg) ==
  LET i  == Visits_ideal(C)
      rd == RdOps(C, 1, EffL(cfg), TRUE, CostTbl(C))
      md == IF cfg.directives < 0 THEN Go(0) ELSE MdOps(C, 1, cfg.directives, TRUE, CostTbl(C))
  IN IF rd.stop THEN <<0, 0, i[3], 0, 0>>
     ELSE IF md.stop THEN <<0, 0, i[3], i[4], 0>>
     ELSE IF cfg.directives < 0 THEN <<i[1], i[2], i[3], 0, i[5]>> ELSE i
\* trigger of DevNoMemo for one request: a fragment is expanded more than once by the operations, and re-visiting is what
\* the request's as-coded work consists of -- some walker that ran did more than visiting every fragment body once costs.
\* A request refused by a limit before the fan-out is walked is not in the trigger class.
TriggerNoMemoAt(C, cfg) ==
  /\ TriggerNoMemo(C)
  /\ LET c == Visits_asCodedFastAt(C, cfg) i == Visits_idealAt(C, cfg) IN \E k \in 1..4 : c[k] > i[k]

----------------------------------------------------------------------------
(* Adversarial families (mode M and the harness run the same documents).    *)
Fld(name, alias, sels) == [k |-> "field", name |-> name, alias |-> alias, args |-> <<>>, dirs |-> <<>>, sels |-> sels]
Inl(on, sels) == [k |-> "inline", on |-> on, dirs |-> <<>>, sels |-> sels]
Spr(name) == [k |-> "spread", name |-> name, dirs |-> <<>>]
Op(name, sels) == [name |-> name, ty |-> "query", vars |-> <<>>, dirs |-> <<>>, sels |-> sels]
FragDef(name, on, sels) == [name |-> name, on |-> on, dirs |-> <<>>, sels |-> sels]
FN(i) == "f" \o ToString(i)
\* fragment f_i on Query { ...f_{i+1} ...f_{i+1} }, f_n { n }: 2^(n-1) expansions of f_n from { ...f1 }
FanOut(n) == [ops |-> <<Op("", <<Spr(FN(1))>>)>>,
              frags |-> [i \in 1..n |-> FragDef(FN(i), "Query", IF i < n THEN <<Spr(FN(i + 1)), Spr(FN(i + 1))>> ELSE <<Fld("n", "", <<>>)>>)]]
\* n aliased fields, repeated in n inline fragments: wide overlapping selections
Wide(n) == LET row == [i \in 1..n |-> Fld("n", "x" \o ToString(i), <<>>)] IN
           [ops |-> <<Op("", row \o [i \in 1..n |-> Inl("Query", row)])>>, frags |-> <<>>]
\* n inline fragments nested in each other
RECURSIVE Nest(_)
Nest(n) == IF n = 0 THEN <<Fld("n", "", <<>>)>> ELSE <<Inl("", Nest(n - 1))>>
DeepInline(n) == [ops |-> <<Op("", Nest(n))>>, frags |-> <<>>]
\* n operations spreading one fragment of n fields
ManyOps(n) == [ops |-> [i \in 1..n |-> Op("Q" \o ToString(i), <<Spr("f1")>>)],
               frags |-> <<FragDef("f1", "Query", [i \in 1..n |-> Fld("n", "x" \o ToString(i), <<>>)])>>]
\* three like operations over one fan-out chain (refusal happens in the first one walked)
FanOutOps(n) == [ops |-> [i \in 1..3 |-> Op("Q" \o ToString(i), <<Spr(FN(1))>>)], frags |-> FanOut(n).frags]
\* a fan-out chain behind / in front of a field that carries two directives (refused by limit_directives(1))
TwoDirs == <<[name |-> "skip", val |-> [k |-> "bool", v |-> FALSE]], [name |-> "include", val |-> [k |-> "bool", v |-> TRUE]]>>
DirFirst(n) == [ops |-> <<Op("", <<[Fld("n", "x", <<>>) EXCEPT !.dirs = TwoDirs], Spr(FN(1))>>)>>, frags |-> FanOut(n).frags]
DirLast(n)  == [ops |-> <<Op("", <<Spr(FN(1))>>)>>,
                frags |-> [i \in 1..n |-> IF i < n THEN FanOut(n).frags[i] ELSE FragDef(FN(n), "Query", <<[Fld("n", "", <<>>) EXCEPT !.dirs = TwoDirs]>>)]]
\* "Fibonacci" DAG: f_i on Query { ...f_{i+1} ...f_{i+2} }, f_{n-1} { ...f_n }, f_n { n }: Fib(n) paths lead from f_1 to f_n, every
\* fragment below f_1 is shared.  FibDag: spread from the operation (valid); FibFree: no operation spreads the fragments, so the
\* operation-rooted walkers never enter them -- only the passes over the definitions as written and the rules' own searches
\* (NoFragmentCycles, NoUnusedFragments) see the DAG; FibTail: the operation spreads the leaf f_n only, f_1 .. f_{n-1} stay unreferenced
FibFrags(n) == [i \in 1..n |-> FragDef(FN(i), "Query", IF i = n THEN <<Fld("n", "", <<>>)>>
                                                     ELSE IF i = n - 1 THEN <<Spr(FN(n))>> ELSE <<Spr(FN(i + 1)), Spr(FN(i + 2))>>)]
FibDag(n)  == [ops |-> <<Op("", <<Spr(FN(1))>>)>>, frags |-> FibFrags(n)]
FibFree(n) == [ops |-> <<Op("", <<Fld("n", "", <<>>)>>)>>, frags |-> FibFrags(n)]
FibTail(n) == [ops |-> <<Op("", <<Spr(FN(n))>>)>>, frags |-> FibFrags(n)]
FibFamilies == {"fibdag", "fibfree", "fibtail"}
Families == {"fanout", "wide", "deepinline", "manyops"}
Family(name, n) == CASE name = "fanout" -> FanOut(n) [] name = "wide" -> Wide(n) [] name = "deepinline" -> DeepInline(n) [] name = "manyops" -> ManyOps(n)
                     [] name = "fanoutops" -> FanOutOps(n) [] name = "dirfirst" -> DirFirst(n) [] name = "dirlast" -> DirLast(n)
                     [] name = "fibdag" -> FibDag(n) [] name = "fibfree" -> FibFree(n) [] name = "fibtail" -> FibTail(n)
\* a context for work counting needs only the document
WorkCtx(doc) == [doc |-> doc, op |-> doc.ops[1]]
=============================================================================
