-------------------------- MODULE CachePolicyTrace --------------------------
(***************************************************************************)
(* Mode V for C20.  Two kinds of recorded cases:                           *)
(*  batch  a tuple of policies and the policy BatchResponse::cache_control *)
(*         computed from responses carrying them (the real                 *)
(*         CacheControl::merge): must equal the spec's Merge of the tuple, *)
(*         in every grouping and order (the laws of Merge are checked in   *)
(*         CachePolicy.tla, so the real code inherits them on the domain). *)
(*  exec   a request executed on a schema of the family (object- and       *)
(*         field-level hints in the type system ts), with its data world:  *)
(*         Contains(C) = the object types and fields whose data the        *)
(*         response contains, by the reference semantics of Execution.tla  *)
(*         (CollectFields, runtime types from the world);                  *)
(*         required: NotLooser(obs.policy, hints of Contains(C)); and      *)
(*         obs.policy = Merge of these hints when every selection is made  *)
(*         on an object type and the response holds everything selected.   *)
(* ImplPolicy transcribes validation/visitors/cache_control.rs             *)
(* (CacheControlCalculate, inline visit mode); today's deviations are      *)
(* named switches; a failure is known:<Dev..> iff the observed policy is   *)
(* exactly what the model computes with these switches on.                 *)
(***************************************************************************)
EXTENDS Execution, CachePolicy, IOUtils

ASSUME TLCSet(8, JsonDeserialize(IOEnv.SCHEMA))
Profiles == TLCGet(8).profiles
ASSUME TLCSet(7, ndJsonDeserialize(IOEnv.TRACE))
Cases == TLCGet(7)
VARIABLE l

Devs == {"DevAbstractIgnoresObjectHints"}
DevCode(d) == "A"

\* object-level hint of a type.  A type built with MergedObject is annotated through its members: the mirror lists
\* their object-level hints (merged) and the type is as restrictive as all of them together.
ObjHint(C, o) == IF C.ts.types[o].merged # <<>> THEN MergeSeq(C.ts.types[o].merged, Unit) ELSE C.ts.types[o].hint
FieldHint(C, o, f) == C.ts.types[o].fields[f].hint
HasField(C, ty, f) == ty \in DOMAIN C.ts.types /\ Kind(C, ty) \in {"OBJECT", "INTERFACE"} /\ f \in DOMAIN C.ts.types[ty].fields
RECURSIVE NamedTy(_)
NamedTy(ty) == IF ty.k = "named" THEN ty.n ELSE NamedTy(ty.of)
PossibleSet(C, ty) == {o \in DOMAIN C.ts.types : Kind(C, o) = "OBJECT" /\ IsPossible(C, o, ty)}
Src(o, f) == [t |-> o, f |-> f]                       \* f = "" : the object type itself
HintOf(C, s) == IF s.f = "" THEN ObjHint(C, s.t) ELSE FieldHint(C, s.t, s.f)

----------------------------------------------------------------------------
(* what the response contains: 6.3 ExecuteSelectionSet over the world (the harness worlds hold no errors and no *)
(* null for a non-null position, so the response holds exactly what is walked here)                             *)
RECURSIVE ContSel(_, _, _, _), ContVal(_, _, _)
ContSel(C, sels, objId, obj) ==
  LET groups == Collect(C, obj, sels, 1, <<>>, {}).g IN
  {Src(obj, "")} \cup
  UNION {LET node == groups[i].nodes[1] IN
         IF node.name = "__typename" THEN {}
         ELSE {Src(obj, node.name)} \cup ContVal(C, MergedSels(groups[i].nodes, 1), C.world[objId].vals[node.name])
         : i \in 1..Len(groups)}
ContVal(C, sels, w) ==
  IF w.k = "ref" THEN ContSel(C, sels, w.id, C.world[w.id].type)
  ELSE IF w.k = "list" THEN UNION {ContVal(C, sels, w.items[j]) : j \in 1..Len(w.items)}
  ELSE {}
Contains(C) == ContSel(C, C.op.sels, "root", C.ts.query)

(* what a response to the document could contain at most (static walk; at an abstract type every possible object) *)
RECURSIVE StatSel(_, _, _)
StatSel(C, sels, cur) ==
  LET objs == PossibleSet(C, cur) IN
  {Src(o, "") : o \in objs} \cup
  UNION {LET s == sels[i] IN
         CASE s.k = "field" ->
                IF s.name = "__typename" THEN {}
                ELSE {Src(o, s.name) : o \in {x \in objs : HasField(C, x, s.name)}}
                     \cup (IF s.sels # <<>> /\ HasField(C, cur, s.name) THEN StatSel(C, s.sels, NamedTy(C.ts.types[cur].fields[s.name].ty)) ELSE {})
           [] s.k = "inline" -> StatSel(C, s.sels, IF s.on = "" THEN cur ELSE s.on)
           [] OTHER -> IF HasFrag(C, s.name) THEN StatSel(C, Frag(C, s.name).sels, Frag(C, s.name).on) ELSE {}
         : i \in 1..Len(sels)}
StaticSelected(C) == StatSel(C, C.op.sels, C.ts.query)
\* the static types on which selections are made
RECURSIVE StatTypes(_, _, _)
StatTypes(C, sels, cur) ==
  {cur} \cup
  UNION {LET s == sels[i] IN
         CASE s.k = "field" -> IF s.sels # <<>> /\ HasField(C, cur, s.name) THEN StatTypes(C, s.sels, NamedTy(C.ts.types[cur].fields[s.name].ty)) ELSE {}
           [] s.k = "inline" -> StatTypes(C, s.sels, IF s.on = "" THEN cur ELSE s.on)
           [] OTHER -> IF HasFrag(C, s.name) THEN StatTypes(C, Frag(C, s.name).sels, Frag(C, s.name).on) ELSE {}
         : i \in 1..Len(sels)}
ObjectOnly(C) == \A ty \in StatTypes(C, C.op.sels, C.ts.query) : Kind(C, ty) = "OBJECT"

----------------------------------------------------------------------------
(* implementation-shaped model: CacheControlCalculate (VisitMode::Inline).  cur = "" : no current type.          *)
(*   enter_selection_set merges the hint of the current type if it is an object;                                 *)
(*   enter_field merges the hint of the field found on the parent (= current) type;                              *)
(*   typed inline fragments push their type condition; named spreads are visited in place under the fragment's   *)
(*   type condition (fixed in /repo 43a3432; before, the type of the spread site was kept)                       *)
(* Deviation (known_findings/C20.json):                                                                          *)
(*   DevAbstractIgnoresObjectHints  on an interface / union nothing is merged for the object types the data can  *)
(*                                  have: neither their object-level hints nor their own field-level hints       *)
(* Ideal: at an abstract type the hints of every possible object type (and of the field on each) are merged.     *)
RECURSIVE ImplSel(_, _, _, _, _), ImplItems(_, _, _, _, _, _)
ImplSel(C, sels, cur, acc, dev) ==
  LET k == IF cur = "" THEN "" ELSE Kind(C, cur)
      acc1 == IF k = "OBJECT" THEN Merge(acc, ObjHint(C, cur))
              ELSE IF k \in {"INTERFACE", "UNION"} /\ "DevAbstractIgnoresObjectHints" \notin dev
                   THEN Merge(acc, MergeSet({ObjHint(C, o) : o \in PossibleSet(C, cur)}))
              ELSE acc
  IN ImplItems(C, sels, 1, cur, acc1, dev)
ImplItems(C, sels, i, cur, acc, dev) ==
  IF i > Len(sels) THEN acc
  ELSE LET s == sels[i] IN
    CASE s.k = "field" ->
           IF s.name = "__typename" THEN ImplItems(C, sels, i + 1, cur, acc, dev)
           ELSE LET found == cur # "" /\ HasField(C, cur, s.name)
                    own == IF found THEN FieldHint(C, cur, s.name) ELSE Unit
                    fh == IF found /\ Kind(C, cur) = "INTERFACE" /\ "DevAbstractIgnoresObjectHints" \notin dev
                          THEN MergeSet({FieldHint(C, o, s.name) : o \in {x \in PossibleSet(C, cur) : HasField(C, x, s.name)}} \cup {own})
                          ELSE own
                    acc1 == Merge(acc, fh)
                    child == IF found THEN NamedTy(C.ts.types[cur].fields[s.name].ty) ELSE ""
                    acc2 == IF s.sels # <<>> THEN ImplSel(C, s.sels, child, acc1, dev) ELSE acc1
                IN ImplItems(C, sels, i + 1, cur, acc2, dev)
      [] s.k = "inline" ->
           ImplItems(C, sels, i + 1, cur, ImplSel(C, s.sels, IF s.on = "" THEN cur ELSE s.on, acc, dev), dev)
      [] OTHER ->
           IF ~HasFrag(C, s.name) THEN ImplItems(C, sels, i + 1, cur, acc, dev)
           ELSE LET fr == Frag(C, s.name)
                IN ImplItems(C, sels, i + 1, cur, ImplSel(C, fr.sels, fr.on, acc, dev), dev)
ImplPolicy(C, dev) == ImplSel(C, C.op.sels, C.ts.query, Unit, dev)
\* the inputs on which a deviation can show: switching it changes the computed policy, alone or next to the others
Trigger(d, C) == \E D \in SUBSET (Devs \ {d}) : ImplPolicy(C, D \cup {d}) # ImplPolicy(C, D)

----------------------------------------------------------------------------
RECURSIVE JoinSet(_)
JoinSet(S) == IF S = {} THEN "" ELSE LET m == CHOOSE y \in S : TRUE IN
              IF Cardinality(S) = 1 THEN m ELSE m \o "," \o JoinSet(S \ {m})
ObsPolicy(x) == Policy(x.obs.policy.public, x.obs.policy.maxAge)

JudgeBatch(x) ==
  LET want == MergeSeq(x.ps, Unit) IN
  IF x.obs.problem # "" THEN <<"violation:problem", "">>
  ELSE IF ObsPolicy(x) = want THEN <<"ok", "">> ELSE <<"violation:merge", "">>

JudgeExec(x) ==
  LET C == [ts |-> Profiles[x.profile], doc |-> x.doc, op |-> x.doc.ops[x.opIndex], vars |-> x.vars, world |-> x.world, dev |-> {}, enumAs |-> "enum"]
      got == ObsPolicy(x)
      cont == Contains(C)
      H == {HintOf(C, s) : s \in cont}
      need == MergeSet(H)
      exactReq == ObjectOnly(C) /\ cont = StaticSelected(C)
      sound == NotLooser(got, H)
      exact == exactReq => got = need
      \* the visitor model under every set of switches, computed once
      pol == [D \in SUBSET Devs |-> ImplPolicy(C, D)]
      ideal == pol[{}]
      idealOK == NotLooser(ideal, H) /\ (exactReq => ideal = need)
      Trig(d) == \E D \in SUBSET (Devs \ {d}) : pol[D \cup {d}] # pol[D]
      E == {D \in SUBSET Devs : D # {} /\ (\A d \in D : Trig(d)) /\ got = pol[D]}
      verdict ==
        IF x.obs.problem # "" THEN "violation:problem"
        ELSE IF Len(x.obs.errors) > 0 THEN "invalid:request-errors"
        ELSE IF ~idealOK THEN "invalid:ideal-model"
        ELSE IF sound /\ exact THEN "ok"
        ELSE IF E = {} THEN (IF ~sound THEN "violation:looser" ELSE "violation:inexact")
        ELSE "k:" \o JoinSet({DevCode(d) : d \in CHOOSE D \in E : \A D2 \in E : Cardinality(D2) >= Cardinality(D)})
      drift == IF got # pol[Devs] THEN "policy" ELSE IF x.obs.data # Execute(C).val THEN "data" ELSE ""
  IN <<verdict, drift, IF exactReq THEN 1 ELSE 0, IF ObjectOnly(C) THEN 1 ELSE 0>>

TInit == l = 1 /\ t = 0
TNext == /\ l <= Len(Cases)
         /\ LET x == Cases[l] IN
            IF x.kind = "batch" THEN LET j == JudgeBatch(x) IN PrintT(<<"VERDICT", x.id, j[1], j[2], 0, 0>>)
            ELSE LET j == JudgeExec(x) IN PrintT(<<"VERDICT", x.id, j[1], j[2], j[3], j[4]>>)
         /\ l' = l + 1 /\ UNCHANGED t
=============================================================================
