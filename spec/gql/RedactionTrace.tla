--------------------------- MODULE RedactionTrace ---------------------------
(***************************************************************************)
(* Mode V for C21.  A recorded case = the generated request (abstract      *)
(* document, supplied variables) plus the text the real library produced   *)
(* through ExtensionContext::stringify_execute_doc, as code points.        *)
(* Verdict: no sentinel of SecretLeaves(case) may occur in the text        *)
(* (sequence search over code points).  A leak is "known:<Dev..>" iff the  *)
(* leaked sentinels are among those the implementation-shaped printer      *)
(* model writes in clear with exactly these deviations switched on, each   *)
(* of which shows on this input.  The fourth element of a VERDICT line     *)
(* reports drift: leaked set # prediction of the model with today's        *)
(* deviations.                                                             *)
(***************************************************************************)
EXTENDS Redaction

ASSUME TLCSet(7, ndJsonDeserialize(IOEnv.TRACE))
Cases == TLCGet(7)
VARIABLE l

\* does the code-point sequence s occur in text?
Occurs(s, text) ==
  \E i \in 1..(Len(text) - Len(s) + 1) : text[i] = s[1] /\ \A j \in 2..Len(s) : text[i + j - 1] = s[j]

RECURSIVE JoinSet(_)
JoinSet(S) == IF S = {} THEN "" ELSE LET m == CHOOSE y \in S : TRUE IN
              IF Cardinality(S) = 1 THEN m ELSE m \o "," \o JoinSet(S \ {m})

\* the harness reports the code points of every sentinel it printed into the request: they must be the ones TLC derives
SentinelsAgree(x, secret) ==
  \A l2 \in secret : \E i \in 1..Len(x.obs.sent) : x.obs.sent[i].sid = l2.sid /\ x.obs.sent[i].cp = SentinelCP(l2)

DevCode(d) == "D"
Judge(x) ==
  LET secret == SecretLeaves(x)
      leaked == {l2.sid : l2 \in {y \in secret : Occurs(SentinelCP(y), x.obs.log)}}
      today  == Sids(Printed(x, Devs))
      E      == {D \in SUBSET Devs : D # {} /\ (\A d \in D : Trigger(d, x)) /\ leaked \subseteq Sids(Printed(x, D))}
      verdict ==
        IF x.obs.problem # "" THEN "violation:problem"
        ELSE IF Len(x.obs.errors) > 0 THEN "invalid:request-errors"            \* generator / harness problem, not a verdict
        ELSE IF secret = {} \/ (\E y \in secret : "sid" \notin DOMAIN y) \/ ~SentinelsAgree(x, secret) THEN "invalid:sentinels"
        ELSE IF Len(x.obs.log) = 0 THEN "invalid:empty-log"
        ELSE IF leaked = {} THEN "ok"
        ELSE IF E = {} THEN "violation:leak"
        \* short code (TLC wraps long PrintT lines): D = DevVarDefaultPrinted
        ELSE "k:" \o JoinSet({DevCode(d) : d \in CHOOSE D \in E : \A D2 \in E : Cardinality(D2) >= Cardinality(D)})
      drift == IF leaked = today THEN "" ELSE "leaks"
  IN <<verdict, drift, Cardinality(leaked), Cardinality(secret)>>

TInit == l = 1 /\ g = [stage |-> "trace"]
TNext == /\ l <= Len(Cases)
         /\ LET j == Judge(Cases[l]) IN PrintT(<<"VERDICT", Cases[l].id, j[1], j[2], j[3], j[4]>>)
         /\ l' = l + 1 /\ UNCHANGED g
=============================================================================
