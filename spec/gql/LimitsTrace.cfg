INIT TInit
NEXT TNext
