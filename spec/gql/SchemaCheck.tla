----------------------------- MODULE SchemaCheck -----------------------------
(***************************************************************************)
(* Type-system validation of GraphQL (specification October 2021, section  *)
(* 3 "Type System") for property C33: a dynamic schema must build exactly  *)
(* when its registered type system is valid.                               *)
(*                                                                         *)
(* A type system `ts` is the value of DESIGN.md appendix A:                *)
(*   ts = [types |-> [Name |-> T], query, mutation, subscription]          *)
(*   T  = [kind, fields, implements, members, values, inputFields, oneOf]  *)
(*   fields      = [f |-> [ty |-> TY, args |-> [a |-> [ty, default]]]]     *)
(*   inputFields = [x |-> [ty |-> TY, default]]                            *)
(*   TY = [k |-> "named", n] | [k |-> "list", of] | [k |-> "nn", of]       *)
(*   default = [k |-> "none"] (no default value) | a value record          *)
(*   implements / members / values are sequences of names;                 *)
(*   mutation / subscription = "" when not provided.                       *)
(*                                                                         *)
(* Violated(ts, D) is the set of violated clauses.  D is a set of *named   *)
(* deviations* of today's async-graphql (dynamic/check.rs): with D = {}    *)
(* every clause is the specification's; each member of D replaces exactly  *)
(* one clause by what the code does today.  TypeSystemValid(ts) is         *)
(* Violated(ts, {}) = {}.                                                  *)
(*                                                                         *)
(* The module has no variables: Gen_SchemaCheck builds type systems with a *)
(* state machine (modes M and G), SchemaCheckTrace judges recorded builds  *)
(* (mode V).                                                               *)
(***************************************************************************)
EXTENDS Naturals, Sequences, FiniteSets, TLC

Builtin == {"Int", "Float", "String", "Boolean", "ID"}          \* 3.5 built-in scalars
Range(s) == {s[i] : i \in DOMAIN s}
When(cond, clause) == IF cond THEN {clause} ELSE {}

\* TLC strings are atomic, so "begins with two underscores" (3.? Reserved Names) cannot be
\* computed from the text: generators draw reserved names from this pool only and the
\* driver asserts  name starts with "__"  <=>  name \in ReservedPool  for every case.
ReservedPool == {"__f", "__g", "__a", "__x", "__T"}
Reserved(n) == n \in ReservedPool

\* ---- type references ---------------------------------------------------------
Named(n)  == [k |-> "named", n |-> n]
ListOf(t) == [k |-> "list", of |-> t]
NN(t)     == [k |-> "nn", of |-> t]
RECURSIVE BaseName(_)
BaseName(t) == IF t.k = "named" THEN t.n ELSE BaseName(t.of)
IsNonNull(t) == t.k = "nn"
HasDefault(iv) == iv.default.k # "none"
\* 3.6.1 / 3.10 "required": non-null type and no default value
Required(iv) == IsNonNull(iv.ty) /\ ~HasDefault(iv)

\* ---- kinds ---------------------------------------------------------------------
TypeNames(ts) == DOMAIN ts.types
KindOf(ts, n) == IF n \in Builtin THEN "SCALAR"
                 ELSE IF n \in DOMAIN ts.types THEN ts.types[n].kind ELSE "NONE"
Known(ts, n) == KindOf(ts, n) # "NONE"
\* 3.4.2 IsInputType / IsOutputType on the named type
IsOutputKind(k) == k \in {"SCALAR", "OBJECT", "INTERFACE", "UNION", "ENUM"}
IsInputKind(k)  == k \in {"SCALAR", "ENUM", "INPUT_OBJECT"}
OfKind(ts, k) == {n \in TypeNames(ts) : ts.types[n].kind = k}
Composite(ts) == OfKind(ts, "OBJECT") \cup OfKind(ts, "INTERFACE")
Implements(ts, n) == IF n \in Composite(ts) THEN Range(ts.types[n].implements) ELSE {}
Members(ts, u) == IF KindOf(ts, u) = "UNION" /\ u \in TypeNames(ts) THEN Range(ts.types[u].members) ELSE {}

\* ---- 3.6 Objects, type validation 4: IsValidImplementationFieldType ------------
\* Transcription of the specification's algorithm, step by step.
RECURSIVE IsValidImplementationFieldType(_, _, _)
IsValidImplementationFieldType(ts, fieldType, implementedFieldType) ==
  IF fieldType.k = "nn" THEN                                                    \* step 1
       LET nullableType == fieldType.of
           implementedNullableType == IF implementedFieldType.k = "nn" THEN implementedFieldType.of
                                      ELSE implementedFieldType
       IN IsValidImplementationFieldType(ts, nullableType, implementedNullableType)
  ELSE IF fieldType.k = "list" /\ implementedFieldType.k = "list" THEN          \* step 2
       IsValidImplementationFieldType(ts, fieldType.of, implementedFieldType.of)
  ELSE IF fieldType = implementedFieldType THEN TRUE                             \* step 3
  ELSE IF fieldType.k = "named" /\ implementedFieldType.k = "named" THEN
       \/ /\ KindOf(ts, fieldType.n) = "OBJECT"                                  \* step 4
          /\ KindOf(ts, implementedFieldType.n) = "UNION"
          /\ fieldType.n \in Members(ts, implementedFieldType.n)
       \/ /\ KindOf(ts, fieldType.n) \in {"OBJECT", "INTERFACE"}                 \* step 5
          /\ KindOf(ts, implementedFieldType.n) = "INTERFACE"
          /\ implementedFieldType.n \in Implements(ts, fieldType.n)
  ELSE FALSE                                                                     \* step 6

\* Today's code: dynamic/type_ref.rs TypeRef::is_subtype(cur, sub), arm by arm.
RECURSIVE CodeIsSubtype(_, _)
CodeIsSubtype(cur, sub) ==
  IF cur.k = "nn" /\ sub.k = "nn" THEN CodeIsSubtype(cur.of, sub.of)
  ELSE IF sub.k = "nn" THEN CodeIsSubtype(cur, sub.of)
  ELSE IF cur.k = "named" /\ sub.k = "named" THEN cur.n = sub.n
  ELSE IF cur.k = "list" /\ sub.k = "list" THEN CodeIsSubtype(cur.of, sub.of)
  ELSE FALSE

\* The family between the two, so that each of the two defects has its own switch:
\*   rev = the nullability rule is applied in the wrong direction (a nullable field may
\*         implement a non-null one, a non-null field may not implement a nullable one);
\*   cov = named-type covariance (steps 4 and 5) is honoured.
NamedSub(ts, x, y) ==
  \/ KindOf(ts, x) = "OBJECT" /\ KindOf(ts, y) = "UNION" /\ x \in Members(ts, y)
  \/ KindOf(ts, x) \in {"OBJECT", "INTERFACE"} /\ KindOf(ts, y) = "INTERFACE" /\ y \in Implements(ts, x)
RECURSIVE SubG(_, _, _, _, _)
SubG(ts, x, y, rev, cov) ==
  IF x.k = "nn" /\ y.k = "nn" THEN SubG(ts, x.of, y.of, rev, cov)
  ELSE IF ~rev /\ x.k = "nn" THEN SubG(ts, x.of, y, rev, cov)
  ELSE IF rev /\ y.k = "nn" THEN SubG(ts, x, y.of, rev, cov)
  ELSE IF x.k = "nn" \/ y.k = "nn" THEN FALSE
  ELSE IF x.k = "list" /\ y.k = "list" THEN SubG(ts, x.of, y.of, rev, cov)
  ELSE IF x.k = "named" /\ y.k = "named" THEN x.n = y.n \/ (cov /\ NamedSub(ts, x.n, y.n))
  ELSE FALSE

Devs == {"DevCovarianceReversed", "DevNoNamedCovariance", "DevArgNarrowingAccepted",
         "DevMissingNullableArgAccepted", "DevExtraRequiredArgAccepted", "DevNoTransitiveImplements",
         "DevEmptyInterfaceAccepted", "DevEmptyInputObjectAccepted", "DevInterfaceImplementsUnchecked",
         "DevSubscriptionRootUnchecked", "DevEmptySubscriptionAccepted", "DevReservedTypeNameAccepted"}

FieldTypeOK(ts, implTy, ifaceTy, D) ==
  SubG(ts, implTy, ifaceTy, "DevCovarianceReversed" \in D, "DevNoNamedCovariance" \notin D)

\* 3.6 IsValidImplementation 2.c.i: "must accept the same type (invariant)".
\* Today: check_is_valid_implementation calls iface_arg.ty.is_subtype(impl_arg.ty).
ArgTypeOK(implTy, ifaceTy, D) ==
  IF "DevArgNarrowingAccepted" \in D THEN CodeIsSubtype(ifaceTy, implTy) ELSE implTy = ifaceTy

\* ---- 3.3 Schema: root operation types ---------------------------------------------
RootClauses(ts, D) ==
  LET Root(name, what, missingUnchecked) ==
        IF name = "" THEN {}
        ELSE IF ~Known(ts, name) THEN (IF missingUnchecked THEN {} ELSE {"Root" \o what \o "Missing"})
        ELSE When(KindOf(ts, name) # "OBJECT", "Root" \o what \o "NotObject")
      provided == <<ts.query, ts.mutation, ts.subscription>>
  IN UNION {
       When(ts.query = "", "RootQueryMissing"),
       Root(ts.query, "Query", FALSE),
       Root(ts.mutation, "Mutation", FALSE),
       Root(ts.subscription, "Subscription", "DevSubscriptionRootUnchecked" \in D),
       \* "must all be different types if provided"
       When(\E i, j \in 1..3 : i < j /\ provided[i] # "" /\ provided[i] = provided[j], "RootsNotDistinct") }

\* ---- 3.? reserved names ---------------------------------------------------------------
NameClauses(ts, D) ==
  UNION {
    When("DevReservedTypeNameAccepted" \notin D /\ \E n \in TypeNames(ts) : Reserved(n), "ReservedTypeName"),
    When(\E n \in Composite(ts) : \E f \in DOMAIN ts.types[n].fields :
            Reserved(f) \/ \E a \in DOMAIN ts.types[n].fields[f].args : Reserved(a), "ReservedFieldName"),
    When(\E n \in OfKind(ts, "INPUT_OBJECT") : \E x \in DOMAIN ts.types[n].inputFields : Reserved(x), "ReservedFieldName") }

\* ---- 3.6 Objects and 3.7 Interfaces: fields and arguments ----------------------------------
FieldClauses(ts, n) ==
  LET t == ts.types[n] IN
  UNION { UNION {
      When(~Known(ts, BaseName(t.fields[f].ty)), "UnknownType"),
      When(Known(ts, BaseName(t.fields[f].ty)) /\ ~IsOutputKind(KindOf(ts, BaseName(t.fields[f].ty))), "FieldNotOutputType"),
      UNION { UNION {
          When(~Known(ts, BaseName(t.fields[f].args[a].ty)), "UnknownType"),
          When(Known(ts, BaseName(t.fields[f].args[a].ty)) /\ ~IsInputKind(KindOf(ts, BaseName(t.fields[f].args[a].ty))), "ArgNotInputType")
        } : a \in DOMAIN t.fields[f].args }
    } : f \in DOMAIN t.fields }

\* IsValidImplementation(type n, implementedType i), i an interface of the type system.
ImplementationClauses(ts, n, i, D) ==
  LET t == ts.types[n]
      it == ts.types[i]
  IN UNION {
    \* 1. "If implementedType declares it implements any interfaces, type must also declare it implements those interfaces."
    When("DevNoTransitiveImplements" \notin D /\ \E j \in Range(it.implements) : j \notin Range(t.implements), "ImplTransitive"),
    \* 2. every field of implementedType
    UNION {
      IF f \notin DOMAIN t.fields THEN {"ImplFieldMissing"}
      ELSE LET field == t.fields[f]
               implementedField == it.fields[f]
           IN UNION {
             \* 2.c every argument of implementedField, with the same type
             UNION {
               IF a \notin DOMAIN field.args
               THEN When(~("DevMissingNullableArgAccepted" \in D /\ ~IsNonNull(implementedField.args[a].ty)), "ImplArgMissing")
               ELSE When(~ArgTypeOK(field.args[a].ty, implementedField.args[a].ty, D), "ImplArgType")
               : a \in DOMAIN implementedField.args },
             \* 2.d additional arguments must not be required
             When("DevExtraRequiredArgAccepted" \notin D /\
                  \E b \in DOMAIN field.args : b \notin DOMAIN implementedField.args /\ Required(field.args[b]),
                  "ImplExtraRequiredArg"),
             \* 2.e covariant return type
             When(~FieldTypeOK(ts, field.ty, implementedField.ty, D), "ImplFieldType") }
      : f \in DOMAIN it.fields } }

ImplementsClauses(ts, n, D) ==
  LET t == ts.types[n]
      isInterface == t.kind = "INTERFACE"
      \* today every interface check sits inside the loop over the interface's own fields
      skipped == isInterface /\ "DevEmptyInterfaceAccepted" \in D /\ DOMAIN t.fields = {}
  IN IF skipped THEN {}
     ELSE UNION {
       IF ~Known(ts, i) THEN When(~(isInterface /\ "DevInterfaceImplementsUnchecked" \in D), "UnknownType")
       ELSE IF KindOf(ts, i) # "INTERFACE" THEN {"ImplementsNotInterface"}
       ELSE IF i = n THEN {"ImplementsSelf"}
       ELSE ImplementationClauses(ts, n, i, D)
       : i \in Range(t.implements) }

\* The object that the harness must register as dynamic::Subscription (the API has no other way).
IsSubscriptionObject(ts, n) == n = ts.subscription /\ n # ts.query /\ n # ts.mutation /\ KindOf(ts, n) = "OBJECT"

CompositeClauses(ts, D) ==
  UNION { UNION {
      When(ts.types[n].kind = "OBJECT" /\ DOMAIN ts.types[n].fields = {}
           /\ ~("DevEmptySubscriptionAccepted" \in D /\ IsSubscriptionObject(ts, n)), "EmptyObject"),
      When(ts.types[n].kind = "INTERFACE" /\ DOMAIN ts.types[n].fields = {} /\ "DevEmptyInterfaceAccepted" \notin D, "EmptyInterface"),
      FieldClauses(ts, n),
      ImplementsClauses(ts, n, D)
    } : n \in Composite(ts) }

\* ---- 3.8 Unions ----------------------------------------------------------------------------
UnionClauses(ts) ==
  UNION { UNION {
      When(Len(ts.types[u].members) = 0, "EmptyUnion"),
      UNION { IF ~Known(ts, m) THEN {"UnknownType"} ELSE When(KindOf(ts, m) # "OBJECT", "UnionMemberNotObject")
              : m \in Range(ts.types[u].members) }
    } : u \in OfKind(ts, "UNION") }

\* ---- 3.9 Enums ------------------------------------------------------------------------------
EnumClauses(ts) == When(\E e \in OfKind(ts, "ENUM") : Len(ts.types[e].values) = 0, "EmptyEnum")

\* ---- 3.10 Input objects ------------------------------------------------------------------------
\* "If an Input Object references itself either directly or through referenced Input Objects, at
\*  least one of the fields in the chain of references must be either a nullable or a List type."
InputObjects(ts) == OfKind(ts, "INPUT_OBJECT")
ReqEdge(ts, x, y) == \E f \in DOMAIN ts.types[x].inputFields : ts.types[x].inputFields[f].ty = NN(Named(y))
\* declarative: a non-empty chain of required references from x back to x
RECURSIVE ReachWithin(_, _, _, _)
ReachWithin(ts, from, to, k) ==      \* a chain of 1..k required references leads from `from` to `to`
  IF k = 0 THEN FALSE
  ELSE \E y \in InputObjects(ts) : ReqEdge(ts, from, y) /\ (y = to \/ ReachWithin(ts, y, to, k - 1))
RequiredCycle(ts) == \E x \in InputObjects(ts) : ReachWithin(ts, x, x, Cardinality(InputObjects(ts)))
\* algorithmic: Warshall closure of the required-reference relation has a reflexive pair
RECURSIVE Closure(_, _)
Closure(R, todo) ==
  IF todo = {} THEN R
  ELSE LET k == CHOOSE k \in todo : TRUE
       IN Closure(R \cup {<<a, b>> \in ({p[1] : p \in R} \X {p[2] : p \in R}) : <<a, k>> \in R /\ <<k, b>> \in R}, todo \ {k})
RequiredCycleByClosure(ts) ==
  LET R == {<<x, y>> \in InputObjects(ts) \X InputObjects(ts) : ReqEdge(ts, x, y)}
  IN \E x \in InputObjects(ts) : <<x, x>> \in Closure(R, InputObjects(ts))

InputObjectClauses(ts, D) ==
  UNION {
    UNION { UNION {
        When(DOMAIN ts.types[n].inputFields = {} /\ "DevEmptyInputObjectAccepted" \notin D, "EmptyInputObject"),
        UNION { UNION {
            When(~Known(ts, BaseName(ts.types[n].inputFields[x].ty)), "UnknownType"),
            When(Known(ts, BaseName(ts.types[n].inputFields[x].ty))
                 /\ ~IsInputKind(KindOf(ts, BaseName(ts.types[n].inputFields[x].ty))), "InputFieldNotInputType"),
            \* OneOf input objects (draft): fields nullable and without default
            When(ts.types[n].oneOf /\ (IsNonNull(ts.types[n].inputFields[x].ty) \/ HasDefault(ts.types[n].inputFields[x])), "OneOfField")
          } : x \in DOMAIN ts.types[n].inputFields }
      } : n \in InputObjects(ts) },
    When(RequiredCycle(ts), "InputCycle") }

\* ---- the dynamic API cannot express this (dynamic::Subscription is its own kind of type) --------
SubscriptionRootReferenced(ts) ==
  LET s == ts.subscription IN
  /\ s # "" /\ s \in OfKind(ts, "OBJECT") /\ s # ts.query /\ s # ts.mutation
  /\ \/ Len(ts.types[s].implements) > 0
     \/ \E n \in Composite(ts) : \E f \in DOMAIN ts.types[n].fields : BaseName(ts.types[n].fields[f].ty) = s
     \/ \E u \in OfKind(ts, "UNION") : s \in Range(ts.types[u].members)

Violated(ts, D) ==
  UNION { RootClauses(ts, D), NameClauses(ts, D), CompositeClauses(ts, D), UnionClauses(ts), EnumClauses(ts),
          InputObjectClauses(ts, D), When(SubscriptionRootReferenced(ts), "SubscriptionRootReferenced") }

TypeSystemValid(ts) == Violated(ts, {}) = {}

\* Clauses the property text (and its plan in DESIGN.md 5 C33) names; only these decide a verdict.
Judged == {"RootQueryMissing", "RootQueryNotObject", "RootMutationMissing", "RootMutationNotObject",
           "RootSubscriptionMissing", "RootSubscriptionNotObject",
           "UnknownType", "FieldNotOutputType", "ArgNotInputType", "InputFieldNotInputType",
           "ImplementsNotInterface", "ImplementsSelf", "ImplTransitive", "ImplFieldMissing", "ImplArgMissing", "ImplArgType",
           "ImplExtraRequiredArg", "ImplFieldType", "UnionMemberNotObject",
           "EmptyObject", "EmptyInterface", "EmptyInputObject", "ReservedTypeName", "ReservedFieldName", "InputCycle"}
\* Rules of the specification that the property does not name (or that the dynamic API cannot express):
\* a type system violating only these is not judged.
Unjudged == {"RootsNotDistinct", "EmptyUnion", "EmptyEnum", "OneOfField", "SubscriptionRootReferenced"}

\* What a build must do under deviation set D: "reject", "accept", or "any" (only unjudged rules violated).
Expected(ts, D) ==
  LET v == Violated(ts, D) IN
  IF v \cap Judged # {} THEN "reject" ELSE IF v = {} THEN "accept" ELSE "any"
Matches(ok, expected) == expected = "any" \/ (ok <=> expected = "accept")
\* A deviation can only excuse a type system on which its clause evaluates differently.
Triggered(ts) == {d \in Devs : Violated(ts, {d}) # Violated(ts, {})}
=============================================================================
