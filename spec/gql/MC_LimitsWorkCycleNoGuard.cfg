CONSTANT MaxN = 40
CONSTANT MaxFan = 0
CONSTANT EqN = 0
INIT Init
NEXT Next
INVARIANT NoGuardPoly
