-------------------------------- MODULE Sdl --------------------------------
(***************************************************************************)
(* What an exported SDL document must denote (property C17).               *)
(*                                                                         *)
(* 1. String tokens.  Denote(token) transcribes the semantics of           *)
(*    StringValue (GraphQL October 2021, 2.9.4): quoted strings with       *)
(*    their escapes, block strings with BlockStringValue().  Text is a     *)
(*    sequence of code points (TLC strings are atomic).  This is the       *)
(*    reader that judges every description, deprecation reason, string     *)
(*    default and specifiedBy URL of an export: independent of the crate's *)
(*    own parser, which is only used to find the tokens.                   *)
(* 2. Printers.  QuotedRef / DescRef are reference printers (a correct     *)
(*    export exists: mode M checks Denote(print(s)) = s for every string   *)
(*    of the generator).  The ...Dev operators transcribe today's          *)
(*    registry/export_sdl.rs (escape_string, write_description) and        *)
(*    value/src/lib.rs write_quoted; mode M checks that each fails exactly *)
(*    on its trigger predicate, so a named deviation can only excuse the   *)
(*    strings it is defined for.                                           *)
(* 3. Describe(ts, opts): the set of facts (types, kinds, fields,          *)
(*    arguments, types, defaults, enum values, union members, implemented  *)
(*    interfaces, deprecations and reasons, descriptions) an export of     *)
(*    type system ts under options opts must denote.  Order is not part of *)
(*    the content.                                                         *)
(***************************************************************************)
EXTENDS Integers, Sequences, FiniteSets, TLC

cQ == 34   \* "
cBS == 92  \* \
cLF == 10
cCR == 13
cSP == 32
cTAB == 9
Q3 == <<cQ, cQ, cQ>>
At(t, i) == IF i >= 1 /\ i <= Len(t) THEN t[i] ELSE 0 - 1
TripleAt(t, i) == At(t, i) = cQ /\ At(t, i + 1) = cQ /\ At(t, i + 2) = cQ
IsBlankCp(c) == c = cSP \/ c = cTAB
IsScalar(n) == (n >= 0 /\ n <= 55295) \/ (n >= 57344 /\ n <= 1114111)
Fail == [ok |-> FALSE, val |-> <<>>]
Good(v) == [ok |-> TRUE, val |-> v]

\* ---- quoted form -------------------------------------------------------------------------
IsHex(c) == (c >= 48 /\ c <= 57) \/ (c >= 65 /\ c <= 70) \/ (c >= 97 /\ c <= 102)
HexVal(c) == IF c <= 57 THEN c - 48 ELSE IF c <= 70 THEN c - 55 ELSE c - 87
Has4Hex(t, i) == IsHex(At(t, i)) /\ IsHex(At(t, i + 1)) /\ IsHex(At(t, i + 2)) /\ IsHex(At(t, i + 3))
Hex4(t, i) == HexVal(t[i]) * 4096 + HexVal(t[i + 1]) * 256 + HexVal(t[i + 2]) * 16 + HexVal(t[i + 3])
EscVal(e) == CASE e = 34 -> 34 [] e = 92 -> 92 [] e = 47 -> 47 [] e = 98 -> 8 [] e = 102 -> 12
               [] e = 110 -> 10 [] e = 114 -> 13 [] e = 116 -> 9 [] OTHER -> 0 - 1
\* StringCharacter* and the closing quote; i = index after the opening quote; the token must end there.
RECURSIVE ReadQuoted(_, _, _)
ReadQuoted(t, i, acc) ==
  LET c == At(t, i) IN
  IF c < 0 THEN Fail                                               \* unterminated
  ELSE IF c = cQ THEN (IF i = Len(t) THEN Good(acc) ELSE Fail)     \* closing quote must end the token
  ELSE IF c = cLF \/ c = cCR THEN Fail                             \* LineTerminator
  ELSE IF c # cBS THEN (IF IsScalar(c) THEN ReadQuoted(t, i + 1, Append(acc, c)) ELSE Fail)
  ELSE LET e == At(t, i + 1) IN
       IF e = 117 THEN                                             \* \uXXXX
            IF ~Has4Hex(t, i + 2) THEN Fail
            ELSE LET n == Hex4(t, i + 2) IN
                 IF n >= 55296 /\ n <= 56319 THEN                  \* leading surrogate: needs a trailing one
                      IF At(t, i + 6) = cBS /\ At(t, i + 7) = 117 /\ Has4Hex(t, i + 8)
                      THEN LET m == Hex4(t, i + 8) IN
                           IF m >= 56320 /\ m <= 57343
                           THEN ReadQuoted(t, i + 12, Append(acc, 65536 + (n - 55296) * 1024 + (m - 56320)))
                           ELSE Fail
                      ELSE Fail
                 ELSE IF n >= 56320 /\ n <= 57343 THEN Fail
                 ELSE ReadQuoted(t, i + 6, Append(acc, n))
       ELSE IF EscVal(e) >= 0 THEN ReadQuoted(t, i + 2, Append(acc, EscVal(e)))
       ELSE Fail

\* ---- block form: BlockStringValue(rawValue) --------------------------------------------------
\* raw content up to the closing """ (\""" is content); result [ok, raw]
RECURSIVE BlockRaw(_, _, _)
BlockRaw(t, i, acc) ==
  IF At(t, i) < 0 THEN [ok |-> FALSE, raw |-> <<>>]
  ELSE IF At(t, i) = cBS /\ TripleAt(t, i + 1) THEN BlockRaw(t, i + 4, acc \o Q3)      \* \""" denotes """
  ELSE IF TripleAt(t, i) THEN [ok |-> i + 2 = Len(t), raw |-> acc]
  ELSE BlockRaw(t, i + 1, Append(acc, t[i]))
\* "Let lines be the result of splitting rawValue by LineTerminator" (LF | CR LF | CR)
RECURSIVE SplitLines(_, _, _, _)
SplitLines(r, i, cur, acc) ==
  IF i > Len(r) THEN Append(acc, cur)
  ELSE IF r[i] = cLF THEN SplitLines(r, i + 1, <<>>, Append(acc, cur))
  ELSE IF r[i] = cCR THEN SplitLines(r, IF At(r, i + 1) = cLF THEN i + 2 ELSE i + 1, <<>>, Append(acc, cur))
  ELSE SplitLines(r, i + 1, Append(cur, r[i]), acc)
RECURSIVE Indent(_, _)
Indent(line, i) == IF i <= Len(line) /\ IsBlankCp(line[i]) THEN Indent(line, i + 1) ELSE i - 1
IsBlankLine(line) == Indent(line, 1) = Len(line)
CommonIndent(lines) ==
  LET cand == {Indent(lines[i], 1) : i \in {j \in 2..Len(lines) : ~IsBlankLine(lines[j])}}
  IN IF cand = {} THEN 0 ELSE CHOOSE m \in cand : \A x \in cand : m <= x
Min(a, b) == IF a < b THEN a ELSE b
RECURSIVE DropLeading(_)
DropLeading(ls) == IF ls # <<>> /\ IsBlankLine(ls[1]) THEN DropLeading(Tail(ls)) ELSE ls
RECURSIVE DropTrailing(_)
DropTrailing(ls) == IF ls # <<>> /\ IsBlankLine(ls[Len(ls)]) THEN DropTrailing(SubSeq(ls, 1, Len(ls) - 1)) ELSE ls
RECURSIVE JoinLines(_, _)
JoinLines(ls, i) == IF i > Len(ls) THEN <<>> ELSE (IF i = 1 THEN <<>> ELSE <<cLF>>) \o ls[i] \o JoinLines(ls, i + 1)
BlockStringValue(raw) ==
  LET lines == SplitLines(raw, 1, <<>>, <<>>)
      ci == CommonIndent(lines)
      ded == [i \in 1..Len(lines) |-> IF i = 1 THEN lines[i] ELSE SubSeq(lines[i], Min(ci, Len(lines[i])) + 1, Len(lines[i]))]
  IN JoinLines(DropTrailing(DropLeading(ded)), 1)

\* What a complete string token denotes.
Denote(t) ==
  IF TripleAt(t, 1) THEN LET b == BlockRaw(t, 4, <<>>) IN IF b.ok THEN Good(BlockStringValue(b.raw)) ELSE Fail
  ELSE IF At(t, 1) = cQ THEN ReadQuoted(t, 2, <<>>)
  ELSE Fail

\* ---- helpers on strings ------------------------------------------------------------------------
RECURSIVE MapCat(_, _, _)
MapCat(F(_), s, i) == IF i > Len(s) THEN <<>> ELSE F(s[i]) \o MapCat(F, s, i + 1)
Has(s, c) == \E i \in 1..Len(s) : s[i] = c
HasTriple(s) == \E i \in 1..Len(s) : TripleAt(s, i)
RECURSIVE Repeat(_, _)
Repeat(s, n) == IF n = 0 THEN <<>> ELSE s \o Repeat(s, n - 1)
IsCtl(c) == c < 32 \/ (c >= 127 /\ c <= 159)               \* Rust char::is_control (category Cc)
HexDigit(d) == IF d < 10 THEN 48 + d ELSE 87 + d
Hex4Cps(n) == <<HexDigit(n \div 4096), HexDigit((n \div 256) % 16), HexDigit((n \div 16) % 16), HexDigit(n % 16)>>

\* ---- reference printers ---------------------------------------------------------------------------
RefChar(c) == CASE c = cQ -> <<cBS, cQ>> [] c = cBS -> <<cBS, cBS>> [] c = cLF -> <<cBS, 110>> [] c = cCR -> <<cBS, 114>>
                [] c = cTAB -> <<cBS, 116>> [] OTHER -> IF IsCtl(c) THEN <<cBS, 117>> \o Hex4Cps(c) ELSE <<c>>
QuotedRef(s) == <<cQ>> \o MapCat(RefChar, s, 1) \o <<cQ>>
\* A block string can carry s verbatim (after escaping """) iff reading it back loses nothing:
LinesLF(s) == SplitLines(s, 1, <<>>, <<>>)
BlockSafe(s) ==
  /\ ~Has(s, cCR)
  /\ s = <<>> \/ LET ls == LinesLF(s) IN
                 /\ ~IsBlankLine(ls[1]) /\ ~IsBlankLine(ls[Len(ls)])
                 /\ \E i \in 1..Len(ls) : ~IsBlankLine(ls[i]) /\ Indent(ls[i], 1) = 0
RECURSIVE EscTriple(_, _)
EscTriple(s, i) == IF i > Len(s) THEN <<>>
                   ELSE IF TripleAt(s, i) THEN <<cBS>> \o Q3 \o EscTriple(s, i + 3) ELSE <<s[i]>> \o EscTriple(s, i + 1)
ReIndent(s, tabs) == LET R(c) == IF c = cLF THEN <<cLF>> \o tabs ELSE <<c>> IN MapCat(R, s, 1)
BlockRef(s, tabs) == Q3 \o <<cLF>> \o tabs \o ReIndent(EscTriple(s, 1), tabs) \o <<cLF>> \o tabs \o Q3
\* a description ending in a quote would merge with the closing delimiter only without the newline; BlockRef always
\* puts the delimiter on its own line, so BlockSafe is all that is needed
DescRef(s, tabs) == IF BlockSafe(s) THEN BlockRef(s, tabs) ELSE QuotedRef(s)

\* ---- today's printers --------------------------------------------------------------------------------
\* export_sdl.rs escape_string (deprecation reasons): \\ \" \b \f \n \r \t
\* (the quotation mark was left unescaped until /repo commit 0c87432; no deviation is left here)
EscapeStringChar(c) == CASE c = cBS -> <<cBS, cBS>> [] c = cQ -> <<cBS, cQ>> [] c = 8 -> <<cBS, 98>> [] c = 12 -> <<cBS, 102>>
                         [] c = cLF -> <<cBS, 110>> [] c = cCR -> <<cBS, 114>> [] c = cTAB -> <<cBS, 116>> [] OTHER -> <<c>>
ReasonToday(s) == <<cQ>> \o MapCat(EscapeStringChar, s, 1) \o <<cQ>>
\* export_sdl.rs write_description
QuoteOnlyChar(c) == IF c = cQ THEN <<cBS, cQ>> ELSE <<c>>
DescDev(s, tabs, preferSingleLine) ==
  IF preferSingleLine /\ ~Has(s, cLF) THEN <<cQ>> \o MapCat(QuoteOnlyChar, s, 1) \o <<cQ>>
  ELSE Q3 \o <<cLF>> \o tabs \o ReIndent(s, tabs) \o <<cLF>> \o tabs \o Q3
\* export_sdl.rs: @specifiedBy(url: "...") with replace('"', "\\\"")
SpecifiedByDev(s) == <<cQ>> \o MapCat(QuoteOnlyChar, s, 1) \o <<cQ>>
\* value/src/lib.rs write_quoted (default values): control characters as \u + four hexadecimal digits
\* (the decimal digits it used to write were repaired by /repo commit 773af2b; no deviation is left here)
ValueChar(c) == CASE c = cCR -> <<cBS, 114>> [] c = cLF -> <<cBS, 110>> [] c = cTAB -> <<cBS, 116>> [] c = cQ -> <<cBS, cQ>>
                  [] c = cBS -> <<cBS, cBS>> [] OTHER -> IF IsCtl(c) THEN <<cBS, 117>> \o Hex4Cps(c) ELSE <<c>>
DefaultToday(s) == <<cQ>> \o MapCat(ValueChar, s, 1) \o <<cQ>>

\* ---- trigger predicates: exactly the strings each of today's printers gets wrong (checked in mode M) --------
SingleLineTrigger(s) == Has(s, cBS) \/ Has(s, cCR)
BlockTrigger(s) == HasTriple(s) \/ ~BlockSafe(s)
DescTrigger(s, preferSingleLine) == IF preferSingleLine /\ ~Has(s, cLF) THEN SingleLineTrigger(s) ELSE BlockTrigger(s)
SpecifiedByTrigger(s) == Has(s, cBS) \/ Has(s, cLF) \/ Has(s, cCR)
Roundtrips(tok, s) == Denote(tok) = Good(s)

\* ---- Describe ------------------------------------------------------------------------------------------
Builtin == {"Int", "Float", "String", "Boolean", "ID"}
BuiltinDirectives == {"@include", "@skip", "@deprecated", "@specifiedBy", "@oneOf"}
Range(s) == {s[i] : i \in DOMAIN s}
Fact(t, f, a, what, s, cp) == [t |-> t, f |-> f, a |-> a, what |-> what, s |-> s, cp |-> cp]
RECURSIVE TyText(_)
TyText(ty) == IF ty.k = "named" THEN ty.n ELSE IF ty.k = "list" THEN "[" \o TyText(ty.of) \o "]" ELSE TyText(ty.of) \o "!"
Opt(rec, key) == key \in DOMAIN rec
\* facts shared by fields, arguments, input fields and enum values: description and deprecation
DocFacts(t, f, a, rec) ==
  (IF Opt(rec, "description") THEN {Fact(t, f, a, "desc", "", rec.description)} ELSE {})
  \cup (IF Opt(rec, "deprecated")
        THEN {Fact(t, f, a, "deprecated", IF Opt(rec.deprecated, "reason") THEN "reason" ELSE "",
                   IF Opt(rec.deprecated, "reason") THEN rec.deprecated.reason ELSE <<>>)}
        ELSE {})
DefaultFacts(t, f, a, iv) ==
  LET d == iv.default IN
  IF d.k = "none" THEN {}
  ELSE {Fact(t, f, a, "default",
             CASE d.k = "int" -> "int:" \o d.v [] d.k = "bool" -> (IF d.v THEN "bool:true" ELSE "bool:false")
               [] d.k = "enum" -> "enum:" \o d.v [] d.k = "null" -> "null" [] d.k = "str" -> "str" [] OTHER -> "other",
             IF d.k = "str" THEN d.cp ELSE <<>>)}
FieldFacts(n, fields) ==
  UNION { {Fact(n, f, "", "field", TyText(fields[f].ty), <<>>)} \cup DocFacts(n, f, "", fields[f])
          \cup UNION { {Fact(n, f, a, "arg", TyText(fields[f].args[a].ty), <<>>)} \cup DocFacts(n, f, a, fields[f].args[a])
                       \cup DefaultFacts(n, f, a, fields[f].args[a]) : a \in DOMAIN fields[f].args }
        : f \in DOMAIN fields }
TypeFacts(n, t, opts) ==
  {Fact(n, "", "", "kind", t.kind, <<>>)}
  \cup (IF Opt(t, "description") THEN {Fact(n, "", "", "desc", "", t.description)} ELSE {})
  \cup (IF t.kind \in {"OBJECT", "INTERFACE"}
        THEN FieldFacts(n, t.fields) \cup {Fact(n, "", "", "implements", t.implements[i], <<>>) : i \in DOMAIN t.implements} ELSE {})
  \cup (IF t.kind = "UNION" THEN {Fact(n, "", "", "member", t.members[i], <<>>) : i \in DOMAIN t.members} ELSE {})
  \cup (IF t.kind = "ENUM"
        THEN UNION { {Fact(n, t.values[i].name, "", "value", "", <<>>)} \cup DocFacts(n, t.values[i].name, "", t.values[i])
                   : i \in DOMAIN t.values } ELSE {})     \* enum values are records [name, description?, deprecated?]
  \cup (IF t.kind = "INPUT_OBJECT"
        THEN UNION { {Fact(n, x, "", "inputField", TyText(t.inputFields[x].ty), <<>>)} \cup DocFacts(n, x, "", t.inputFields[x])
                     \cup DefaultFacts(n, x, "", t.inputFields[x]) : x \in DOMAIN t.inputFields } ELSE {})
  \cup (IF t.kind = "SCALAR" /\ opts.include_specified_by /\ Opt(t, "specifiedBy")
        THEN {Fact(n, "", "", "specifiedBy", "", t.specifiedBy)} ELSE {})
\* custom directive definitions (static schemas): ts.directives = [name |-> [repeatable, locations, args, description?]]
DirectiveFacts(ts) ==
  IF ~Opt(ts, "directives") THEN {}
  ELSE UNION { LET d == ts.directives[n] IN
               {Fact(n, "", "", "directive", IF d.repeatable THEN "repeatable" ELSE "", <<>>)}
               \cup {Fact(n, "", "", "location", d.locations[i], <<>>) : i \in DOMAIN d.locations}
               \cup (IF Opt(d, "description") THEN {Fact(n, "", "", "desc", "", d.description)} ELSE {})
               \cup UNION { {Fact(n, "", a, "arg", TyText(d.args[a].ty), <<>>)} \cup DocFacts(n, "", a, d.args[a])
                            \cup DefaultFacts(n, "", a, d.args[a]) : a \in DOMAIN d.args }
             : n \in DOMAIN ts.directives }
\* A schema with federation enabled (ts.federation = [entities |-> <<names of the types with @key>>]) also has the
\* system types _Any, _Service and (when there are entities) _Entity, and the root fields _service / _entities.
\* They are part of the schema: an export WITHOUT the `federation` option must define them (otherwise the
\* document refers to types it does not define); an export WITH the option leaves types and fields out
\* (subgraph SDL).  The description of _Any is the library's own text and is not judged.
FedEnabled(ts) == "federation" \in DOMAIN ts
FederationFacts(ts, opts) ==
  IF ~FedEnabled(ts) \/ opts.federation THEN {}
  ELSE LET ents == ts.federation.entities
           q == ts.query
       IN {Fact("_Any", "", "", "kind", "SCALAR", <<>>), Fact("_Service", "", "", "kind", "OBJECT", <<>>),
           Fact("_Service", "sdl", "", "field", "String", <<>>), Fact(q, "_service", "", "field", "_Service!", <<>>)}
          \cup (IF Len(ents) = 0 THEN {}
                ELSE {Fact("_Entity", "", "", "kind", "UNION", <<>>), Fact(q, "_entities", "", "field", "[_Entity]!", <<>>),
                      Fact(q, "_entities", "representations", "arg", "[_Any!]!", <<>>)}
                     \cup {Fact("_Entity", "", "", "member", ents[i], <<>>) : i \in DOMAIN ents})
Describe(ts, opts) ==
  UNION {TypeFacts(n, ts.types[n], opts) : n \in DOMAIN ts.types \ Builtin} \cup DirectiveFacts(ts) \cup FederationFacts(ts, opts)

\* Closure: every type an exported document names (field, argument and input-field types, union members,
\* implemented interfaces: the harness logs them as facts what = "ref" / "member" / "implements") is defined in
\* the document or is a built-in scalar.
DefinedIn(O) == {o.t : o \in {x \in O : x.what = "kind"}}
ReferencedIn(O) == {o.s : o \in {x \in O : x.what \in {"ref", "member", "implements"}}}
Undefined(O) == ReferencedIn(O) \ (DefinedIn(O) \cup Builtin)
\* Under `federation` the subscription root may be left out (subgraph SDL; Registry::federation_subscription).
OptionalFacts(ts, opts) ==
  IF opts.federation /\ ts.subscription # "" THEN {e \in Describe(ts, opts) : e.t = ts.subscription} ELSE {}

\* ---- today's printer for one expected string fact, and its deviation name ----------------------------------
Tabs(opts) == IF opts.indent = 0 THEN <<cTAB>> ELSE Repeat(<<cSP>>, opts.indent)
Level(e) == IF e.a # "" /\ e.f # "" THEN 2 ELSE IF e.f # "" \/ e.a # "" THEN 1 ELSE 0
IsStringFact(e) == e.what \in {"desc", "specifiedBy"} \/ (e.what = "deprecated" /\ e.s = "reason") \/ (e.what = "default" /\ e.s = "str")
TodayToken(e, opts) ==
  CASE e.what = "desc" -> DescDev(e.cp, Repeat(Tabs(opts), Level(e)), opts.prefer_single_line_descriptions)
    [] e.what = "deprecated" -> ReasonToday(e.cp)
    [] e.what = "default" -> DefaultToday(e.cp)
    [] e.what = "specifiedBy" -> SpecifiedByDev(e.cp)
Broken(e, opts) == IsStringFact(e) /\ ~Roundtrips(TodayToken(e, opts), e.cp)
DevOf(e, opts) ==
  CASE e.what = "desc" -> (IF opts.prefer_single_line_descriptions /\ ~Has(e.cp, cLF) THEN "DevDescSingleLineNotEscaped"
                           ELSE IF HasTriple(e.cp) THEN "DevDescBlockTripleQuote" ELSE "DevDescBlockWhitespaceLost")
    [] e.what = "deprecated" -> "DevNone"       \* never broken: mode M InvReasonToday
    [] e.what = "default" -> "DevNone"          \* never broken: mode M InvDefaultToday
    [] e.what = "specifiedBy" -> "DevSpecifiedByNotEscaped"
=============================================================================
