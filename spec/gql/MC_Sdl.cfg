CONSTANT MaxAtoms = 3
INIT Init
NEXT Next
INVARIANT InvQuotedRef
INVARIANT InvDescRef
INVARIANT InvBlockRef
INVARIANT InvReasonToday
INVARIANT InvDescDev
INVARIANT InvSpecifiedByDev
INVARIANT InvDefaultToday
