CONSTANT MaxAtoms = 3
INIT Init
NEXT Next
INVARIANT InvQuotedRef
INVARIANT InvDescRef
INVARIANT InvBlockRef
INVARIANT InvReasonDev
INVARIANT InvDescDev
INVARIANT InvSpecifiedByDev
INVARIANT InvDefaultToday
