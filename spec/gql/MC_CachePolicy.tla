--------------------------- MODULE MC_CachePolicy ---------------------------
(* mode M for C20: the laws of Merge over all pairs and triples of the policy domain; the run also prints the *)
(* policy tuples (mode G, INVARIANT Emit).                                                                    *)
EXTENDS CachePolicy
ASSUME LawsHold == Laws
=============================================================================
