CONSTANT Chunk = 500
INIT TInit
NEXT TNext
