\* mode M: the laws of Merge over all pairs / triples of the domain; the same run prints the policy tuples (mode G)
INIT Init
NEXT Next
INVARIANT Emit
