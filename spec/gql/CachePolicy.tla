----------------------------- MODULE CachePolicy -----------------------------
(***************************************************************************)
(* C20 -- the response cache policy is never looser than the data it       *)
(* contains.                                                               *)
(*                                                                         *)
(* A policy is [public : BOOLEAN, maxAge : Int] (async-graphql             *)
(* CacheControl; HTTP Cache-Control, RFC 9111 5.2.2: private, no-cache,    *)
(* max-age).  maxAge = -1 stands for no-cache, 0 for "no max-age given",   *)
(* n > 0 for max-age=n.  Policies are combined by Merge: private wins,     *)
(* no-cache wins, otherwise the smallest positive max-age, "not given" is  *)
(* neutral.  The module holds the lattice, its laws (mode M: all pairs and *)
(* triples over Domain), the "not looser" order of the property, and the   *)
(* generator of policy tuples whose combination the real code is asked for.*)
(***************************************************************************)
EXTENDS Integers, Sequences, FiniteSets, TLC, Json

Ages == {-1, 0, 1, 2, 60}           \* no-cache, not given, and three positive max-ages
VARIABLE t

Policy(p, a) == [public |-> p, maxAge |-> a]
Domain == {Policy(p, a) : p \in BOOLEAN, a \in Ages}
Unit == Policy(TRUE, 0)             \* CacheControl::default(): public, no max-age
NoCache == -1

Min(a, b) == IF a <= b THEN a ELSE b
MergeAge(a, b) == IF a = NoCache \/ b = NoCache THEN NoCache
                  ELSE IF a = 0 THEN b ELSE IF b = 0 THEN a ELSE Min(a, b)
Merge(x, y) == Policy(x.public /\ y.public, MergeAge(x.maxAge, y.maxAge))
RECURSIVE MergeSeq(_, _)
MergeSeq(ps, acc) == IF ps = <<>> THEN acc ELSE MergeSeq(Tail(ps), Merge(acc, Head(ps)))
RECURSIVE MergeSet(_)
MergeSet(S) == IF S = {} THEN Unit ELSE LET x == CHOOSE y \in S : TRUE IN Merge(x, MergeSet(S \ {x}))

(* The order of the property: policy p is not looser than the hints in H:                      *)
(* private if any of them is private, no-cache if any of them is no-cache, otherwise its       *)
(* max-age does not exceed any of their positive max-ages.                                     *)
NotLooser(p, H) ==
  /\ (\E h \in H : ~h.public) => ~p.public
  /\ IF \E h \in H : h.maxAge = NoCache THEN p.maxAge = NoCache
     ELSE \A h \in H : h.maxAge > 0 => p.maxAge <= h.maxAge

----------------------------------------------------------------------------
(* laws, checked over all pairs and triples of Domain (mode M) *)
Commutative == \A x, y \in Domain : Merge(x, y) = Merge(y, x)
Associative == \A x, y, z \in Domain : Merge(Merge(x, y), z) = Merge(x, Merge(y, z))
Idempotent  == \A x \in Domain : Merge(x, x) = x
Identity    == \A x \in Domain : Merge(x, Unit) = x /\ Merge(Unit, x) = x
Closed      == \A x, y \in Domain : Merge(x, y) \in Domain
\* Merge is the greatest lower bound w.r.t. the order of the property: the merge of a set of hints is not
\* looser than the set, and anything not looser than the set is not looser than ... the merge itself
MergeSound  == \A x, y, z \in Domain : NotLooser(MergeSet({x, y, z}), {x, y, z})
MergeTight  == \A x, y \in Domain : \A p \in Domain : NotLooser(p, {x, y}) <=> NotLooser(p, {Merge(x, y)})
Laws == Commutative /\ Associative /\ Idempotent /\ Identity /\ Closed /\ MergeSound /\ MergeTight

----------------------------------------------------------------------------
(* generator: every ordered pair and triple of Domain with the groupings (a b) / ((a b) c) / (a (b c)) *)
Tuples == {<<x, y>> : x, y \in Domain} \cup {<<x, y, z>> : x, y, z \in Domain} \cup {<<x>> : x \in Domain}
Init == t \in [ps : Tuples, grouping : {"flat", "left", "right"}]
Next == UNCHANGED t
Valid == t.grouping = "flat" \/ Len(t.ps) = 3
Emit == Valid => PrintT(<<"REPLAY", ToJson(t)>>)
\* mode M: MC_CachePolicy.tla assumes Laws
=============================================================================
