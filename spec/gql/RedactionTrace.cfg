CONSTANT MaxSteps = 0
CONSTANT ShapeBudget = 0
CONSTANT MaxListLen = 1
CONSTANT VarModes = {}
CONSTANT Styles = {}
CONSTANT StepAliases = {}
INIT TInit
NEXT TNext
