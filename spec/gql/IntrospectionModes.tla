------------------------- MODULE IntrospectionModes -------------------------
(***************************************************************************)
(* C19 -- introspection modes gate schema metadata and user resolvers.     *)
(*                                                                         *)
(* A schema and a request each carry a mode in {Enabled, IntrospectionOnly,*)
(* Disabled} (async-graphql IntrospectionMode; SchemaBuilder::             *)
(* disable_introspection / introspection_only, Request::                   *)
(* disable_introspection / only_introspection).  The property is the 3 x 3 *)
(* table below:                                                            *)
(*   MetadataAllowed(s, r)   schema metadata (__schema, __type, the        *)
(*                           federation service description _service{sdl}) *)
(*                           may appear in a response only if neither mode *)
(*                           is Disabled;                                  *)
(*   ResolversAllowed(s, r)  a query / mutation / subscription / entity    *)
(*                           resolver may be invoked only if neither mode  *)
(*                           is IntrospectionOnly;                         *)
(*   __typename              resolves in every cell of the table           *)
(*                           (GraphQL Oct 2021, 4.4 Type Name              *)
(*                           Introspection: not a schema-introspection     *)
(*                           field, available on every object type).       *)
(*                                                                         *)
(* The module contains                                                     *)
(*   - the table and the property over *abstract outcomes* of root fields, *)
(*   - the case space (all mode pairs x operation kinds x subsets of field *)
(*     kinds x schema flavours x entry points x the two ways of setting    *)
(*     the request-level mode (on the Request / by an extension's          *)
(*     prepare_request hook) x document shapes) and the abstract document  *)
(*     of each case (printed by the harness),                              *)
(*   - an implementation-shaped model of how the two executors treat a     *)
(*     root field (QueryRoot::resolve_field, Schema::execute_once,         *)
(*     dynamic collect_fields / collect_streams) with the deviations of    *)
(*     today's code as named switches,                                     *)
(*   - mode M invariants: the ideal model satisfies the property on the    *)
(*     whole case space; each deviation changes the model exactly on its   *)
(*     trigger predicate and violates the property there,                  *)
(*   - mode G: Emit prints every case once.                                *)
(* Observations of the real library are judged in IntrospectionModesTrace. *)
(***************************************************************************)
EXTENDS Execution, Json, IOUtils

ASSUME TLCSet(8, JsonDeserialize(IOEnv.SCHEMA))
TS == TLCGet(8)                       \* schemas/c19.json, mirror of the harness schemas

CONSTANTS MaxKinds,        \* largest number of field kinds mixed in one unwrapped document
          MaxKindsWrapped, \* the same for documents whose root selections sit inside a fragment
          Wraps,           \* subset of {"none", "inline", "typed", "spread"}
          Orders,          \* subset of {"fwd", "rev"}
          Aliases,         \* subset of BOOLEAN
          HookWraps        \* wrappers for which the request-level mode is also set by an extension hook
VARIABLE c

----------------------------------------------------------------------------
(* The 3 x 3 table *)
Modes == {"Enabled", "IntrospectionOnly", "Disabled"}
MetadataAllowed(s, r)  == s # "Disabled" /\ r # "Disabled"
ResolversAllowed(s, r) == s # "IntrospectionOnly" /\ r # "IntrospectionOnly"

----------------------------------------------------------------------------
(* Field kinds and the case space *)
KindOrder == <<"__schema", "__type", "_service", "_entities", "__typename", "ordinary", "nested">>
KindSet == {KindOrder[i] : i \in 1..Len(KindOrder)}
MetaKinds == {"__schema", "__type", "_service"}          \* fields whose data is schema metadata
ResolverKinds == {"_entities", "ordinary", "nested"}     \* fields backed by user resolvers
QueryOnlyKinds == MetaKinds \cup {"_entities"}           \* fields that exist on the query root only
Ops == {"query", "mutation", "subscription"}
Flavours == {"static", "dynamic"}
ViaOf(op) == IF op = "subscription" THEN {"stream"} ELSE {"execute", "stream"}
\* how the request-level mode reaches the executor: set on the Request itself (Request::disable_introspection /
\* only_introspection), or by an extension in its prepare_request hook (the documented place to rewrite a request)
RVias == {"request", "hook"}

\* On the query root every mix of kinds is a valid document.  On the other roots the query-only kinds are
\* invalid; they are kept as single probes and as probes next to an ordinary field.
KindChoices(op) ==
  IF op = "query" THEN SUBSET KindSet \ {{}}
  ELSE (SUBSET {"__typename", "ordinary", "nested"} \ {{}})
       \cup {{k} : k \in QueryOnlyKinds} \cup {{k, "ordinary"} : k \in QueryOnlyKinds}

ValidCase(x) ==
  /\ x.via \in ViaOf(x.op)
  /\ x.kinds \in KindChoices(x.op)
  /\ Cardinality(x.kinds) <= (IF x.wrap = "none" THEN MaxKinds ELSE MaxKindsWrapped)
  /\ (x.order = "rev" => Cardinality(x.kinds) > 1)
  /\ (x.rvia = "hook" => x.wrap \in HookWraps)
\* The space is enumerated in two levels so that TLC's workers share it: a seed fixes the cell of the table,
\* the operation kind and the schema flavour; one step completes it to a case.
Seeds == [s : Modes, r : Modes, op : Ops, flavour : Flavours]
CasesOf(seed) == {x \in [s : {seed.s}, r : {seed.r}, op : {seed.op}, flavour : {seed.flavour}, via : ViaOf(seed.op), rvia : RVias,
                         kinds : KindChoices(seed.op), wrap : Wraps, order : Orders, alias : Aliases] : ValidCase(x)}
IsCase(x) == "kinds" \in DOMAIN x

----------------------------------------------------------------------------
(* The abstract document of a case (DESIGN appendix A; printed by harness/vh/src/doc.rs) *)
RootName(op) == CASE op = "query" -> TS.query [] op = "mutation" -> TS.mutation [] OTHER -> TS.subscription
FieldWithRole(t, role) == CHOOSE f \in DOMAIN TS.types[t].fields : TS.types[t].fields[f].role = role
F(n, al, args, sels) == [k |-> "field", name |-> n, alias |-> al, args |-> args, dirs |-> <<>>, sels |-> sels]
LeafSel(n) == F(n, "", <<>>, <<>>)
Str(x) == [k |-> "str", v |-> x]
OrdinaryOf(t) == FieldWithRole(t, "ordinary")
NestedOf(t) == FieldWithRole(t, "nested")
NestedType(t) == TS.types[t].fields[NestedOf(t)].ty

SelOfKind(kind, op, al) ==
  LET root == RootName(op) IN
  CASE kind = "__schema"   -> F("__schema", al, <<>>, <<F("queryType", "", <<>>, <<LeafSel("name")>>)>>)
    [] kind = "__type"     -> F("__type", al, <<[name |-> "name", val |-> Str(TS.metaType)]>>, <<LeafSel("name")>>)
    [] kind = "_service"   -> F("_service", al, <<>>, <<LeafSel("sdl")>>)
    [] kind = "_entities"  ->
         F("_entities", al,
           <<[name |-> "representations",
              val |-> [k |-> "list", items |-> <<[k |-> "obj", entries |-> <<[key |-> "__typename", val |-> Str(TS.entity.type)],
                                                                             [key |-> TS.entity.key, val |-> Str("e1")]>>]>>]]>>,
           <<[k |-> "inline", on |-> TS.entity.type, dirs |-> <<>>,
              sels |-> <<LeafSel("__typename"), LeafSel(TS.entity.key), LeafSel(TS.entity.field)>>]>>)
    [] kind = "__typename" -> F("__typename", al, <<>>, <<>>)
    [] kind = "ordinary"   -> F(OrdinaryOf(root), al, <<>>, <<>>)
    [] kind = "nested"     -> F(NestedOf(root), al, <<>>, <<LeafSel("__typename"), LeafSel(OrdinaryOf(NestedType(root)))>>)

RECURSIVE Rev(_)
Rev(q) == IF q = <<>> THEN <<>> ELSE Append(Rev(Tail(q)), Head(q))
KindSeq(x) == LET fwd == SelectSeq(KindOrder, LAMBDA k : k \in x.kinds) IN IF x.order = "rev" THEN Rev(fwd) ELSE fwd
RootSels(x) == LET ks == KindSeq(x) IN
  [i \in 1..Len(ks) |-> SelOfKind(ks[i], x.op, IF x.alias THEN "a" \o ToString(i) ELSE "")]
DocOf(x) ==
  LET sels == RootSels(x)
      root == RootName(x.op)
      wrapped == CASE x.wrap = "none"   -> sels
                   [] x.wrap = "inline" -> <<[k |-> "inline", on |-> "", dirs |-> <<>>, sels |-> sels]>>
                   [] x.wrap = "typed"  -> <<[k |-> "inline", on |-> root, dirs |-> <<>>, sels |-> sels]>>
                   [] x.wrap = "spread" -> <<[k |-> "spread", name |-> "F1", dirs |-> <<>>]>>
      frags == IF x.wrap = "spread" THEN <<[name |-> "F1", on |-> root, dirs |-> <<>>, sels |-> sels]>> ELSE <<>>
  IN [ops |-> <<[name |-> "", ty |-> x.op, vars |-> <<>>, dirs |-> <<>>, sels |-> wrapped]>>, frags |-> frags]

----------------------------------------------------------------------------
(* Root fields of a document by the reference semantics (Execution!Collect, GraphQL 6.3.2):         *)
(* sequence of [key, name], one per response key.                                                   *)
CtxOf(x, doc) == [ts |-> TS, doc |-> doc, op |-> doc.ops[1], vars |-> <<>>, world |-> <<>>, dev |-> {}, enumAs |-> "enum"]
RootFields(x, doc) ==
  LET g == Collect(CtxOf(x, doc), RootName(x.op), doc.ops[1].sels, 1, <<>>, {}).g
  IN [i \in 1..Len(g) |-> [key |-> g[i].key, name |-> g[i].nodes[1].name]]
\* the selections that are plain fields of the operation's selection set (what the subscription executors look at)
DirectFields(doc) ==
  LET ds == SelectSeq(doc.ops[1].sels, LAMBDA sel : sel.k = "field")
  IN [i \in 1..Len(ds) |-> [key |-> Key(ds[i]), name |-> ds[i].name]]
KindOfName(op, n) ==
  IF n \in {"__schema", "__type", "_service", "_entities", "__typename"} THEN n
  ELSE IF n \in DOMAIN TS.types[RootName(op)].fields THEN TS.types[RootName(op)].fields[n].role ELSE "unknown"

\* user resolvers behind a root field, as the harness logs them: [kind, name]
OpResolverKind(op) == op
Entry(k, n) == [kind |-> k, name |-> n]
\* top: the resolver of the root field itself; below: resolvers of the fields selected below it
TopResolver(op, kind) ==
  LET root == RootName(op) IN
  CASE kind = "ordinary"  -> {Entry(OpResolverKind(op), root \o "." \o OrdinaryOf(root))}
    [] kind = "nested"    -> {Entry(OpResolverKind(op), root \o "." \o NestedOf(root))}
    [] kind = "_entities" -> {Entry("entity", TS.entity.type)}
    [] OTHER -> {}
BelowResolvers(op, kind) ==
  LET root == RootName(op) IN
  CASE kind = "nested"    -> {Entry("nested", NestedType(root) \o "." \o OrdinaryOf(NestedType(root)))}
    [] kind = "_entities" -> {Entry("nested", TS.entity.type \o "." \o TS.entity.field)}
    [] OTHER -> {}
\* Below the root the executors apply the IntrospectionOnly check again.
ResolversOf(x, kind) ==
  TopResolver(x.op, kind) \cup (IF ResolversAllowed(x.s, x.r) THEN BelowResolvers(x.op, kind) ELSE {})

----------------------------------------------------------------------------
(* Implementation-shaped model: the outcome of one root field.                                      *)
(*   "typename"  the type name is produced                                                          *)
(*   "meta"      schema metadata is produced                                                        *)
(*   "resolve"   the user resolvers behind the field are invoked                                    *)
(*   "null"      the field is answered with null, nothing is invoked                                *)
(*   "skip"      the field is left out of the response                                              *)
(*   "refuse"    the executor answers the field with an error response (static subscriptions)       *)
(*   "invalid"   the request is rejected by validation before execution                             *)
(* Deviations of today's code (named switches, see known_findings/C19.json):                        *)
(*   DevStaticServiceIgnoresDisabled  QueryRoot::resolve_field serves _service without looking at   *)
(*                                    the Disabled modes                                            *)
(*   (fixed in /repo f9aca34, switches removed: dynamic subscription resolvers and the dynamic      *)
(*    entity resolver ran under IntrospectionOnly)                                                  *)
(*   DevStaticEmptyMutationTypename   Schema::execute_once substitutes the EmptyMutation root under *)
(*                                    IntrospectionOnly, so mutation { __typename } answers         *)
(*                                    "EmptyMutation", a type that is not in the schema             *)
Devs == {"DevStaticServiceIgnoresDisabled", "DevStaticEmptyMutationTypename"}

\* validation: query-only fields do not exist on the other roots; a dynamic schema registers the
\* introspection fields only when its mode is not Disabled (Registry::create_introspection_types in
\* dynamic SchemaBuilder::finish; the static builder registers them before the mode is set).
InvalidField(x, kind) ==
  \/ kind = "unknown"
  \/ kind \in QueryOnlyKinds /\ x.op # "query"
  \/ kind = "__typename" /\ x.op = "subscription"       \* validation/visitor.rs visit_selection
  \/ kind \in {"__schema", "__type"} /\ x.s = "Disabled" /\ x.flavour = "dynamic"

StaticOutcome(x, kind, dev) ==
  LET meta == MetadataAllowed(x.s, x.r)
      res  == ResolversAllowed(x.s, x.r)
  IN IF InvalidField(x, kind) THEN "invalid"
     ELSE IF x.op = "subscription" THEN                \* schema.rs execute_stream: EmptySubscription substituted
            IF res /\ kind \in {"ordinary", "nested"} THEN "resolve" ELSE "refuse"
     ELSE IF kind = "__typename" THEN                  \* container.rs Fields::add_set: the name of the root *Rust* type
            IF x.op = "mutation" /\ ~res /\ "DevStaticEmptyMutationTypename" \in dev THEN "typenameEmptyMutation" ELSE "typename"
     ELSE IF x.op = "query" THEN                       \* QueryRoot::resolve_field; Ok(None) becomes null
            IF meta /\ kind \in {"__schema", "__type"} THEN "meta"
            ELSE IF ~res THEN "null"
            ELSE IF kind = "_entities" THEN "resolve"
            ELSE IF kind = "_service" THEN (IF meta \/ "DevStaticServiceIgnoresDisabled" \in dev THEN "meta" ELSE "null")
            ELSE IF kind \in {"ordinary", "nested"} THEN "resolve"
            ELSE "null"
     ELSE IF ~res THEN "null"                          \* schema.rs execute_once: EmptyMutation substituted
     ELSE "resolve"

DynamicOutcome(x, kind, dev) ==
  LET meta == MetadataAllowed(x.s, x.r)
      res  == ResolversAllowed(x.s, x.r)
  IN IF InvalidField(x, kind) THEN "invalid"
     ELSE IF x.op = "subscription" THEN                                                           \* dynamic/subscription.rs collect_streams
            IF kind \in {"ordinary", "nested"} /\ res THEN "resolve" ELSE "skip"
     ELSE IF kind = "__typename" THEN "typename"                                                  \* dynamic/resolve.rs collect_fields
     ELSE IF x.op = "query" /\ meta /\ kind \in MetaKinds THEN "meta"
     ELSE IF x.op = "query" /\ meta /\ kind = "_entities" /\ res THEN "resolve"
     ELSE IF ~res THEN "null"
     ELSE IF kind \in {"ordinary", "nested"} THEN "resolve"
     ELSE "skip"                                      \* introspection / federation names are not fields of the dynamic Object

Outcome(x, kind, dev) == IF x.flavour = "static" THEN StaticOutcome(x, kind, dev) ELSE DynamicOutcome(x, kind, dev)

\* the root fields the executor of the case looks at
ExecFields(x, doc) == IF x.op = "subscription" THEN DirectFields(doc) ELSE RootFields(x, doc)
\* response keys the substituted EmptyMutation root collects: a fragment on the real mutation type does not apply to it
EmptyRootKeys(x, doc) == LET g == Collect(CtxOf(x, doc), "EmptyMutation", doc.ops[1].sels, 1, <<>>, {}).g IN {g[i].key : i \in 1..Len(g)}
\* ef = ExecFields(x, doc), passed in so that the field collection is evaluated once per case
Outcomes(x, doc, ef, dev) ==
  [i \in 1..Len(ef) |->
     LET kind == KindOfName(x.op, ef[i].name)
         base == Outcome(x, kind, dev)
     IN [key |-> ef[i].key, kind |-> kind,
         out |-> IF base = "typenameEmptyMutation" /\ ef[i].key \notin EmptyRootKeys(x, doc) THEN "skip" ELSE base]]

\* Upper bounds used to decide whether an observation is explained by a set of deviations:
MayServeO(o) == {o[i].key : i \in {j \in 1..Len(o) : o[j].out = "meta"}}
MayInvokeO(x, o) == UNION {ResolversOf(x, o[i].kind) : i \in {j \in 1..Len(o) : o[j].out = "resolve"}}

\* Exact prediction (drift run): nothing happens when validation rejects the request; otherwise every root
\* field is treated on its own (a refused static field is answered with null, Ok(None) in resolve_field).
RejectedO(o) == \E i \in 1..Len(o) : o[i].out = "invalid"
InvokesO(x, o) == IF RejectedO(o) THEN {} ELSE MayInvokeO(x, o)
ServesO(o) == IF RejectedO(o) THEN {} ELSE MayServeO(o)

----------------------------------------------------------------------------
(* The property over model outcomes (mode M) *)
PropMetadataO(x, o)  == ~MetadataAllowed(x.s, x.r) => MayServeO(o) = {}
PropResolversO(x, o) == ~ResolversAllowed(x.s, x.r) => MayInvokeO(x, o) = {}
\* __typename at the root of a query or mutation is never gated by a mode
PropTypenameO(x, o)  == \A i \in 1..Len(o) : (o[i].kind = "__typename" /\ x.op # "subscription") => o[i].out = "typename"
PropO(x, o) == PropMetadataO(x, o) /\ PropResolversO(x, o) /\ PropTypenameO(x, o)

\* Trigger predicates: the inputs on which a deviation can show.
HasKindExec(x, ef, k) == \E i \in 1..Len(ef) : KindOfName(x.op, ef[i].name) = k
Trigger(d, x, ef) ==
  CASE d = "DevStaticServiceIgnoresDisabled" ->
         x.flavour = "static" /\ x.op = "query" /\ HasKindExec(x, ef, "_service")
         /\ ~MetadataAllowed(x.s, x.r) /\ ResolversAllowed(x.s, x.r)
    [] d = "DevStaticEmptyMutationTypename" ->
         x.flavour = "static" /\ x.op = "mutation" /\ HasKindExec(x, ef, "__typename") /\ ~ResolversAllowed(x.s, x.r)

\* mode M invariants (evaluated on every case of the space)
\* the table itself: both predicates are symmetric; Disabled / IntrospectionOnly in either place is enough;
\* only Enabled x Enabled allows everything
TableLaws ==
  /\ \A s, r \in Modes : MetadataAllowed(s, r) = MetadataAllowed(r, s) /\ ResolversAllowed(s, r) = ResolversAllowed(r, s)
  /\ \A m \in Modes : ~MetadataAllowed("Disabled", m) /\ ~ResolversAllowed("IntrospectionOnly", m)
  /\ \A s, r \in Modes : (MetadataAllowed(s, r) /\ ResolversAllowed(s, r)) <=> (s = "Enabled" /\ r = "Enabled")
  /\ ~MetadataAllowed("IntrospectionOnly", "Disabled") /\ ~ResolversAllowed("IntrospectionOnly", "Disabled")
ASSUME TableLaws
ModelChecked ==
  IsCase(c) =>
    LET doc == DocOf(c)
        fs == RootFields(c, doc)
        ks == KindSeq(c)
        ef == ExecFields(c, doc)
        ideal == Outcomes(c, doc, ef, {})
    IN \* the document generator and the reference field collection agree: the root fields are the chosen kinds, in order
       /\ Len(fs) = Len(ks)
       /\ \A i \in 1..Len(ks) : KindOfName(c.op, fs[i].name) = ks[i] /\ (c.alias => fs[i].key = "a" \o ToString(i))
       \* the ideal implementation model satisfies the table
       /\ PropO(c, ideal)
       \* every deviation changes the model exactly on its trigger predicate and violates the table there
       /\ \A d \in Devs : LET o == Outcomes(c, doc, ef, {d}) IN
            /\ (o # ideal) <=> Trigger(d, c, ef)
            /\ Trigger(d, c, ef) => ~PropO(c, o)

Init == c \in Seeds
Next == ~IsCase(c) /\ c' \in CasesOf(c)
Emit == IsCase(c) => PrintT(<<"REPLAY", ToJson([s |-> c.s, r |-> c.r, op |-> c.op, flavour |-> c.flavour, via |-> c.via, rvia |-> c.rvia, wrap |-> c.wrap,
                                  order |-> c.order, alias |-> c.alias, kinds |-> KindSeq(c), doc |-> DocOf(c)])>>)
=============================================================================
