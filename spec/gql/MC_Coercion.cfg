CONSTANT Level = 1
INIT Init
NEXT Next
INVARIANT TypeSound
INVARIANT FlavourFree
INVARIANT ErrorsAgree
