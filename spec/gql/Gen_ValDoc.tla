----------------------------- MODULE Gen_ValDoc -----------------------------
(***************************************************************************)
(* Mode G for C09: generator state machine for executable documents that   *)
(* are NOT valid by construction.  A document is a sequence of sections    *)
(* (operations and fragment definitions); the selection sets of a section  *)
(* are built in flat pre-order form, one node per action, as in Gen_Doc.   *)
(* Every name comes from a pool (CONSTANTS) that contains names the schema *)
(* does not define, types that are not composite or do not overlap,        *)
(* argument values of right and wrong kinds, variable definitions of input *)
(* and non-input types, known / unknown / misplaced directives -- so valid *)
(* and invalid documents arise side by side and every rule of section 5 is *)
(* reachable.  Only the grammar is respected (a selection set is never     *)
(* empty).  Arguments, directives and variable definitions are opaque      *)
(* codes here ("x=int1", "skip(if=$v)", "v|Int!|int1|"); the driver        *)
(* expands them into abstract values.  TLC's breadth-first search visits   *)
(* every document within the budgets exactly once per section order.       *)
(* The pools and budgets are one of the records of CONSTANT Configs.       *)
(***************************************************************************)
EXTENDS Naturals, Sequences, FiniteSets, TLC, Json

CONSTANT Configs     \* set of pool configurations, each a record
  \* [label, MaxNodes, MaxSecs, MaxAlias, MaxArgs, MaxDirs, MaxVars,
  \*  OpHeads ("query:", "query:Q", "mutation:M", "subscription:S" ...), FragNames (names fragment definitions may take),
  \*  Fields, Conds, Spreads, ArgPool, DirPool, VarPool,
  \*  OpenOnly, LeafOnly (fields that always / never get a selection set; the rest: both ways),
  \*  FragSeq (canonical fragment names, see below), Inline (1: inline fragments are generated)]
  \* One TLC run enumerates all of them: Init picks the configuration, it never changes afterwards.
VARIABLES p, secs, open, nalias, nargs, ndirs, nvars
vars == <<p, secs, open, nalias, nargs, ndirs, nvars>>

MaxNodes == p.MaxNodes
MaxSecs == p.MaxSecs
MaxAlias == p.MaxAlias
MaxArgs == p.MaxArgs
MaxDirs == p.MaxDirs
MaxVars == p.MaxVars
OpHeads == p.OpHeads
\* fragment definitions take their names from FragNames; when FragSeq is not empty the k-th fragment definition
\* must take the k-th name of FragSeq instead (canonical naming: fragment DAGs without permuted / repeated names)
NFrags == Cardinality({i \in 1..Len(secs) : secs[i].kind = "frag"})
FragNames == IF Len(p.FragSeq) = 0 THEN p.FragNames
             ELSE IF NFrags < Len(p.FragSeq) THEN {p.FragSeq[NFrags + 1]} ELSE {}
Fields == p.Fields
Conds == p.Conds
Spreads == p.Spreads
ArgPool == p.ArgPool
DirPool == p.DirPool
VarPool == p.VarPool
OpenOnly == p.OpenOnly
LeafOnly == p.LeafOnly

Cur == secs[Len(secs)]
NodesOf(s) == Len(s.nodes)
RECURSIVE Sum(_, _)
Sum(s, i) == IF i > Len(s) THEN 0 ELSE NodesOf(s[i]) + Sum(s, i + 1)
NNodes == Sum(secs, 1)
Top == open[Len(open)]
Bump == [open EXCEPT ![Len(open)] = @ + 1]
Node(k, name, alias, on, args, dirs, opens) == [d |-> Len(open), k |-> k, name |-> name, alias |-> alias, on |-> on, args |-> args, dirs |-> dirs]

\* choices limited by the remaining budgets
Seqs(S, n) == UNION {[1..m -> S] : m \in 0..n}
Min(a, b) == IF a < b THEN a ELSE b
ArgChoice == Seqs(ArgPool, Min(2, MaxArgs - nargs))
DirChoice == Seqs(DirPool, Min(2, MaxDirs - ndirs))
VarChoice == Seqs(VarPool, Min(2, MaxVars - nvars))
AliasChoice == IF nalias < MaxAlias THEN {"", "x"} ELSE {""}

Header(h, vs, ds) == [kind |-> "op", head |-> h, on |-> "", vars |-> vs, dirs |-> ds, nodes |-> <<>>]
FragHeader(n, c, ds) == [kind |-> "frag", head |-> n, on |-> c, vars |-> <<>>, dirs |-> ds, nodes |-> <<>>]

Init == /\ p \in Configs
        /\ \E h \in OpHeads, vs \in Seqs(VarPool, Min(2, MaxVars)), ds \in Seqs(DirPool, Min(1, MaxDirs)) :
             /\ secs = <<Header(h, vs, ds)>> /\ nvars = Len(vs) /\ ndirs = Len(ds)
        /\ open = <<0>> /\ nalias = 0 /\ nargs = 0

Append2(n) == secs' = [secs EXCEPT ![Len(secs)].nodes = Append(@, n)] /\ UNCHANGED p

AddField ==
  /\ NNodes < MaxNodes
  /\ \E f \in Fields, al \in AliasChoice, as \in ArgChoice, ds \in DirChoice, opens \in BOOLEAN :
       /\ (opens => NNodes + 1 < MaxNodes)            \* an opened selection set needs at least one node
       /\ (f \in OpenOnly => opens) /\ (f \in LeafOnly => ~opens)
       /\ Append2(Node("field", f, al, "", as, ds, opens))
       /\ open' = IF opens THEN Append(Bump, 0) ELSE Bump
       /\ nalias' = IF al = "" THEN nalias ELSE nalias + 1
       /\ nargs' = nargs + Len(as) /\ ndirs' = ndirs + Len(ds) /\ UNCHANGED nvars

AddInline ==
  /\ p.Inline = 1 /\ NNodes + 1 < MaxNodes
  /\ \E c \in Conds \cup {""}, ds \in DirChoice :
       /\ Append2(Node("inline", "", "", c, <<>>, ds, TRUE))
       /\ open' = Append(Bump, 0)
       /\ ndirs' = ndirs + Len(ds) /\ UNCHANGED <<nalias, nargs, nvars>>

AddSpread ==
  /\ NNodes < MaxNodes
  /\ \E n \in Spreads, ds \in DirChoice :
       /\ Append2(Node("spread", n, "", "", <<>>, ds, FALSE))
       /\ open' = Bump
       /\ ndirs' = ndirs + Len(ds) /\ UNCHANGED <<nalias, nargs, nvars>>

Close == /\ Len(open) > 1 /\ Top > 0
         /\ open' = SubSeq(open, 1, Len(open) - 1)
         /\ UNCHANGED <<p, secs, nalias, nargs, ndirs, nvars>>

SectionDone == Len(open) = 1 /\ open[1] > 0
NewSection ==
  /\ SectionDone /\ Len(secs) < MaxSecs /\ NNodes < MaxNodes
  /\ \/ \E h \in OpHeads, vs \in VarChoice, ds \in Seqs(DirPool, Min(1, MaxDirs - ndirs)) :
          /\ secs' = Append(secs, Header(h, vs, ds)) /\ nvars' = nvars + Len(vs) /\ ndirs' = ndirs + Len(ds)
     \/ \E n \in FragNames, c \in Conds, ds \in Seqs(DirPool, Min(1, MaxDirs - ndirs)) :
          /\ secs' = Append(secs, FragHeader(n, c, ds)) /\ ndirs' = ndirs + Len(ds) /\ UNCHANGED nvars
  /\ open' = <<0>> /\ UNCHANGED <<p, nalias, nargs>>

Next == AddField \/ AddInline \/ AddSpread \/ Close \/ NewSection
Spec == Init /\ [][Next]_vars

\* design-level sanity (mode M)
TypeOK == /\ Len(secs) \in 1..MaxSecs /\ NNodes <= MaxNodes /\ nalias <= MaxAlias /\ nargs <= MaxArgs /\ ndirs <= MaxDirs /\ nvars <= MaxVars
          /\ secs[1].kind = "op"
DepthOK == \A s \in 1..Len(secs) : \A i \in 1..Len(secs[s].nodes) :
             LET ns == secs[s].nodes IN ns[i].d >= 1 /\ (i > 1 => ns[i].d <= ns[i - 1].d + 1) /\ (i = 1 => ns[i].d = 1)
\* a node opened a selection set iff the next node is one level deeper; a field/inline that opened one is never left empty once the section is done
Complete == SectionDone
NoEmptySet == Complete => \A s \in 1..Len(secs) : NodesOf(secs[s]) >= 1
Emit == Complete => PrintT(<<"REPLAY", p.label, ToJson(secs)>>)
=============================================================================
