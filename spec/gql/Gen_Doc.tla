------------------------------ MODULE Gen_Doc ------------------------------
(***************************************************************************)
(* Mode G: generator state machine for executable documents over a type    *)
(* system (IOEnv.SCHEMA, fields flagged "gen").  A document is built in     *)
(* flat pre-order form: each action appends one selection node             *)
(* [d, k, name, alias, on, dir]; `open` is the stack of open selection     *)
(* sets (static type, number of items).  TLC's breadth-first search visits *)
(* every valid document with at most MaxNodes selection nodes exactly once *)
(* (a document is complete when only the root set is open and non-empty).  *)
(* Validity by construction: fields exist on the static type, leaf fields  *)
(* have no selection set, composite fields have a non-empty one, fragment  *)
(* type conditions overlap the static type (5.5.2.3).                      *)
(***************************************************************************)
EXTENDS Naturals, Sequences, FiniteSets, TLC, Json, IOUtils

CONSTANTS MaxNodes, MaxDirs, MaxAlias, Root, Dirs
TS == JsonDeserialize(IOEnv.SCHEMA)
VARIABLES doc, open, ndir, nalias
vars == <<doc, open, ndir, nalias>>

Types == DOMAIN TS.types
Kind(t) == IF t \in Types THEN TS.types[t].kind ELSE "SCALAR"
RECURSIVE Named(_)
Named(ty) == IF ty.k = "named" THEN ty.n ELSE Named(ty.of)
InSeq(x, s) == \E i \in 1..Len(s) : s[i] = x
Objects == {t \in Types : Kind(t) = "OBJECT"}
Possible(t) == CASE Kind(t) = "OBJECT" -> {t}
                 [] Kind(t) = "INTERFACE" -> {o \in Objects : InSeq(t, TS.types[o].implements)}
                 [] Kind(t) = "UNION" -> {o \in Objects : InSeq(o, TS.types[t].members)}
                 [] OTHER -> {}
Composite(t) == Kind(t) \in {"OBJECT", "INTERFACE", "UNION"}
GenFields(t) == IF Kind(t) \in {"OBJECT", "INTERFACE"} THEN {f \in DOMAIN TS.types[t].fields : TS.types[t].fields[f].gen} ELSE {}
\* type conditions that may be spread inside static type t (5.5.2.3 possible fragment spreads)
Conds(t) == {c \in Types : Composite(c) /\ Possible(c) \cap Possible(t) # {} /\ c # Root}

Top == open[Len(open)]
Bump == [open EXCEPT ![Len(open)].count = @ + 1]
Node(k, name, alias, on, dir) == [d |-> Len(open), k |-> k, name |-> name, alias |-> alias, on |-> on, dir |-> dir]

Init == doc = <<>> /\ open = <<[type |-> Root, count |-> 0]>> /\ ndir = 0 /\ nalias = 0

DirChoice == IF ndir < MaxDirs THEN Dirs \cup {""} ELSE {""}
AliasChoice == IF nalias < MaxAlias THEN {"", "x"} ELSE {""}

AddField ==
  /\ Len(doc) < MaxNodes
  /\ \E f \in GenFields(Top.type) \cup {"__typename"}, al \in AliasChoice, dr \in DirChoice :
       LET t == IF f = "__typename" THEN "String" ELSE Named(TS.types[Top.type].fields[f].ty) IN
       /\ doc' = Append(doc, Node("field", f, al, "", dr))
       /\ open' = IF Composite(t) THEN Append(Bump, [type |-> t, count |-> 0]) ELSE Bump
       /\ ndir' = IF dr = "" THEN ndir ELSE ndir + 1
       /\ nalias' = IF al = "" THEN nalias ELSE nalias + 1

AddFragment ==
  /\ Len(doc) < MaxNodes - 1       \* a fragment needs at least one selection inside
  /\ \E k \in {"inline", "spread"}, c \in Conds(Top.type) \cup {""}, dr \in DirChoice :
       /\ (k = "spread" => c # "")
       /\ doc' = Append(doc, Node(k, "", "", c, dr))
       /\ open' = Append(Bump, [type |-> IF c = "" THEN Top.type ELSE c, count |-> 0])
       /\ ndir' = IF dr = "" THEN ndir ELSE ndir + 1
       /\ UNCHANGED nalias

Close == /\ Len(open) > 1 /\ Top.count > 0
         /\ open' = SubSeq(open, 1, Len(open) - 1)
         /\ UNCHANGED <<doc, ndir, nalias>>

Next == AddField \/ AddFragment \/ Close
Spec == Init /\ [][Next]_vars

\* design-level sanity (mode M): depth bookkeeping is consistent
DepthOK == \A i \in 1..Len(doc) : doc[i].d >= 1 /\ (i > 1 => doc[i].d <= doc[i - 1].d + 1)
Complete == Len(open) = 1 /\ open[1].count > 0
Emit == Complete => PrintT(<<"REPLAY", ToJson(doc)>>)
=============================================================================
