------------------------------ MODULE SdlTrace ------------------------------
(* Mode V for C17.  A case is {id, flavour, opts, ts, built, panic,           *)
(* parse_error, facts}: the harness exported the schema of type system ts     *)
(* under options opts, re-parsed the SDL and logged what it found as flat     *)
(* facts; string facts carry the raw token, which is read here with           *)
(* Sdl!Denote.                                                                *)
(*                                                                            *)
(*   skip       ts is not a valid type system (SchemaCheck) or did not build  *)
(*   ok         the document parses, denotes exactly Describe(ts, opts) and   *)
(*              is closed (every type it names is defined or built in)        *)
(*   known D    every difference is a string fact that today's printer        *)
(*              (Sdl!TodayToken) cannot round-trip (its trigger), or the      *)
(*              document does not parse (or parses to something else because  *)
(*              such a string is not even one token) and ts contains it, or a *)
(*              structural named deviation                                    *)
(*   violation  anything else (including any panic)                           *)
EXTENDS Sdl, Json, IOUtils
SC == INSTANCE SchemaCheck

Cases == ndJsonDeserialize(IOEnv.TRACE)
CONSTANT Chunk
VARIABLE l

Key(e) == <<e.t, e.f, e.a, e.what>>
Norm(o) ==
  IF o.raw # <<>> THEN LET d == Denote(o.raw) IN Fact(o.t, o.f, o.a, o.what, o.s, IF d.ok THEN d.val ELSE <<0 - 1>>)
  ELSE Fact(o.t, o.f, o.a, o.what, o.s, o.val)
\* not compared: built-in directive definitions, applied directives, the library's own description of _Any;
\* "ref" facts only serve the closure rule
Compared(o) == o.t \notin BuiltinDirectives /\ o.what \notin {"applied", "ref"} /\ ~(o.t = "_Any" /\ o.what = "desc")
Observed(c) == {Norm(c.facts[i]) : i \in {j \in DOMAIN c.facts : Compared(c.facts[j])}}
AllFacts(c) == {Fact(c.facts[i].t, c.facts[i].f, c.facts[i].a, c.facts[i].what, c.facts[i].s, <<>>) : i \in DOMAIN c.facts}

\* dynamic::Interface::register never calls Registry::add_implements
DynInterfaceImplements(c, e) == c.flavour = "dynamic" /\ e.what = "implements" /\ c.ts.types[e.t].kind = "INTERFACE"

Verdict(c) ==
  IF ~SC!TypeSystemValid(c.ts) THEN <<"skip", {}, <<>>>>
  ELSE IF c.panic # "" THEN <<"violation", {}, <<"panic">>>>
  ELSE IF ~c.built THEN <<"skip", {}, <<>>>>
  ELSE
    LET E == Describe(c.ts, c.opts)
        broken == {e \in E : Broken(e, c.opts)}
        \* today's token for e is not even one string token: where it ends, and so the rest of the document, is unpredictable
        lexBroken == {e \in broken : ~Denote(TodayToken(e, c.opts)).ok}
    IN IF c.parse_error # ""
       THEN IF broken # {} THEN <<"known", {DevOf(e, c.opts) : e \in broken}, <<>>>>
            ELSE IF c.static_dev # "" THEN <<"known", {c.static_dev}, <<>>>>
            ELSE <<"violation", {}, <<"unparsable">>>>
       ELSE
         LET O == Observed(c)
             missing == (E \ OptionalFacts(c.ts, c.opts)) \ O
             extra == O \ E
             diff == missing \cup extra
             excusedKeys == {Key(e) : e \in broken}
             dropped == {e \in missing : DynInterfaceImplements(c, e)}
             dirdoc == {e \in missing : c.flavour # "dynamic" /\ e.what \in {"desc", "deprecated"} /\ e.a # "" /\ e.f = ""
                                         /\ "directives" \in DOMAIN c.ts /\ e.t \in DOMAIN c.ts.directives}
             unexplained == {e \in diff : Key(e) \notin excusedKeys /\ e \notin dropped /\ e \notin dirdoc}
             undefined == Undefined(AllFacts(c))
         IN IF undefined # {} /\ lexBroken = {}
            THEN <<"violation", {}, <<"undefined type", CHOOSE u \in undefined : TRUE>>>>
            ELSE IF diff = {} THEN <<"ok", {}, <<>>>>
            ELSE IF unexplained = {}
                 THEN <<"known", {DevOf(e, c.opts) : e \in {b \in broken : Key(b) \in {Key(x) : x \in diff}}}
                                 \cup (IF dropped # {} THEN {"DevDynInterfaceImplementsDropped"} ELSE {})
                                 \cup (IF dirdoc # {} THEN {"DevDirectiveArgDescriptionDropped"} ELSE {}), <<>>>>
            ELSE IF lexBroken # {} THEN <<"known", {DevOf(e, c.opts) : e \in lexBroken}, <<>>>>
            ELSE LET u == CHOOSE u \in unexplained : TRUE
                 IN <<"violation", {}, <<IF u \in missing THEN "missing" ELSE "extra", u.t, u.f, u.a, u.what, u.s>>>>

TInit == l \in {i \in 1..Len(Cases) : i % Chunk = 1 \/ Chunk = 1}
TNext == /\ l <= Len(Cases)
         /\ LET r == Verdict(Cases[l]) IN /\ \A d \in r[2] : PrintT(<<"DEV", Cases[l].id, d>>)
                                          /\ (IF r[3] = <<>> THEN TRUE ELSE PrintT(<<"WHY", Cases[l].id, ToJson(r[3])>>))
                                          /\ PrintT(<<"VERDICT", Cases[l].id, r[1]>>)
         /\ l % Chunk # 0
         /\ l' = l + 1
=============================================================================
