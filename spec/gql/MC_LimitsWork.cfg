CONSTANT MaxN = 14
CONSTANT MaxFan = 0
CONSTANT EqN = 10
INIT Init
NEXT Next
INVARIANT IdealPoly
INVARIANT FastIsCoded
INVARIANT FastIsCodedAt
INVARIANT AtIsPlain
INVARIANT DirRefusedCheap
INVARIANT Emit
