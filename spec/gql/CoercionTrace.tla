--------------------------- MODULE CoercionTrace ---------------------------
(***************************************************************************)
(* Mode V for C06.  Each recorded case (field, argument literals, variable *)
(* definitions, runtime variables, flavour, observation of the real        *)
(* library) is judged against Coercion!Expected and the binding            *)
(* projection:                                                             *)
(*   reference Ok(m)   <=> the resolver ran exactly once, no error, and    *)
(*                         observed exactly BindArgs(m) (presence-aware);  *)
(*   reference Fail(_) <=> at least one error and the resolver did not run.*)
(* Error messages and the request/field class of the error are not         *)
(* compared.  A mismatch that is reproduced by switching on named          *)
(* deviations whose trigger holds for the case (smallest set first) yields *)
(* "known:<Dev,...>"; anything else is a violation.                        *)
(***************************************************************************)
EXTENDS Coercion, Json, IOUtils

ASSUME TLCSet(7, ndJsonDeserialize(IOEnv.TRACE))
ASSUME TLCSet(8, JsonDeserialize(IOEnv.SCHEMA))
Cases == TLCGet(7)
S == TLCGet(8)
CONSTANT Chunk
VARIABLE l

StaticDevs  == {"DevVarUsageUnchecked", "DevVarTypeIgnored", "DevArgDefaultLostOnOmittedVar", "DevOmittedVarSkipsArgValidation",
                "DevEnumStringLiteral", "DevNonObjectForInputObject"}
DynamicDevs == {"DevVarUsageUnchecked", "DevVarTypeIgnored", "DevOmittedVarSkipsArgValidation", "DevEnumStringLiteral",
                "DevNonObjectForInputObject", "DevDynNoListCoercion", "DevDynNoFieldDefaults"}
DevsOf(c) == IF c.flavour = "dynamic" THEN DynamicDevs ELSE StaticDevs

Ctx(c, dev) == [S |-> S, vdefs |-> c.vdefs, supplied |-> c.supplied, dev |-> dev, flavour |-> c.flavour]

\* short codes keep the VERDICT tuples on one output line (the driver expands them again)
Code(d) == CASE d = "DevVarUsageUnchecked" -> "VU" [] d = "DevVarTypeIgnored" -> "VT" [] d = "DevArgDefaultLostOnOmittedVar" -> "AD"
             [] d = "DevOmittedVarSkipsArgValidation" -> "OV" [] d = "DevEnumStringLiteral" -> "ES"
             [] d = "DevNonObjectForInputObject" -> "NO" [] d = "DevDynNoListCoercion" -> "NL" [] d = "DevDynNoFieldDefaults" -> "ND"
RECURSIVE JoinSet(_)
JoinSet(D) == IF D = {} THEN "" ELSE LET x == CHOOSE y \in D : TRUE IN
              IF Cardinality(D) = 1 THEN Code(x) ELSE Code(x) \o "," \o JoinSet(D \ {x})

Matches(c, dev) ==
  LET e == Expected(Ctx(c, dev), c.field, c.args) IN
  IF e.ok
  THEN c.obs.calls = 1 /\ c.obs.nerr = 0 /\ c.obs.args = BindArgs(S, c.flavour = "dynamic", FieldDef(S, c.field), e.v)
  ELSE c.obs.calls = 0 /\ c.obs.nerr >= 1

\* deviations that can show on this case at all
Triggered(c) == {d \in DevsOf(c) : Trigger(Ctx(c, {}), d, FieldDef(S, c.field), c.args)}
Explaining(c) == {D \in SUBSET Triggered(c) : D # {} /\ Matches(c, D)}
FirstDev(c) ==
  LET E == Explaining(c) IN
  IF E = {} THEN "violation"
  ELSE "known:" \o JoinSet(CHOOSE D \in E : \A D2 \in E : Cardinality(D2) >= Cardinality(D))

Verdict(c) ==
  IF c.obs.problem # "" THEN "violation:problem"
  ELSE IF Matches(c, {}) THEN "ok"
  ELSE FirstDev(c)

\* informational: which kind of outcome the reference prescribes (ok / request / field)
Class(c) == LET e == Expected(Ctx(c, {}), c.field, c.args) IN IF e.ok THEN "ok" ELSE e.cls

TInit == l \in {i \in 1..Len(Cases) : i % Chunk = 1 \/ Chunk = 1}
Debug == IF "DEBUG" \in DOMAIN IOEnv THEN IOEnv.DEBUG = "1" ELSE FALSE
TNext == /\ l <= Len(Cases)
         /\ PrintT(<<"VERDICT", Cases[l].id, Verdict(Cases[l]), Class(Cases[l])>>)
         /\ (Debug => PrintT(<<"EXPECTED", Cases[l].id, ToJson(Expected(Ctx(Cases[l], {}), Cases[l].field, Cases[l].args))>>))
         /\ l % Chunk # 0
         /\ l' = l + 1
=============================================================================
