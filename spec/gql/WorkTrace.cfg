CONSTANT UsPerUnit = 1
CONSTANT SlackUs = 100000
INIT TInit
NEXT TNext
