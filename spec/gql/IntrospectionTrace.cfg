INIT TInit
NEXT TNext
