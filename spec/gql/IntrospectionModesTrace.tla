---------------------- MODULE IntrospectionModesTrace ----------------------
(***************************************************************************)
(* Mode V for C19.  Every recorded case (modes, operation, abstract        *)
(* document, observation of the real library: per response the ordered     *)
(* data, and the log of user resolvers invoked) is judged against the      *)
(* table of IntrospectionModes:                                            *)
(*   metadata   ~MetadataAllowed(s, r)  => no response holds a non-null    *)
(*              value under the response key of __schema / __type /        *)
(*              _service                                                   *)
(*   resolver   ~ResolversAllowed(s, r) => the resolver log is empty       *)
(*   typename   __typename resolves to the name of the object type         *)
(*              whenever no other selected root field may be refused in    *)
(*              the cell (a refused field legitimately fails the request)  *)
(* A failure is "known:<Dev..>" iff the deviations' trigger predicates     *)
(* hold and the observation stays within what the implementation-shaped    *)
(* model predicts with exactly these deviations switched on.               *)
(* The fourth element of a VERDICT line reports drift between the exact    *)
(* prediction of the implementation-shaped model (today's deviations on)   *)
(* and the observation; it never changes the verdict.                      *)
(***************************************************************************)
EXTENDS IntrospectionModes

ASSUME TLCSet(7, ndJsonDeserialize(IOEnv.TRACE))
Cases == TLCGet(7)
VARIABLE l

Missing == [k |-> "missing"]
RECURSIVE GetFrom(_, _, _)
GetFrom(entries, key, i) == IF i > Len(entries) THEN Missing ELSE IF entries[i].key = key THEN entries[i].val ELSE GetFrom(entries, key, i + 1)
Get(val, key) == IF val.k = "obj" THEN GetFrom(val.entries, key, 1) ELSE Missing

\* ---- what the property looks at (reference field collection, GraphQL 6.3.2) ----
PFields(x) == RootFields(x, x.doc)
PKinds(x) == LET fs == PFields(x) IN {KindOfName(x.op, fs[i].name) : i \in 1..Len(fs)}
MetaKeys(x) == LET fs == PFields(x) IN {fs[i].key : i \in {j \in 1..Len(fs) : KindOfName(x.op, fs[j].name) \in MetaKinds}}
ObsMetaKeys(x) == {key \in MetaKeys(x) : \E i \in 1..Len(x.obs.resps) : Get(x.obs.resps[i].data, key) \notin {Missing, Null}}
ObsLog(x) == {x.obs.log[i] : i \in 1..Len(x.obs.log)}

\* a root field of this kind may legitimately be refused (error / rejected request) in this cell of the table.
\* The property leaves open whether the service description is served under IntrospectionOnly.
MayRefuse(x, k) ==
  \/ k = "unknown"
  \/ k \in QueryOnlyKinds /\ x.op # "query"
  \/ k \in {"__schema", "__type"} /\ ~MetadataAllowed(x.s, x.r)
  \/ k = "_service" /\ (~MetadataAllowed(x.s, x.r) \/ ~ResolversAllowed(x.s, x.r))
  \/ k \in ResolverKinds /\ ~ResolversAllowed(x.s, x.r)
  \/ k = "__typename" /\ x.op = "subscription"        \* Oct 2021 5.2.3.1: not a valid subscription root field
TypenameRequired(x) == \A k \in PKinds(x) : ~MayRefuse(x, k)

TypenameInField(x, f, data, rootVal) ==
  LET k == KindOfName(x.op, f.name)
      v == Get(data, f.key)
  IN CASE k = "__typename" -> v = rootVal[f.key]
       \* below a field __typename can only be judged where the parent object was produced
       [] k = "nested"     -> v \in {Missing, Null} \/ Get(v, "__typename") = Str(NestedType(RootName(x.op)))
       [] k = "_entities"  -> v \in {Missing, Null} \/ (v.k = "list" /\ \A n \in 1..Len(v.items) : v.items[n] = Null \/ Get(v.items[n], "__typename") = Str(TS.entity.type))
       [] OTHER -> TRUE
TypenameOKAs(x, rootName) ==
  LET fs == PFields(x) IN
  IF x.op = "subscription"
  THEN \A i \in 1..Len(fs) : \A j \in 1..Len(x.obs.resps) : TypenameInField(x, fs[i], x.obs.resps[j].data, rootName)
  ELSE Len(x.obs.resps) = 1 /\ \A i \in 1..Len(fs) : TypenameInField(x, fs[i], x.obs.resps[1].data, rootName)
RootKeys(x) == LET fs == PFields(x) IN {fs[i].key : i \in 1..Len(fs)}
TypenameOK(x) == TypenameOKAs(x, [k \in RootKeys(x) |-> Str(RootName(x.op))])
\* DevStaticEmptyMutationTypename: the substituted root reports its own name where its fragments apply, nothing elsewhere
TypenameOKDev(x) == TypenameOKAs(x, [k \in RootKeys(x) |-> IF k \in EmptyRootKeys(x, x.doc) THEN Str("EmptyMutation") ELSE Missing])

Failures(x) ==
  (IF ~MetadataAllowed(x.s, x.r) /\ ObsMetaKeys(x) # {} THEN {"metadata"} ELSE {})
  \cup (IF ~ResolversAllowed(x.s, x.r) /\ ObsLog(x) # {} THEN {"resolver"} ELSE {})
  \cup (IF TypenameRequired(x) /\ ~TypenameOK(x) THEN {"typename"} ELSE {})

RECURSIVE JoinSet(_)
JoinSet(S) == IF S = {} THEN "" ELSE LET m == CHOOSE y \in S : TRUE IN
              IF Cardinality(S) = 1 THEN m ELSE m \o "," \o JoinSet(S \ {m})

Explained(x, D) ==
  /\ \A d \in D : Trigger(d, x, x.doc)
  /\ ("typename" \in Failures(x) => "DevStaticEmptyMutationTypename" \in D /\ TypenameOKDev(x))
  /\ ObsMetaKeys(x) \subseteq ModelMayServe(x, x.doc, D)
  /\ ObsLog(x) \subseteq ModelMayInvoke(x, x.doc, D)
Verdict(x) ==
  IF x.obs.problem # "" THEN "violation:problem"
  ELSE IF Failures(x) = {} THEN "ok"
  ELSE LET E == {D \in SUBSET Devs : D # {} /\ Explained(x, D)} IN
       IF E = {} THEN "violation:" \o JoinSet(Failures(x))
       ELSE "known:" \o JoinSet(CHOOSE D \in E : \A D2 \in E : Cardinality(D2) >= Cardinality(D))

\* drift: exact prediction of the implementation-shaped model with today's deviations
Drift(x) ==
  IF x.obs.problem # "" THEN "problem"
  ELSE IF ObsMetaKeys(x) # ModelServes(x, x.doc, Devs) THEN "serves"
  ELSE IF ObsLog(x) # ModelInvokes(x, x.doc, Devs) THEN "invokes"
  ELSE ""

TInit == l = 1 /\ c = [s |-> "Enabled"]
TNext == /\ l <= Len(Cases)
         /\ PrintT(<<"VERDICT", Cases[l].id, Verdict(Cases[l]), Drift(Cases[l])>>)
         /\ l' = l + 1 /\ UNCHANGED c
=============================================================================
