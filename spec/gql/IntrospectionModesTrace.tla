---------------------- MODULE IntrospectionModesTrace ----------------------
(***************************************************************************)
(* Mode V for C19.  Every recorded case (modes, operation, abstract        *)
(* document, observation of the real library: per response the ordered     *)
(* data, and the log of user resolvers invoked) is judged against the      *)
(* table of IntrospectionModes:                                            *)
(*   metadata   ~MetadataAllowed(s, r)  => no response holds a non-null    *)
(*              value under the response key of __schema / __type /        *)
(*              _service                                                   *)
(*   resolver   ~ResolversAllowed(s, r) => the resolver log is empty       *)
(*   typename   __typename resolves to the name of the object type         *)
(*              whenever no other selected root field may be refused in    *)
(*              the cell (a refused field legitimately fails the request)  *)
(* A failure is "known:<Dev..>" iff the deviations' trigger predicates     *)
(* hold and the observation stays within what the implementation-shaped    *)
(* model predicts with exactly these deviations switched on.               *)
(* The fourth element of a VERDICT line reports drift between the exact    *)
(* prediction of the implementation-shaped model (today's deviations on)   *)
(* and the observation; it never changes the verdict.  The fifth is 1 when *)
(* the case demanded a root __typename (vacuity accounting).               *)
(***************************************************************************)
EXTENDS IntrospectionModes

ASSUME TLCSet(7, ndJsonDeserialize(IOEnv.TRACE))
Cases == TLCGet(7)
VARIABLE l

Missing == [k |-> "missing"]
RECURSIVE GetFrom(_, _, _)
GetFrom(entries, key, i) == IF i > Len(entries) THEN Missing ELSE IF entries[i].key = key THEN entries[i].val ELSE GetFrom(entries, key, i + 1)
Get(val, key) == IF val.k = "obj" THEN GetFrom(val.entries, key, 1) ELSE Missing

\* ---- what the property looks at (reference field collection, GraphQL 6.3.2) ----
\* a root field of this kind may legitimately be refused (error / rejected request) in this cell of the table.
\* The property leaves open whether the service description is served under IntrospectionOnly.
MayRefuse(x, k) ==
  \/ k = "unknown"
  \/ k \in QueryOnlyKinds /\ x.op # "query"
  \/ k \in {"__schema", "__type"} /\ ~MetadataAllowed(x.s, x.r)
  \/ k = "_service" /\ (~MetadataAllowed(x.s, x.r) \/ ~ResolversAllowed(x.s, x.r))
  \/ k \in ResolverKinds /\ ~ResolversAllowed(x.s, x.r)
  \/ k = "__typename" /\ x.op = "subscription"        \* Oct 2021 5.2.3.1: not a valid subscription root field

\* rootVal: response key -> the value a root __typename must have
TypenameInField(x, f, data, rootVal) ==
  LET k == KindOfName(x.op, f.name)
      v == Get(data, f.key)
  IN CASE k = "__typename" -> v = rootVal[f.key]
       \* below a field __typename can only be judged where the parent object was produced
       [] k = "nested"     -> v \in {Missing, Null} \/ Get(v, "__typename") = Str(NestedType(RootName(x.op)))
       [] k = "_entities"  -> v \in {Missing, Null} \/ (v.k = "list" /\ \A n \in 1..Len(v.items) : v.items[n] = Null \/ Get(v.items[n], "__typename") = Str(TS.entity.type))
       [] OTHER -> TRUE
TypenameOKAs(x, fs, rootVal) ==
  IF x.op = "subscription"
  THEN \A i \in 1..Len(fs) : \A j \in 1..Len(x.obs.resps) : TypenameInField(x, fs[i], x.obs.resps[j].data, rootVal)
  ELSE Len(x.obs.resps) = 1 /\ \A i \in 1..Len(fs) : TypenameInField(x, fs[i], x.obs.resps[1].data, rootVal)

RECURSIVE JoinSet(_)
JoinSet(S) == IF S = {} THEN "" ELSE LET m == CHOOSE y \in S : TRUE IN
              IF Cardinality(S) = 1 THEN m ELSE m \o "," \o JoinSet(S \ {m})

\* <<verdict, drift>> of one recorded case
Judge(x) ==
  LET fs       == RootFields(x, x.doc)                       \* property side: reference field collection
      ef       == IF x.op = "subscription" THEN DirectFields(x.doc) ELSE fs    \* what the executor looks at
      kinds    == {KindOfName(x.op, fs[i].name) : i \in 1..Len(fs)}
      rootKeys == {fs[i].key : i \in 1..Len(fs)}
      metaKeys == {fs[i].key : i \in {j \in 1..Len(fs) : KindOfName(x.op, fs[j].name) \in MetaKinds}}
      obsMeta  == {key \in metaKeys : \E i \in 1..Len(x.obs.resps) : Get(x.obs.resps[i].data, key) \notin {Missing, Null}}
      obsLog   == {x.obs.log[i] : i \in 1..Len(x.obs.log)}
      tnReq    == \A k \in kinds : ~MayRefuse(x, k)
      tnOK     == TypenameOKAs(x, fs, [k \in rootKeys |-> Str(RootName(x.op))])
      \* DevStaticEmptyMutationTypename: the substituted root reports its own name where its fragments apply, nothing elsewhere
      tnOKDev  == TypenameOKAs(x, fs, [k \in rootKeys |-> IF k \in EmptyRootKeys(x, x.doc) THEN Str("EmptyMutation") ELSE Missing])
      failures == (IF ~MetadataAllowed(x.s, x.r) /\ obsMeta # {} THEN {"metadata"} ELSE {})
                  \cup (IF ~ResolversAllowed(x.s, x.r) /\ obsLog # {} THEN {"resolver"} ELSE {})
                  \cup (IF tnReq /\ ~tnOK THEN {"typename"} ELSE {})
      Explained(D) ==
        LET o == Outcomes(x, x.doc, ef, D) IN
        /\ \A d \in D : Trigger(d, x, ef)
        /\ ("typename" \in failures => "DevStaticEmptyMutationTypename" \in D /\ tnOKDev)
        /\ obsMeta \subseteq MayServeO(o)
        /\ obsLog \subseteq MayInvokeO(x, o)
      verdict ==
        IF x.obs.problem # "" THEN "violation:problem"
        ELSE IF failures = {} THEN "ok"
        ELSE LET E == {D \in SUBSET Devs : D # {} /\ Explained(D)} IN
             IF E = {} THEN "violation:" \o JoinSet(failures)
             ELSE "known:" \o JoinSet(CHOOSE D \in E : \A D2 \in E : Cardinality(D2) >= Cardinality(D))
      \* drift: exact prediction of the implementation-shaped model with today's deviations
      today == Outcomes(x, x.doc, ef, Devs)
      drift ==
        IF x.obs.problem # "" THEN "problem"
        ELSE IF obsMeta # ServesO(today) THEN "serves"
        ELSE IF obsLog # InvokesO(x, today) THEN "invokes"
        ELSE ""
  IN <<verdict, drift, IF tnReq /\ "__typename" \in kinds THEN 1 ELSE 0>>

TInit == l = 1 /\ c = [s |-> "Enabled"]
TNext == /\ l <= Len(Cases)
         /\ LET j == Judge(Cases[l]) IN PrintT(<<"VERDICT", Cases[l].id, j[1], j[2], j[3]>>)
         /\ l' = l + 1 /\ UNCHANGED c
=============================================================================
