------------------------------ MODULE Validation ------------------------------
(***************************************************************************)
(* Reference semantics of GraphQL document validation (specification       *)
(* October 2021, section 5), written over                                  *)
(*   - an abstract type system  ts  (schemas/valid.json: DESIGN appendix A *)
(*     extended with field arguments, input objects, directive definitions)*)
(*   - an abstract executable document  doc  (tree form).                  *)
(* A context C bundles [ts, doc, vars, opName, flavour, dev]; dev is the   *)
(* set of named deviations of today's implementation that are switched on  *)
(* (empty for the ideal semantics).                                        *)
(*                                                                         *)
(* One operator per rule; each returns the SET OF VIOLATED CLAUSES (strings*)
(* "Rule" or "Rule.clause"), so that a disagreement with the               *)
(* implementation is attributed to a rule.  Valid(C) == all sets empty.    *)
(*                                                                         *)
(* Document format                                                         *)
(*   doc   [ops : Seq(op), frags : Seq(frag)]                              *)
(*   op    [name, ty : "query"|"mutation"|"subscription", vars : Seq(vdef),*)
(*          dirs : Seq(dir), sels : Seq(sel)]                              *)
(*   vdef  [name, ty : TY, hasDefault, default : V, dirs]                  *)
(*   frag  [name, on, dirs, sels]                                          *)
(*   sel   [k:"field", name, alias, args : Seq([name,val]), dirs, sels]    *)
(*       | [k:"inline", on ("" = none), dirs, sels] | [k:"spread", name, dirs] *)
(*   dir   [name, args : Seq([name,val])]                                  *)
(*   V     [k:"null"] | [k:"int"|"float"|"str"|"bool"|"enum", v]           *)
(*       | [k:"list", items] | [k:"obj", entries : Seq([key,val])] | [k:"var", name] *)
(*   TY    [k:"named", n] | [k:"list", of] | [k:"nn", of]                  *)
(***************************************************************************)
EXTENDS Naturals, Sequences, FiniteSets, TLC

----------------------------------------------------------------------------
(* generic helpers *)
InSeq(x, s) == \E i \in 1..Len(s) : s[i] = x
Range(s) == {s[i] : i \in 1..Len(s)}
RECURSIVE Flatten(_)
Flatten(ss) == IF ss = <<>> THEN <<>> ELSE Head(ss) \o Flatten(Tail(ss))
RECURSIVE UnionAll(_)
UnionAll(ss) == IF ss = <<>> THEN {} ELSE Head(ss) \cup UnionAll(Tail(ss))
Dev(C, d) == d \in C.dev

----------------------------------------------------------------------------
(* type system (spec section 3) *)
BuiltinScalars == {"Int", "Float", "String", "Boolean", "ID"}
TypeExists(C, t) == t \in DOMAIN C.ts.types \/ t \in BuiltinScalars
Kind(C, t) == IF t \in DOMAIN C.ts.types THEN C.ts.types[t].kind
              ELSE IF t \in BuiltinScalars THEN "SCALAR" ELSE "NONE"
TypeDef(C, t) == C.ts.types[t]
IsComposite(C, t) == Kind(C, t) \in {"OBJECT", "INTERFACE", "UNION"}
IsLeaf(C, t) == Kind(C, t) \in {"SCALAR", "ENUM"}
IsInputType(C, t) == Kind(C, t) \in {"SCALAR", "ENUM", "INPUT_OBJECT"}     \* 3.4.2 IsInputType on the named type
Objects(C) == {t \in DOMAIN C.ts.types : C.ts.types[t].kind = "OBJECT"}
\* 5.5.2.3 GetPossibleTypes
PossibleTypes(C, t) ==
  CASE Kind(C, t) = "OBJECT"    -> {t}
    [] Kind(C, t) = "INTERFACE" -> {o \in Objects(C) : InSeq(t, TypeDef(C, o).implements)}
    [] Kind(C, t) = "UNION"     -> Range(TypeDef(C, t).members)
    [] OTHER -> {}

RECURSIVE NamedOf(_)
NamedOf(ty) == IF ty.k = "named" THEN ty.n ELSE NamedOf(ty.of)
NullableOf(ty) == IF ty.k = "nn" THEN ty.of ELSE ty
TName(n) == [k |-> "named", n |-> n]
TNN(t) == [k |-> "nn", of |-> t]

\* the meta field __typename : String! exists on every composite type (4.4)
TypenameDef == [ty |-> TNN(TName("String")), args |-> <<>>]
HasField(C, parent, f) ==
  IF f = "__typename" THEN IsComposite(C, parent)
  ELSE Kind(C, parent) \in {"OBJECT", "INTERFACE"} /\ f \in DOMAIN TypeDef(C, parent).fields
FieldDef(C, parent, f) == IF f = "__typename" THEN TypenameDef ELSE TypeDef(C, parent).fields[f]
HasArg(args, n) == \E i \in 1..Len(args) : args[i].name = n
ArgDef(args, n) == args[CHOOSE i \in 1..Len(args) : args[i].name = n]

\* directive definitions of the schema (a directive flagged staticOnly exists only in derive-built schemas)
DirNames(C) == {d \in DOMAIN C.ts.directives : C.flavour = "static" \/ ~C.ts.directives[d].staticOnly}
DirDef(C, d) == C.ts.directives[d]

RootType(C, opty) == IF opty = "mutation" THEN C.ts.mutation ELSE IF opty = "subscription" THEN C.ts.subscription ELSE C.ts.query

----------------------------------------------------------------------------
(* document access *)
Ops(C) == C.doc.ops
Frags(C) == C.doc.frags
HasFrag(C, n) == \E i \in 1..Len(Frags(C)) : Frags(C)[i].name = n
Frag(C, n) == Frags(C)[CHOOSE i \in 1..Len(Frags(C)) : Frags(C)[i].name = n]
OpScope(i) == "op#" \o ToString(i)
Key(f) == IF f.alias = "" THEN f.name ELSE f.alias

\* Known deviation DevTypenameNotVisited: the validator's walker never visits `__typename` field nodes
\* (src/validation/visitor.rs visit_selection): their arguments, directives and sub-selections are not
\* validated and variables used there count neither as used nor as undefined.
SkipNode(C, s) == s.k = "field" /\ s.name = "__typename" /\ Dev(C, "DevTypenameNotVisited")

(* Items: every definition and selection of the document in document order, each with the static type  *)
(* of the selection set it occurs in (parent; "" when unknown) and its scope (operation or fragment).   *)
Item(kind, node, parent, scope) == [kind |-> kind, node |-> node, parent |-> parent, scope |-> scope]
RECURSIVE WalkSels(_, _, _, _)
WalkSels(C, sels, parent, scope) ==
  IF sels = <<>> THEN <<>>
  ELSE LET s == Head(sels)
           here ==
             IF SkipNode(C, s) THEN <<>>
             ELSE IF s.k = "field" THEN
               LET sub == IF parent # "" /\ HasField(C, parent, s.name) THEN NamedOf(FieldDef(C, parent, s.name).ty) ELSE ""
               IN <<Item("field", s, parent, scope)>> \o WalkSels(C, s.sels, sub, scope)
             ELSE IF s.k = "inline" THEN
               LET sub == IF s.on = "" THEN parent ELSE IF TypeExists(C, s.on) THEN s.on ELSE ""
               IN <<Item("inline", s, parent, scope)>> \o WalkSels(C, s.sels, sub, scope)
             ELSE <<Item("spread", s, parent, scope)>>
       IN here \o WalkSels(C, Tail(sels), parent, scope)

OpItems(C, i) ==
  LET op == Ops(C)[i] IN
  <<Item("op", op, "", OpScope(i))>>
  \o [j \in 1..Len(op.vars) |-> Item("vardef", op.vars[j], "", OpScope(i))]
  \o WalkSels(C, op.sels, RootType(C, op.ty), OpScope(i))
FragItems(C, i) ==
  LET fr == Frags(C)[i] IN
  <<Item("frag", fr, "", fr.name)>> \o WalkSels(C, fr.sels, IF TypeExists(C, fr.on) THEN fr.on ELSE "", fr.name)
Items(C) == Flatten([i \in 1..Len(Ops(C)) |-> OpItems(C, i)]) \o Flatten([i \in 1..Len(Frags(C)) |-> FragItems(C, i)])

\* field items whose definition is known
FieldKnown(C, it) == it.kind = "field" /\ it.parent # "" /\ HasField(C, it.parent, it.node.name)
DefOf(C, it) == FieldDef(C, it.parent, it.node.name)

(* directive occurrences with their location (5.7.2) *)
LocOf(it) ==
  CASE it.kind = "op" -> (IF it.node.ty = "query" THEN "QUERY" ELSE IF it.node.ty = "mutation" THEN "MUTATION" ELSE "SUBSCRIPTION")
    [] it.kind = "vardef" -> "VARIABLE_DEFINITION"
    [] it.kind = "frag" -> "FRAGMENT_DEFINITION"
    [] it.kind = "field" -> "FIELD"
    [] it.kind = "inline" -> "INLINE_FRAGMENT"
    [] it.kind = "spread" -> "FRAGMENT_SPREAD"
DirUses(C, items) ==
  Flatten([i \in 1..Len(items) |-> [j \in 1..Len(items[i].node.dirs) |->
             [dir |-> items[i].node.dirs[j], loc |-> LocOf(items[i]), scope |-> items[i].scope]]])

(* argument lists: of every field and every directive; `known` says whether definitions are available *)
ArgLists(C, items) ==
  LET fields == [i \in 1..Len(items) |->
                   IF items[i].kind = "field"
                   THEN <<[args |-> items[i].node.args, known |-> FieldKnown(C, items[i]),
                           defs |-> IF FieldKnown(C, items[i]) THEN DefOf(C, items[i]).args ELSE <<>>, scope |-> items[i].scope]>>
                   ELSE <<>>]
      du == DirUses(C, items)
      dirs == [i \in 1..Len(du) |->
                 [args |-> du[i].dir.args, known |-> du[i].dir.name \in DirNames(C),
                  defs |-> IF du[i].dir.name \in DirNames(C) THEN DirDef(C, du[i].dir.name).args ELSE <<>>, scope |-> du[i].scope]]
  IN Flatten(fields) \o dirs

----------------------------------------------------------------------------
(* 5.2 Operations *)
\* 5.2.1.1 Operation Name Uniqueness
UniqueOperationNames(C) ==
  IF \E i, j \in 1..Len(Ops(C)) : i < j /\ Ops(C)[i].name # "" /\ Ops(C)[i].name = Ops(C)[j].name
  THEN {"UniqueOperationNames"} ELSE {}
\* 5.2.2.1 Lone Anonymous Operation
LoneAnonymousOperation(C) ==
  IF (\E i \in 1..Len(Ops(C)) : Ops(C)[i].name = "") /\ Len(Ops(C)) > 1 THEN {"LoneAnonymousOperation"} ELSE {}

\* 6.3.2 DoesFragmentTypeApply for an object type
FragTypeApplies(C, obj, cond) == cond = "" \/ obj \in PossibleTypes(C, cond)
\* 6.3.2 CollectFields without @skip/@include (5.2.3.1 evaluates it with no variable values); returns the
\* sequence of collected field nodes
RECURSIVE CollectRoot(_, _, _, _)
CollectRoot(C, obj, sels, visited) ==
  IF sels = <<>> THEN [f |-> <<>>, v |-> visited]
  ELSE LET s == Head(sels)
           r == IF s.k = "field" THEN [f |-> <<s>>, v |-> visited]
                ELSE IF s.k = "inline" THEN
                   (IF FragTypeApplies(C, obj, s.on) THEN CollectRoot(C, obj, s.sels, visited) ELSE [f |-> <<>>, v |-> visited])
                ELSE IF s.name \in visited \/ ~HasFrag(C, s.name) THEN [f |-> <<>>, v |-> visited]
                ELSE IF FragTypeApplies(C, obj, Frag(C, s.name).on) THEN CollectRoot(C, obj, Frag(C, s.name).sels, visited \cup {s.name})
                ELSE [f |-> <<>>, v |-> visited \cup {s.name}]
           rest == CollectRoot(C, obj, Tail(sels), r.v)
       IN [f |-> r.f \o rest.f, v |-> rest.v]
IsIntrospectionName(n) == n \in {"__typename", "__schema", "__type"}
\* 5.2.3.1 Single root field
\* Known deviation DevNoSingleRootFieldRule: the rule does not exist; the walker only refuses `__typename`
\* selected directly in a selection set whose static type is the subscription root type.
RECURSIVE TypenameOnSubscription(_, _, _)
TypenameOnSubscription(C, sels, parent) ==
  \E i \in 1..Len(sels) :
     LET s == sels[i] IN
     CASE s.k = "field" -> (s.name = "__typename" /\ parent = C.ts.subscription)
                           \/ (s.name # "__typename" /\ parent # "" /\ HasField(C, parent, s.name)
                               /\ TypenameOnSubscription(C, s.sels, NamedOf(FieldDef(C, parent, s.name).ty)))
       [] s.k = "inline" -> TypenameOnSubscription(C, s.sels, IF s.on = "" THEN parent ELSE IF TypeExists(C, s.on) THEN s.on ELSE "")
       [] OTHER -> FALSE
SingleRootFieldSubscription(C) ==
  IF Dev(C, "DevNoSingleRootFieldRule")
  THEN IF (\E i \in 1..Len(Ops(C)) : TypenameOnSubscription(C, Ops(C)[i].sels, RootType(C, Ops(C)[i].ty)))
          \/ (\E i \in 1..Len(Frags(C)) : TypenameOnSubscription(C, Frags(C)[i].sels, IF TypeExists(C, Frags(C)[i].on) THEN Frags(C)[i].on ELSE ""))
       THEN {"SingleRootFieldSubscription.introspection"} ELSE {}
  ELSE UnionAll([i \in 1..Len(Ops(C)) |->
         IF Ops(C)[i].ty # "subscription" THEN {}
         ELSE LET fs == CollectRoot(C, C.ts.subscription, Ops(C)[i].sels, {}).f
                  keys == {Key(fs[j]) : j \in 1..Len(fs)}
              IN (IF Cardinality(keys) # 1 THEN {"SingleRootFieldSubscription.single"} ELSE {})
                 \cup (IF \E j \in 1..Len(fs) : IsIntrospectionName(fs[j].name) THEN {"SingleRootFieldSubscription.introspection"} ELSE {})])

----------------------------------------------------------------------------
(* 5.3 Fields *)
\* 5.3.1 Field Selections: the field must be defined on the type of the enclosing selection set
FieldsOnCorrectType(C, items) ==
  IF \E i \in 1..Len(items) : items[i].kind = "field" /\ IsComposite(C, items[i].parent) /\ ~HasField(C, items[i].parent, items[i].node.name)
  THEN {"FieldsOnCorrectType"} ELSE {}

\* 5.3.3 Leaf Field Selections
ScalarLeafs(C, items) ==
  UnionAll([i \in 1..Len(items) |->
    IF ~FieldKnown(C, items[i]) THEN {}
    ELSE LET t == NamedOf(DefOf(C, items[i]).ty) IN
         IF IsLeaf(C, t) /\ items[i].node.sels # <<>> THEN {"ScalarLeafs.selectionOnLeaf"}
         ELSE IF IsComposite(C, t) /\ items[i].node.sels = <<>> THEN {"ScalarLeafs.noSelectionOnComposite"}
         ELSE {}])

(* 5.3.2 Field Selection Merging.                                                                        *)
(* FieldsWithParents: all fields of a list of (selection set, parent type) pairs with fragments          *)
(* expanded ("including visiting fragments and inline fragments"), each with the static parent type.     *)
RECURSIVE FWP(_, _, _, _)
FWP(C, sels, parent, visited) ==    \* returns [f : Seq([node, parent]), v : visited fragment names]
  IF sels = <<>> THEN [f |-> <<>>, v |-> visited]
  ELSE LET s == Head(sels)
           r == IF s.k = "field" THEN [f |-> <<[node |-> s, parent |-> parent]>>, v |-> visited]
                ELSE IF s.k = "inline" THEN FWP(C, s.sels, IF s.on = "" THEN parent ELSE IF TypeExists(C, s.on) THEN s.on ELSE "", visited)
                ELSE IF s.name \in visited \/ ~HasFrag(C, s.name) THEN [f |-> <<>>, v |-> visited]
                ELSE FWP(C, Frag(C, s.name).sels, IF TypeExists(C, Frag(C, s.name).on) THEN Frag(C, s.name).on ELSE "", visited \cup {s.name})
           rest == FWP(C, Tail(sels), parent, r.v)
       IN [f |-> r.f \o rest.f, v |-> rest.v]
\* the selection sets of two fields merged: A's sub-fields have A's return type as parent, B's have B's
SubFields(C, fp) ==
  IF fp.parent # "" /\ HasField(C, fp.parent, fp.node.name)
  THEN FWP(C, fp.node.sels, NamedOf(FieldDef(C, fp.parent, fp.node.name).ty), {}).f
  ELSE FWP(C, fp.node.sels, "", {}).f

SameArgs(a, b) ==     \* "identical sets of arguments": same names, same values, order irrelevant
  /\ \A i \in 1..Len(a) : \E j \in 1..Len(b) : a[i].name = b[j].name /\ a[i].val = b[j].val
  /\ \A j \in 1..Len(b) : \E i \in 1..Len(a) : a[i].name = b[j].name /\ a[i].val = b[j].val

RECURSIVE ShapeTypes(_, _, _)
\* SameResponseShape steps 3-6 on the two return types; TRUE, FALSE, or "composite" when sub-selections decide
ShapeTypes(C, ta, tb) ==
  IF ta.k = "nn" \/ tb.k = "nn" THEN (IF ta.k = "nn" /\ tb.k = "nn" THEN ShapeTypes(C, ta.of, tb.of) ELSE "no")
  ELSE IF ta.k = "list" \/ tb.k = "list" THEN (IF ta.k = "list" /\ tb.k = "list" THEN ShapeTypes(C, ta.of, tb.of) ELSE "no")
  ELSE IF IsLeaf(C, ta.n) \/ IsLeaf(C, tb.n) THEN (IF ta.n = tb.n THEN "yes" ELSE "no")
  ELSE IF IsComposite(C, ta.n) /\ IsComposite(C, tb.n) THEN "composite" ELSE "no"

RECURSIVE SameResponseShape(_, _, _), AllSameShape(_, _)
AllSameShape(C, fps) ==
  \A i, j \in 1..Len(fps) : (i < j /\ Key(fps[i].node) = Key(fps[j].node)) => SameResponseShape(C, fps[i], fps[j])
SameResponseShape(C, a, b) ==
  IF ~(a.parent # "" /\ HasField(C, a.parent, a.node.name) /\ b.parent # "" /\ HasField(C, b.parent, b.node.name)) THEN TRUE
  ELSE LET r == ShapeTypes(C, FieldDef(C, a.parent, a.node.name).ty, FieldDef(C, b.parent, b.node.name).ty) IN
       IF r = "yes" THEN TRUE ELSE IF r = "no" THEN FALSE
       ELSE AllSameShape(C, SubFields(C, a) \o SubFields(C, b))

RECURSIVE FieldsCanMerge(_, _)
FieldsCanMerge(C, fps) ==      \* FieldsInSetCanMerge on an expanded field list
  \A i, j \in 1..Len(fps) :
    (i < j /\ Key(fps[i].node) = Key(fps[j].node)) =>
       LET a == fps[i]
           b == fps[j]
       IN /\ SameResponseShape(C, a, b)
          /\ (a.parent = b.parent \/ Kind(C, a.parent) # "OBJECT" \/ Kind(C, b.parent) # "OBJECT") =>
               /\ a.node.name = b.node.name
               /\ SameArgs(a.node.args, b.node.args)
               /\ FieldsCanMerge(C, SubFields(C, a) \o SubFields(C, b))

\* every selection set of the document with the static type it is evaluated in
RECURSIVE SelSets(_, _, _)
SelSets(C, sels, parent) ==
  IF sels = <<>> THEN <<>>
  ELSE <<[sels |-> sels, parent |-> parent]>> \o
       Flatten([i \in 1..Len(sels) |->
          LET s == sels[i] IN
          IF s.k = "field" THEN SelSets(C, s.sels, IF parent # "" /\ HasField(C, parent, s.name) THEN NamedOf(FieldDef(C, parent, s.name).ty) ELSE "")
          ELSE IF s.k = "inline" THEN SelSets(C, s.sels, IF s.on = "" THEN parent ELSE IF TypeExists(C, s.on) THEN s.on ELSE "")
          ELSE <<>>])
AllSelSets(C) ==
  Flatten([i \in 1..Len(Ops(C)) |-> SelSets(C, Ops(C)[i].sels, RootType(C, Ops(C)[i].ty))])
  \o Flatten([i \in 1..Len(Frags(C)) |-> SelSets(C, Frags(C)[i].sels, IF TypeExists(C, Frags(C)[i].on) THEN Frags(C)[i].on ELSE "")])

FieldsInSetCanMergeIdeal(C) ==
  LET ss == AllSelSets(C) IN
  IF \A i \in 1..Len(ss) : FieldsCanMerge(C, FWP(C, ss[i].sels, ss[i].parent, {}).f) THEN {} ELSE {"FieldsInSetCanMerge"}

(* What OverlappingFieldsCanBeMerged of today's implementation computes                                  *)
(* (src/validation/rules/overlapping_fields_can_be_merged.rs): for every non-empty selection set the     *)
(* fields reachable through fragments are keyed by (innermost *written* type condition or none,          *)
(* an inline fragment without condition keeps the enclosing one;                                         *)
(* response key); two fields with the same key conflict when their names or arguments differ.  No        *)
(* parent types, no merged sub-selections, no response shapes.                                           *)
RECURSIVE ImplKeyed(_, _, _, _)
ImplKeyed(C, sels, on, visited) ==   \* [f : Seq([on, node]), v]
  IF sels = <<>> THEN [f |-> <<>>, v |-> visited]
  ELSE LET s == Head(sels)
           r == IF s.k = "field" THEN [f |-> <<[on |-> on, node |-> s]>>, v |-> visited]
                ELSE IF s.k = "inline" THEN ImplKeyed(C, s.sels, IF s.on = "" THEN on ELSE s.on, visited)
                ELSE IF ~HasFrag(C, s.name) \/ s.name \in visited THEN [f |-> <<>>, v |-> visited]
                ELSE ImplKeyed(C, Frag(C, s.name).sels, Frag(C, s.name).on, visited \cup {s.name})
           rest == ImplKeyed(C, Tail(sels), on, r.v)
       IN [f |-> r.f \o rest.f, v |-> rest.v]
ImplArgsDiffer(a, b) ==     \* compared against the FIRST field stored under the key
  \/ Len(a) # Len(b)
  \/ \E i \in 1..Len(a) : ~\E j \in 1..Len(b) : b[j].name = a[i].name /\ (\A j2 \in 1..j - 1 : b[j2].name # a[i].name) /\ b[j].val = a[i].val
ImplConflictIn(C, sels) ==
  LET fs == ImplKeyed(C, sels, "", {}).f IN
  \E j \in 1..Len(fs) :
     LET firsts == {i \in 1..j - 1 : fs[i].on = fs[j].on /\ Key(fs[i].node) = Key(fs[j].node)} IN
     firsts # {} /\ LET i == CHOOSE x \in firsts : \A y \in firsts : x <= y IN
                    fs[i].node.name # fs[j].node.name \/ ImplArgsDiffer(fs[i].node.args, fs[j].node.args)
\* the implementation runs the rule on every selection set it walks (fragment definitions and operations;
\* `__typename` nodes are not walked into, but they have no walked sub-selection anyway)
RECURSIVE RawSelSets(_)
RawSelSets(sels) ==
  IF sels = <<>> THEN <<>>
  ELSE <<sels>> \o Flatten([i \in 1..Len(sels) |-> IF sels[i].k \in {"field", "inline"} /\ ~(sels[i].k = "field" /\ sels[i].name = "__typename") THEN RawSelSets(sels[i].sels) ELSE <<>>])
FieldsInSetCanMergeImpl(C) ==
  LET ss == Flatten([i \in 1..Len(Ops(C)) |-> RawSelSets(Ops(C)[i].sels)]) \o Flatten([i \in 1..Len(Frags(C)) |-> RawSelSets(Frags(C)[i].sels)])
  IN IF \E i \in 1..Len(ss) : ImplConflictIn(C, ss[i]) THEN {"FieldsInSetCanMerge"} ELSE {}

\* (evaluation shortcut) a conflict -- of the specification or of the implementation -- needs two field nodes with the
\* same response key somewhere in the document
RECURSIVE KeysOf(_)
KeysOf(sels) == Flatten([i \in 1..Len(sels) |-> IF sels[i].k = "field" THEN <<Key(sels[i])>> \o KeysOf(sels[i].sels)
                                                 ELSE IF sels[i].k = "inline" THEN KeysOf(sels[i].sels) ELSE <<>>])
SomeKeyRepeated(C) ==
  LET ks == Flatten([i \in 1..Len(Ops(C)) |-> KeysOf(Ops(C)[i].sels)]) \o Flatten([i \in 1..Len(Frags(C)) |-> KeysOf(Frags(C)[i].sels)])
  IN \E i, j \in 1..Len(ks) : i < j /\ ks[i] = ks[j]

\* Known deviation DevOverlapMissesConflicts: a conflict of the specification that the keyed comparison does not see
\* is accepted.  (The switch only replaces the specification's answer where the specification finds a conflict; a
\* conflict reported by the implementation on a document the specification lets merge is never excused.)
FieldsInSetCanMerge(C) ==
  IF ~SomeKeyRepeated(C) THEN {} ELSE
  LET ideal == FieldsInSetCanMergeIdeal(C) IN
  IF ideal # {} /\ Dev(C, "DevOverlapMissesConflicts") THEN FieldsInSetCanMergeImpl(C)
  ELSE ideal

----------------------------------------------------------------------------
(* 5.4 Arguments *)
\* 5.4.1 Argument Names (fields and directives)
KnownArgumentNames(C, al) ==
  IF \E i \in 1..Len(al) : al[i].known /\ \E j \in 1..Len(al[i].args) : ~HasArg(al[i].defs, al[i].args[j].name)
  THEN {"KnownArgumentNames"} ELSE {}
\* 5.4.2 Argument Uniqueness
UniqueArgumentNames(C, al) ==
  IF \E i \in 1..Len(al) : \E j, k \in 1..Len(al[i].args) : j < k /\ al[i].args[j].name = al[i].args[k].name
  THEN {"UniqueArgumentNames"} ELSE {}
\* 5.4.2.1 Required Arguments
ProvidedRequiredArguments(C, al) ==
  IF \E i \in 1..Len(al) : al[i].known /\ \E d \in 1..Len(al[i].defs) :
        /\ al[i].defs[d].ty.k = "nn" /\ ~al[i].defs[d].hasDefault
        /\ \/ ~HasArg(al[i].args, al[i].defs[d].name)
           \/ \E j \in 1..Len(al[i].args) : al[i].args[j].name = al[i].defs[d].name /\ al[i].args[j].val.k = "null"
  THEN {"ProvidedRequiredArguments"} ELSE {}

----------------------------------------------------------------------------
(* 5.5 Fragments *)
\* 5.5.1.1 Fragment Name Uniqueness
UniqueFragmentNames(C) ==
  IF \E i, j \in 1..Len(Frags(C)) : i < j /\ Frags(C)[i].name = Frags(C)[j].name THEN {"UniqueFragmentNames"} ELSE {}
\* 5.5.1.2 Fragment Spread Type Existence (type conditions) -- and the named type of every variable (5.8.2)
KnownTypeNames(C, items) ==
  (IF \E i \in 1..Len(items) : (items[i].kind = "frag" /\ ~TypeExists(C, items[i].node.on))
                               \/ (items[i].kind = "inline" /\ items[i].node.on # "" /\ ~TypeExists(C, items[i].node.on))
   THEN {"KnownTypeNames.typeCondition"} ELSE {})
  \cup (IF \E i \in 1..Len(items) : items[i].kind = "vardef" /\ ~TypeExists(C, NamedOf(items[i].node.ty))
        THEN {"KnownTypeNames.variable"} ELSE {})
\* 5.5.1.3 Fragments On Composite Types
FragmentsOnCompositeTypes(C, items) ==
  IF \E i \in 1..Len(items) : (items[i].kind = "frag" \/ (items[i].kind = "inline" /\ items[i].node.on # ""))
                              /\ TypeExists(C, items[i].node.on) /\ ~IsComposite(C, items[i].node.on)
  THEN {"FragmentsOnCompositeTypes"} ELSE {}

\* spreads written in a scope (operation or fragment definition), at any depth
SpreadsIn(items, scope) == {items[i].node.name : i \in {j \in 1..Len(items) : items[j].kind = "spread" /\ items[j].scope = scope}}
\* fragments reachable from a scope through spreads (transitively)
RECURSIVE Reach(_, _, _)
Reach(items, todo, seen) ==
  IF todo = {} THEN seen
  ELSE LET n == CHOOSE x \in todo : TRUE
           nxt == SpreadsIn(items, n) \ (seen \cup {n})
       IN Reach(items, (todo \ {n}) \cup nxt, seen \cup {n})
ReachableFrom(items, scope) == Reach(items, SpreadsIn(items, scope), {})
\* 5.5.1.4 Fragments Must Be Used
NoUnusedFragments(C, items) ==
  LET used == UNION {ReachableFrom(items, OpScope(i)) : i \in 1..Len(Ops(C))} IN
  IF \E i \in 1..Len(Frags(C)) : Frags(C)[i].name \notin used THEN {"NoUnusedFragments"} ELSE {}
\* 5.5.2.1 Fragment spread target defined
KnownFragmentNames(C, items) ==
  IF \E i \in 1..Len(items) : items[i].kind = "spread" /\ ~HasFrag(C, items[i].node.name) THEN {"KnownFragmentNames"} ELSE {}
\* 5.5.2.2 Fragment spreads must not form cycles
NoFragmentCycles(C, items) ==
  IF \E i \in 1..Len(Frags(C)) : Frags(C)[i].name \in ReachableFrom(items, Frags(C)[i].name) THEN {"NoFragmentCycles"} ELSE {}
\* 5.5.2.3 Fragment spread is possible
PossibleFragmentSpreads(C, items) ==
  IF \E i \in 1..Len(items) :
       LET it == items[i]
           cond == IF it.kind = "inline" THEN it.node.on
                   ELSE IF it.kind = "spread" /\ HasFrag(C, it.node.name) THEN Frag(C, it.node.name).on ELSE ""
       IN it.kind \in {"inline", "spread"} /\ cond # "" /\ IsComposite(C, cond) /\ IsComposite(C, it.parent)
          /\ PossibleTypes(C, cond) \cap PossibleTypes(C, it.parent) = {}
  THEN {"PossibleFragmentSpreads"} ELSE {}

----------------------------------------------------------------------------
(* 5.6 Values *)
Supplied(C, n) == \E i \in 1..Len(C.vars) : C.vars[i].name = n
RECURSIVE VarsIn(_)
VarsIn(v) ==
  CASE v.k = "var" -> {v.name}
    [] v.k = "list" -> UNION {VarsIn(v.items[i]) : i \in 1..Len(v.items)}
    [] v.k = "obj" -> UNION {VarsIn(v.entries[i].val) : i \in 1..Len(v.entries)}
    [] OTHER -> {}

\* Known deviation DevDuplicateInputFieldsCollapsed: the parser keeps only the LAST value of a repeated
\* input-object field name (the value is stored in a map), so 5.6.3 never fires and the remaining rules see
\* the collapsed object.
LastOnly(entries) == SelectSeq([i \in 1..Len(entries) |-> [e |-> entries[i], last |-> ~\E j \in i + 1..Len(entries) : entries[j].key = entries[i].key]],
                               LAMBDA x : x.last)
EntriesOf(C, v) == IF Dev(C, "DevDuplicateInputFieldsCollapsed") THEN [i \in 1..Len(LastOnly(v.entries)) |-> LastOnly(v.entries)[i].e] ELSE v.entries

(* 5.6.1 Values of Correct Type: "literal values must be compatible with the type expected in their      *)
(* position as per the coercion rules of 3"; 5.6.2 Input Object Field Names; 5.6.3 Input Object Field     *)
(* Uniqueness; 5.6.4 Input Object Required Fields.  Variables are judged by 5.8.5, not here.              *)
RECURSIVE ValueClauses(_, _, _)
ValueClauses(C, ty, v) ==
  IF v.k = "var" THEN {}
  ELSE IF ty.k = "nn" THEN (IF v.k = "null" THEN {"ValuesOfCorrectType.nullForNonNull"} ELSE ValueClauses(C, ty.of, v))
  ELSE IF v.k = "null" THEN {}
  ELSE IF ty.k = "list" THEN
    (IF v.k = "list" THEN UNION {ValueClauses(C, ty.of, v.items[i]) : i \in 1..Len(v.items)}
     ELSE ValueClauses(C, ty.of, v))                                  \* 3.11 a single value coerces to a list of one
  ELSE LET n == ty.n IN
    CASE n = "Int"     -> IF v.k = "int" THEN {} ELSE {"ValuesOfCorrectType.scalar"}
      [] n = "Float"   -> IF v.k \in {"int", "float"} THEN {} ELSE {"ValuesOfCorrectType.scalar"}
      [] n = "String"  -> IF v.k = "str" THEN {} ELSE {"ValuesOfCorrectType.scalar"}
      [] n = "Boolean" -> IF v.k = "bool" THEN {} ELSE {"ValuesOfCorrectType.scalar"}
      [] n = "ID"      -> IF v.k \in {"str", "int"} THEN {} ELSE {"ValuesOfCorrectType.scalar"}
      [] Kind(C, n) = "ENUM" ->
           IF v.k = "enum" /\ InSeq(v.v, TypeDef(C, n).values) THEN {}
           \* Known deviation DevEnumAcceptsString: a string literal naming a member is accepted
           ELSE IF v.k = "str" /\ InSeq(v.v, TypeDef(C, n).values) /\ Dev(C, "DevEnumAcceptsString") THEN {}
           ELSE {"ValuesOfCorrectType.enum"}
      [] Kind(C, n) = "INPUT_OBJECT" ->
           IF v.k # "obj" THEN {"ValuesOfCorrectType.inputObject"}
           ELSE LET defs == TypeDef(C, n).inputFields
                    es == EntriesOf(C, v)
                IN (IF \E i, j \in 1..Len(es) : i < j /\ es[i].key = es[j].key THEN {"UniqueInputFieldNames"} ELSE {})
                   \cup (IF \E i \in 1..Len(es) : ~HasArg(defs, es[i].key) THEN {"InputObjectFieldNames"} ELSE {})
                   \cup (IF \E d \in 1..Len(defs) : defs[d].ty.k = "nn" /\ ~defs[d].hasDefault /\ ~\E i \in 1..Len(es) : es[i].key = defs[d].name
                         THEN {"InputObjectRequiredFields"} ELSE {})
                   \cup UNION {IF HasArg(defs, es[i].key) THEN ValueClauses(C, ArgDef(defs, es[i].key).ty, es[i].val) ELSE {} : i \in 1..Len(es)}
      [] Kind(C, n) = "SCALAR" -> {}                                  \* custom scalar: any literal may coerce
      [] OTHER -> {}                                                  \* not an input type: reported by 5.8.2

\* Known deviation DevUnsuppliedVarSkipsArgCheck: an argument value that mentions a variable for which the
\* request supplies no value (or that belongs to an operation other than the selected one) is not checked at all.
OpIsSelected(C, scope) ==
  \/ C.opName = ""
  \/ \E i \in 1..Len(Ops(C)) : OpScope(i) = scope /\ Ops(C)[i].name = C.opName
  \/ ~\E i \in 1..Len(Ops(C)) : OpScope(i) = scope          \* fragment definitions: substituted like the selected operation
ArgCheckSkipped(C, val, scope) ==
  Dev(C, "DevUnsuppliedVarSkipsArgCheck") /\ \E n \in VarsIn(val) : ~Supplied(C, n) \/ ~OpIsSelected(C, scope)

ValuesOfCorrectType(C, items, al) ==
  LET argc == UNION {UNION {IF al[i].known /\ HasArg(al[i].defs, al[i].args[j].name) /\ ~ArgCheckSkipped(C, al[i].args[j].val, al[i].scope)
                            THEN ValueClauses(C, ArgDef(al[i].defs, al[i].args[j].name).ty, al[i].args[j].val) ELSE {}
                            : j \in 1..Len(al[i].args)} : i \in 1..Len(al)}
      defc == UNION {IF items[i].kind = "vardef" /\ items[i].node.hasDefault /\ IsInputType(C, NamedOf(items[i].node.ty))
                     THEN ValueClauses(C, items[i].node.ty, items[i].node.default) ELSE {} : i \in 1..Len(items)}
  IN argc \cup defc

----------------------------------------------------------------------------
(* 5.7 Directives *)
\* Known deviation DevVarDefDirectivesNotVisited: directives written on variable definitions are only
\* checked for uniqueness (5.7.3); they are never looked up, so 5.7.1 / 5.7.2 and the argument rules miss them.
VisibleItems(C, items) ==
  IF Dev(C, "DevVarDefDirectivesNotVisited")
  THEN [i \in 1..Len(items) |-> IF items[i].kind = "vardef" THEN [items[i] EXCEPT !.node.dirs = <<>>] ELSE items[i]]
  ELSE items
\* 5.7.1 Directives Are Defined, 5.7.2 Directives Are In Valid Locations
KnownDirectives(C, items) ==
  LET du == DirUses(C, items) IN
  (IF \E i \in 1..Len(du) : du[i].dir.name \notin DirNames(C) THEN {"KnownDirectives.defined"} ELSE {})
  \cup (IF \E i \in 1..Len(du) : du[i].dir.name \in DirNames(C) /\ ~InSeq(du[i].loc, DirDef(C, du[i].dir.name).locations)
        THEN {"KnownDirectives.location"} ELSE {})
\* 5.7.3 Directives Are Unique Per Location (non-repeatable directives)
UniqueDirectivesPerLocation(C, items) ==
  IF \E i \in 1..Len(items) : \E j, k \in 1..Len(items[i].node.dirs) :
        j < k /\ items[i].node.dirs[j].name = items[i].node.dirs[k].name
        /\ items[i].node.dirs[j].name \in DirNames(C) /\ ~DirDef(C, items[i].node.dirs[j].name).repeatable
        \* (an undefined directive written twice is invalid by 5.7.1, not by this rule)
  THEN {"UniqueDirectivesPerLocation"} ELSE {}

----------------------------------------------------------------------------
(* 5.8 Variables *)
\* 5.8.1 Variable Uniqueness
UniqueVariableNames(C) ==
  IF \E o \in 1..Len(Ops(C)) : \E i, j \in 1..Len(Ops(C)[o].vars) : i < j /\ Ops(C)[o].vars[i].name = Ops(C)[o].vars[j].name
  THEN {"UniqueVariableNames"} ELSE {}
\* 5.8.2 Variables Are Input Types
VariablesAreInputTypes(C, items) ==
  IF \E i \in 1..Len(items) : items[i].kind = "vardef" /\ TypeExists(C, NamedOf(items[i].node.ty)) /\ ~IsInputType(C, NamedOf(items[i].node.ty))
  THEN {"VariablesAreInputTypes"} ELSE {}

\* variable names used (in arguments of fields and directives) directly in a scope
VarsUsedIn(al, scope) ==
  UNION {UNION {VarsIn(al[i].args[j].val) : j \in 1..Len(al[i].args)} : i \in {k \in 1..Len(al) : al[k].scope = scope}}
\* ... and transitively through fragment spreads (5.8.3: "including any fragment transitively referenced")
VarsUsedByOp(items, al, o) ==
  VarsUsedIn(al, OpScope(o)) \cup UNION {VarsUsedIn(al, f) : f \in ReachableFrom(items, OpScope(o))}
VarNames(op) == {op.vars[i].name : i \in 1..Len(op.vars)}
\* 5.8.3 All Variable Uses Defined
NoUndefinedVariables(C, items, al) ==
  IF \E o \in 1..Len(Ops(C)) : VarsUsedByOp(items, al, o) \ VarNames(Ops(C)[o]) # {} THEN {"NoUndefinedVariables"} ELSE {}
\* 5.8.4 All Variables Used
NoUnusedVariables(C, items, al) ==
  IF \E o \in 1..Len(Ops(C)) : VarNames(Ops(C)[o]) \ VarsUsedByOp(items, al, o) # {} THEN {"NoUnusedVariables"} ELSE {}

(* 5.8.5 All Variable Usages Are Allowed *)
\* usages with the type expected at their location and whether the location has a default value
RECURSIVE UsagesIn(_, _, _, _)
UsagesIn(C, ty, locDefault, v) ==
  IF v.k = "var" THEN {[name |-> v.name, ty |-> ty, locDefault |-> locDefault]}
  ELSE IF v.k = "list" THEN
     (IF NullableOf(ty).k = "list" THEN UNION {UsagesIn(C, NullableOf(ty).of, FALSE, v.items[i]) : i \in 1..Len(v.items)} ELSE {})
  ELSE IF v.k = "obj" THEN
     LET t == NullableOf(ty) IN
     IF t.k = "named" /\ Kind(C, t.n) = "INPUT_OBJECT"
     THEN UNION {IF HasArg(TypeDef(C, t.n).inputFields, v.entries[i].key)
                 THEN UsagesIn(C, ArgDef(TypeDef(C, t.n).inputFields, v.entries[i].key).ty,
                               ArgDef(TypeDef(C, t.n).inputFields, v.entries[i].key).hasDefault, v.entries[i].val)
                 ELSE {} : i \in 1..Len(v.entries)}
     ELSE {}
  ELSE {}
UsagesInScope(C, al, scope) ==
  UNION {UNION {IF al[i].known /\ HasArg(al[i].defs, al[i].args[j].name)
                THEN UsagesIn(C, ArgDef(al[i].defs, al[i].args[j].name).ty, ArgDef(al[i].defs, al[i].args[j].name).hasDefault, al[i].args[j].val)
                ELSE {} : j \in 1..Len(al[i].args)} : i \in {k \in 1..Len(al) : al[k].scope = scope}}
RECURSIVE AreTypesCompatible(_, _)
AreTypesCompatible(vt, lt) ==
  IF lt.k = "nn" THEN (IF vt.k # "nn" THEN FALSE ELSE AreTypesCompatible(vt.of, lt.of))
  ELSE IF vt.k = "nn" THEN AreTypesCompatible(vt.of, lt)
  ELSE IF lt.k = "list" THEN (IF vt.k # "list" THEN FALSE ELSE AreTypesCompatible(vt.of, lt.of))
  ELSE IF vt.k = "list" THEN FALSE
  ELSE vt.n = lt.n
IsVariableUsageAllowed(vdef, u) ==
  IF u.ty.k = "nn" /\ vdef.ty.k # "nn"
  THEN LET hasNonNullVariableDefault == vdef.hasDefault /\ vdef.default.k # "null" IN
       IF ~hasNonNullVariableDefault /\ ~u.locDefault THEN FALSE ELSE AreTypesCompatible(vdef.ty, u.ty.of)
  ELSE AreTypesCompatible(vdef.ty, u.ty)
\* Known deviation DevInputValueNotForwarded: the composite visitor (VisitorCons) does not forward
\* enter_input_value, so the rule collects no usage and never fires.
VariablesInAllowedPosition(C, items, al) ==
  IF Dev(C, "DevInputValueNotForwarded") THEN {}
  ELSE IF \E o \in 1..Len(Ops(C)) :
            LET us == UsagesInScope(C, al, OpScope(o)) \cup UNION {UsagesInScope(C, al, f) : f \in ReachableFrom(items, OpScope(o))} IN
            \E u \in us : \E i \in 1..Len(Ops(C)[o].vars) :
               Ops(C)[o].vars[i].name = u.name /\ ~IsVariableUsageAllowed(Ops(C)[o].vars[i], u)
       THEN {"VariablesInAllowedPosition"} ELSE {}

----------------------------------------------------------------------------
(* restrictions async-graphql documents on top of the specification: variables of type Upload may only *)
(* be declared by mutations (the family's type systems have no Upload type, so this is empty here)      *)
DocumentedRestrictions(C) ==
  IF \E o \in 1..Len(Ops(C)) : Ops(C)[o].ty # "mutation" /\ \E i \in 1..Len(Ops(C)[o].vars) : NamedOf(Ops(C)[o].vars[i].ty) = "Upload" /\ TypeExists(C, "Upload")
  THEN {"DocumentedRestrictions.uploadOutsideMutation"} ELSE {}

----------------------------------------------------------------------------
(* all rules *)
Violations(C) ==
  LET all == Items(C)
      items == VisibleItems(C, all)      \* what the rules that look at directives / arguments / variables see
      al == ArgLists(C, items)
  IN LoneAnonymousOperation(C) \cup UniqueOperationNames(C) \cup SingleRootFieldSubscription(C)
     \cup FieldsOnCorrectType(C, all) \cup FieldsInSetCanMerge(C) \cup ScalarLeafs(C, all)
     \cup KnownArgumentNames(C, al) \cup UniqueArgumentNames(C, al) \cup ProvidedRequiredArguments(C, al)
     \cup UniqueFragmentNames(C) \cup KnownTypeNames(C, all) \cup FragmentsOnCompositeTypes(C, all)
     \cup NoUnusedFragments(C, all) \cup KnownFragmentNames(C, all) \cup NoFragmentCycles(C, all) \cup PossibleFragmentSpreads(C, all)
     \cup ValuesOfCorrectType(C, items, al) \cup KnownDirectives(C, items) \cup UniqueDirectivesPerLocation(C, all)
     \cup UniqueVariableNames(C) \cup VariablesAreInputTypes(C, all) \cup NoUndefinedVariables(C, items, al) \cup NoUnusedVariables(C, items, al)
     \cup VariablesInAllowedPosition(C, items, al) \cup DocumentedRestrictions(C)
Valid(C) == Violations(C) = {}

\* context from a recorded case
Ctx(case, ts, dev) ==
  [ts |-> ts, doc |-> case.doc, vars |-> case.vars, opName |-> case.opName, flavour |-> case.flavour, dev |-> dev]
=============================================================================
