------------------------------ MODULE Gen_Sdl ------------------------------
(***************************************************************************)
(* String-builder state machine for property C17 (modes M and G).          *)
(*                                                                         *)
(* State: a text (sequence of code points) built by appending atoms: the   *)
(* characters that matter to an SDL printer (quotation mark, three         *)
(* quotation marks, backslash, LF, CR, space, a letter, two control        *)
(* characters, a non-BMP character).  TLC's BFS visits every text of up    *)
(* to MaxAtoms atoms once.                                                 *)
(*                                                                         *)
(* Mode M: on every text, the reference printers of Sdl.tla round-trip     *)
(* through Denote (a correct export exists for every text), and each of    *)
(* today's printers round-trips exactly when its trigger predicate is      *)
(* false (the named deviations excuse exactly the texts they are defined   *)
(* for).                                                                   *)
(* Mode G: every text is placed into every string slot of a base type      *)
(* system (descriptions at the three indentation levels, deprecation       *)
(* reasons, string defaults, specifiedBy URL) under the option             *)
(* combinations that reach the string printers; one REPLAY line per case.  *)
(***************************************************************************)
EXTENDS Sdl, Json

CONSTANT MaxAtoms
VARIABLE text, n
vars == <<text, n>>

Atoms == {<<34>>, <<34, 34, 34>>, <<92>>, <<10>>, <<13>>, <<32>>, <<97>>, <<1>>, <<27>>, <<128512>>}

Init == text = <<>> /\ n = 0
Next == n < MaxAtoms /\ n' = n + 1 /\ \E a \in Atoms : text' = text \o a
Spec == Init /\ [][Next]_vars

\* ---- mode M ------------------------------------------------------------------------------------------
TabChoices == {<<>>, <<9>>, <<32, 32>>, <<9, 9>>, <<32, 32, 32, 32>>}
InvQuotedRef == Roundtrips(QuotedRef(text), text)
InvDescRef   == \A tabs \in TabChoices : Roundtrips(DescRef(text, tabs), text)
InvBlockRef  == \A tabs \in TabChoices : BlockSafe(text) => Roundtrips(BlockRef(text, tabs), text)
InvReasonToday == Roundtrips(ReasonToday(text), text)
InvDescDev   == \A tabs \in TabChoices : \A single \in BOOLEAN :
                  Roundtrips(DescDev(text, tabs, single), text) <=> ~DescTrigger(text, single)
InvSpecifiedByDev == Roundtrips(SpecifiedByDev(text), text) <=> ~SpecifiedByTrigger(text)
InvDefaultToday == Roundtrips(DefaultToday(text), text)

\* ---- mode G: the base type system and its string slots ------------------------------------------------------
EmptyFn == [x \in {} |-> 0]
Ext(f, k, v) == [x \in DOMAIN f \cup {k} |-> IF x = k THEN v ELSE f[x]]
Named(nm) == [k |-> "named", n |-> nm]
NNull(t) == [k |-> "nn", of |-> t]
ListOf(t) == [k |-> "list", of |-> t]
NoDefault == [k |-> "none"]
T(kind) == [kind |-> kind, fields |-> EmptyFn, implements |-> <<>>, members |-> <<>>, values |-> <<>>, inputFields |-> EmptyFn, oneOf |-> FALSE]
Benign == <<98, 32, 99>>     \* "b c"
Arg(ty, d) == [ty |-> ty, default |-> d]
Fld(ty, args) == [ty |-> ty, args |-> args]
StrDefault(cp) == [k |-> "str", cp |-> cp]
NullDefault == [k |-> "null"]  \* an explicit `= null` (InputValue::default_value(Value::Null)): not the same as no default

\* Base(slot, s): the type system with text s in slot `slot` (every other string is benign or absent)
Base(slot, s) ==
  LET D(rec, sl) == IF slot = sl THEN Ext(rec, "description", s) ELSE rec
      R(rec, sl) == IF slot = sl THEN Ext(rec, "deprecated", [reason |-> s]) ELSE rec
      argA == R(D(Arg(Named("String"), IF slot = "argDefault" THEN StrDefault(s) ELSE StrDefault(Benign)), "argDesc"), "argReason")
      \* arguments: a string default, an int default, explicit null defaults on a named and on a list type, none at all
      fieldF == R(D(Fld(Named("Int"), Ext(Ext(Ext(Ext(EmptyFn, "a", argA), "b", Arg(Named("Int"), [k |-> "int", v |-> "7"])),
                                                  "c", Arg(ListOf(Named("Int")), NullDefault)), "d", Arg(Named("Boolean"), NullDefault))), "fieldDesc"), "fieldReason")
      ifaceF == Fld(Named("Int"), Ext(Ext(Ext(EmptyFn, "a", Arg(Named("String"), NoDefault)), "b", Arg(Named("Int"), NoDefault)),
                                      "c", Arg(ListOf(Named("Int")), NullDefault)))
      v1 == R(D([name |-> "V1"], "valueDesc"), "valueReason")
      inX == R(D(Arg(Named("String"), IF slot = "inputDefault" THEN StrDefault(s) ELSE NoDefault), "inputDesc"), "inputReason")
  IN [types |->
        [E |-> D([T("ENUM") EXCEPT !.values = <<v1, [name |-> "V2", deprecated |-> EmptyFn]>>], "typeDesc"),
         I |-> [T("INTERFACE") EXCEPT !.fields = Ext(EmptyFn, "f", ifaceF)],
         O |-> [T("OBJECT") EXCEPT !.fields = Ext(Ext(EmptyFn, "f", fieldF), "g", Fld(NNull(ListOf(NNull(Named("E")))), EmptyFn)), !.implements = <<"I">>],
         Query |-> [T("OBJECT") EXCEPT !.fields = Ext(Ext(Ext(EmptyFn, "q", Fld(Named("I"), Ext(Ext(EmptyFn, "x", Arg(Named("X"), NoDefault)), "n", Arg(Named("X"), NullDefault)))),
                                                        "u", Fld(Named("U"), EmptyFn)), "s", Fld(Named("S"), EmptyFn))],
         S |-> IF slot = "specifiedBy" THEN Ext(T("SCALAR"), "specifiedBy", s) ELSE Ext(T("SCALAR"), "specifiedBy", <<104, 116, 116, 112, 58, 47, 47, 120>>),
         U |-> [T("UNION") EXCEPT !.members = <<"O">>],
         X |-> [T("INPUT_OBJECT") EXCEPT !.inputFields = Ext(Ext(Ext(Ext(EmptyFn, "x", inX), "y", Arg(NNull(Named("Int")), [k |-> "int", v |-> "1"])),
                                                                  "z", Arg(Named("Int"), NullDefault)), "w", Arg(ListOf(NNull(Named("E"))), NullDefault))]],
      query |-> "Query", mutation |-> "", subscription |-> ""]

\* ---- mode G: directive invocations (dynamic::Directive::new("meta").argument(..)) -----------------------------
\* Every definition of the base type system that can carry a directive x argument lists: none, all null, some null,
\* none null (MetaDirectiveInvocation::sdl must print `@meta`, `@meta(a1: null)`, ...: a syntactically valid document
\* whatever the values are).  Invocations are not among the things C17 compares; the document must parse and
\* denote Describe(ts, opts) as before.
AppliedLocs == {"object", "field", "arg", "interface", "ifaceField", "ifaceArg", "enum", "enumValue", "inputObject", "inputField",
                "union", "scalar"}
VNull == [k |-> "null"]
VInt  == [k |-> "int", v |-> "7"]
VStr  == [k |-> "str", cp |-> <<116, 34>>]                       \* t"
Simple == {VNull, VInt, VStr}
Exotic == {[k |-> "enum", v |-> "V1"], [k |-> "bool", v |-> TRUE], [k |-> "list", items |-> <<VNull, VInt>>], [k |-> "list", items |-> <<>>],
           [k |-> "obj", entries |-> <<<<"k", VNull>>>>]}
AppliedArgs == {<<>>} \cup {<<v>> : v \in Simple \cup Exotic} \cup {<<v, w>> : v \in Simple, w \in Simple}
               \cup {<<VNull, VNull, VNull>>, <<VNull, VInt, VNull>>, <<VInt, VNull, VStr>>}
ArgClass(args) == LET nulls == {i \in DOMAIN args : args[i] = VNull} IN
  IF args = <<>> THEN "none" ELSE IF nulls = DOMAIN args THEN "all_null" ELSE IF nulls = {} THEN "none_null" ELSE "some_null"

\* texts of up to 2 atoms go into every slot; longer ones into one slot per printer and indentation level
DescSlots  == IF n <= 2 THEN {"typeDesc", "fieldDesc", "argDesc", "valueDesc", "inputDesc"} ELSE {"typeDesc", "argDesc"}
OtherSlots == IF n <= 2 THEN {"fieldReason", "argReason", "valueReason", "inputReason", "argDefault", "inputDefault", "specifiedBy"}
              ELSE {"valueReason", "argDefault", "specifiedBy"}
Opts(single, indent, spec) ==
  [sorted_fields |-> FALSE, sorted_arguments |-> FALSE, sorted_enum_items |-> FALSE, federation |-> FALSE,
   prefer_single_line_descriptions |-> single, include_specified_by |-> spec, compose_directive |-> FALSE, indent |-> indent]
Emit ==
  \* the base type system itself and its federation variants (entities O; O and interface I; federation
  \* enabled without entities), for the option sweep
  /\ (IF n # 0 THEN TRUE
      ELSE LET b == Base("none", <<>>)
               keyed(ts, nm) == [ts EXCEPT !.types[nm] = Ext(@, "keys", <<"f">>)]
           IN /\ PrintT(<<"BASE", "plain", ToJson(b)>>)
              /\ PrintT(<<"BASE", "fedO", ToJson(Ext(keyed(b, "O"), "federation", [entities |-> <<"O">>]))>>)
              /\ PrintT(<<"BASE", "fedIO", ToJson(Ext(keyed(keyed(b, "O"), "I"), "federation", [entities |-> <<"I", "O">>]))>>)
              /\ PrintT(<<"BASE", "fedNone", ToJson(Ext(b, "federation", [entities |-> <<>>]))>>)
              /\ \A loc \in AppliedLocs : \A args \in AppliedArgs :
                   PrintT(<<"APPLIED", ToJson([loc |-> loc, args |-> args, class |-> ArgClass(args), ts |-> b])>>))
  /\ \A slot \in DescSlots : \A single \in BOOLEAN : \A indent \in (IF single THEN {0} ELSE {0, 2}) :
       PrintT(<<"REPLAY", ToJson([slot |-> slot, opts |-> Opts(single, indent, FALSE), ts |-> Base(slot, text)])>>)
  /\ \A slot \in OtherSlots :
       PrintT(<<"REPLAY", ToJson([slot |-> slot, opts |-> Opts(FALSE, 0, slot = "specifiedBy"), ts |-> Base(slot, text)])>>)
=============================================================================
