\* mode M: the whole case space; the ideal implementation model satisfies the table, every deviation
\* changes the model exactly on its trigger and violates the table there.
CONSTANT MaxKinds = 7
CONSTANT MaxKindsWrapped = 7
CONSTANT Wraps = {"none", "inline", "typed", "spread"}
CONSTANT Orders = {"fwd", "rev"}
CONSTANT Aliases = {FALSE, TRUE}
CONSTANT HookWraps = {"none", "inline", "typed", "spread"}
INIT Init
NEXT Next
INVARIANT ModelChecked
