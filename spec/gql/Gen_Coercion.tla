---------------------------- MODULE Gen_Coercion ----------------------------
(***************************************************************************)
(* Mode G (and the model check of Coercion.tla) for C06.                   *)
(* Plain set enumeration in two levels (Init picks a field of the family,  *)
(* Next draws one way of supplying its arguments, so TLC's workers share   *)
(* the work): for every argument type of schemas/c06.json                  *)
(*   - every constant literal of a small universe: absent, null, right     *)
(*     kind, wrong kinds, enum names / unknown names / strings, lists      *)
(*     (empty, with null items, single value for a list, nested), input    *)
(*     objects as the product of per-field choices (absent, null, right,   *)
(*     wrong, nested objects, missing required fields, unknown fields),    *)
(*     OneOf objects with 0 / 1 / 2 entries and null entries;              *)
(*   - every literal with exactly one variable $v in it (as the argument   *)
(*     itself, as a list item, as an input field, nested), crossed with    *)
(*     the ways of declaring $v (the location type, its non-null /         *)
(*     nullable twin, a mismatching base type, the item type of a list;    *)
(*     without default, with a default, with default null) and of          *)
(*     supplying it (omitted, null, right value, wrong kind, single value  *)
(*     for a list, objects with missing / unknown / null fields);          *)
(*   - the three-argument field with independent choices per argument.     *)
(* Level 1 (quick) uses smaller choice sets than Level 2 (thorough).       *)
(*                                                                         *)
(* Design-level invariants checked on every generated case (mode M):       *)
(*   TypeSound  - whatever the reference passes to a resolver conforms to  *)
(*                the declared types (defaults present, required present), *)
(*                and its binding projection is total (no "bad");          *)
(*   FlavourFree- the ideal semantics does not depend on the flavour;      *)
(*   ErrorsAgree- a document that fails validation never reaches 6.4.1.    *)
(***************************************************************************)
EXTENDS Coercion, Json, IOUtils

CONSTANTS Level
ASSUME TLCSet(8, JsonDeserialize(IOEnv.SCHEMA))
S == TLCGet(8)
VARIABLE g

I(x) == [k |-> "int", v |-> x]
Str(x) == [k |-> "str", v |-> x]
B(x) == [k |-> "bool", v |-> x]
E(x) == [k |-> "enum", v |-> x]
Lst(x) == [k |-> "list", items |-> x]
Var(n) == [k |-> "var", name |-> n]
Named(n) == [k |-> "named", n |-> n]
NNT(t) == [k |-> "nn", of |-> t]
ListT(t) == [k |-> "list", of |-> t]
Ent(key, val) == [key |-> key, val |-> val]

\* the canonical right value of a type; mode "lit" (enum names) or "json" (enum strings)
RECURSIVE G1(_, _)
MinObj(n, mode) ==
  LET fs == S.inputs[n].fields
      need == SelectSeq([j \in 1..Len(fs) |-> [j |-> j, f |-> fs[j]]],
                        LAMBDA x : IF S.inputs[n].oneof THEN x.j = 1 ELSE IsNN(x.f.ty) /\ ~x.f.hasDefault)
  IN Obj([i \in 1..Len(need) |-> Ent(need[i].f.name, G1(need[i].f.ty, mode))])
G1(t, mode) ==
  IF t.k = "nn" THEN G1(t.of, mode)
  ELSE IF t.k = "list" THEN Lst(<<G1(t.of, mode)>>)
  ELSE IF IsEnum(S, t.n) THEN (IF mode = "lit" THEN E(S.enums[t.n][1]) ELSE Str(S.enums[t.n][1]))
  ELSE IF IsInput(S, t.n) THEN MinObj(t.n, mode)
  ELSE CASE t.n = "Int" -> I("1") [] t.n = "String" -> Str("s") [] OTHER -> B(TRUE)
Other(n) == CASE n = "Int" -> I("2") [] n = "String" -> Str("t") [] OTHER -> B(FALSE)

\* wrong-kind values for a named type
Wrong(n, mode) ==
  IF IsEnum(S, n) THEN (IF mode = "lit" THEN {E("BLUE"), Str(S.enums[n][1]), I("1")} ELSE {Str("BLUE"), I("1")})
  ELSE IF IsInput(S, n) THEN {I("1")}
  ELSE CASE n = "Int" -> {Str("x")} [] n = "String" -> {I("1")} [] OTHER -> {Str("x")}

----------------------------------------------------------------------------
(* constant literals for a location of type t *)
RECURSIVE Lits(_, _), ObjProd(_, _, _), FieldChoices(_, _)
\* objects of input type n: product of per-field choices (deep = the full choice sets)
ObjProd(fs, j, deep) ==
  IF j > Len(fs) THEN {<<>>}
  ELSE {IF c.k = "absent" THEN rest ELSE <<Ent(fs[j].name, c)>> \o rest : c \in FieldChoices(fs[j], deep), rest \in ObjProd(fs, j + 1, deep)}
CoreObjs(n, mode) ==
  LET m == MinObj(n, mode)
      fs == S.inputs[n].fields IN
  {m, Obj(<<>>), Obj(m.entries \o <<Ent("zz", I("1"))>>)}
  \cup {Obj(m.entries \o <<Ent(fs[j].name, Null)>>) : j \in {j \in 1..Len(fs) : ~HasKey(m.entries, fs[j].name)}}
  \cup {Obj(m.entries \o <<Ent(fs[j].name, G1(fs[j].ty, mode))>>) : j \in {j \in 1..Len(fs) : ~HasKey(m.entries, fs[j].name)}}
  \cup UNION {{Obj(<<Ent(fs[j].name, x)>>) : x \in Wrong(Base(fs[j].ty), mode) \cup {Null}} : j \in {j \in 1..Len(fs) : HasKey(m.entries, fs[j].name)}}
FieldChoices(f, deep) ==
  LET n == Base(f.ty) IN
  {Absent, Null}
  \cup (IF Strip(f.ty).k = "list" THEN {G1(f.ty, "lit"), G1(Strip(f.ty).of, "lit")}
        ELSE IF IsInput(S, n) THEN (IF deep THEN {Obj(e) : e \in ObjProd(S.inputs[n].fields, 1, FALSE)} ELSE CoreObjs(n, "lit"))
        ELSE {IF f.hasDefault THEN Other(n) ELSE G1(f.ty, "lit")} \cup (IF deep \/ ~f.hasDefault THEN Wrong(n, "lit") ELSE {}))
ObjLits(n, deep) ==
  {Obj(e) : e \in ObjProd(S.inputs[n].fields, 1, deep)}
  \cup {Obj(MinObj(n, "lit").entries \o <<Ent("zz", I("1"))>>)}
  \cup (IF S.inputs[n].oneof THEN {Obj(<<Ent(S.inputs[n].fields[j].name, Null)>>) : j \in 1..Len(S.inputs[n].fields)} ELSE {})
NamedLits(n, deep) ==
  IF IsEnum(S, n) THEN {E(S.enums[n][i]) : i \in 1..Len(S.enums[n])} \cup Wrong(n, "lit")
  ELSE IF IsInput(S, n) THEN (IF deep THEN ObjLits(n, Level >= 2) ELSE CoreObjs(n, "lit")) \cup Wrong(n, "lit")
  ELSE {G1(Named(n), "lit"), Other(n)} \cup Wrong(n, "lit")
\* items of a list literal whose item type is it
Items(it) ==
  {G1(it, "lit"), Null} \cup Wrong(Base(it), "lit")
  \cup (IF Strip(it).k = "list" THEN {G1(Strip(it).of, "lit"), Lst(<<G1(Strip(it).of, "lit"), Null>>), Lst(<<>>)} ELSE {})
  \cup (IF Strip(it).k # "list" /\ IsInput(S, Base(it)) THEN CoreObjs(Base(it), "lit") ELSE {})
Lits(t, deep) ==
  {Null}
  \cup (IF Strip(t).k = "list"
        THEN LET it == Strip(t).of IN
             {Lst(<<>>)} \cup {Lst(<<a>>) : a \in Items(it)} \cup {Lst(<<G1(it, "lit"), b>>) : b \in Items(it)}
             \cup {G1(Named(Base(it)), "lit")} \cup Wrong(Base(it), "lit")
        ELSE NamedLits(Base(t), deep))

----------------------------------------------------------------------------
(* literals with exactly one variable: [v |-> literal, h |-> hole = location of the variable] *)
Hole(t, ld, one) == [ty |-> t, ld |-> ld, one |-> one]
RECURSIVE Holes(_, _)
ObjHoles(n) ==
  LET def == S.inputs[n]
      fs == def.fields
      base == MinObj(n, "lit").entries
      \* the other fields: the required ones (right or one of them wrong), optionally an unknown field
      without(e, key) == SelectSeq(e, LAMBDA x : x.key # key)
      put(key, x, others) == Obj(<<Ent(key, x)>> \o others)
      variants(key) ==
        {without(base, key), without(base, key) \o <<Ent("zz", I("1"))>>}
        \cup {[i \in 1..Len(without(base, key)) |-> IF i = 1 THEN Ent(without(base, key)[1].key, Str("x")) ELSE without(base, key)[i]] : z \in IF without(base, key) # <<>> THEN {1} ELSE {}}
        \cup (IF def.oneof THEN {<<Ent(fs[j].name, G1(fs[j].ty, "lit"))>> : j \in {j \in 1..Len(fs) : fs[j].name # key}} ELSE {})
  IN UNION {{[v |-> put(fs[j].name, x.v, o), h |-> IF x.v.k = "var" THEN [x.h EXCEPT !.one = def.oneof] ELSE x.h]
               : x \in Holes(fs[j].ty, fs[j].hasDefault), o \in variants(fs[j].name)} : j \in 1..Len(fs)}
Holes(t, ld) ==
  {[v |-> Var("v"), h |-> Hole(t, ld, FALSE)]}
  \cup (IF Strip(t).k = "list"
        THEN LET it == Strip(t).of IN
             UNION {{[v |-> Lst(<<x.v>>), h |-> x.h], [v |-> Lst(<<G1(it, "lit"), x.v>>), h |-> x.h]} : x \in Holes(it, FALSE)}
        ELSE IF IsInput(S, Base(t)) THEN ObjHoles(Base(t))
        ELSE {})

\* ways of declaring the variable for a hole of location type lt
RECURSIVE SwapBase(_)
SwapBase(t) == IF t.k = "named" THEN (IF t.n = "Int" THEN Named("String") ELSE Named("Int")) ELSE [t EXCEPT !.of = SwapBase(t.of)]
DeclTypes(lt, top) ==
  {lt, IF IsNN(lt) THEN lt.of ELSE NNT(lt), SwapBase(lt)}
  \cup (IF Strip(lt).k = "list" /\ (top \/ Level >= 2) THEN {Strip(Strip(lt).of)} ELSE {})
  \cup (IF Level >= 2 THEN {ListT(lt)} ELSE {})
\* runtime values offered for a variable declared with type dt
JsonVals(dt) ==
  LET n == Base(dt) IN
  {Null, G1(dt, "json")} \cup Wrong(n, "json")
  \cup (IF Strip(dt).k = "list"
        THEN {G1(Strip(dt).of, "json"), Lst(<<G1(Strip(dt).of, "json"), Null>>), Lst(<<>>)}
        ELSE IF IsInput(S, n) THEN CoreObjs(n, "json")
                                   \cup (IF S.inputs[n].oneof THEN {Obj([j \in 1..Len(S.inputs[n].fields) |-> Ent(S.inputs[n].fields[j].name, G1(S.inputs[n].fields[j].ty, "json"))])} ELSE {})
        ELSE {})
NoDefault == [has |-> FALSE, d |-> Null]
Defaults(dt) ==
  {[has |-> TRUE, d |-> G1(dt, "lit")]} \cup (IF IsNN(dt) THEN {} ELSE {[has |-> TRUE, d |-> Null]})
  \cup (IF Level >= 2 THEN {[has |-> TRUE, d |-> x] : x \in Wrong(Base(dt), "lit")} ELSE {})
\* [ty, has, d, sup] with sup = Absent for an omitted variable
VarForms(h, top) ==
  UNION {{[ty |-> dt, has |-> FALSE, d |-> Null, sup |-> s] : s \in {Absent} \cup JsonVals(dt)}
         \cup {[ty |-> dt, has |-> TRUE, d |-> df.d, sup |-> s] : df \in Defaults(dt),
                  s \in {Absent, Null} \cup (IF Level >= 2 THEN JsonVals(dt) ELSE {G1(dt, "json")})}
         : dt \in DeclTypes(h.ty, top)}

Case(field, args, vdefs, supplied) == [field |-> field, args |-> args, vdefs |-> vdefs, supplied |-> supplied]
VDef(name, f) == [name |-> name, ty |-> f.ty, hasDefault |-> f.has, default |-> f.d]
Sup(name, f) == IF f.sup.k = "absent" THEN <<>> ELSE <<[name |-> name, val |-> f.sup]>>

\* the first field of the family whose (single) argument has base type n gets the deep enumeration
FirstOf(n) == CHOOSE i \in 1..Len(S.fields) : /\ Base(S.fields[i].args[1].ty) = n /\ Strip(S.fields[i].args[1].ty).k # "list"
                                              /\ \A j \in 1..(i - 1) : ~(Base(S.fields[j].args[1].ty) = n /\ Strip(S.fields[j].args[1].ty).k # "list")
IsDeep(fdef) == IsInput(S, Base(fdef.args[1].ty)) /\ Strip(fdef.args[1].ty).k # "list" /\ S.fields[FirstOf(Base(fdef.args[1].ty))].name = fdef.name

OneArgCases(fdef) ==
  LET a == fdef.args[1] IN
  {Case(fdef.name, <<>>, <<>>, <<>>)}
  \cup {Case(fdef.name, <<[name |-> a.name, val |-> x]>>, <<>>, <<>>) : x \in Lits(a.ty, IsDeep(fdef))}
  \cup UNION {{Case(fdef.name, <<[name |-> a.name, val |-> x.v]>>, <<VDef("v", f)>>, Sup("v", f)) : f \in VarForms(x.h, x.v.k = "var")}
              : x \in Holes(a.ty, a.hasDefault)}

\* several arguments: independent choices, every argument may be a variable of its own (location type, no default)
ArgChoices(a) ==
  {[arg |-> <<>>, vd |-> <<>>, sup |-> <<>>]}
  \cup {[arg |-> <<[name |-> a.name, val |-> x]>>, vd |-> <<>>, sup |-> <<>>] : x \in {Null, G1(a.ty, "lit"), Other(Base(a.ty))}}
  \cup {[arg |-> <<[name |-> a.name, val |-> Var("v" \o a.name)]>>,
         vd |-> <<[name |-> "v" \o a.name, ty |-> a.ty, hasDefault |-> FALSE, default |-> Null]>>,
         sup |-> IF s.k = "absent" THEN <<>> ELSE <<[name |-> "v" \o a.name, val |-> s]>>] : s \in {Absent, Null, G1(a.ty, "json")}}
RECURSIVE ManyArgs(_, _)
ManyArgs(as, j) ==
  IF j > Len(as) THEN {[arg |-> <<>>, vd |-> <<>>, sup |-> <<>>]}
  ELSE {[arg |-> c.arg \o r.arg, vd |-> c.vd \o r.vd, sup |-> c.sup \o r.sup] : c \in ArgChoices(as[j]), r \in ManyArgs(as, j + 1)}
ManyArgCases(fdef) == {Case(fdef.name, x.arg, x.vd, x.sup) : x \in ManyArgs(fdef.args, 1)}

CasesOf(fdef) == IF Len(fdef.args) = 1 THEN OneArgCases(fdef) ELSE ManyArgCases(fdef)

----------------------------------------------------------------------------
Init == g \in {[stage |-> 0, c |-> Case(S.fields[i].name, <<>>, <<>>, <<>>)] : i \in 1..Len(S.fields)}
Next == /\ g.stage = 0
        /\ g' \in {[stage |-> 1, c |-> x] : x \in CasesOf(FieldDef(S, g.c.field))}

Ctx0(c, fl) == [S |-> S, vdefs |-> c.vdefs, supplied |-> c.supplied, dev |-> {}, flavour |-> fl]
Exp(c, fl) == Expected(Ctx0(c, fl), c.field, c.args)
TypeSound ==
  g.stage = 1 =>
    LET e == Exp(g.c, "static")
        fdef == FieldDef(S, g.c.field) IN
    e.ok => /\ ArgsConform(S, fdef, e.v)
            /\ \A i \in 1..Len(fdef.args) : NoBad(BindArgs(S, FALSE, fdef, e.v)[i].val) /\ NoBad(BindArgs(S, TRUE, fdef, e.v)[i].val)
FlavourFree == g.stage = 1 => Exp(g.c, "static") = Exp(g.c, "dynamic")
ErrorsAgree ==
  g.stage = 1 => LET e == Exp(g.c, "static") IN
                 /\ (~Valid(Ctx0(g.c, "static"), FieldDef(S, g.c.field), g.c.args) => (~e.ok /\ e.cls = "request"))
                 /\ (e.ok => e.cls = "none") /\ (~e.ok => e.cls \in {"request", "field"})
Emit == g.stage = 1 => PrintT(<<"REPLAY", ToJson(g.c)>>)
=============================================================================
