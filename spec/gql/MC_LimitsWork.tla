--------------------------- MODULE MC_LimitsWork ---------------------------
(***************************************************************************)
(* Mode M for C11: the work functions of Limits.tla evaluated on the       *)
(* adversarial families for n = 1..MaxN.                                   *)
(*   IdealPoly    with memoisation (every fragment body walked once per    *)
(*                walker) every counter stays below PolyBound = K * Size^2 *)
(*   CodedPoly    the same for the code as written (DevNoMemo) -- expected *)
(*                to FAIL on the fan-out chain: the design-level finding   *)
(*   FastIsCoded  the cost-table evaluation used in mode V returns exactly *)
(*                the work of the direct recursion (n <= EqN, where the    *)
(*                direct recursion is still cheap to evaluate)             *)
(*   RefusedCheap a fan-out chain deeper than limit_recursive_depth is     *)
(*                refused with little work (the walkers stop at the first   *)
(*                violation): within PolyBound, outside DevNoMemo's trigger *)
(*                (cfg MC_LimitsWorkRefused, n up to 40)                    *)
(*   CyclePoly    the search of NoFragmentCycles calls detect_from at most  *)
(*                Size times on every family, the Fibonacci DAGs included   *)
(*                (spread from the operation or unreferenced), n up to 40;  *)
(*   FibIdealPoly the memoised ideal of the five walkers stays below        *)
(*                PolyBound on the Fibonacci DAGs as well (n <= 24)         *)
(*   NoGuardPoly  the same search without its `visited` guard -- expected   *)
(*                to FAIL on the Fibonacci DAGs (cfg MC_LimitsWorkCycle-    *)
(*                NoGuard): the guard is what the bound rests on, and no    *)
(*                operation needs to spread the fragments                   *)
(* Mode G (Gen cfg written by the driver): EmitDocs prints the documents.  *)
(***************************************************************************)
EXTENDS Limits, Json, Integers
CONSTANTS MaxN, EqN, MaxFan
VARIABLE n

Init == n = 1
Next == n < MaxN /\ n' = n + 1

FC(f) == WorkCtx(Family(f, n))
MaxOf(v) == CHOOSE x \in {v[i] : i \in 1..Len(v)} : \A i \in 1..Len(v) : v[i] <= x

IdealPoly   == \A f \in Families : WithinBound(Visits_ideal(FC(f)), PolyBound(FC(f)))
FastIsCoded == n <= EqN => \A f \in Families : Visits_asCoded(FC(f)) = Visits_asCodedFast(FC(f))
CodedPoly   == \A f \in Families :
                 \/ WithinBound(Visits_asCodedFast(FC(f)), PolyBound(FC(f)))
                 \/ (PrintT(<<"COUNTEREXAMPLE", f, n, Size(FC(f)), PolyBound(FC(f)), Visits_asCodedFast(FC(f))>>) /\ FALSE)
\* table for the evidence: family, n, size, bound, largest ideal counter, largest as-coded counter
Emit == \A f \in Families :
          PrintT(<<"WORK", f, n, Size(FC(f)), PolyBound(FC(f)), MaxOf(Visits_ideal(FC(f))), MaxOf(Visits_asCodedFast(FC(f)))>>)
\* limit-aware work: a request refused by limit_recursive_depth / limit_directives costs little although the document is a
\* fan-out chain -- the walkers stop at the first violation, so no excuse is needed there (and DevNoMemo's trigger is off)
RecLimits == {8, 12, 16, -1}
CfgOf(l, d) == [recursive |-> l, directives |-> d]
RefusedFamilies == {"fanout", "fanoutops", "deepinline"}
RefusedCheap ==
  \A f \in RefusedFamilies, l \in RecLimits :
     LET cfg == CfgOf(l, 1000) C == FC(f) IN
     n > EffL(cfg) => /\ WithinBound(Visits_asCodedFastAt(C, cfg), PolyBound(C))
                       /\ Visits_asCodedFastAt(C, cfg)[1] = 0                 \* refused before validation
                       /\ ~TriggerNoMemoAt(C, cfg)
DirRefusedCheap ==
  \A f \in {"dirfirst", "dirlast"} : n <= 11 =>
     LET cfg == CfgOf(-1, 1) C == FC(f) IN Visits_asCodedFastAt(C, cfg)[1] = 0 /\ Visits_asCodedFastAt(C, cfg)[4] <= n + 2
\* the table evaluation of the stopping walkers equals the direct recursion (small limits, so that both outcomes occur)
FastIsCodedAt ==
  n <= EqN => \A f \in Families \cup RefusedFamilies \cup {"dirfirst", "dirlast"}, l \in {1, 3, 6, -1}, d \in {-1, 1, 1000} :
                 Visits_asCodedAt(FC(f), CfgOf(l, d)) = Visits_asCodedFastAt(FC(f), CfgOf(l, d))
\* with no limit in the way the limit-aware work is the unlimited work
AtIsPlain == n <= 14 => \A f \in Families : Visits_asCodedFastAt(FC(f), CfgOf(64, 1000)) = Visits_asCodedFast(FC(f))

\* the rules' own search: NoFragmentCycles
CycleFamilies == Families \cup FibFamilies \cup {"fanoutops", "dirfirst", "dirlast"}
CyclePoly    == \A f \in CycleFamilies : Visits_cycles(FC(f)) <= Size(FC(f))
FibIdealPoly == n <= 24 => \A f \in FibFamilies : WithinBound(Visits_ideal(FC(f)), PolyBound(FC(f)))
NoGuardPoly  == \A f \in FibFamilies :
                  \/ Visits_cyclesNoGuard(FC(f)) <= PolyBound(FC(f))
                  \/ (PrintT(<<"COUNTEREXAMPLE", f, n, Size(FC(f)), PolyBound(FC(f)), Visits_cyclesNoGuard(FC(f))>>) /\ FALSE)
\* the table of the unguarded search counts paths: Fib(n) on the Fibonacci DAG (1, 2, 3, 5, 8, ...: calls below one start at f_1)
RECURSIVE FibCalls(_)
FibCalls(k) == IF k <= 1 THEN 1 ELSE IF k = 2 THEN 2 ELSE 1 + FibCalls(k - 1) + FibCalls(k - 2)
NoGuardIsPaths == n <= 16 => Visits_cyclesNoGuard(FC("fibfree")) = FibCalls(n)

\* mode G: the documents of the families, for the harness (the fan-out chain only while its work stays below 2^20)
EmitDocs == /\ \A f \in Families : (f = "fanout" => n <= MaxFan) => PrintT(<<"REPLAY", f, n, ToJson(Family(f, n))>>)
            \* requests above a recursion limit (the driver pairs them with the limits they exceed) and the directive-limit pair
            /\ \A f \in RefusedFamilies : n >= 9 => PrintT(<<"REPLAY", f, n, ToJson(Family(f, n))>>)
            /\ \A f \in {"dirfirst", "dirlast"} : n <= 15 => PrintT(<<"REPLAY", f, n, ToJson(Family(f, n))>>)
            \* Fibonacci DAGs: unreferenced for every n; spread from the operation while the as-coded work stays below 2^20
            /\ \A f \in FibFamilies : (f = "fibdag" => n <= MaxFan + 8) => PrintT(<<"REPLAY", f, n, ToJson(Family(f, n))>>)
=============================================================================
