--------------------------- MODULE MC_LimitsWork ---------------------------
(***************************************************************************)
(* Mode M for C11: the work functions of Limits.tla evaluated on the       *)
(* adversarial families for n = 1..MaxN.                                   *)
(*   IdealPoly    with memoisation (every fragment body walked once per    *)
(*                walker) every counter stays below PolyBound = K * Size^2 *)
(*   CodedPoly    the same for the code as written (DevNoMemo) -- expected *)
(*                to FAIL on the fan-out chain: the design-level finding   *)
(*   FastIsCoded  the cost-table evaluation used in mode V returns exactly *)
(*                the work of the direct recursion (n <= EqN, where the    *)
(*                direct recursion is still cheap to evaluate)             *)
(* Mode G (Gen cfg written by the driver): EmitDocs prints the documents.  *)
(***************************************************************************)
EXTENDS Limits, Json
CONSTANTS MaxN, EqN, MaxFan
VARIABLE n

Init == n = 1
Next == n < MaxN /\ n' = n + 1

FC(f) == WorkCtx(Family(f, n))
MaxOf(v) == CHOOSE x \in {v[i] : i \in 1..Len(v)} : \A i \in 1..Len(v) : v[i] <= x

IdealPoly   == \A f \in Families : WithinBound(Visits_ideal(FC(f)), PolyBound(FC(f)))
FastIsCoded == n <= EqN => \A f \in Families : Visits_asCoded(FC(f)) = Visits_asCodedFast(FC(f))
CodedPoly   == \A f \in Families :
                 \/ WithinBound(Visits_asCodedFast(FC(f)), PolyBound(FC(f)))
                 \/ (PrintT(<<"COUNTEREXAMPLE", f, n, Size(FC(f)), PolyBound(FC(f)), Visits_asCodedFast(FC(f))>>) /\ FALSE)
\* table for the evidence: family, n, size, bound, largest ideal counter, largest as-coded counter
Emit == \A f \in Families :
          PrintT(<<"WORK", f, n, Size(FC(f)), PolyBound(FC(f)), MaxOf(Visits_ideal(FC(f))), MaxOf(Visits_asCodedFast(FC(f)))>>)
\* mode G: the documents of the families, for the harness (the fan-out chain only while its work stays below 2^20)
EmitDocs == \A f \in Families : (f = "fanout" => n <= MaxFan) => PrintT(<<"REPLAY", f, n, ToJson(Family(f, n))>>)
=============================================================================
