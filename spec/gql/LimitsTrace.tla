---------------------------- MODULE LimitsTrace ----------------------------
(***************************************************************************)
(* Mode V for C10 (and the measuring pass that places the limits).          *)
(*                                                                         *)
(* A case is [id, doc, opName, vars, runs]; a run is                        *)
(*   [flavour ("static" | "dynamic"), mode, limits [depth, complexity,      *)
(*    recursive, directives] (negative = not configured), obs]              *)
(* obs = [rejected, ran, dataNull, messages, problem] is what the real      *)
(* library did with the document on a schema configured with those limits.  *)
(*                                                                         *)
(* MODE = "measure": print the reference measures of every case            *)
(*   <<"MEASURE", id, depth, complexity(static), complexity(dynamic),       *)
(*     nesting, directives>> -- the driver only adds -1, 0, +1 to them.     *)
(* MODE = "judge": the property, per run:                                   *)
(*     rejected before any resolver ran  <=>  some configured limit is      *)
(*     smaller than the document's measure          (Limits!MustReject)     *)
(*   A run that disagrees is re-judged with the named deviations switched   *)
(*   on (smallest set first); a deviation can only excuse a run of a        *)
(*   document in its trigger class whose limit kind it can affect.          *)
(***************************************************************************)
EXTENDS Limits, Json, IOUtils

ASSUME TLCSet(7, ndJsonDeserialize(IOEnv.TRACE))
ASSUME TLCSet(8, JsonDeserialize(IOEnv.SCHEMA))
Cases == TLCGet(7)
TS == TLCGet(8)
Mode == IOEnv.MODE
VARIABLE l

Ctx0(c, flavour, dev) ==
  [ts |-> TS, doc |-> c.doc, op |-> c.doc.ops[1], vars |-> c.vars, rules |-> flavour = "static", dev |-> dev]

\* ---- named deviations (known_findings/C10.json decides whether they are excused) ----
AllDevs == {"DevSpreadNoTypePush", "DevTypenameNotCounted"}
Configured(run, k) == run.limits[k] >= 0
\* can deviation d show on this run at all?
Trigger(c, run, d) ==
  CASE d = "DevSpreadNoTypePush"   -> run.flavour = "static" /\ Configured(run, "complexity") /\ TriggerSpreadNoTypePush(Ctx0(c, run.flavour, {}))
    [] d = "DevTypenameNotCounted" -> (Configured(run, "complexity") \/ Configured(run, "depth")) /\ TriggerTypenameNotCounted(Ctx0(c, run.flavour, {}))

\* the property for one run under deviation set dev
RunOk(c, run, dev) ==
  LET must == MustReject(Ctx0(c, run.flavour, dev), run.limits) IN
  /\ run.obs.problem = ""
  /\ run.obs.rejected = must
  /\ (must => run.obs.ran = 0 /\ run.obs.dataNull)

RECURSIVE JoinSet(_)
JoinSet(S) == IF S = {} THEN "" ELSE LET x == CHOOSE y \in S : TRUE IN
              IF Cardinality(S) = 1 THEN x ELSE x \o "," \o JoinSet(S \ {x})

\* {} = held; a non-empty set of deviations = explained only by them; {"violation"} otherwise
RunDevs(c, run) ==
  IF RunOk(c, run, {}) THEN {}
  ELSE LET E == {D \in SUBSET AllDevs : D # {} /\ (\A d \in D : Trigger(c, run, d)) /\ RunOk(c, run, D)} IN
       IF E = {} THEN {"violation"}
       ELSE CHOOSE D \in E : \A D2 \in E : Cardinality(D2) >= Cardinality(D)

RECURSIVE FirstBad(_, _)
FirstBad(c, i) == IF i > Len(c.runs) THEN 0 ELSE IF RunDevs(c, c.runs[i]) = {"violation"} THEN i ELSE FirstBad(c, i + 1)
Verdict(c) ==
  LET bad == FirstBad(c, 1) IN
  IF bad > 0 THEN "violation:run" \o ToString(bad)
  ELSE LET D == UNION {RunDevs(c, c.runs[i]) : i \in 1..Len(c.runs)} IN
       IF D = {} THEN "ok" ELSE "known:" \o JoinSet(D)

\* per-run verdicts, for the evidence and for debugging: "ok" / "known:.." / "violation"
RunVerdict(c, i) == LET D == RunDevs(c, c.runs[i]) IN
                    IF D = {} THEN "ok" ELSE IF D = {"violation"} THEN "violation" ELSE "known:" \o JoinSet(D)

Measures(c) ==
  <<"MEASURE", c.id, Depth(Ctx0(c, "static", {})), Complexity(Ctx0(c, "static", {})), Complexity(Ctx0(c, "dynamic", {})),
    Nesting(Ctx0(c, "static", {})), MaxDirectives(Ctx0(c, "static", {}))>>

TInit == l = 1
TNext == /\ l <= Len(Cases)
         /\ IF Mode = "measure" THEN PrintT(Measures(Cases[l]))
            ELSE /\ PrintT(<<"VERDICT", Cases[l].id, Verdict(Cases[l])>>)
                 /\ PrintT(<<"RUNS", Cases[l].id, [i \in 1..Len(Cases[l].runs) |-> RunVerdict(Cases[l], i)]>>)
         /\ l' = l + 1
=============================================================================
