---------------------------- MODULE LimitsTrace ----------------------------
(***************************************************************************)
(* Mode V for C10 (and the measuring pass that places the limits).          *)
(*                                                                         *)
(* A case is [id, doc, opName, vars, runs]; a run is                        *)
(*   [flavour ("static" | "dynamic"), mode, limits [depth, complexity,      *)
(*    recursive, directives] (negative = not configured), obs]              *)
(* obs = [rejected, ran, dataNull, messages, problem] is what the real      *)
(* library did with the document on a schema configured with those limits.  *)
(*                                                                         *)
(* MODE = "measure": print the reference measures of every case            *)
(*   <<"MEASURE", id, depth, complexity(static), complexity(dynamic),       *)
(*     nesting, directives, law>> -- the driver only adds -1, 0, +1 to      *)
(*   them; law = Limits!InliningLaw holds for the document (design check).  *)
(* MODE = "judge": one <<"VERDICT", id, json list of per-run verdicts>> per *)
(*   case ("ok" / "known:<Dev,..>" / "violation").  The property, per run:  *)
(*     rejected before any resolver ran  <=>  some configured limit is      *)
(*     smaller than the document's measure          (Limits!MustReject)     *)
(*   A run that disagrees is re-judged with the named deviations switched   *)
(*   on (smallest set first); a deviation can only excuse a run of a        *)
(*   document in its trigger class whose limit kind it can affect.          *)
(***************************************************************************)
EXTENDS Limits, Json, IOUtils

ASSUME TLCSet(7, ndJsonDeserialize(IOEnv.TRACE))
ASSUME TLCSet(8, JsonDeserialize(IOEnv.SCHEMA))
Cases == TLCGet(7)
TS == TLCGet(8)
Mode == IOEnv.MODE
VARIABLE l

Ctx0(c, flavour, dev) ==
  [ts |-> TS, doc |-> c.doc, op |-> c.doc.ops[1], vars |-> c.vars, rules |-> flavour = "static", dev |-> dev]

\* ---- named deviations (known_findings/C10.json decides whether they are excused) ----
AllDevs == {"DevTypenameNotCounted", "DevOmittedVarRuleError"}
Configured(run, k) == run.limits[k] >= 0
\* can deviation d show on this run at all?
Trigger(c, run, d) ==
  CASE d = "DevTypenameNotCounted"  -> (Configured(run, "complexity") \/ Configured(run, "depth")) /\ TriggerTypenameNotCounted(Ctx0(c, run.flavour, {}))
    [] d = "DevOmittedVarRuleError" -> run.flavour = "static" /\ TriggerOmittedVarRuleError(Ctx0(c, run.flavour, {}))

\* the request was refused before any resolver ran (errors that appear after resolvers ran belong to execution:
\* they are other properties' business, but they never make a request that had to be refused "refused")
Refused(obs) == obs.rejected /\ obs.ran = 0 /\ obs.dataNull
\* the property for one run, `must` = the reference says the request has to be refused
Agrees(run, must) == run.obs.problem = "" /\ (Refused(run.obs) <=> must)

RECURSIVE JoinSet(_)
JoinSet(S) == IF S = {} THEN "" ELSE LET x == CHOOSE y \in S : TRUE IN
              IF Cardinality(S) = 1 THEN x ELSE x \o "," \o JoinSet(S \ {x})

\* M0[flavour] = reference measures, computed once per case
RefMeasures(c) == [fl \in {"static", "dynamic"} |-> Measures(Ctx0(c, fl, {}))]
\* {} = held; a non-empty set of deviations = explained only by them; {"violation"} otherwise
RunDevs(c, run, M0) ==
  IF Agrees(run, Exceeds(M0[run.flavour], run.limits)) THEN {}
  ELSE LET E == {D \in SUBSET AllDevs : D # {} /\ (\A d \in D : Trigger(c, run, d))
                                        /\ Agrees(run, MustReject(Ctx0(c, run.flavour, D), run.limits))} IN
       IF E = {} THEN {"violation"}
       ELSE CHOOSE D \in E : \A D2 \in E : Cardinality(D2) >= Cardinality(D)

RunVerdicts(c) ==
  LET M0 == RefMeasures(c) IN
  [i \in 1..Len(c.runs) |-> LET D == RunDevs(c, c.runs[i], M0) IN
                            IF D = {} THEN "ok" ELSE IF D = {"violation"} THEN "violation" ELSE "known:" \o JoinSet(D)]

\* MEASURE line of the measuring pass
MeasureLine(c) ==
  LET S == Measures(Ctx0(c, "static", {})) IN
  <<"MEASURE", c.id, S["depth"], S["complexity"], Complexity(Ctx0(c, "dynamic", {})), S["recursive"], S["directives"],
    InliningLaw(Ctx0(c, "static", {}))>>

TInit == l = 1
TNext == /\ l <= Len(Cases)
         /\ IF Mode = "measure" THEN PrintT(MeasureLine(Cases[l]))
            ELSE PrintT(<<"VERDICT", Cases[l].id, ToJson(RunVerdicts(Cases[l]))>>)
         /\ l' = l + 1
=============================================================================
