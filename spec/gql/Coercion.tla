------------------------------ MODULE Coercion ------------------------------
(***************************************************************************)
(* Reference semantics of GraphQL input coercion (spec October 2021 with   *)
(* the OneOf amendment of the September 2025 edition):                     *)
(*   5.6.1 Values of Correct Type, 5.6.2-5.6.4 input object fields,        *)
(*   5.4.2.1 Required Arguments, 5.8.1-5.8.5 variables (defined, used,     *)
(*   All Variable Usages Are Allowed), OneOf Input Objects Have Exactly    *)
(*   One Field;                                                            *)
(*   6.1.2 CoerceVariableValues, 6.4.1 CoerceArgumentValues,               *)
(*   3.5 scalars / 3.9 enums / 3.10 input objects (field defaults, OneOf)  *)
(*   / 3.11 lists (single value -> list, nested) / 3.12 non-null input     *)
(*   coercion,                                                             *)
(* over an abstract schema S (schemas/c06.json), abstract values           *)
(*   [k |-> "null" | "int" | "str" | "bool" | "enum" | "list" | "obj" |    *)
(*          "var"]  (literals; runtime variable values have no enum / var) *)
(* and a *binding projection* Bind that says what a Rust parameter of a    *)
(* given shape (T, Option<T>, MaybeUndefined<T>, Vec<T>, input-object      *)
(* struct, oneof enum, dynamic ValueAccessor walk) must observe for a      *)
(* coerced value *with presence information* (absent # null).              *)
(*                                                                         *)
(* A context C bundles [S, vdefs, supplied, dev, flavour].  dev is the set *)
(* of named deviations of today's implementation that are switched on      *)
(* (empty for the ideal semantics); each deviation changes exactly one     *)
(* step of the reference and has a trigger predicate (Trig...) that says   *)
(* on which inputs it can show.                                            *)
(*                                                                         *)
(* Results: Ok(v) / Fail(cls), cls = "request" (validation, 6.1.2) or      *)
(* "field" (6.4.1).  A coerced argument map is an "obj" value whose        *)
(* entries are exactly the *present* arguments / input fields.             *)
(***************************************************************************)
EXTENDS Naturals, Sequences, FiniteSets, TLC

Null == [k |-> "null"]
Absent == [k |-> "absent"]            \* pseudo value of a missing map entry (never inside a value)
Ok(v) == [ok |-> TRUE, v |-> v, cls |-> "none"]
Fail(cls) == [ok |-> FALSE, v |-> Null, cls |-> cls]

InSeq(x, s) == \E i \in 1..Len(s) : s[i] = x
HasKey(es, key) == \E i \in 1..Len(es) : es[i].key = key
Get(es, key) == es[CHOOSE i \in 1..Len(es) : es[i].key = key].val
Lookup(es, key) == IF HasKey(es, key) THEN Get(es, key) ELSE Absent
HasName(s, n) == \E i \in 1..Len(s) : s[i].name = n
ByName(s, n) == s[CHOOSE i \in 1..Len(s) : s[i].name = n]
Obj(es) == [k |-> "obj", entries |-> es]

----------------------------------------------------------------------------
(* types: [k |-> "named", n] | [k |-> "list", of] | [k |-> "nn", of] *)
IsNN(t) == t.k = "nn"
Strip(t) == IF t.k = "nn" THEN t.of ELSE t
RECURSIVE Base(_)
Base(t) == IF t.k = "named" THEN t.n ELSE Base(t.of)
IsEnum(S, n) == n \in DOMAIN S.enums
IsInput(S, n) == n \in DOMAIN S.inputs
ScalarKind(n) == CASE n = "Int" -> "int" [] n = "String" -> "str" [] n = "Boolean" -> "bool" [] OTHER -> "?"
FieldDef(S, name) == ByName(S.fields, name)
IsMember(S, n, x) == InSeq(x, S.enums[n])

Supplied(C, n) == HasName(C.supplied, n)
SuppliedVal(C, n) == ByName(C.supplied, n).val

RECURSIVE IsConst(_)
IsConst(v) == CASE v.k = "var" -> FALSE
                [] v.k = "list" -> \A i \in 1..Len(v.items) : IsConst(v.items[i])
                [] v.k = "obj" -> \A i \in 1..Len(v.entries) : IsConst(v.entries[i].val)
                [] OTHER -> TRUE
\* the argument literal mentions a variable that has no entry in the request's variables
RECURSIVE HasUnsuppliedVar(_, _)
HasUnsuppliedVar(C, v) ==
  CASE v.k = "var" -> ~Supplied(C, v.name)
    [] v.k = "list" -> \E i \in 1..Len(v.items) : HasUnsuppliedVar(C, v.items[i])
    [] v.k = "obj" -> \E i \in 1..Len(v.entries) : HasUnsuppliedVar(C, v.entries[i].val)
    [] OTHER -> FALSE
Lenient(C, v) == "DevOmittedVarSkipsArgValidation" \in C.dev /\ HasUnsuppliedVar(C, v)

----------------------------------------------------------------------------
(* 5.6.1 Values of Correct Type (a literal that input coercion would accept; variables are  *)
(* judged by 5.8.5), 5.6.2 field names, 5.6.3 uniqueness, 5.6.4 required fields, OneOf rule  *)
RECURSIVE LitOK(_, _, _)
LitOK(C, t, v) ==
  IF v.k = "var" THEN TRUE
  ELSE IF t.k = "nn" THEN v.k # "null" /\ LitOK(C, t.of, v)
  ELSE IF v.k = "null" THEN TRUE
  ELSE IF t.k = "list" THEN
       IF v.k = "list" THEN \A i \in 1..Len(v.items) : LitOK(C, t.of, v.items[i]) ELSE LitOK(C, t.of, v)
  ELSE IF IsEnum(C.S, t.n) THEN
       \/ v.k = "enum" /\ IsMember(C.S, t.n, v.v)
       \/ "DevEnumStringLiteral" \in C.dev /\ v.k = "str" /\ IsMember(C.S, t.n, v.v)
  ELSE IF IsInput(C.S, t.n) THEN
       IF v.k # "obj" THEN "DevNonObjectForInputObject" \in C.dev
       ELSE LET def == C.S.inputs[t.n]
                e == v.entries IN
            /\ \A i \in 1..Len(e) : HasName(def.fields, e[i].key) /\ LitOK(C, ByName(def.fields, e[i].key).ty, e[i].val)
            /\ \A i, j \in 1..Len(e) : i # j => e[i].key # e[j].key
            /\ \A j \in 1..Len(def.fields) : (IsNN(def.fields[j].ty) /\ ~def.fields[j].hasDefault) => HasKey(e, def.fields[j].name)
            /\ def.oneof => (Len(e) = 1 /\ e[1].val.k # "null")
  ELSE v.k = ScalarKind(t.n)

(* variable usages: [name, ty (location type), ld (location has a default), one (field of a OneOf object)] *)
RECURSIVE Usages(_, _, _, _, _)
Usages(S, t, ld, one, v) ==
  IF v.k = "var" THEN {[name |-> v.name, ty |-> t, ld |-> ld, one |-> one]}
  ELSE IF v.k = "list" THEN
       (IF Strip(t).k = "list" THEN UNION {Usages(S, Strip(t).of, FALSE, FALSE, v.items[i]) : i \in 1..Len(v.items)} ELSE {})
  ELSE IF v.k = "obj" THEN
       (IF IsInput(S, Base(t)) THEN
          LET def == S.inputs[Base(t)] IN
          UNION {IF HasName(def.fields, v.entries[i].key)
                 THEN LET f == ByName(def.fields, v.entries[i].key) IN Usages(S, f.ty, f.hasDefault, def.oneof, v.entries[i].val)
                 ELSE {} : i \in 1..Len(v.entries)}
        ELSE {})
  ELSE {}
ArgUsages(S, fdef, args) ==
  UNION {IF HasName(fdef.args, args[i].name)
         THEN LET a == ByName(fdef.args, args[i].name) IN Usages(S, a.ty, a.hasDefault, FALSE, args[i].val)
         ELSE {} : i \in 1..Len(args)}

\* 5.8.5 AreTypesCompatible / IsVariableUsageAllowed
RECURSIVE Compatible(_, _)
Compatible(vt, lt) ==
  IF lt.k = "nn" THEN (vt.k = "nn" /\ Compatible(vt.of, lt.of))
  ELSE IF vt.k = "nn" THEN Compatible(vt.of, lt)
  ELSE IF lt.k = "list" THEN (vt.k = "list" /\ Compatible(vt.of, lt.of))
  ELSE IF vt.k = "list" THEN FALSE
  ELSE vt.n = lt.n
UsageAllowed(vd, u) ==
  /\ IF IsNN(u.ty) /\ ~IsNN(vd.ty)
     THEN /\ ((vd.hasDefault /\ vd.default.k # "null") \/ u.ld)
          /\ Compatible(vd.ty, u.ty.of)
     ELSE Compatible(vd.ty, u.ty)
  /\ (u.one => IsNN(vd.ty))           \* OneOf Input Objects Have Exactly One Field: a variable there must be non-null
BadUsages(C, fdef, args) == {u \in ArgUsages(C.S, fdef, args) : HasName(C.vdefs, u.name) /\ ~UsageAllowed(ByName(C.vdefs, u.name), u)}

\* the validation rules that concern argument values and variables
Valid(C, fdef, args) ==
  /\ \A i \in 1..Len(args) : /\ HasName(fdef.args, args[i].name)
                              /\ (Lenient(C, args[i].val) \/ LitOK(C, ByName(fdef.args, args[i].name).ty, args[i].val))
  /\ \A i, j \in 1..Len(args) : i # j => args[i].name # args[j].name
  /\ \A j \in 1..Len(fdef.args) : (IsNN(fdef.args[j].ty) /\ ~fdef.args[j].hasDefault) => HasName(args, fdef.args[j].name)   \* 5.4.2.1
  /\ \A i \in 1..Len(C.vdefs) : C.vdefs[i].hasDefault => (IsConst(C.vdefs[i].default) /\ LitOK(C, C.vdefs[i].ty, C.vdefs[i].default))
  /\ \A u \in ArgUsages(C.S, fdef, args) : HasName(C.vdefs, u.name)                                                          \* 5.8.3
  /\ \A i \in 1..Len(C.vdefs) : \E u \in ArgUsages(C.S, fdef, args) : u.name = C.vdefs[i].name                                \* 5.8.4
  /\ ("DevVarUsageUnchecked" \in C.dev \/ BadUsages(C, fdef, args) = {})                                                     \* 5.8.5

----------------------------------------------------------------------------
(* Input coercion of one value against a type.                                               *)
(* L = [mode, vv, lenient]: mode "lit" (document literal: enums are names) or "json"         *)
(* (runtime variable value: enums are strings); vv = coerced variable values (entries        *)
(* [key, val |-> [mode, v]]: mode "done" = coerced by 6.1.2, used as is); lenient = this     *)
(* argument escaped validation (deviation DevOmittedVarSkipsArgValidation).                  *)
Raw(C, L) == L.lenient /\ C.flavour = "dynamic"      \* nothing at all is checked on the way to a dynamic resolver
Wrap(x) == [k |-> "list", items |-> <<x>>]

RECURSIVE Coerce(_, _, _, _), CoerceItems(_, _, _, _, _, _), CoerceFields(_, _, _, _, _, _), UseVar(_, _, _, _)
UseVar(C, L, t, name) ==
  LET e == Get(L.vv, name) IN
  IF e.mode = "done"
  THEN IF IsNN(t) /\ e.v.k = "null" THEN (IF Raw(C, L) THEN Ok(Null) ELSE Fail("x")) ELSE Ok(e.v)     \* 6.4.1 step 5.h / 3.10
  ELSE Coerce(C, [L EXCEPT !.mode = e.mode], t, e.v)       \* DevVarTypeIgnored: coerced against the location instead

Coerce(C, L, t, v) ==
  IF t.k = "nn" THEN
     IF v.k = "null" THEN (IF Raw(C, L) THEN Ok(Null) ELSE Fail("x")) ELSE Coerce(C, L, t.of, v)      \* 3.12
  ELSE IF v.k = "null" THEN Ok(Null)
  ELSE IF t.k = "list" THEN                                                                          \* 3.11
     IF v.k = "list" THEN CoerceItems(C, L, t.of, v.items, 1, <<>>)
     ELSE LET r == Coerce(C, L, t.of, v) IN
          IF ~r.ok \/ "DevDynNoListCoercion" \in C.dev THEN r ELSE Ok(Wrap(r.v))
  ELSE IF IsEnum(C.S, t.n) THEN                                                                      \* 3.9
     IF v.k = "enum" /\ L.mode = "lit" /\ IsMember(C.S, t.n, v.v) THEN Ok(v)
     ELSE IF v.k = "str" /\ IsMember(C.S, t.n, v.v)
             /\ (L.mode = "json" \/ "DevEnumStringLiteral" \in C.dev \/ Raw(C, L)) THEN Ok([k |-> "enum", v |-> v.v])
     ELSE IF Raw(C, L) THEN Ok(v) ELSE Fail("x")
  ELSE IF IsInput(C.S, t.n) THEN                                                                     \* 3.10
     LET def == C.S.inputs[t.n] IN
     IF v.k # "obj" THEN
        (IF Raw(C, L) \/ ("DevNonObjectForInputObject" \in C.dev /\ C.flavour = "dynamic") THEN Ok(v) ELSE Fail("x"))
     ELSE LET e == v.entries
              unknown == SelectSeq(e, LAMBDA x : ~HasName(def.fields, x.key))
          IN
          IF unknown # <<>> /\ ~L.lenient THEN Fail("x")
          ELSE IF def.oneof /\ ~L.lenient /\ ~(Len(e) = 1 /\ e[1].val.k # "null") THEN Fail("x")
          ELSE LET r == CoerceFields(C, L, def.fields, e, 1, <<>>) IN
               IF ~r.ok THEN r
               ELSE IF Raw(C, L) THEN Ok(Obj(r.v \o unknown))
               ELSE IF def.oneof /\ ~(Len(r.v) = 1 /\ r.v[1].val.k # "null") THEN Fail("x")
               ELSE Ok(Obj(r.v))
  ELSE IF v.k = ScalarKind(t.n) \/ Raw(C, L) THEN Ok(v) ELSE Fail("x")                               \* 3.5

\* list items: a variable without a runtime value stands for null
CoerceItems(C, L, t, items, i, acc) ==
  IF i > Len(items) THEN Ok([k |-> "list", items |-> acc])
  ELSE LET x == items[i]
           r == IF x.k = "var"
                THEN (IF HasKey(L.vv, x.name) THEN UseVar(C, L, t, x.name) ELSE Coerce(C, L, t, Null))
                ELSE Coerce(C, L, t, x)
       IN IF ~r.ok THEN r ELSE CoerceItems(C, L, t, items, i + 1, Append(acc, r.v))

\* 3.10 input object fields, in the order of the type's field definitions
CoerceFields(C, L, fields, e, j, acc) ==
  IF j > Len(fields) THEN Ok(acc)
  ELSE LET f == fields[j]
           given == HasKey(e, f.name)
           val == Get(e, f.name)
           isVar == given /\ val.k = "var"
           hasValue == IF isVar THEN HasKey(L.vv, val.name) ELSE given
       IN
       IF ~hasValue /\ f.hasDefault THEN
          (IF "DevDynNoFieldDefaults" \in C.dev THEN CoerceFields(C, L, fields, e, j + 1, acc)
           ELSE LET d == Coerce(C, [mode |-> "lit", vv |-> <<>>, lenient |-> FALSE], f.ty, f.default) IN
                IF ~d.ok THEN d ELSE CoerceFields(C, L, fields, e, j + 1, Append(acc, [key |-> f.name, val |-> d.v])))
       ELSE IF ~hasValue THEN
          (IF IsNN(f.ty) /\ ~Raw(C, L) THEN Fail("x") ELSE CoerceFields(C, L, fields, e, j + 1, acc))
       ELSE LET r == IF isVar THEN UseVar(C, L, f.ty, val.name) ELSE Coerce(C, L, f.ty, val) IN
            IF ~r.ok THEN r ELSE CoerceFields(C, L, fields, e, j + 1, Append(acc, [key |-> f.name, val |-> r.v]))

ConstL == [mode |-> "lit", vv |-> <<>>, lenient |-> FALSE]
JsonL == [mode |-> "json", vv |-> <<>>, lenient |-> FALSE]

----------------------------------------------------------------------------
(* 6.1.2 CoerceVariableValues *)
RECURSIVE CoerceVars(_, _, _)
CoerceVars(C, i, acc) ==
  IF i > Len(C.vdefs) THEN Ok(acc)
  ELSE LET vd == C.vdefs[i]
           hasValue == Supplied(C, vd.name)
           value == SuppliedVal(C, vd.name)
           ignore == "DevVarTypeIgnored" \in C.dev    \* runtime values are never coerced against the declared type
           add(m, x) == CoerceVars(C, i + 1, Append(acc, [key |-> vd.name, val |-> [mode |-> m, v |-> x]]))
       IN
       IF ~hasValue /\ vd.hasDefault THEN
          (IF ignore THEN add("lit", vd.default)
           ELSE LET d == Coerce(C, ConstL, vd.ty, vd.default) IN IF d.ok THEN add("done", d.v) ELSE Fail("request"))
       ELSE IF ignore THEN (IF hasValue THEN add("json", value) ELSE CoerceVars(C, i + 1, acc))
       ELSE IF IsNN(vd.ty) /\ (~hasValue \/ value.k = "null") THEN Fail("request")
       ELSE IF hasValue THEN
          (LET r == Coerce(C, JsonL, vd.ty, value) IN IF r.ok THEN add("done", r.v) ELSE Fail("request"))
       ELSE CoerceVars(C, i + 1, acc)
CoerceVariableValues(C) == CoerceVars(C, 1, <<>>)

(* 6.4.1 CoerceArgumentValues *)
RECURSIVE CoerceArgs(_, _, _, _, _, _)
CoerceArgs(C, fdef, args, vv, j, acc) ==
  IF j > Len(fdef.args) THEN Ok(Obj(acc))
  ELSE LET a == fdef.args[j]
           given == HasName(args, a.name)
           val == ByName(args, a.name).val
           isVar == given /\ val.k = "var"
           hasValue == IF isVar THEN HasKey(vv, val.name) ELSE given
           L == [mode |-> "lit", vv |-> vv, lenient |-> given /\ Lenient(C, val)]
           next(x) == CoerceArgs(C, fdef, args, vv, j + 1, x)
           \* deviation: the argument default is applied only when the argument is not written at all
           lost == isVar /\ "DevArgDefaultLostOnOmittedVar" \in C.dev
       IN
       IF ~hasValue /\ a.hasDefault /\ ~lost THEN
          (LET d == Coerce(C, ConstL, a.ty, a.default) IN
           IF d.ok THEN next(Append(acc, [key |-> a.name, val |-> d.v])) ELSE Fail("field"))
       ELSE IF ~hasValue THEN
          (IF IsNN(a.ty) /\ ~Raw(C, L) THEN Fail("field") ELSE next(acc))
       ELSE LET r == IF isVar THEN UseVar(C, L, a.ty, val.name) ELSE Coerce(C, L, a.ty, val) IN
            IF r.ok THEN next(Append(acc, [key |-> a.name, val |-> r.v])) ELSE Fail("field")

\* what the specification requires for one field selection `field(args)` of an operation with
\* variable definitions C.vdefs executed with variables C.supplied
Expected(C, field, args) ==
  LET fdef == FieldDef(C.S, field) IN
  IF ~Valid(C, fdef, args) THEN Fail("request")
  ELSE LET vv == CoerceVariableValues(C) IN
       IF ~vv.ok THEN vv ELSE CoerceArgs(C, fdef, args, vv.v, 1, <<>>)

----------------------------------------------------------------------------
(* Declarative typing of coerced values (used by the model check of this module: every value *)
(* the reference passes to a resolver conforms to the declared type).                         *)
RECURSIVE Conforms(_, _, _)
Conforms(S, t, v) ==
  IF t.k = "nn" THEN v.k # "null" /\ Conforms(S, t.of, v)
  ELSE IF v.k = "null" THEN TRUE
  ELSE IF t.k = "list" THEN v.k = "list" /\ \A i \in 1..Len(v.items) : Conforms(S, t.of, v.items[i])
  ELSE IF IsEnum(S, t.n) THEN v.k = "enum" /\ IsMember(S, t.n, v.v)
  ELSE IF IsInput(S, t.n) THEN
       LET def == S.inputs[t.n] IN
       /\ v.k = "obj"
       /\ \A i \in 1..Len(v.entries) : HasName(def.fields, v.entries[i].key) /\ Conforms(S, ByName(def.fields, v.entries[i].key).ty, v.entries[i].val)
       /\ \A j \in 1..Len(def.fields) : (IsNN(def.fields[j].ty) \/ def.fields[j].hasDefault) => HasKey(v.entries, def.fields[j].name)
       /\ def.oneof => (Len(v.entries) = 1 /\ v.entries[1].val.k # "null")
  ELSE v.k = ScalarKind(t.n)
ArgsConform(S, fdef, m) ==
  /\ \A i \in 1..Len(m.entries) : HasName(fdef.args, m.entries[i].key) /\ Conforms(S, ByName(fdef.args, m.entries[i].key).ty, m.entries[i].val)
  /\ \A j \in 1..Len(fdef.args) : (IsNN(fdef.args[j].ty) \/ fdef.args[j].hasDefault) => HasKey(m.entries, fdef.args[j].name)

----------------------------------------------------------------------------
(* Binding projection.  rt: [r |-> "prim", n] (i32, String, bool, derived enum)              *)
(*   | [r |-> "opt", of] Option<T> | [r |-> "mu", of] MaybeUndefined<T> | [r |-> "vec", of]  *)
(*   | [r |-> "struct", n] #[derive(InputObject)] | [r |-> "oneof", n] #[derive(OneofObject)]*)
(* p: a coerced value or Absent.  A dynamic resolver that walks ctx.args along the declared  *)
(* type sees every position like a MaybeUndefined (get -> None / is_null / typed accessor).  *)
(* The projection is total: a value that does not fit the shape is reported as "bad" (only   *)
(* deviations can produce such values; the harness reports them in the same way).            *)
Bad(p) == [k |-> "bad"]
PrimOK(S, n, p) == IF IsEnum(S, n) THEN p.k = "enum" /\ IsMember(S, n, p.v) ELSE p.k = ScalarKind(n)

RECURSIVE DynShape(_, _), DynRt(_, _)
DynShape(S, t) == IF t.k = "nn" THEN DynShape(S, t.of)
                  ELSE IF t.k = "list" THEN [r |-> "vec", of |-> DynRt(S, t.of)]
                  ELSE IF IsInput(S, t.n) THEN [r |-> "struct", n |-> t.n]
                  ELSE [r |-> "prim", n |-> t.n]
DynRt(S, t) == [r |-> "mu", of |-> DynShape(S, t)]

RECURSIVE Bind(_, _, _, _)
Bind(S, dyn, rt, p) ==
  CASE rt.r = "opt" -> IF p.k \in {"absent", "null"} THEN [k |-> "none"] ELSE Bind(S, dyn, rt.of, p)
    [] rt.r = "mu" -> IF p.k = "absent" THEN [k |-> "undef"] ELSE IF p.k = "null" THEN Null ELSE Bind(S, dyn, rt.of, p)
    [] rt.r = "prim" -> IF PrimOK(S, rt.n, p) THEN p ELSE Bad(p)
    [] rt.r = "vec" -> IF p.k = "list" THEN [k |-> "list", items |-> [i \in 1..Len(p.items) |-> Bind(S, dyn, rt.of, p.items[i])]] ELSE Bad(p)
    [] rt.r = "struct" ->
         IF p.k # "obj" THEN Bad(p)
         ELSE LET fs == S.inputs[rt.n].fields
                  known == [j \in 1..Len(fs) |-> [key |-> fs[j].name,
                              val |-> Bind(S, dyn, IF dyn THEN DynRt(S, fs[j].ty) ELSE fs[j].rt, Lookup(p.entries, fs[j].name))]]
                  extra == SelectSeq(p.entries, LAMBDA x : ~HasName(fs, x.key))
              IN Obj(known \o [i \in 1..Len(extra) |-> [key |-> extra[i].key, val |-> [k |-> "bad"]]])
    [] rt.r = "oneof" ->
         IF p.k = "obj" /\ Len(p.entries) = 1 /\ HasName(S.inputs[rt.n].fields, p.entries[1].key)
         THEN [k |-> "oneof", key |-> p.entries[1].key, val |-> Bind(S, dyn, ByName(S.inputs[rt.n].fields, p.entries[1].key).rt, p.entries[1].val)]
         ELSE Bad(p)

\* what the resolver of `fdef` must observe for the coerced argument map m, one entry per declared argument
BindArgs(S, dyn, fdef, m) ==
  [j \in 1..Len(fdef.args) |-> [key |-> fdef.args[j].name,
      val |-> Bind(S, dyn, IF dyn THEN DynRt(S, fdef.args[j].ty) ELSE fdef.args[j].rt, Lookup(m.entries, fdef.args[j].name))]]

RECURSIVE NoBad(_)
NoBad(o) == CASE o.k = "bad" -> FALSE
              [] o.k = "list" -> \A i \in 1..Len(o.items) : NoBad(o.items[i])
              [] o.k = "obj" -> \A i \in 1..Len(o.entries) : NoBad(o.entries[i].val)
              [] o.k = "oneof" -> NoBad(o.val)
              [] OTHER -> TRUE

----------------------------------------------------------------------------
(* Triggers of the named deviations: on which cases can the deviation show at all? *)
\* does predicate kind P hold somewhere in value v placed at a location of type t?  Variables are
\* followed into their runtime value or default.
RECURSIVE Somewhere(_, _, _, _)
Somewhere(C, P, t, v) ==
  IF v.k = "var" THEN
     IF ~HasName(C.vdefs, v.name) THEN FALSE
     ELSE IF Supplied(C, v.name) THEN Somewhere(C, P, t, SuppliedVal(C, v.name))
     ELSE IF ByName(C.vdefs, v.name).hasDefault THEN Somewhere(C, P, t, ByName(C.vdefs, v.name).default)
     ELSE FALSE
  ELSE IF v.k = "null" THEN FALSE
  ELSE IF t.k = "nn" THEN Somewhere(C, P, t.of, v)
  ELSE IF t.k = "list" THEN
     IF v.k = "list" THEN \E i \in 1..Len(v.items) : Somewhere(C, P, t.of, v.items[i])
     ELSE P = "single" \/ Somewhere(C, P, t.of, v)
  ELSE IF IsInput(C.S, t.n) THEN
     IF v.k # "obj" THEN P = "nonobj"
     ELSE LET def == C.S.inputs[t.n] IN
          \/ P = "nodefault" /\ \E j \in 1..Len(def.fields) : def.fields[j].hasDefault
                                   /\ (HasKey(v.entries, def.fields[j].name) =>
                                         LET x == Get(v.entries, def.fields[j].name) IN
                                         x.k = "var" /\ ~Supplied(C, x.name) /\ HasName(C.vdefs, x.name) /\ ~ByName(C.vdefs, x.name).hasDefault)
          \/ \E i \in 1..Len(v.entries) : HasName(def.fields, v.entries[i].key)
                                          /\ Somewhere(C, P, ByName(def.fields, v.entries[i].key).ty, v.entries[i].val)
  ELSE IF IsEnum(C.S, t.n) THEN P = "enumstr" /\ v.k = "str" /\ IsMember(C.S, t.n, v.v)
  ELSE FALSE
AnyArg(C, P, fdef, args) ==
  \E i \in 1..Len(args) : HasName(fdef.args, args[i].name) /\ Somewhere(C, P, ByName(fdef.args, args[i].name).ty, args[i].val)

Trigger(C, d, fdef, args) ==
  CASE d = "DevVarUsageUnchecked" -> BadUsages(C, fdef, args) # {}
    [] d = "DevVarTypeIgnored" -> BadUsages(C, fdef, args) # {} \/ ~CoerceVariableValues([C EXCEPT !.dev = {}]).ok
    [] d = "DevArgDefaultLostOnOmittedVar" ->
         /\ C.flavour = "static"
         /\ \E i \in 1..Len(args) : /\ args[i].val.k = "var" /\ HasName(fdef.args, args[i].name) /\ ByName(fdef.args, args[i].name).hasDefault
                                    /\ HasName(C.vdefs, args[i].val.name)
                                    /\ ~Supplied(C, args[i].val.name) /\ ~ByName(C.vdefs, args[i].val.name).hasDefault
    [] d = "DevOmittedVarSkipsArgValidation" -> \E i \in 1..Len(args) : HasUnsuppliedVar(C, args[i].val)
    [] d = "DevEnumStringLiteral" -> \* a string literal (in the document, not in the variables) at an enum position
         \/ \E i \in 1..Len(args) : HasName(fdef.args, args[i].name)
               /\ Somewhere([C EXCEPT !.supplied = <<>>], "enumstr", ByName(fdef.args, args[i].name).ty, args[i].val)
         \/ \E i \in 1..Len(C.vdefs) : C.vdefs[i].hasDefault /\ Somewhere(C, "enumstr", C.vdefs[i].ty, C.vdefs[i].default)
    [] d = "DevNonObjectForInputObject" -> \* validation lets it pass everywhere; only a dynamic resolver or an unused variable default shows it
         \/ C.flavour = "dynamic" /\ AnyArg(C, "nonobj", fdef, args)
         \/ \E i \in 1..Len(C.vdefs) : C.vdefs[i].hasDefault /\ Somewhere(C, "nonobj", C.vdefs[i].ty, C.vdefs[i].default)
    [] d = "DevDynNoListCoercion" -> C.flavour = "dynamic" /\ AnyArg(C, "single", fdef, args)
    [] d = "DevDynNoFieldDefaults" -> C.flavour = "dynamic" /\ AnyArg(C, "nodefault", fdef, args)
    [] OTHER -> FALSE
=============================================================================
