CONSTANT MaxN = 40
CONSTANT MaxFan = 0
CONSTANT EqN = 0
INIT Init
NEXT Next
INVARIANT RefusedCheap
INVARIANT CyclePoly
INVARIANT FibIdealPoly
INVARIANT NoGuardIsPaths
