---------------------------- MODULE Introspection ----------------------------
(***************************************************************************)
(* Introspection (GraphQL spec section 4) as a projection of the type      *)
(* system, and the consistency requirements of property C18.               *)
(*   ts    : type system (schemas/vis.json format: every element carries   *)
(*           visibleIf = "" or the name of a request flag)                 *)
(*   flags : the set of request flags that are TRUE                        *)
(*   dump  : what the standard introspection query returned, abstracted    *)
(***************************************************************************)
EXTENDS Naturals, Sequences, FiniteSets, TLC

Builtin == {"Int", "Float", "String", "Boolean", "ID"}
RECURSIVE Named(_)
Named(ty) == IF ty.k = "named" THEN ty.n ELSE Named(ty.of)
\* 4.? wrapper chains: NON_NULL never directly wraps NON_NULL
RECURSIVE WellWrapped(_)
WellWrapped(ty) == IF ty.k = "named" THEN TRUE ELSE (ty.k = "nn" => ty.of.k # "nn") /\ WellWrapped(ty.of)
Range(s) == {s[i] : i \in 1..Len(s)}

On(v, flags) == v = "" \/ v \in flags
TypeNames(ts) == DOMAIN ts.types
Def(ts, t) == ts.types[t]
VisFields(ts, t, flags) == {f \in Range(Def(ts, t).fields) : On(f.visibleIf, flags)}
VisArgs(f, flags) == {a \in Range(f.args) : On(a.visibleIf, flags)}
VisInputs(ts, t, flags) == {a \in Range(Def(ts, t).inputFields) : On(a.visibleIf, flags)}
VisValues(ts, t, flags) == {v.name : v \in {x \in Range(Def(ts, t).values) : On(x.visibleIf, flags)}}
Implementors(ts, i) == {o \in TypeNames(ts) : Def(ts, o).kind = "OBJECT" /\ i \in Range(Def(ts, o).implements)}

\* types referenced directly from a visible type (through visible fields / arguments / members / implementors)
Refs(ts, t, flags) ==
  LET d == Def(ts, t) IN
  (UNION {{Named(f.ty)} \cup {Named(a.ty) : a \in VisArgs(f, flags)} : f \in VisFields(ts, t, flags)})
  \cup {Named(a.ty) : a \in VisInputs(ts, t, flags)}
  \cup (IF d.kind = "UNION" THEN Range(d.members) ELSE {})
  \cup (IF d.kind = "INTERFACE" THEN Implementors(ts, t) ELSE {})
OwnVisible(ts, t, flags) == t \in TypeNames(ts) /\ On(Def(ts, t).visibleIf, flags)
\* reachability from the roots through visible elements (registry find_visible_types), then interfaces that are
\* themselves visible and have a visible implementor
RECURSIVE Reach(_, _, _, _)
Reach(ts, flags, seen, frontier) ==
  IF frontier = {} THEN seen
  ELSE LET new == {u \in UNION {Refs(ts, t, flags) : t \in frontier} : OwnVisible(ts, u, flags)} \ seen
       IN Reach(ts, flags, seen \cup new, new)
Roots(ts) == {r \in {ts.query, ts.mutation, ts.subscription} : r # ""}
RECURSIVE AddInterfaces(_, _, _)
AddInterfaces(ts, flags, seen) ==
  LET extra == {i \in TypeNames(ts) : Def(ts, i).kind = "INTERFACE" /\ OwnVisible(ts, i, flags) /\ i \notin seen
                                       /\ Implementors(ts, i) \cap seen # {}}
  IN IF extra = {} THEN seen ELSE AddInterfaces(ts, flags, Reach(ts, flags, seen \cup extra, extra))
VisibleTypes(ts, flags) ==
  LET r == {x \in Roots(ts) : OwnVisible(ts, x, flags)} IN AddInterfaces(ts, flags, Reach(ts, flags, r, r))

----------------------------------------------------------------------------
(* the dump *)
DTypes(d) == Range(d.types)
DNames(d) == {t.name : t \in DTypes(d)}
DType(d, n) == CHOOSE t \in DTypes(d) : t.name = n
UserTypes(d) == {t \in DTypes(d) : t.name \notin Builtin /\ t.name \notin {"__Schema", "__Type", "__Field", "__InputValue", "__EnumValue", "__Directive", "__DirectiveLocation", "__TypeKind"}}
AllRefs(t) == (UNION {{Named(f.ty)} \cup {Named(a.ty) : a \in Range(f.args)} : f \in Range(t.fields)})
              \cup {Named(a.ty) : a \in Range(t.inputFields)} \cup Range(t.interfaces) \cup Range(t.possibleTypes)

\* C18: "every referenced type is listed, wrapper chains match, possible types are exactly implementors/members"
\* tolerated: names that may dangle (empty for the property; the own-hidden types for the known deviation)
SelfConsistentModulo(d, tolerated) ==
  /\ \A t \in DTypes(d) : AllRefs(t) \subseteq DNames(d) \cup tolerated
  /\ \A r \in {d.queryType, d.mutationType, d.subscriptionType} : r = "" \/ (r \in DNames(d) /\ DType(d, r).kind = "OBJECT")
  /\ d.queryType # ""
  /\ \A t \in DTypes(d) : \A f \in Range(t.fields) : WellWrapped(f.ty) /\ \A a \in Range(f.args) : WellWrapped(a.ty)
  /\ \A t \in DTypes(d) : Cardinality({x.name : x \in DTypes(d)}) = Cardinality(DTypes(d))           \* names unique
  /\ \A t \in DTypes(d) :
       /\ (t.kind = "INTERFACE" => Range(t.possibleTypes) = {o.name : o \in {x \in DTypes(d) : x.kind = "OBJECT" /\ t.name \in Range(x.interfaces)}})
       /\ (t.kind = "UNION" => \A m \in Range(t.possibleTypes) : DType(d, m).kind = "OBJECT")
       /\ (t.kind = "OBJECT" => \A i \in Range(t.interfaces) :
             /\ DType(d, i).kind = "INTERFACE"
             /\ {f.name : f \in Range(DType(d, i).fields)} \subseteq {f.name : f \in Range(t.fields)})
       /\ (t.kind \in {"OBJECT", "INTERFACE"} => Len(t.fields) > 0)

SelfConsistent(d) == SelfConsistentModulo(d, {})

\* the dump describes exactly the visible part of ts
FieldImage(f, flags) == [name |-> f.name, ty |-> f.ty, args |-> {[name |-> a.name, ty |-> a.ty] : a \in VisArgs(f, flags)}]
DFieldImage(f) == [name |-> f.name, ty |-> f.ty, args |-> {[name |-> a.name, ty |-> a.ty] : a \in Range(f.args)}]
\* dangling = TRUE models the known deviation: a visible field / argument whose type is hidden by the type's own
\* predicate is still listed (with a reference to a type that is not listed)
TypeMatches(ts, flags, vis, dt, dangling) ==
  LET d == Def(ts, dt.name) IN
  /\ dt.kind = d.kind
  /\ {DFieldImage(f) : f \in Range(dt.fields)} = {FieldImage(f, flags) : f \in {g \in VisFields(ts, dt.name, flags) : dangling \/ Named(g.ty) \in vis \cup Builtin}}
  /\ {[name |-> a.name, ty |-> a.ty] : a \in Range(dt.inputFields)} = {[name |-> a.name, ty |-> a.ty] : a \in VisInputs(ts, dt.name, flags)}
  /\ Range(dt.enumValues) = VisValues(ts, dt.name, flags)
  /\ (d.kind = "OBJECT" => Range(dt.interfaces) = Range(d.implements) \cap vis)
  /\ (d.kind = "UNION" => Range(dt.possibleTypes) = Range(d.members) \cap vis)
  /\ (d.kind = "INTERFACE" => Range(dt.possibleTypes) = Implementors(ts, dt.name) \cap vis)
OwnHidden(ts, flags) == {t \in TypeNames(ts) : ~On(Def(ts, t).visibleIf, flags)}
MatchesSchema(ts, flags, d, dangling) ==
  LET vis == VisibleTypes(ts, flags) IN
  /\ {t.name : t \in UserTypes(d)} = vis
  /\ \A t \in UserTypes(d) : t.name \in vis => TypeMatches(ts, flags, vis, t, dangling)
  /\ d.queryType = ts.query /\ d.mutationType = ts.mutation /\ d.subscriptionType = ts.subscription
\* nothing whose own predicate is false appears anywhere (the "never appear" clause, independent of reachability)
NothingHiddenAppears(ts, flags, d) ==
  \A t \in UserTypes(d) :
    /\ t.name \in TypeNames(ts) /\ On(Def(ts, t.name).visibleIf, flags)
    /\ \A f \in Range(t.fields) : \E g \in VisFields(ts, t.name, flags) : g.name = f.name /\ \A a \in Range(f.args) : \E b \in VisArgs(g, flags) : b.name = a.name
    /\ \A a \in Range(t.inputFields) : \E b \in VisInputs(ts, t.name, flags) : b.name = a.name
    /\ Range(t.enumValues) \subseteq VisValues(ts, t.name, flags)
=============================================================================
