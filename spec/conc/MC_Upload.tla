----------------------------- MODULE MC_Upload -----------------------------
(* The bounded case domain of Upload.tla for modes M (MC_Upload.cfg: the     *)
(* streaming reader conforms to the declarative reference for every case and *)
(* every part order; MC_UploadDev.cfg: negative control) and G (INVARIANT     *)
(* Emit prints every case once).                                              *)
EXTENDS Upload, TLC, Json

CONSTANTS L,          \* the configured maximum file size used in the domain
          MaxNames,   \* binding family: at most this many file fields in the map (<= 3)
          MaxLim,     \* limits family: at most this many files (<= 3)
          AllOrders   \* TRUE: every permutation of the parts; FALSE: rotations of the canonical and the reversed order

Name(j) == <<"0", "1", "2">>[j]
\* the operations shapes, with value v at every file position (v = null is the customary placeholder; the
\* placeholder family puts other JSON values there: the file replaces whatever stands at a mapped path)
ScenV(v) == <<
  [kind |-> "single", reqs |-> <<JObj(<<Mem("file", v)>>)>>,
   slots |-> << <<"variables", "file">> >>],
  [kind |-> "single", reqs |-> <<JObj(<<Mem("a", v), Mem("keep", JStr("PLAIN")), Mem("b", v)>>)>>,
   slots |-> << <<"variables", "a">>, <<"variables", "b">> >>],
  [kind |-> "single", reqs |-> <<JObj(<<Mem("files", JList(<<v, v>>)), Mem("meta", JObj(<<Mem("doc", v), Mem("n", JInt(1))>>))>>)>>,
   slots |-> << <<"variables", "files", "0">>, <<"variables", "files", "1">>, <<"variables", "meta", "doc">> >>],
  [kind |-> "batch", reqs |-> <<JObj(<<Mem("x", v)>>), JObj(<<Mem("x", v), Mem("y", v), Mem("keep", JStr("QUOTE"))>>)>>,
   slots |-> << <<"0", "variables", "x">>, <<"1", "variables", "x">>, <<"1", "variables", "y">> >>] >>
Scen == ScenV(JNull)

OpsOf(s) == [kind |-> Scen[s].kind, reqs |-> Scen[s].reqs]
OpsV(s, v) == [kind |-> ScenV(v)[s].kind, reqs |-> ScenV(v)[s].reqs]
RECURSIVE SeqOfSet(_)        \* a set of numbers as an increasing sequence
SeqOfSet(T) == IF T = {} THEN <<>> ELSE LET m == CHOOSE x \in T : \A y \in T : x <= y IN <<m>> \o SeqOfSet(T \ {m})
\* owner[slot] \in 0..k : which file field (0 = none) a slot is mapped to; entry j lists the slots owned by j
EntriesOf(s, k, owner) ==
  [j \in 1..k |-> [name |-> Name(j),
                   paths |-> LET idx == SeqOfSet({q \in 1..Len(Scen[s].slots) : owner[q] = j}) IN [i \in 1..Len(idx) |-> Scen[s].slots[idx[i]]]]]
MapOf(entries) == [kind |-> "ok", entries |-> entries]
OpsPart == [t |-> "ops", name |-> "", size |-> 0]
MapPart == [t |-> "map", name |-> "", size |-> 0]
FilePart(nm, sz) == [t |-> "file", name |-> nm, size |-> sz]
NoOpts == [maxSize |-> 0, maxFiles |-> 0]
Case(fam, ops, map, body, opts) == [fam |-> fam, ops |-> ops, map |-> map, body |-> body, opts |-> opts]

Rev(s) == [i \in 1..Len(s) |-> s[Len(s) + 1 - i]]
Rot(s, r) == [i \in 1..Len(s) |-> s[((i + r - 1) % Len(s)) + 1]]
Orders(P) == IF AllOrders THEN {[i \in 1..Len(P) |-> P[pi[i]]] : pi \in Permutations(1..Len(P))}
             ELSE {Rot(P, r) : r \in 0..(Len(P) - 1)} \cup {Rot(Rev(P), r) : r \in 0..(Len(P) - 1)}
TwoOrders(P) == {P, Rev(P)}
Rots(P) == {Rot(P, r) : r \in 0..(Len(P) - 1)} \cup {Rot(Rev(P), r) : r \in 0..(Len(P) - 1)}

\* binding family: every assignment of slots to <= MaxNames file fields, all files present, no limits, every order
FamBind ==
  UNION { UNION { UNION {
      { Case("bind", OpsOf(s), MapOf(EntriesOf(s, k, owner)), body, NoOpts) :
          body \in Orders(<<OpsPart, MapPart>> \o [j \in 1..k |-> FilePart(Name(j), j)]) }
    : owner \in [1..Len(Scen[s].slots) -> 0..k] } : k \in 0..MaxNames } : s \in 1..Len(Scen) }

\* presence family: mapped files missing from the body, files in the body that the map does not mention
FamPresence ==
  UNION { UNION { UNION { UNION {
      { Case("presence", OpsOf(s), MapOf(EntriesOf(s, k, owner)), body, NoOpts) :
          body \in TwoOrders(<<OpsPart, MapPart>> \o SeqOfFiles) }
    : SeqOfFiles \in { [i \in 1..Len(idx) |-> IF idx[i] = 9 THEN FilePart("9", 3) ELSE FilePart(Name(idx[i]), idx[i])] :
                        idx \in { SeqOfSet(pres \cup ex) : pres \in SUBSET (1..k), ex \in {{}, {9}} } } }
    : owner \in [1..Len(Scen[s].slots) -> 0..k] } : k \in 1..2 } : s \in {2, 4} }

\* limits family: m files, file j bound to slot j, sizes around L, every combination of the two limits,
\* optionally one more file that the map does not mention
SizeSet == {1, L - 1, L, L + 1}
LimOpts == [maxSize : {0, L}, maxFiles : {0, 1, 2}]
Spread(s, m) == [q \in 1..Len(Scen[s].slots) |-> IF q <= m THEN q ELSE 0]
FamLimits ==
  UNION { UNION { UNION { UNION {
      { Case("limits", OpsOf(s), MapOf(EntriesOf(s, m, Spread(s, m))), body, o) :
          body \in { <<OpsPart, MapPart>> \o fs \o ex, fs \o ex \o <<MapPart, OpsPart>> } }
    : ex \in { <<>>, <<FilePart("9", 1)>>, <<FilePart("9", L + 1)>> } }
    : fs \in { [j \in 1..m |-> FilePart(Name(j), sz[j])] : sz \in [1..m -> SizeSet] } }
    : o \in LimOpts } : <<s, m>> \in {3, 4} \X (0..MaxLim) }

\* extra family: unmapped file parts around the count limit.  m mapped files (file j bound to slot j) and x file
\* parts that the map does not mention, so that the mapped files alone are within max_num_files while all file
\* parts are at / above it (and below it); the extras stand after the mapped files, before them, between
\* operations and map, and in every rotation of these orders and their reversals.
ExtraParts(x) == [i \in 1..x |-> FilePart(<<"8", "9">>[i], i)]
FamExtra ==
  UNION { UNION { UNION {
      { Case("extra", OpsOf(s), MapOf(EntriesOf(s, m, Spread(s, m))), body, o) :
          body \in LET fs == [j \in 1..m |-> FilePart(Name(j), j)] IN
                   Rots(<<OpsPart, MapPart>> \o fs \o ExtraParts(x)) \cup Rots(<<OpsPart>> \o ExtraParts(x) \o <<MapPart>> \o fs) }
    : o \in [maxSize : {0, L}, maxFiles : {1, 2}] } : x \in 1..2 } : <<s, m>> \in {3, 4} \X (0..2) }

\* placeholder family: a non-null JSON value at every file position (mapped or not); every assignment of the
\* slots to min(2, #slots) file fields (unmapped slots must keep their value), all files present, two orders;
\* plus operations whose slots hold different values
PHSet == { JStr("EMPTY"), JStr("PLAIN"), JInt(0), JFalse, JObj(<<>>), JList(<<>>), JObj(<<Mem("k", JNull)>>), JList(<<JNull>>) }
Min2(n) == IF n < 2 THEN n ELSE 2
MixedOps == [kind |-> "batch",
             reqs |-> <<JObj(<<Mem("x", JStr("EMPTY"))>>), JObj(<<Mem("x", JInt(0)), Mem("y", JObj(<<>>)), Mem("keep", JStr("QUOTE"))>>)>>]
FamPlaceholder ==
  UNION { UNION {
      { Case("placeholder", OpsV(s, v), MapOf(EntriesOf(s, Min2(Len(Scen[s].slots)), owner)), body, NoOpts) :
          body \in TwoOrders(<<OpsPart, MapPart>> \o [j \in 1..Min2(Len(Scen[s].slots)) |-> FilePart(Name(j), j)]) }
    : owner \in [1..Len(Scen[s].slots) -> 0..Min2(Len(Scen[s].slots))] } : <<s, v>> \in (1..Len(Scen)) \X PHSet }
  \cup UNION {
      { Case("placeholder", MixedOps, MapOf(EntriesOf(4, 2, owner)), body, NoOpts) :
          body \in TwoOrders(<<OpsPart, MapPart, FilePart(Name(1), 1), FilePart(Name(2), 2)>>) }
    : owner \in [1..3 -> 0..2] }

\* duplicate family: the same file field name in two or three file parts (different sizes), alone and combined
\* with entries whose file is missing.  Entry j is bound to slot j; mult[j] = number of parts named Name(j).
RECURSIVE DupFrom(_, _, _)
DupFrom(k, mult, j) == IF j > k THEN <<>> ELSE [t \in 1..mult[j] |-> FilePart(Name(j), 10 * j + t)] \o DupFrom(k, mult, j + 1)
DupParts(k, mult) == DupFrom(k, mult, 1)
FamDup ==
  UNION { UNION {
      { Case("dup", OpsOf(s), MapOf(EntriesOf(s, Len(Scen[s].slots), [q \in 1..Len(Scen[s].slots) |-> q])), body, NoOpts) :
          body \in IF s = 2 THEN Rots(<<OpsPart, MapPart>> \o DupParts(Len(Scen[s].slots), mult) \o ex)
                   ELSE TwoOrders(<<OpsPart, MapPart>> \o DupParts(Len(Scen[s].slots), mult) \o ex) }
    : mult \in {m \in [1..Len(Scen[s].slots) -> 0..3] : (\E j \in DOMAIN m : m[j] >= 2) /\ (\A j \in DOMAIN m : m[j] = 3 => j = 1)},
      ex \in IF s = 2 THEN {<<>>, <<FilePart("9", 7), FilePart("9", 8)>>} ELSE {<<>>} } : s \in {2, 3, 4} }

\* structure family: parts missing, map not JSON
StructBase == Case("struct", OpsOf(2), MapOf(EntriesOf(2, 1, <<1, 1>>)), <<OpsPart, MapPart, FilePart("0", 5)>>, NoOpts)
Without(body, t) == SelectSeq(body, LAMBDA p : p.t # t)
FamStruct ==
  UNION { { [StructBase EXCEPT !.body = b], [StructBase EXCEPT !.body = Rev(b)] } :
            b \in { Without(StructBase.body, "ops"), Without(StructBase.body, "map"),
                    Without(Without(StructBase.body, "ops"), "map"), Without(StructBase.body, "file"), <<>> } }
  \cup { [StructBase EXCEPT !.map = [kind |-> "broken", entries |-> <<>>]],
         [StructBase EXCEPT !.map = [kind |-> "broken", entries |-> <<>>], !.body = Rev(StructBase.body)] }

\* paths that do not exist in operations (together with one that does)
BadPathsSingle == { <<"variables", "nope">>, <<"vars", "a">>, <<"variables">>, <<"a">>, <<"0", "variables", "a">>,
                    <<"variables", "keep", "z">>, <<"variables", "a", "0">> }
BadPathsBatch  == { <<"5", "variables", "x">>, <<"variables", "x">>, <<"0", "variables", "y">>, <<"0", "vars", "x">>, <<"x", "variables", "x">>, <<"1">> }
FamBadPath ==
  { Case("badpath", OpsOf(2), MapOf(<<[name |-> "0", paths |-> <<<<"variables", "a">>, p>>]>>), <<OpsPart, MapPart, FilePart("0", 4)>>, NoOpts) : p \in BadPathsSingle }
  \cup { Case("badpath", OpsOf(3), MapOf(<<[name |-> "0", paths |-> <<<<"variables", "files", "7">>, <<"variables", "files", "1">>>>]>>), <<OpsPart, MapPart, FilePart("0", 4)>>, NoOpts) }
  \cup { Case("badpath", OpsOf(4), MapOf(<<[name |-> "0", paths |-> <<p, <<"1", "variables", "y">>>>]>>), <<OpsPart, MapPart, FilePart("0", 4)>>, NoOpts) : p \in BadPathsBatch }

AllCases == FamBind \cup FamPresence \cup FamLimits \cup FamExtra \cup FamPlaceholder \cup FamDup \cup FamStruct \cup FamBadPath

UInit == \E c \in AllCases : UInitFor(c)
USpec    == UInit /\ [][UNext]_uvars /\ WF_uvars(UNext)
USpecDev == UInit /\ [][UNextDev]_uvars

\* mode G: one REPLAY line per case (initial states)
Emit == pos = 1 /\ status = "reading" => PrintT(<<"REPLAY", ToJson(cs)>>)

\* laws of the reference on the domain (checked once by TLC)
\* the outcome class does not depend on the order of the parts
OrderFree == \A c \in FamStruct \cup FamBadPath : \A b \in TwoOrders(c.body) :
                LET d == [c EXCEPT !.body = b] IN Causes(d) = Causes(c) /\ Optional(d) = Optional(c) /\ Bound(d) = Bound(c)
\* binding touches exactly the mapped slots: every slot owned by a present file holds that file, every other slot is still null
ASSUME OrderFree
\* a duplicate part name never stands in for a missing one: a dup case is accepted iff every entry name occurs
DupLaw == \A c \in FamDup : (Causes(c) = {}) <=> (\A e \in 1..Len(c.map.entries) : HasFile(c.body, c.map.entries[e].name))
ASSUME DupLaw
=============================================================================
