-------------------------- MODULE HttpDecodeTrace --------------------------
(* Mode V for C23.                                                          *)
(*  Decode cases (TInit/TNext): the harness rendered case.wire to bytes and *)
(*    called every applicable decoding entry point of the library; each     *)
(*    recorded outcome is judged against the reference decoder Decode(wire) *)
(*    (or a named deviation inside its trigger class).                      *)
(*  Exec traces (XInit/XNext): the decoded batch was executed through       *)
(*    execute_batch with gated resolvers following the TLC-chosen schedule; *)
(*    the verdict is a fold of the property monitor over the events; the    *)
(*    batch machine's own prediction pending/ready is reported as drift.    *)
EXTENDS HttpDecode, Json, IOUtils

Cases == ndJsonDeserialize(IOEnv.TRACE)
CONSTANT Chunk
VARIABLE l

\* ---- decode cases -------------------------------------------------------------
\* c.obs: sequence of [api, out]; out = [k |-> "ok"|"error"|"panic", shape, reqs]
Verdicts(c) == {Judge(c.wire, c.obs[i].out) : i \in 1..Len(c.obs)}
Verdict(c) ==
  LET vs == Verdicts(c) IN
  IF Len(c.obs) = 0 THEN "violation"
  ELSE IF vs = {"ok"} THEN "ok"
  ELSE IF "violation" \in vs THEN "violation"
  ELSE IF Cardinality(vs \ {"ok"}) = 1 THEN CHOOSE v \in vs \ {"ok"} : TRUE
  ELSE "violation"
\* what the reference expects, for the evidence / replay files
Expect(c) == Decode(c.wire).k

TInit == BInit /\ l \in {i \in 1..Len(Cases) : i % Chunk = 1 \/ Chunk = 1}
TNext == /\ l <= Len(Cases)
         /\ PrintT(<<"VERDICT", Cases[l].id, Verdict(Cases[l]), Expect(Cases[l])>>)
         /\ l % Chunk # 0
         /\ l' = l + 1 /\ UNCHANGED bvars

\* ---- exec traces ----------------------------------------------------------------
\* t.decoded: outcome of decoding t.wire;  t.events: sequence of
\*   [ev |-> "open", i] | [ev |-> "poll", got |-> "pending" | "ready", shape, resps]
\* resps[i] = [errors |-> number of errors, data |-> J]
\* The document QDOC is  query Q($m: Int!, $s: String) { mark(m: $m) echo(s: $s) } ; mark waits for gate $m
\* and returns $m, echo returns $s: the response of a request is determined by its variables.
ExpectedData(r) == JObj(<<Mem("mark", Get(r.vars, "m")), Mem("echo", Get(r.vars, "s"))>>)

\* monitor state: [opened, ready, bad]
XStep(s, e, k, want) ==
  IF s.bad # 0 THEN s
  ELSE IF s.ready THEN [s EXCEPT !.bad = k]                       \* nothing may follow the response
  ELSE IF e.ev = "open" THEN [s EXCEPT !.opened = s.opened \cup {e.i}]
  ELSE IF e.ev = "poll" /\ e.got = "pending" THEN s
  ELSE IF e.ev = "poll" /\ e.got = "ready" THEN
         IF /\ e.shape = want.shape
            /\ Len(e.resps) = Len(want.reqs)
            /\ s.opened = 1..Len(want.reqs)                       \* no response before its resolver ran
            /\ \A i \in 1..Len(want.reqs) :
                  e.resps[i].errors = 0 /\ JEq(ExpectedData(want.reqs[i]), e.resps[i].data)
         THEN [s EXCEPT !.ready = TRUE] ELSE [s EXCEPT !.bad = k]
  ELSE [s EXCEPT !.bad = k]
RECURSIVE XRun(_, _, _, _)
XRun(s, evs, k, want) == IF k > Len(evs) THEN s ELSE XRun(XStep(s, evs[k], k, want), evs, k + 1, want)
XVerdict(t) ==
  LET dv == Judge(t.wire, t.decoded)
      want == Decode(t.wire)
  IN IF dv = "violation" \/ want.k # "ok" THEN "violation"
     ELSE LET s == XRun([opened |-> {}, ready |-> FALSE, bad |-> 0], t.events, 1, want) IN
          IF s.bad # 0 \/ ~s.ready THEN "violation" ELSE dv
XBadAt(t) == IF Decode(t.wire).k # "ok" THEN 0
             ELSE XRun([opened |-> {}, ready |-> FALSE, bad |-> 0], t.events, 1, Decode(t.wire)).bad

\* drift: the batch machine predicts, for every poll, pending or ready
RECURSIVE DRun(_, _, _, _)
DRun(g, evs, k, nn) ==
  IF k > Len(evs) THEN 0
  ELSE LET e == evs[k] IN
       IF e.ev = "open" THEN DRun(g \cup {e.i}, evs, k + 1, nn)
       ELSE IF (e.got = "ready") = PollReady(g, nn) THEN DRun(g, evs, k + 1, nn) ELSE k
Drift(t) == DRun({}, t.events, 1, t.n)

XInit == BInit /\ l = 1
XNext == /\ l <= Len(Cases)
         /\ PrintT(<<"VERDICT", Cases[l].id, XVerdict(Cases[l]), XBadAt(Cases[l]), Drift(Cases[l])>>)
         /\ l' = l + 1 /\ UNCHANGED bvars
=============================================================================
